/-
The distributed step iterated over a run equals the delegated strategy (C14, run level).

* `stepGc_shape`: without stationary batteries a connector's treatment is either nothing (no connected vehicle) or
  the sub-strategy's step on the virtual world, written back by id.
* `ruleStep_embed` (Proofs/StratDistributedRunEmbed.lean): the greedy / balanced step on the virtual world is the step
  on the connector's part of the world (idle stations, unconnected vehicles included).
* `step_proj`: one `Distributed.step`, seen at connector `σ.g`, is one step of the stand-alone strategy on the part
  `part σ w` of the world; `runD_proj`: by induction over the steps of a run.
-/
import SpiceEv.Proofs.StratDistributedRunEmbed
import SpiceEv.Proofs.StratDistributedRunNonneg
set_option linter.unusedSectionVars false
set_option linter.unusedVariables false
set_option linter.unusedSimpArgs false
namespace SpiceEv.DistRun
open SpiceEv SpiceEv.Distrib SpiceEv.Frame
variable {α B : Type} [Field α] [LinearOrder α] [IsStrictOrderedRing α]

/-! ### small facts -/

theorem resetStations_idem (w : SWorld α B) : resetStations (resetStations w) = resetStations w := by
  unfold resetStations
  simp [List.map_map, Function.comp_def]

/-- the step resets the station powers itself -/
theorem ruleStep_reset (rule : Rule) (ops : BatOps α B) (env : StratEnv α) (w : SWorld α B) :
    ruleStep rule ops env (resetStations w) = ruleStep rule ops env w := by
  unfold ruleStep
  rw [resetStations_idem]
  rfl

/-- replacing by id, one after the other, is a lookup (ids of the replacements distinct) -/
theorem foldl_replace_eq {β : Type} (key : β → String) (c : β → Bool) (l : List β)
    (hN : (l.map key).Nodup) (hc : ∀ s ∈ l, c s = true) (xs : List β) :
    l.foldl (fun (xs : List β) s => if c s then xs.map (fun x => if key x == key s then s else x) else xs) xs
      = xs.map (fun x => (l.find? (fun s => key s == key x)).getD x) := by
  induction l generalizing xs with
  | nil => simp
  | cons s l ih =>
    have hN' : key s ∉ l.map key ∧ (l.map key).Nodup := by
      rw [List.map_cons] at hN
      exact List.nodup_cons.mp hN
    simp only [List.foldl_cons, hc s (by simp), if_true]
    rw [ih hN'.2 (fun y hy => hc y (by simp [hy])), List.map_map]
    apply List.map_congr_left
    intro x _
    have hnot : l.find? (fun t => key t == key s) = none := by
      rw [List.find?_eq_none]
      intro y hy hk
      apply hN'.1
      simp only [List.mem_map]
      exact ⟨y, hy, by simpa using hk⟩
    simp only [Function.comp, List.find?_cons]
    by_cases hx : key x = key s
    · have h1 : (key x == key s) = true := by simp [hx]
      have h2 : (key s == key x) = true := by simp [hx]
      rw [if_pos h1, h2, hnot]
      rfl
    · have h1 : ¬ (key x == key s) = true := by simpa using hx
      have h2 : (key s == key x) = false := by simpa using fun h => hx h.symm
      rw [if_neg h1, h2]

theorem foldl_setStation_world (c : StationS α → Bool) (l : List (StationS α)) (w : SWorld α B) :
    l.foldl (fun (w : SWorld α B) s => if c s then w.setStation s else w) w
      = { w with stations := l.foldl (fun (xs : List (StationS α)) s =>
            if c s then xs.map (fun x => if x.id == s.id then s else x) else xs) w.stations } := by
  induction l generalizing w with
  | nil => rfl
  | cons s l ih =>
    simp only [List.foldl_cons]
    rw [ih]
    by_cases h : c s = true
    · simp only [h, if_true]; rfl
    · simp only [h, if_false]; rfl

theorem foldl_setVehicle_world (c : VehicleS α B → Bool) (l : List (VehicleS α B)) (w : SWorld α B) :
    l.foldl (fun (w : SWorld α B) v => if c v then w.setVehicle v else w) w
      = { w with vehicles := l.foldl (fun (xs : List (VehicleS α B)) s =>
            if c s then xs.map (fun x => if x.id == s.id then s else x) else xs) w.vehicles } := by
  induction l generalizing w with
  | nil => rfl
  | cons s l ih =>
    simp only [List.foldl_cons]
    rw [ih]
    by_cases h : c s = true
    · simp only [h, if_true]; rfl
    · simp only [h, if_false]; rfl

/-- the write-back of a sub-world whose stations and vehicles are all named, with distinct ids, is the overlay -/
theorem writeBack_eq_overlay (w sub : SWorld α B)
    (hsN : (sub.stations.map (·.id)).Nodup) (hvN : (sub.vehicles.map (·.id)).Nodup) :
    writeBack w sub (sub.stations.map (·.id)) (sub.vehicles.map (·.id))
      = { overlay w sub with gcs := w.gcs } := by
  unfold writeBack
  simp only
  rw [foldl_setStation_world, foldl_setVehicle_world]
  rw [foldl_replace_eq (fun (s : StationS α) => s.id) _ sub.stations hsN
      (fun s hs => by simp only [List.contains_eq_mem, List.mem_map, decide_eq_true_eq]; exact ⟨s, hs, rfl⟩),
    foldl_replace_eq (fun (v : VehicleS α B) => v.id) _ sub.vehicles hvN
      (fun s hs => by simp only [List.contains_eq_mem, List.mem_map, decide_eq_true_eq]; exact ⟨s, hs, rfl⟩)]
  rfl

/-- `part` commutes with the write-back -/
theorem part_writeBack (σ : Sel) (w sub : SWorld α B) (a b : List String) :
    part σ (writeBack w sub a b) = writeBack (part σ w) sub a b := by
  unfold writeBack
  simp only
  have h1 : ∀ (l : List (StationS α)) (w : SWorld α B),
      part σ (l.foldl (fun (w : SWorld α B) s => if a.contains s.id then w.setStation s else w) w)
        = l.foldl (fun (w : SWorld α B) s => if a.contains s.id then w.setStation s else w) (part σ w) := by
    intro l
    induction l with
    | nil => intro w; rfl
    | cons s l ih =>
      intro w
      simp only [List.foldl_cons]
      rw [ih]
      split
      · rw [part_setStation]
      · rfl
  have h2 : ∀ (l : List (VehicleS α B)) (w : SWorld α B),
      part σ (l.foldl (fun (w : SWorld α B) s => if b.contains s.id then w.setVehicle s else w) w)
        = l.foldl (fun (w : SWorld α B) s => if b.contains s.id then w.setVehicle s else w) (part σ w) := by
    intro l
    induction l with
    | nil => intro w; rfl
    | cons s l ih =>
      intro w
      simp only [List.foldl_cons]
      rw [ih]
      split
      · rw [part_setVehicle]
      · rfl
  rw [h2, h1]

/-- writing back objects that are not selected leaves the part alone -/
theorem part_writeBack_out (σ : Sel) (w sub : SWorld α B) (a b : List String)
    (hs : ∀ s ∈ sub.stations, σ.S.contains s.id = false)
    (hv : ∀ v ∈ sub.vehicles, σ.V.contains v.id = false) :
    part σ (writeBack w sub a b) = part σ w := by
  unfold writeBack
  simp only
  have h1 : ∀ (l : List (StationS α)) (w : SWorld α B), (∀ s ∈ l, σ.S.contains s.id = false) →
      part σ (l.foldl (fun (w : SWorld α B) s => if a.contains s.id then w.setStation s else w) w)
        = part σ w := by
    intro l
    induction l with
    | nil => intro w _; rfl
    | cons s l ih =>
      intro w hl
      simp only [List.foldl_cons]
      rw [ih _ (fun y hy => hl y (by simp [hy]))]
      split
      · exact part_setStation_out σ w s (hl s (by simp))
      · rfl
  have h2 : ∀ (l : List (VehicleS α B)) (w : SWorld α B), (∀ s ∈ l, σ.V.contains s.id = false) →
      part σ (l.foldl (fun (w : SWorld α B) s => if b.contains s.id then w.setVehicle s else w) w)
        = part σ w := by
    intro l
    induction l with
    | nil => intro w _; rfl
    | cons s l ih =>
      intro w hl
      simp only [List.foldl_cons]
      rw [ih _ (fun y hy => hl y (by simp [hy]))]
      split
      · exact part_setVehicle_out σ w s (hl s (by simp))
      · rfl
  rw [h2 _ _ hv, h1 _ _ hs]

/-! ### one connector's treatment without stationary batteries -/

theorem ruleStep_nobats (rule : Rule) (ops : BatOps α B) (env : StratEnv α) (w w' : SWorld α B)
    (cmds : List (String × α)) (hb : w.batteries = []) (h : ruleStep rule ops env w = .ok (w', cmds)) :
    w'.batteries = [] := by
  have := (ruleStep_bats rule ops env w w' cmds (by intro b hb'; rw [hb] at hb'; simp at hb') h).1
  rw [hb] at this
  simpa using this

/-- Without stationary batteries (`gc_battery` has no entry for the connector) and with greedy / balanced
sub-strategies, the treatment of connector `gid` is: nothing when no candidate is connected there; otherwise the
sub-strategy's step on `⟨[gc], stations, connected vehicles, []⟩`, the objects written back by id, the connector
replaced, the commands merged. -/
theorem stepGc_shape (dops : DOps α B) (de : DEnv α) (hd : de.deps.isRule) (ho : de.opps.isRule)
    (ncs : List (String × Option Int)) (conn : List (String × List String)) (lk : Look α)
    (w w' : SWorld α B) (ini ini' : DInit α) (acc acc' : List (String × α)) (gid : String)
    (hb : (sdGet ini.gcBattery gid).getD [] = [])
    (h : stepGc dops de ncs conn lk (w, ini, acc) gid = .ok (w', ini', acc')) :
    ∃ gc cands cvs, w.gc? gid = some gc ∧ candidates w ncs conn gid = .ok cands ∧
      connectedAt w gid cands = .ok cvs ∧
      ((cvs = [] ∧ w' = w ∧ acc' = acc ∧ ini' = ini) ∨
       (cvs ≠ [] ∧ ∃ kind stations vw' cmds g1, sdGet ini.strategies gid = some kind ∧
          subStations w cvs = .ok stations ∧
          ruleStep (de.sub kind).rule dops.bat ((de.sub kind).env de.env.now) ⟨[gc], stations, cvs, []⟩
            = .ok (vw', cmds) ∧
          vw'.gcs = [g1] ∧
          w' = (writeBack w (syncStations vw') (stations.map (·.id)) (cvs.map (·.id))).setGc g1 ∧
          acc' = sdUpdate acc cmds ∧ ini'.gcBattery = ini.gcBattery ∧ ini'.strategies = ini.strategies)) := by
  unfold stepGc at h
  simp only at h
  cases hgc : w.gc? gid with
  | none => simp [hgc] at h
  | some gc =>
    simp only [hgc, bind, Except.bind] at h
    cases hc : candidates w ncs conn gid with
    | error e => simp [hc] at h
    | ok cands =>
      simp only [hc] at h
      cases hcv : connectedAt w gid cands with
      | error e => simp [hcv] at h
      | ok cvs =>
        simp only [hcv, hb, List.isEmpty_nil, Bool.and_true] at h
        refine ⟨gc, cands, cvs, rfl, rfl, hcv, ?_⟩
        by_cases hemp : cvs = []
        · left
          subst hemp
          simp only [List.isEmpty_nil, if_true, Except.ok.injEq, Prod.mk.injEq] at h
          exact ⟨rfl, h.1.symm, h.2.2.symm, h.2.1.symm⟩
        · right
          have hne : cvs.isEmpty = false := by
            cases cvs with
            | nil => exact absurd rfl hemp
            | cons _ _ => rfl
          refine ⟨hemp, ?_⟩
          simp only [hne, Bool.false_eq_true, if_false] at h
          cases hk : sdGet ini.strategies gid with
          | none => simp [hk] at h
          | some kind =>
            simp only [hk] at h
            cases hs : subStations w cvs with
            | error e => simp [hs] at h
            | ok stations =>
              simp only [hs] at h
              cases kind with
              | deps =>
                unfold stepDeps at h; simp only [hd.1, hd.2] at h; unfold stepDepsRule at h
                simp only [bind, Except.bind] at h
                have hdb : depotBatteries w ([] : List String) = [] := rfl
                rw [hdb] at h
                cases hr : ruleStep de.deps.rule dops.bat (de.deps.env de.env.now) ⟨[gc], stations, cvs, []⟩ with
                | error e => simp [hr] at h
                | ok r =>
                  obtain ⟨vw', cmds⟩ := r
                  simp only [hr, Except.ok.injEq, Prod.mk.injEq] at h
                  obtain ⟨g1, hg1, _, _, _⟩ := ruleStep_single _ _ _ gc _ _ _ vw' cmds hr
                  have hbat := ruleStep_nobats _ _ _ _ vw' cmds rfl hr
                  refine ⟨Kind.deps, stations, vw', cmds, g1, rfl, rfl, hr, hg1, ?_, h.2.2.symm, by rw [← h.2.1],
                    by rw [← h.2.1]⟩
                  rw [← h.1]
                  unfold mergeDeps
                  simp only [syncStations_gcs, syncStations_batteries, hg1, hbat, List.foldl_cons, List.foldl_nil]
              | opps =>
                unfold stepOpps at h; simp only [ho.1, ho.2] at h; unfold stepOppsRule at h
                simp only [List.foldlM_nil, pure, Except.pure, bind, Except.bind, List.append_nil] at h
                cases hr : ruleStep de.opps.rule dops.bat (de.opps.env de.env.now) ⟨[gc], stations, cvs, []⟩ with
                | error e => simp [hr] at h
                | ok r =>
                  obtain ⟨vw', cmds⟩ := r
                  simp only [hr] at h
                  obtain ⟨g1, hg1, _, _, _⟩ := ruleStep_single _ _ _ gc _ _ _ vw' cmds hr
                  simp only [hg1, Except.ok.injEq, Prod.mk.injEq] at h
                  refine ⟨Kind.opps, stations, vw', cmds, g1, rfl, rfl, hr, hg1, ?_, h.2.2.symm, by rw [← h.2.1],
                    by rw [← h.2.1]⟩
                  rw [← h.1]
                  rfl

/-! ### what never changes of a world: ids, parents, connections, V2G flags -/

/-- what no step changes of a station -/
def smeta (s : StationS α) : String × String := (s.id, s.parent)

theorem find?_of_mem_nodup {β : Type} (key : β → String) (l : List β) (hN : (l.map key).Nodup) (x : β)
    (hx : x ∈ l) : l.find? (fun y => key y == key x) = some x := by
  induction l with
  | nil => simp at hx
  | cons a l ih =>
    rw [List.map_cons] at hN
    obtain ⟨h1, h2⟩ := List.nodup_cons.mp hN
    simp only [List.find?_cons]
    rcases List.mem_cons.mp hx with rfl | hx'
    · simp
    · have : (key a == key x) = false := by
        simp only [beq_eq_false_iff_ne, ne_eq]
        intro he
        apply h1
        rw [he]
        exact List.mem_map.mpr ⟨x, hx', rfl⟩
      rw [this]
      exact ih h2 hx'

theorem eq_of_id_eq {β : Type} (key : β → String) (l : List β) (hN : (l.map key).Nodup) (x y : β)
    (hx : x ∈ l) (hy : y ∈ l) (h : key x = key y) : x = y := by
  have h1 := find?_of_mem_nodup key l hN x hx
  have h2 := find?_of_mem_nodup key l hN y hy
  rw [h] at h1
  rw [h1] at h2
  exact Option.some.inj h2

theorem map_replace_meta {β γ : Type} (key : β → String) (m : β → γ) (hm : ∀ a b, m a = m b → key a = key b)
    (l : List β) (hN : (l.map key).Nodup) (s : β) (hs : ∃ x ∈ l, m x = m s) :
    (l.map (fun x => if key x == key s then s else x)).map m = l.map m := by
  obtain ⟨x0, hx0, hm0⟩ := hs
  rw [List.map_map]
  apply List.map_congr_left
  intro y hy
  simp only [Function.comp]
  by_cases h : (key y == key s) = true
  · rw [if_pos h]
    have hk : key y = key x0 := by
      have : key y = key s := by simpa using h
      rw [this]; exact (hm _ _ hm0).symm
    rw [eq_of_id_eq key l hN y x0 hy hx0 hk]
    exact hm0.symm
  · rw [if_neg h]

/-- the write-back of objects that have a twin (same id, parent / connection, flag) in the world keeps the static data -/
theorem writeBack_meta (w sub : SWorld α B) (a b : List String)
    (hsN : (w.stations.map (·.id)).Nodup) (hvN : (w.vehicles.map (·.id)).Nodup)
    (hs : ∀ s ∈ sub.stations, ∃ x ∈ w.stations, smeta x = smeta s)
    (hv : ∀ v ∈ sub.vehicles, ∃ x ∈ w.vehicles, vmeta x = vmeta v) :
    (writeBack w sub a b).stations.map smeta = w.stations.map smeta ∧
    (writeBack w sub a b).vehicles.map vmeta = w.vehicles.map vmeta ∧
    (writeBack w sub a b).gcs = w.gcs ∧ (writeBack w sub a b).batteries = w.batteries := by
  refine ⟨?_, ?_, writeBack_gcs w sub a b, writeBack_batteries w sub a b⟩
  · unfold writeBack
    simp only
    rw [foldl_setVehicle_world, foldl_setStation_world]
    simp only
    have key : ∀ (l : List (StationS α)) (xs : List (StationS α)), (∀ s ∈ l, s ∈ sub.stations) →
        xs.map smeta = w.stations.map smeta →
        (l.foldl (fun (xs : List (StationS α)) s =>
            if a.contains s.id then xs.map (fun x => if x.id == s.id then s else x) else xs) xs).map smeta
          = w.stations.map smeta := by
      intro l
      induction l with
      | nil => intro xs _ h; exact h
      | cons s l ih =>
        intro xs hl h
        simp only [List.foldl_cons]
        apply ih _ (fun y hy => hl y (by simp [hy]))
        split
        · rw [← h]
          have hN' : (xs.map (fun (s : StationS α) => s.id)).Nodup := by
            have : xs.map (fun (s : StationS α) => s.id) = (xs.map smeta).map (·.1) := by
              rw [List.map_map]; rfl
            rw [this, h, List.map_map]; exact hsN
          obtain ⟨x, hx, hxm⟩ := hs s (hl s (by simp))
          have : smeta x ∈ xs.map smeta := by rw [h]; exact List.mem_map.mpr ⟨x, hx, rfl⟩
          obtain ⟨x', hx', hxm'⟩ := List.mem_map.mp this
          exact map_replace_meta (fun (s : StationS α) => s.id) smeta
            (fun a b hab => congrArg Prod.fst hab) xs hN' s ⟨x', hx', hxm'.trans hxm⟩
        · exact h
    exact key sub.stations w.stations (fun s hs => hs) rfl
  · unfold writeBack
    simp only
    rw [foldl_setVehicle_world, foldl_setStation_world]
    simp only
    have key : ∀ (l : List (VehicleS α B)) (xs : List (VehicleS α B)), (∀ s ∈ l, s ∈ sub.vehicles) →
        xs.map vmeta = w.vehicles.map vmeta →
        (l.foldl (fun (xs : List (VehicleS α B)) s =>
            if b.contains s.id then xs.map (fun x => if x.id == s.id then s else x) else xs) xs).map vmeta
          = w.vehicles.map vmeta := by
      intro l
      induction l with
      | nil => intro xs _ h; exact h
      | cons s l ih =>
        intro xs hl h
        simp only [List.foldl_cons]
        apply ih _ (fun y hy => hl y (by simp [hy]))
        split
        · rw [← h]
          have hN' : (xs.map (fun (s : VehicleS α B) => s.id)).Nodup := by
            have : xs.map (fun (s : VehicleS α B) => s.id) = (xs.map vmeta).map (·.1) := by
              rw [List.map_map]; rfl
            rw [this, h, List.map_map]; exact hvN
          obtain ⟨x, hx, hxm⟩ := hv s (hl s (by simp))
          have : vmeta x ∈ xs.map vmeta := by rw [h]; exact List.mem_map.mpr ⟨x, hx, rfl⟩
          obtain ⟨x', hx', hxm'⟩ := List.mem_map.mp this
          exact map_replace_meta (fun (s : VehicleS α B) => s.id) vmeta
            (fun a b hab => congrArg Prod.fst hab) xs hN' s ⟨x', hx', hxm'.trans hxm⟩
        · exact h
    exact key sub.vehicles w.vehicles (fun s hs => hs) rfl

/-- Well-formedness of a world with respect to a selection `σ` (connector `σ.g`, the ids `σ.S` of its stations, the ids
`σ.V` of the vehicles that use them): ids are unique (dict keys); a station is selected iff it hangs on `σ.g`; a
connected vehicle is selected iff its station is (a selected vehicle may be away; `""` is no station id — Python treats
it as "not connected"); no stationary batteries; no vehicle can discharge. -/
structure WF (σ : Sel) (w : SWorld α B) : Prop where
  gcN : (w.gcs.map (·.id)).Nodup
  stN : (w.stations.map (·.id)).Nodup
  veN : (w.vehicles.map (·.id)).Nodup
  st : ∀ s ∈ w.stations, σ.S.contains s.id = (s.parent == σ.g)
  ve : ∀ v ∈ w.vehicles, ∀ c, v.cs = some c → c ≠ "" ∧ σ.V.contains v.id = σ.S.contains c
  bats : w.batteries = []
  v2g : NoV2G w

theorem WF_of_meta (σ : Sel) (w w' : SWorld α B) (hg : w'.gcs.map (·.id) = w.gcs.map (·.id))
    (hs : w'.stations.map smeta = w.stations.map smeta) (hv : w'.vehicles.map vmeta = w.vehicles.map vmeta)
    (hb : w'.batteries = w.batteries) (h : WF σ w) : WF σ w' := by
  have stw : ∀ s ∈ w'.stations, ∃ x ∈ w.stations, smeta x = smeta s := by
    intro s hs'
    have : smeta s ∈ w.stations.map smeta := by rw [← hs]; exact List.mem_map.mpr ⟨s, hs', rfl⟩
    exact List.mem_map.mp this
  have vew : ∀ s ∈ w'.vehicles, ∃ x ∈ w.vehicles, vmeta x = vmeta s := by
    intro s hs'
    have : vmeta s ∈ w.vehicles.map vmeta := by rw [← hv]; exact List.mem_map.mpr ⟨s, hs', rfl⟩
    exact List.mem_map.mp this
  refine ⟨by rw [hg]; exact h.gcN, ?_, ?_, ?_, ?_, by rw [hb]; exact h.bats, ?_⟩
  · have : w'.stations.map (fun (s : StationS α) => s.id) = (w'.stations.map smeta).map (·.1) := by
      rw [List.map_map]; rfl
    rw [this, hs, List.map_map]; exact h.stN
  · have : w'.vehicles.map (fun (s : VehicleS α B) => s.id) = (w'.vehicles.map vmeta).map (·.1) := by
      rw [List.map_map]; rfl
    rw [this, hv, List.map_map]; exact h.veN
  · intro s hs'
    obtain ⟨x, hx, hm⟩ := stw s hs'
    have h1 : x.id = s.id := congrArg Prod.fst hm
    have h2 : x.parent = s.parent := congrArg Prod.snd hm
    rw [← h1, ← h2]; exact h.st x hx
  · intro v hv' c hc
    obtain ⟨x, hx, hm⟩ := vew v hv'
    have h1 : x.id = v.id := congrArg Prod.fst hm
    have h2 : x.cs = v.cs := congrArg (fun t => t.2.1) hm
    rw [← h1]; exact h.ve x hx c (h2.trans hc)
  · intro v hv'
    obtain ⟨x, hx, hm⟩ := vew v hv'
    have h3 : x.v2g = v.v2g := congrArg (fun t => t.2.2) hm
    rw [← h3]; exact h.v2g x hx

/-! ### the virtual world of a connector without `number_cs` is a sub-world of the connector's part -/

/-- the vehicle is connected at a station of connector `gid` -/
def atGc (w : SWorld α B) (gid : String) (v : VehicleS α B) : Bool :=
  match v.cs with
  | none => false
  | some c => if c == "" then false else
      match w.station? c with
      | none => false
      | some cs => cs.parent == gid

theorem vehicle?_of_mem (w : SWorld α B) (hN : (w.vehicles.map (·.id)).Nodup) (v : VehicleS α B)
    (hv : v ∈ w.vehicles) : w.vehicle? v.id = some v :=
  find?_of_mem_nodup (fun (x : VehicleS α B) => x.id) w.vehicles hN v hv

/-- all vehicles are candidates: the connected vehicles are the vehicles of the world standing at the connector, in
the world's order; and (the look-up of every connected vehicle's station succeeded) every connected vehicle's
station exists -/
theorem connectedAt_all (w : SWorld α B) (gid : String) (cvs : List (VehicleS α B))
    (hN : (w.vehicles.map (·.id)).Nodup)
    (h : connectedAt w gid (w.vehicles.map (·.id)) = .ok cvs) :
    cvs = w.vehicles.filter (atGc w gid) ∧
    ∀ v ∈ w.vehicles, ∀ c, v.cs = some c → c ≠ "" → (w.station? c).isSome = true := by
  have key : ∀ (l : List (VehicleS α B)) (acc cvs : List (VehicleS α B)),
      (∀ v ∈ l, w.vehicle? v.id = some v) →
      (l.map (·.id)).foldlM (fun (acc : List (VehicleS α B)) id =>
        match w.vehicle? id with
        | none => Except.ok acc
        | some v =>
          match v.cs with
          | none => Except.ok acc
          | some csId =>
            if csId == "" then Except.ok acc
            else match w.station? csId with
              | none => Except.error PyErr.keyError
              | some cs => if cs.parent == gid then Except.ok (acc ++ [v]) else Except.ok acc) acc = .ok cvs →
      cvs = acc ++ l.filter (atGc w gid) ∧
      ∀ v ∈ l, ∀ c, v.cs = some c → c ≠ "" → (w.station? c).isSome = true := by
    intro l
    induction l with
    | nil =>
      intro acc cvs _ h
      simp only [List.map_nil, List.foldlM_nil, pure, Except.pure, Except.ok.injEq] at h
      subst h
      exact ⟨by simp, by intro v hv; simp at hv⟩
    | cons v l ih =>
      intro acc cvs hl h
      have hl' : ∀ x ∈ l, w.vehicle? x.id = some x := fun x hx => hl x (by simp [hx])
      simp only [List.map_cons, List.foldlM_cons, bind, Except.bind, hl v (by simp)] at h
      cases hcs : v.cs with
      | none =>
        simp only [hcs] at h
        obtain ⟨h1, h2⟩ := ih acc cvs hl' h
        refine ⟨?_, ?_⟩
        · rw [h1, List.filter_cons]
          have : atGc w gid v = false := by unfold atGc; simp [hcs]
          simp [this]
        · intro x hx c hc hne
          rcases List.mem_cons.mp hx with rfl | hx'
          · rw [hcs] at hc; cases hc
          · exact h2 x hx' c hc hne
      | some c =>
        simp only [hcs] at h
        by_cases hc0 : (c == "") = true
        · simp only [hc0, if_true] at h
          obtain ⟨h1, h2⟩ := ih acc cvs hl' h
          refine ⟨?_, ?_⟩
          · rw [h1, List.filter_cons]
            have : atGc w gid v = false := by unfold atGc; simp [hcs, hc0]
            simp [this]
          · intro x hx c' hc' hne
            rcases List.mem_cons.mp hx with rfl | hx'
            · rw [hcs] at hc'
              simp only [Option.some.injEq] at hc'
              subst hc'
              exact absurd (by simpa using hc0) hne
            · exact h2 x hx' c' hc' hne
        · simp only [hc0, Bool.false_eq_true, if_false] at h
          cases hst : w.station? c with
          | none => simp [hst] at h
          | some cs =>
            simp only [hst] at h
            by_cases hp : (cs.parent == gid) = true
            · simp only [hp, if_true] at h
              obtain ⟨h1, h2⟩ := ih (acc ++ [v]) cvs hl' h
              refine ⟨?_, ?_⟩
              · rw [h1, List.filter_cons]
                have : atGc w gid v = true := by unfold atGc; simp [hcs, hc0, hst, hp]
                simp [this]
              · intro x hx c' hc' hne
                rcases List.mem_cons.mp hx with rfl | hx'
                · rw [hcs] at hc'
                  simp only [Option.some.injEq] at hc'
                  subst hc'
                  rw [hst]; rfl
                · exact h2 x hx' c' hc' hne
            · simp only [hp, Bool.false_eq_true, if_false] at h
              obtain ⟨h1, h2⟩ := ih acc cvs hl' h
              refine ⟨?_, ?_⟩
              · rw [h1, List.filter_cons]
                have : atGc w gid v = false := by unfold atGc; simp [hcs, hc0, hst, hp]
                simp [this]
              · intro x hx c' hc' hne
                rcases List.mem_cons.mp hx with rfl | hx'
                · rw [hcs] at hc'
                  simp only [Option.some.injEq] at hc'
                  subst hc'
                  rw [hst]; rfl
                · exact h2 x hx' c' hc' hne
  unfold connectedAt at h
  obtain ⟨h1, h2⟩ := key w.vehicles [] cvs (fun v hv => vehicle?_of_mem w hN v hv) h
  exact ⟨by simpa using h1, h2⟩

/-- the stations of the virtual world are the world's objects under their ids, each once -/
theorem subStations_facts (w : SWorld α B) (cvs : List (VehicleS α B)) (stations : List (StationS α))
    (h : subStations w cvs = .ok stations) :
    (∀ s ∈ stations, w.station? s.id = some s) ∧ (stations.map (·.id)).Nodup := by
  unfold subStations at h
  refine foldlM_inv _ (fun (acc : List (StationS α)) =>
    (∀ s ∈ acc, w.station? s.id = some s) ∧ (acc.map (·.id)).Nodup) ?_ cvs [] stations
    ⟨by intro s hs; simp at hs, by simp⟩ h
  intro acc v acc' hi hs
  split at hs
  · simp only [Except.ok.injEq] at hs; subst hs; exact hi
  · rename_i csId hcs
    split at hs
    · cases hs
    · rename_i cs hst
      have hid : cs.id = csId := (station?_some' _ _ _ hst).2
      split at hs
      · simp only [Except.ok.injEq] at hs; subst hs; exact hi
      · rename_i hany
        simp only [Except.ok.injEq] at hs; subst hs
        refine ⟨?_, ?_⟩
        · intro s hs'
          rcases List.mem_append.mp hs' with h' | h'
          · exact hi.1 s h'
          · simp only [List.mem_cons, List.not_mem_nil, or_false] at h'
            subst h'; rw [hid]; exact hst
        · rw [List.map_append, List.nodup_append]
          refine ⟨hi.2, by simp, ?_⟩
          intro a ha b hb
          simp only [List.map_cons, List.map_nil, List.mem_cons, List.not_mem_nil, or_false] at hb
          subst hb
          obtain ⟨x, hx, rfl⟩ := List.mem_map.mp ha
          intro he
          apply hany
          simp only [List.any_eq_true, beq_iff_eq]
          exact ⟨x, hx, by rw [he, hid]⟩

theorem filter_eq_singleton {β : Type} (key : β → String) (l : List β) (hN : (l.map key).Nodup) (k : String)
    (a : β) (h : l.find? (fun x => key x == k) = some a) : l.filter (fun x => key x == k) = [a] := by
  induction l with
  | nil => simp at h
  | cons x xs ih =>
    rw [List.map_cons] at hN
    obtain ⟨h1, h2⟩ := List.nodup_cons.mp hN
    simp only [List.find?_cons] at h
    by_cases hx : (key x == k) = true
    · simp only [hx, Option.some.injEq] at h
      subst h
      rw [List.filter_cons, if_pos hx]
      congr 1
      rw [List.filter_eq_nil_iff]
      intro y hy hk
      apply h1
      have e1 : key x = k := by simpa using hx
      have e2 : key y = k := by simpa using hk
      rw [e1, ← e2]
      exact List.mem_map.mpr ⟨y, hy, rfl⟩
    · have hx' : (key x == k) = false := by simpa using hx
      simp only [hx'] at h
      rw [List.filter_cons, if_neg hx]
      exact ih h2 h

/-- "the vehicle with this id is connected" -/
def connP (w : SWorld α B) (id : String) : Bool :=
  match w.vehicle? id with
  | some v => v.cs.isSome
  | none => false

theorem part_gcs_single (σ : Sel) (w : SWorld α B) (hN : (w.gcs.map (·.id)).Nodup) (gc : GcS α)
    (hgc : w.gc? σ.g = some gc) : (part σ w).gcs = [gc] :=
  filter_eq_singleton (fun (x : GcS α) => x.id) w.gcs hN σ.g gc hgc

/-- the virtual world of connector `σ.g` (all vehicles are candidates) is cut from the connector's part of the world -/
theorem sub_part (σ : Sel) (w : SWorld α B) (hwf : WF σ w) (gc : GcS α) (hgc : w.gc? σ.g = some gc)
    (cvs : List (VehicleS α B)) (stations : List (StationS α))
    (hcv : connectedAt w σ.g (w.vehicles.map (·.id)) = .ok cvs) (hst : subStations w cvs = .ok stations) :
    Sub (connP w) (part σ w) ⟨[gc], stations, cvs, []⟩ := by
  obtain ⟨hcvs, hex⟩ := connectedAt_all w σ.g cvs hwf.veN hcv
  have hloc := connectedAt_local w σ.g _ cvs hcv
  have hsl := subStations_local w σ.g cvs stations hloc hst
  obtain ⟨hsf, _⟩ := subStations_facts w cvs stations hst
  refine ⟨(part_gcs_single σ w hwf.gcN gc hgc).symm, rfl, ?_, ?_, ?_, ?_, ?_, ?_⟩
  · show w.batteries.filter _ = []
    rw [hwf.bats]; rfl
  · show cvs = (w.vehicles.filter (fun v => σ.V.contains v.id)).filter (fun v => connP w v.id)
    rw [hcvs, List.filter_filter]
    apply List.filter_congr
    intro v hv
    have hvq : w.vehicle? v.id = some v := vehicle?_of_mem w hwf.veN v hv
    cases hcs : v.cs with
    | none => simp [atGc, connP, hvq, hcs]
    | some c =>
      obtain ⟨hne, hVS⟩ := hwf.ve v hv c hcs
      have hc0 : (c == "") = false := by simpa using hne
      have hsome := hex v hv c hcs hne
      cases hstc : w.station? c with
      | none => rw [hstc] at hsome; cases hsome
      | some cs =>
        obtain ⟨hcm, hcid⟩ := station?_some' _ _ _ hstc
        have := hwf.st cs hcm
        rw [hcid] at this
        simp only [atGc, connP, hvq, hcs, hc0, hstc, Bool.false_eq_true, if_false, Option.isSome_some,
          Bool.true_and]
        rw [hVS, this]
  · intro x hx hp
    have hxw : x ∈ w.vehicles := (List.mem_filter.mp hx).1
    have hvq : w.vehicle? x.id = some x := vehicle?_of_mem w hwf.veN x hxw
    simp only [connP, hvq] at hp
    cases hcs : x.cs with
    | none => rfl
    | some c => rw [hcs] at hp; cases hp
  · intro s hs
    obtain ⟨hsm, hpar⟩ := hsl s hs
    apply part_station? σ w s.id s (hsf s hs)
    rw [hwf.st s hsm, hpar]; simp
  · exact List.Nodup.sublist (List.Sublist.map _ List.filter_sublist) hwf.stN
  · exact List.Nodup.sublist (List.Sublist.map _ List.filter_sublist) hwf.veN

/-- **The sub-strategy's step on the virtual world is its step on the connector's part of the world.** -/
theorem embed_part (σ : Sel) (rule : Rule) (ops : BatOps α B) (env : StratEnv α) (w : SWorld α B) (hwf : WF σ w)
    (gc : GcS α) (hgc : w.gc? σ.g = some gc) (cvs : List (VehicleS α B)) (stations : List (StationS α))
    (hcv : connectedAt w σ.g (w.vehicles.map (·.id)) = .ok cvs) (hst : subStations w cvs = .ok stations)
    (vw' : SWorld α B) (cmds : List (String × α))
    (h : ruleStep rule ops env ⟨[gc], stations, cvs, []⟩ = .ok (vw', cmds)) :
    ruleStep rule ops env (part σ w) = .ok (overlay (resetStations (part σ w)) vw', cmds) :=
  ruleStep_embed (connP w) rule ops env (part σ w) _ vw' cmds (sub_part σ w hwf gc hgc cvs stations hcv hst) h

/-! ### vehicle data that the step never changes (no uniqueness of ids needed) -/

/-- a predicate on vehicles that does not read the battery -/
def VStatic (Q : VehicleS α B → Prop) : Prop := ∀ v b, Q v → Q { v with bat := b }

theorem mem_setVehicle' (w : SWorld α B) (v' x : VehicleS α B) (h : x ∈ (w.setVehicle v').vehicles) :
    x = v' ∨ x ∈ w.vehicles := by
  unfold SWorld.setVehicle at h
  simp only [List.mem_map] at h
  obtain ⟨y, hy, rfl⟩ := h
  split
  · exact Or.inl rfl
  · exact Or.inr hy

theorem vq_book (Q : VehicleS α B → Prop) (hQ : VStatic Q) (cur : SWorld α B) (v : VehicleS α B) (b : B)
    (g : GcS α) (s : StationS α) (hv : v ∈ cur.vehicles) (h : ∀ x ∈ cur.vehicles, Q x) :
    ∀ x ∈ (((cur.setVehicle { v with bat := b }).setGc g).setStation s).vehicles, Q x := by
  intro x hx
  have hx' : x ∈ (cur.setVehicle { v with bat := b }).vehicles := hx
  rcases mem_setVehicle' _ _ x hx' with rfl | hm
  · exact hQ v b (h v hv)
  · exact h x hm

theorem ruleStep_vstatic (Q : VehicleS α B → Prop) (hQ : VStatic Q) (rule : Rule) (ops : BatOps α B)
    (env : StratEnv α) (w w' : SWorld α B) (cmds : List (String × α)) (hinv : ∀ v ∈ w.vehicles, Q v)
    (h : ruleStep rule ops env w = .ok (w', cmds)) : ∀ v ∈ w'.vehicles, Q v := by
  unfold ruleStep at h
  cases ha : availBatPower ops w with
  | error e => simp [ha, bind, Except.bind] at h
  | ok avail =>
    simp only [ha, bind, Except.bind] at h
    cases hf : (sortedVehicleIds (resetStations w)).foldlM (allocVehicle rule ops env)
        (resetStations w, [], avail) with
    | error e => simp [hf] at h
    | ok st1 =>
      obtain ⟨w1, c1, a1⟩ := st1
      simp only [hf] at h
      have h0 : ∀ v ∈ (resetStations w).vehicles, Q v := hinv
      have h1 : ∀ v ∈ w1.vehicles, Q v :=
        foldlM_inv (allocVehicle rule ops env) (fun s => ∀ v ∈ s.1.vehicles, Q v)
          (fun s x s' hi hs => by
            obtain ⟨v, hv, hc⟩ := allocVehicle_cases rule ops env s s' x hs
            rcases hc with ⟨_, he⟩ | ⟨csId, cs, gc, cheap, power, used, bat', avg, hcs, hst, hgc, _, _, _, he⟩
            · rw [he]; exact hi
            · rw [he]
              exact vq_book Q hQ s.1 v bat' _ _ (vehicle?_some _ _ _ hv).1 hi) _ _ (w1, c1, a1) h0 hf
      cases hds : distributeSurplus ops env w1 with
      | error e => simp [hds] at h
      | ok r2 =>
        obtain ⟨w2, c2⟩ := r2
        simp only [hds] at h
        have h2 : ∀ v ∈ w2.vehicles, Q v := by
          rw [distributeSurplus_unfold] at hds
          cases hc : w1.gcs.mapM (cheapEntry env) with
          | error e => simp [hc, bind, Except.bind] at hds
          | ok cheap =>
            simp only [hc, bind, Except.bind] at hds
            exact foldlM_inv (surplusBody ops env cheap) (fun s => ∀ v ∈ s.1.vehicles, Q v)
              (fun s v0 s' hi hs => by
                rcases surplusBody_cases ops env cheap s s' v0 hs with ⟨_, rfl⟩ | ⟨v, hv, hc⟩
                · exact hi
                · rcases hc with ⟨_, rfl⟩ | ⟨csId, cs, gc, r, hcs, hst, hgc, hloc, rfl⟩
                  · exact hi
                  · cases r with
                    | none => exact hi
                    | some t =>
                      obtain ⟨bat', d, cur'⟩ := t
                      exact vq_book Q hQ s.1 v bat' _ _ (vehicle?_some _ _ _ hv).1 hi)
              w1.vehicles (w1, []) (w2, c2) h1 hds
        cases hu : updateBatteries ops env w2 with
        | error e => simp [hu] at h
        | ok w3 =>
          simp only [hu, Except.ok.injEq, Prod.mk.injEq] at h
          obtain ⟨rfl, _⟩ := h
          rw [updateBatteries_unfold] at hu
          cases hc : w2.gcs.mapM (cheapEntry env) with
          | error e => simp [hc, bind, Except.bind] at hu
          | ok cheap =>
            simp only [hc, bind, Except.bind] at hu
            exact foldlM_inv (batBody ops env cheap) (fun s => ∀ v ∈ s.vehicles, Q v)
              (fun c b0 c' hi hs => by
                rcases batBody_cases ops env cheap c c' b0 hs with ⟨_, rfl⟩ | ⟨b, hb, hc⟩
                · exact hi
                · rcases hc with ⟨_, rfl⟩ | ⟨gc, isCheap, r, hgc, _, _, rfl⟩
                  · exact hi
                  · exact hi)
              w2.batteries w2 w3 h2 hu

/-- every vehicle of a virtual world is a vehicle of the world, standing at a station of the connector -/
theorem connectedAt_mem (w : SWorld α B) (gcId : String) (cands : List String) (cvs : List (VehicleS α B))
    (h : connectedAt w gcId cands = .ok cvs) :
    ∀ v ∈ cvs, v ∈ w.vehicles := by
  unfold connectedAt at h
  refine foldlM_inv _ (fun (acc : List (VehicleS α B)) => ∀ v ∈ acc, v ∈ w.vehicles) ?_ cands [] cvs
    (by intro v hv; simp at hv) h
  intro acc id acc' hi hs
  split at hs
  · simp only [Except.ok.injEq] at hs; subst hs; exact hi
  · rename_i v hv
    split at hs
    · simp only [Except.ok.injEq] at hs; subst hs; exact hi
    · split at hs
      · simp only [Except.ok.injEq] at hs; subst hs; exact hi
      · split at hs
        · cases hs
        · split at hs
          · simp only [Except.ok.injEq] at hs; subst hs
            intro v' hv'
            rcases List.mem_append.mp hv' with h' | h'
            · exact hi v' h'
            · simp only [List.mem_cons, List.not_mem_nil, or_false] at h'
              subst h'
              exact (vehicle?_some _ _ _ hv).1
          · simp only [Except.ok.injEq] at hs; subst hs; exact hi

/-! ### what a connector's treatment keeps -/

theorem syncStations_mem (vw : SWorld α B) (s : StationS α) (h : s ∈ (syncStations vw).stations) :
    ∃ s0 ∈ vw.stations, smeta s0 = smeta s := by
  unfold syncStations at h
  split at h
  · simp only [List.mem_map] at h
    obtain ⟨x, hx, rfl⟩ := h
    exact ⟨x, hx, rfl⟩
  · exact ⟨s, h, rfl⟩

theorem setGc_ids (w : SWorld α B) (g' : GcS α) : (w.setGc g').gcs.map (·.id) = w.gcs.map (·.id) := by
  unfold SWorld.setGc
  simp only [List.map_map]
  apply List.map_congr_left
  intro x _
  simp only [Function.comp]
  by_cases h : (x.id == g'.id) = true
  · have : x.id = g'.id := by simpa using h
    rw [if_pos h, this]
  · rw [if_neg h]

/-- the sub-strategy's result written back: ids, parents, connections, flags stay; no negative entry appears -/
theorem treated_keep (σ : Sel) (ops : BatOps α B) (law : BatLaw ops) (rule : Rule) (env : StratEnv α)
    (w : SWorld α B) (hwf : WF σ w) (hnn : NonNegW w) (gid : String) (gc : GcS α) (cands : List String)
    (cvs : List (VehicleS α B)) (stations : List (StationS α)) (vw' : SWorld α B) (cmds : List (String × α))
    (g1 : GcS α) (hgc : w.gc? gid = some gc) (hcv : connectedAt w gid cands = .ok cvs)
    (hst : subStations w cvs = .ok stations)
    (hr : ruleStep rule ops env ⟨[gc], stations, cvs, []⟩ = .ok (vw', cmds)) (hg1 : vw'.gcs = [g1]) :
    WF σ ((writeBack w (syncStations vw') (stations.map (·.id)) (cvs.map (·.id))).setGc g1) ∧
    NonNegW ((writeBack w (syncStations vw') (stations.map (·.id)) (cvs.map (·.id))).setGc g1) ∧
    ((writeBack w (syncStations vw') (stations.map (·.id)) (cvs.map (·.id))).setGc g1).gcs.map (·.id)
      = w.gcs.map (·.id) := by
  have hsm := subStations_mem w cvs stations hst
  have hvm := connectedAt_mem w gid cands cvs hcv
  have hs' : ∀ s ∈ (syncStations vw').stations, ∃ x ∈ w.stations, smeta x = smeta s := by
    intro s hs
    obtain ⟨s0, hs0, hm0⟩ := syncStations_mem vw' s hs
    have := ruleStep_static (fun s => ∃ x ∈ w.stations, smeta x = smeta s) (fun s c hq => hq) rule ops env _ vw' cmds
      (fun s hs => ⟨s, hsm s hs, rfl⟩) hr s0 hs0
    obtain ⟨x, hx, hxm⟩ := this
    exact ⟨x, hx, hxm.trans hm0⟩
  have hv' : ∀ v ∈ (syncStations vw').vehicles, ∃ x ∈ w.vehicles, vmeta x = vmeta v := by
    intro v hv
    rw [syncStations_vehicles] at hv
    exact ruleStep_vstatic (fun v => ∃ x ∈ w.vehicles, vmeta x = vmeta v) (fun v b hq => hq) rule ops env _ vw' cmds
      (fun v hv => ⟨v, hvm v hv, rfl⟩) hr v hv
  obtain ⟨m1, m2, m3, m4⟩ := writeBack_meta w (syncStations vw') (stations.map (·.id)) (cvs.map (·.id))
    hwf.stN hwf.veN hs' hv'
  have hids : ((writeBack w (syncStations vw') (stations.map (·.id)) (cvs.map (·.id))).setGc g1).gcs.map (·.id)
      = w.gcs.map (·.id) := by rw [setGc_ids, m3]
  refine ⟨WF_of_meta σ w _ hids m1 m2 m4 hwf, ?_, hids⟩
  intro g hg
  rcases mem_setGc _ g1 g hg with rfl | ⟨hm, _⟩
  · have hnv : NonNegW (⟨[gc], stations, cvs, []⟩ : SWorld α B) := by
      intro g hg
      simp only [List.mem_cons, List.not_mem_nil, or_false] at hg
      subst hg
      exact hnn _ (gc?_some _ _ _ hgc).1
    have hv2 : NoV2G (⟨[gc], stations, cvs, []⟩ : SWorld α B) := fun v hv => hwf.v2g v (hvm v hv)
    have := (ruleStep_nonneg rule ops law env _ vw' cmds rfl hnv hv2 hr).1
    exact this _ (by rw [hg1]; simp)
  · rw [m3] at hm
    exact hnn g hm

theorem ruleStep_empty (rule : Rule) (ops : BatOps α B) (env : StratEnv α) :
    ruleStep rule ops env (⟨[], [], [], []⟩ : SWorld α B) = .ok (⟨[], [], [], []⟩, []) := by
  simp [ruleStep, availBatPower, resetStations, sortedVehicleIds, distributeSurplus, updateBatteries, bind,
    Except.bind, pure, Except.pure, sdUpdate]

/-- **Another connector's treatment leaves the part of `σ.g` alone** and issues no command for its stations. -/
theorem treated_other (σ : Sel) (ops : BatOps α B) (rule : Rule) (env : StratEnv α)
    (w : SWorld α B) (hwf : WF σ w) (gid : String) (hne : gid ≠ σ.g) (gc : GcS α) (cands : List String)
    (cvs : List (VehicleS α B)) (stations : List (StationS α)) (vw' : SWorld α B) (cmds : List (String × α))
    (g1 : GcS α) (hgc : w.gc? gid = some gc) (hcv : connectedAt w gid cands = .ok cvs)
    (hst : subStations w cvs = .ok stations)
    (hr : ruleStep rule ops env ⟨[gc], stations, cvs, []⟩ = .ok (vw', cmds)) (hg1 : vw'.gcs = [g1]) :
    part σ ((writeBack w (syncStations vw') (stations.map (·.id)) (cvs.map (·.id))).setGc g1) = part σ w ∧
    cmds.filter (fun kv => σ.S.contains kv.1) = [] := by
  have hsm := subStations_mem w cvs stations hst
  have hvm := connectedAt_mem w gid cands cvs hcv
  have hloc := connectedAt_local w gid cands cvs hcv
  have hsl := subStations_local w gid cvs stations hloc hst
  obtain ⟨hgm, hgid⟩ := gc?_some _ _ _ hgc
  have hgf : (gid == σ.g) = false := by simpa using hne
  have hSs : ∀ s ∈ stations, σ.S.contains s.id = false := by
    intro s hs
    rw [hwf.st s (hsl s hs).1, (hsl s hs).2]; exact hgf
  have hVv : ∀ v ∈ cvs, σ.V.contains v.id = false := by
    intro v hv
    obtain ⟨c, cs, hc, hcs, hp⟩ := hloc v hv
    obtain ⟨hcm, hcid⟩ := station?_some' _ _ _ hcs
    rw [(hwf.ve v (hvm v hv) c hc).2, ← hcid, hwf.st cs hcm, hp]; exact hgf
  have hlink : Link σ (⟨[gc], stations, cvs, []⟩ : SWorld α B) := by
    refine ⟨fun s hs => hwf.st s (hsm s hs), ?_, by intro b hb; simp at hb⟩
    intro v hv
    obtain ⟨c, cs, hc, hcs, hp⟩ := hloc v hv
    simp only [hc]
    exact (hwf.ve v (hvm v hv) c hc).2
  have hpart : part σ (⟨[gc], stations, cvs, []⟩ : SWorld α B) = ⟨[], [], [], []⟩ := by
    unfold part
    simp only [List.filter_nil]
    congr 1
    · rw [List.filter_eq_nil_iff]
      intro g hg
      simp only [List.mem_cons, List.not_mem_nil, or_false] at hg
      subst hg; rw [hgid, hgf]; simp
    · rw [List.filter_eq_nil_iff]
      intro s hs; rw [hSs s hs]; simp
    · rw [List.filter_eq_nil_iff]
      intro v hv; rw [hVv v hv]; simp
  have hp := ruleStep_part σ rule ops env _ vw' cmds hlink hr
  rw [hpart, ruleStep_empty] at hp
  simp only [Except.ok.injEq, Prod.mk.injEq] at hp
  obtain ⟨hp1, hp2⟩ := hp
  refine ⟨?_, hp2.symm⟩
  have hst0 : (part σ vw').stations = [] := by rw [← hp1]
  have hve0 : (part σ vw').vehicles = [] := by rw [← hp1]
  obtain ⟨g1', hg1', hid1, _, _⟩ := ruleStep_single _ _ _ gc _ _ _ vw' cmds hr
  rw [hg1] at hg1'
  simp only [List.cons.injEq, and_true] at hg1'
  subst hg1'
  rw [part_setGc_out σ _ g1 (by rw [hid1, hgid]; exact hgf)]
  apply part_writeBack_out
  · intro s hs
    obtain ⟨s0, hs0, hm0⟩ := syncStations_mem vw' s hs
    have hid : s0.id = s.id := congrArg Prod.fst hm0
    rw [← hid]
    have := List.filter_eq_nil_iff.mp hst0 s0 hs0
    simpa using this
  · intro v hv
    rw [syncStations_vehicles] at hv
    have := List.filter_eq_nil_iff.mp hve0 v hv
    simpa using this

theorem resetStations_part_noop (σ : Sel) (w : SWorld α B)
    (hres : ∀ s ∈ w.stations, σ.S.contains s.id = true → s.currentPower = 0) :
    resetStations (part σ w) = part σ w := by
  unfold resetStations
  have : (part σ w).stations.map (fun s => { s with currentPower := 0 }) = (part σ w).stations := by
    conv_rhs => rw [← List.map_id (part σ w).stations]
    apply List.map_congr_left
    intro s hs
    have hs' := List.mem_filter.mp hs
    have h0 := hres s hs'.1 hs'.2
    cases s
    simp only at h0
    subst h0
    rfl
  rw [this]

/-- **The treatment of connector `σ.g` is the sub-strategy's step on the connector's part of the world.** `w` is the
world when the loop reaches `σ.g` (stations of `σ.g` still reset, no entry under a station id at `σ.g`), all vehicles
are candidates (no `number_cs`). -/
theorem treated_self (σ : Sel) (ops : BatOps α B) (law : BatLaw ops) (rule : Rule) (env : StratEnv α)
    (w : SWorld α B) (hwf : WF σ w)
    (hres : ∀ s ∈ w.stations, σ.S.contains s.id = true → s.currentPower = 0)
    (hnoE : ∀ g ∈ w.gcs, g.id = σ.g → ∀ k, σ.S.contains k = true → (sdGet g.loads k).getD 0 = 0)
    (gc : GcS α) (cvs : List (VehicleS α B)) (stations : List (StationS α)) (vw' : SWorld α B)
    (cmds : List (String × α)) (g1 : GcS α) (hgc : w.gc? σ.g = some gc)
    (hcv : connectedAt w σ.g (w.vehicles.map (·.id)) = .ok cvs) (hst : subStations w cvs = .ok stations)
    (hr : ruleStep rule ops env ⟨[gc], stations, cvs, []⟩ = .ok (vw', cmds)) (hg1 : vw'.gcs = [g1]) :
    ruleStep rule ops env (part σ w)
      = .ok (part σ ((writeBack w (syncStations vw') (stations.map (·.id)) (cvs.map (·.id))).setGc g1), cmds) ∧
    cmds.filter (fun kv => σ.S.contains kv.1) = cmds := by
  have hsm := subStations_mem w cvs stations hst
  have hvm := connectedAt_mem w σ.g _ cvs hcv
  have hloc := connectedAt_local w σ.g _ cvs hcv
  have hsl := subStations_local w σ.g cvs stations hloc hst
  obtain ⟨hsf, hsN⟩ := subStations_facts w cvs stations hst
  obtain ⟨hcvs, _⟩ := connectedAt_all w σ.g cvs hwf.veN hcv
  obtain ⟨hgm, hgid⟩ := gc?_some _ _ _ hgc
  obtain ⟨g1', hg1', hid1, _, _⟩ := ruleStep_single _ _ _ gc _ _ _ vw' cmds hr
  rw [hg1] at hg1'
  simp only [List.cons.injEq, and_true] at hg1'
  subst hg1'
  have hcvN : (cvs.map (·.id)).Nodup := by
    rw [hcvs]; exact List.Nodup.sublist (List.Sublist.map _ List.filter_sublist) hwf.veN
  -- the stand-alone step
  have hemb := embed_part σ rule ops env w hwf gc hgc cvs stations hcv hst vw' cmds hr
  rw [resetStations_part_noop σ w hres] at hemb
  -- DIST2 is a no-op
  have hb := (ruleStep_booked rule ops law env ⟨[gc], stations, cvs, []⟩ vw' cmds
    (by
      intro s hs g hg _
      simp only [List.mem_cons, List.not_mem_nil, or_false] at hg
      subst hg
      refine hnoE _ hgm hgid s.id ?_
      rw [hwf.st s (hsl s hs).1, (hsl s hs).2]; simp)
    (by intro s _ b hb; simp at hb) hr).1
  have hpar := ruleStep_static (fun s => s.parent = gc.id) (fun s c hs => hs) rule ops env _ vw' cmds
    (fun s hs => by rw [(hsl s hs).2, hgid]) hr
  have hnoop := syncStations_noop vw' g1 hg1 hb (fun s hs => (hpar s hs).trans hid1.symm)
  -- ids of the result
  have hsid : vw'.stations.map (·.id) = stations.map (·.id) :=
    (ruleStep_keyFrame (fun _ => True) rule ops env _ vw' cmds (fun _ _ => trivial) (fun _ _ => trivial) hr).2
  have hvid : vw'.vehicles.map (·.id) = cvs.map (·.id) :=
    ids_of_vmeta _ _ (ruleStep_vmeta rule ops env _ vw' cmds hcvN hr)
  constructor
  · rw [hemb, hnoop, part_setGc, part_writeBack, ← hsid, ← hvid,
      writeBack_eq_overlay _ vw' (by rw [hsid]; exact hsN) (by rw [hvid]; exact hcvN)]
    congr 2
    apply sworld_ext
    · show vw'.gcs = (part σ w).gcs.map _
      rw [part_gcs_single σ w hwf.gcN gc hgc, hg1]
      simp [hid1]
    · rfl
    · rfl
    · rfl
  · have hlink : Link σ (⟨[gc], stations, cvs, []⟩ : SWorld α B) := by
      refine ⟨fun s hs => hwf.st s (hsm s hs), ?_, by intro b hb; simp at hb⟩
      intro v hv
      obtain ⟨c, cs, hc, hcs, hp⟩ := hloc v hv
      simp only [hc]
      exact (hwf.ve v (hvm v hv) c hc).2
    have hgt : (σ.g == σ.g) = true := by simp
    have hpart : part σ (⟨[gc], stations, cvs, []⟩ : SWorld α B) = ⟨[gc], stations, cvs, []⟩ := by
      unfold part
      simp only [List.filter_nil]
      congr 1
      · rw [List.filter_eq_self]
        intro g hg
        simp only [List.mem_cons, List.not_mem_nil, or_false] at hg
        subst hg; rw [hgid]; exact hgt
      · rw [List.filter_eq_self]
        intro s hs
        rw [hwf.st s (hsl s hs).1, (hsl s hs).2]; exact hgt
      · rw [List.filter_eq_self]
        intro v hv
        obtain ⟨c, cs, hc, hcs, hp⟩ := hloc v hv
        obtain ⟨hcm, hcid⟩ := station?_some' _ _ _ hcs
        rw [(hwf.ve v (hvm v hv) c hc).2, ← hcid, hwf.st cs hcm, hp]; exact hgt
    have hp := ruleStep_part σ rule ops env _ vw' cmds hlink hr
    rw [hpart, hr] at hp
    simp only [Except.ok.injEq, Prod.mk.injEq] at hp
    exact hp.2.symm

/-! ### the loop over the connectors -/

/-- what the loop keeps (relative to the strategy state `ini0` at its beginning) -/
structure LInv (σ : Sel) (ini0 : DInit α) (st : SWorld α B × DInit α × List (String × α)) : Prop where
  wf : WF σ st.1
  nn : NonNegW st.1
  gcb : st.2.1.gcBattery = ini0.gcBattery
  strat : st.2.1.strategies = ini0.strategies

theorem foldlM_append' {σ' ι : Type} (f : σ' → ι → Py σ') (l1 l2 : List ι) (s s' : σ')
    (h : (l1 ++ l2).foldlM f s = .ok s') : ∃ s1, l1.foldlM f s = .ok s1 ∧ l2.foldlM f s1 = .ok s' := by
  rw [List.foldlM_append] at h
  simp only [bind, Except.bind] at h
  cases h1 : l1.foldlM f s with
  | error e => simp [h1] at h
  | ok s1 => simp only [h1] at h; exact ⟨s1, rfl, h⟩

/-- the connectors other than `σ.g` -/
theorem loop_other (σ : Sel) (dops : DOps α B) (law : BatLaw dops.bat) (de : DEnv α) (hd : de.deps.isRule)
    (ho : de.opps.isRule) (ncs : List (String × Option Int)) (conn : List (String × List String)) (lk : Look α)
    (ini0 : DInit α) (hgcb : ∀ k, (sdGet ini0.gcBattery k).getD [] = []) :
    ∀ (L : List String), σ.g ∉ L → ∀ (st st' : SWorld α B × DInit α × List (String × α)), LInv σ ini0 st →
      L.foldlM (stepGc dops de ncs conn lk) st = .ok st' →
      LInv σ ini0 st' ∧ part σ st'.1 = part σ st.1 ∧
        st'.2.2.filter (fun kv => σ.S.contains kv.1) = st.2.2.filter (fun kv => σ.S.contains kv.1) ∧
        st'.1.gcs.map (·.id) = st.1.gcs.map (·.id) := by
  intro L
  induction L with
  | nil =>
    intro _ st st' hi h
    simp only [List.foldlM_nil, pure, Except.pure, Except.ok.injEq] at h
    subst h
    exact ⟨hi, rfl, rfl, rfl⟩
  | cons gid L ih =>
    intro hnot st st' hi h
    have hne : gid ≠ σ.g := fun e => hnot (by simp [e])
    have hnot' : σ.g ∉ L := fun e => hnot (by simp [e])
    simp only [List.foldlM_cons, bind, Except.bind] at h
    cases h1 : stepGc dops de ncs conn lk st gid with
    | error e => simp [h1] at h
    | ok st1 =>
      simp only [h1] at h
      obtain ⟨w, ini, acc⟩ := st
      obtain ⟨w1, ini1, acc1⟩ := st1
      have hb : (sdGet ini.gcBattery gid).getD [] = [] := by
        have := hi.gcb; simp only at this; rw [this]; exact hgcb gid
      obtain ⟨gc, cands, cvs, hgc, hc, hcv, hcase⟩ :=
        stepGc_shape dops de hd ho ncs conn lk w w1 ini ini1 acc acc1 gid hb h1
      have key : LInv σ ini0 (w1, ini1, acc1) ∧ part σ w1 = part σ w ∧
          acc1.filter (fun kv => σ.S.contains kv.1) = acc.filter (fun kv => σ.S.contains kv.1) ∧
          w1.gcs.map (·.id) = w.gcs.map (·.id) := by
        rcases hcase with ⟨_, rfl, rfl, rfl⟩ | ⟨_, kind, stations, vw', cmds, g1, hk, hst, hr, hg1, rfl, rfl, e1, e2⟩
        · exact ⟨hi, rfl, rfl, rfl⟩
        · obtain ⟨k1, k2, k3⟩ := treated_keep σ dops.bat law _ _ w hi.wf hi.nn gid gc cands cvs stations vw' cmds g1
            hgc hcv hst hr hg1
          obtain ⟨o1, o2⟩ := treated_other σ dops.bat _ _ w hi.wf gid hne gc cands cvs stations vw' cmds g1
            hgc hcv hst hr hg1
          refine ⟨⟨k1, k2, e1.trans hi.gcb, e2.trans hi.strat⟩, o1, ?_, k3⟩
          show (sdUpdate acc cmds).filter _ = _
          rw [sdUpdate_filter, o2]
          rfl
      obtain ⟨i1, p1, f1, g1'⟩ := key
      obtain ⟨i2, p2, f2, g2⟩ := ih hnot' _ st' i1 h
      exact ⟨i2, p2.trans p1, f2.trans f1, g2.trans g1'⟩

theorem ruleStep_novehicles (rule : Rule) (ops : BatOps α B) (env : StratEnv α) (gc : GcS α)
    (hc : gc.cost ≠ none) :
    ruleStep rule ops env (⟨[gc], [], [], []⟩ : SWorld α B) = .ok (⟨[gc], [], [], []⟩, []) := by
  cases hcost : gc.cost with
  | none => exact absurd hcost hc
  | some c =>
    simp [ruleStep, availBatPower, resetStations, sortedVehicleIds, distributeSurplus, updateBatteries, bind,
      Except.bind, pure, Except.pure, sdUpdate, gcCheap, hcost]

/-- the connector `σ.g` itself -/
theorem loop_self (σ : Sel) (dops : DOps α B) (law : BatLaw dops.bat) (de : DEnv α) (hd : de.deps.isRule)
    (ho : de.opps.isRule) (ncs : List (String × Option Int)) (conn : List (String × List String)) (lk : Look α)
    (ini0 : DInit α) (hgcb : ∀ k, (sdGet ini0.gcBattery k).getD [] = []) (kind : Kind)
    (hk : sdGet ini0.strategies σ.g = some kind) (hskip : skipPrio ncs σ.g = true)
    (w w' : SWorld α B) (ini ini' : DInit α) (acc acc' : List (String × α)) (hi : LInv σ ini0 (w, ini, acc))
    (hres : ∀ s ∈ w.stations, σ.S.contains s.id = true → s.currentPower = 0)
    (hnoE : ∀ g ∈ w.gcs, g.id = σ.g → ∀ k, σ.S.contains k = true → (sdGet g.loads k).getD 0 = 0)
    (hcost : ∀ g ∈ w.gcs, g.id = σ.g → g.cost ≠ none)
    (h : stepGc dops de ncs conn lk (w, ini, acc) σ.g = .ok (w', ini', acc')) :
    ∃ cmds, ruleStep (de.sub kind).rule dops.bat ((de.sub kind).env de.env.now) (part σ w) = .ok (part σ w', cmds) ∧
      cmds.filter (fun kv => σ.S.contains kv.1) = cmds ∧ acc' = sdUpdate acc cmds ∧
      LInv σ ini0 (w', ini', acc') ∧ w'.gcs.map (·.id) = w.gcs.map (·.id) := by
  have hb : (sdGet ini.gcBattery σ.g).getD [] = [] := by
    have := hi.gcb; simp only at this; rw [this]; exact hgcb σ.g
  obtain ⟨gc, cands, cvs, hgc, hc, hcv, hcase⟩ :=
    stepGc_shape dops de hd ho ncs conn lk w w' ini ini' acc acc' σ.g hb h
  have hcands : cands = w.vehicles.map (·.id) := by
    unfold candidates at hc
    simp only [hskip, if_true, Except.ok.injEq] at hc
    exact hc.symm
  subst hcands
  obtain ⟨hgm, hgid⟩ := gc?_some _ _ _ hgc
  rcases hcase with ⟨rfl, rfl, rfl, rfl⟩ | ⟨_, kind', stations, vw', cmds, g1, hk', hst, hr, hg1, rfl, rfl, e1, e2⟩
  · refine ⟨[], ?_, rfl, rfl, hi, rfl⟩
    have hr := ruleStep_novehicles (de.sub kind).rule dops.bat ((de.sub kind).env de.env.now) gc
      (hcost gc hgm hgid)
    have hemb := embed_part σ _ _ _ w' hi.wf gc hgc [] [] hcv rfl _ _ hr
    rw [resetStations_part_noop σ w' hres] at hemb
    rw [hemb]
    congr 2
    apply sworld_ext
    · exact (part_gcs_single σ w' hi.wf.gcN gc hgc).symm
    · show (part σ w').stations.map _ = _
      simp [SWorld.station?]
    · show (part σ w').vehicles.map _ = _
      simp [SWorld.vehicle?]
    · rfl
  · have hkk : kind' = kind := by
      have := hi.strat; simp only at this
      rw [this, hk] at hk'
      exact (Option.some.inj hk').symm
    subst hkk
    obtain ⟨t1, t2⟩ := treated_self σ dops.bat law _ _ w hi.wf hres hnoE gc cvs stations vw' cmds g1 hgc hcv hst hr hg1
    obtain ⟨k1, k2, k3⟩ := treated_keep σ dops.bat law _ _ w hi.wf hi.nn σ.g gc _ cvs stations vw' cmds g1
      hgc hcv hst hr hg1
    exact ⟨cmds, t1, t2, rfl, ⟨k1, k2, e1.trans hi.gcb, e2.trans hi.strat⟩, k3⟩

/-! ### one step of `Distributed.step`, seen at connector `σ.g` -/

/-- What one step needs, stated at the strategy object the step starts from (`s.world` is the world after the base
step's event processing): the well-formedness of the world with respect to the selection; the property's premise (no
stationary battery, no V2G — both in `WF` —, no generation: no negative entry at any connector); the base step removed
the entries under the station ids of `σ.g`; the connector has a price (a stand-alone greedy / balanced evaluates `get_cost`
of every connector even when no vehicle is connected and raises `KeyError` for an empty `cost`; so does the final
pass of `Distributed.step`, hence the premise could be derived from the step's return — it is kept as a premise to
avoid carrying the price through the connector loop); the connector exists, has no `number_cs`, is of station type `kind`; `gc_battery` is empty; both sub-strategies are greedy /
balanced objects; the tolerance of the parent is not negative. -/
structure StepHyp (σ : Sel) (kind : Kind) (de : DEnv α) (s : DState α B) : Prop where
  wf : WF σ s.world
  nn : NonNegW s.world
  noE : ∀ g ∈ s.world.gcs, g.id = σ.g → ∀ k, σ.S.contains k = true → (sdGet g.loads k).getD 0 = 0
  cost : ∀ g ∈ s.world.gcs, g.id = σ.g → g.cost ≠ none
  gc : σ.g ∈ s.world.gcs.map (·.id)
  skip : skipPrio s.numberCs σ.g = true
  gcb : ∀ k, (sdGet s.init.gcBattery k).getD [] = []
  kind : sdGet s.init.strategies σ.g = some kind
  deps : de.deps.isRule
  opps : de.opps.isRule
  eps : 0 ≤ de.env.eps

theorem resetStations_smeta (w : SWorld α B) :
    (resetStations w).stations.map smeta = w.stations.map smeta := by
  unfold resetStations
  simp only [List.map_map]
  apply List.map_congr_left
  intro x _
  rfl

/-- **One step.** Whenever `Distributed.step` returns, the stand-alone greedy / balanced step (options of the
sub-strategy of the connector's station type, same clock) on the part of the world that belongs to connector `σ.g`
returns; its result is the part of the world after the distributed step, its commands are the distributed step's
commands for the connector's stations. -/
theorem step_proj (σ : Sel) (kind : Kind) (dops : DOps α B) (law : BatLaw dops.bat) (de : DEnv α)
    (s s' : DState α B) (cmds : List (String × α)) (hh : StepHyp σ kind de s)
    (h : step dops de s = .ok (s', cmds)) :
    ∃ cmdsR, ruleStep (de.sub kind).rule dops.bat ((de.sub kind).env de.env.now) (part σ s.world)
        = .ok (part σ s'.world, cmdsR) ∧
      cmdsR.filter (fun kv => σ.S.contains kv.1) = cmdsR ∧
      cmds.filter (fun kv => σ.S.contains kv.1) = sdUpdate [] cmdsR ∧
      WF σ s'.world ∧ s'.world.gcs.map (·.id) = s.world.gcs.map (·.id) ∧
      s'.numberCs = s.numberCs ∧ s'.init.gcBattery = s.init.gcBattery ∧
      s'.init.strategies = s.init.strategies := by
  unfold step at h
  simp only [bind, Except.bind] at h
  split at h
  · cases h
  · rename_i lk _
    split at h
    · cases h
    · rename_i connected _
      split at h
      · cases h
      · rename_i st3 hfold
        obtain ⟨w3, ini3, c3⟩ := st3
        simp only at h
        split at h
        · cases h
        · rename_i ids _
          split at h
          · cases h
          · rename_i r hsur
            obtain ⟨w4, c4⟩ := r
            simp only [Except.ok.injEq, Prod.mk.injEq] at h
            obtain ⟨rfl, rfl⟩ := h
            -- the world after the reset of the station powers
            have hwf0 : WF σ (resetStations s.world) :=
              WF_of_meta σ s.world _ rfl (resetStations_smeta s.world) rfl rfl hh.wf
            have hi0 : LInv σ s.init (resetStations s.world, s.init, ([] : List (String × α))) :=
              ⟨hwf0, hh.nn, rfl, rfl⟩
            -- split the list of connectors at `σ.g`
            obtain ⟨L1, L2, hL⟩ := List.append_of_mem hh.gc
            have hLn : (L1 ++ σ.g :: L2).Nodup := by rw [← hL]; exact hh.wf.gcN
            have hn1 : σ.g ∉ L1 := by
              intro hm
              have := (List.nodup_append.mp hLn).2.2 σ.g hm σ.g (by simp)
              exact this rfl
            have hn2 : σ.g ∉ L2 := (List.nodup_cons.mp (List.nodup_append.mp hLn).2.1).1
            have hL' : (resetStations s.world).gcs.map (·.id) = L1 ++ σ.g :: L2 := hL
            rw [hL'] at hfold
            obtain ⟨st1, hf1, hf23⟩ := foldlM_append' _ L1 (σ.g :: L2) _ _ hfold
            simp only [List.foldlM_cons, bind, Except.bind] at hf23
            cases hf2 : stepGc dops de s.numberCs connected lk st1 σ.g with
            | error e => simp [hf2] at hf23
            | ok st2 =>
              simp only [hf2] at hf23
              obtain ⟨w1, ini1, c1⟩ := st1
              obtain ⟨w2, ini2, c2⟩ := st2
              obtain ⟨i1, p1, f1, g1⟩ := loop_other σ dops law de hh.deps hh.opps s.numberCs connected lk s.init
                hh.gcb L1 hn1 _ _ hi0 hf1
              simp only at p1 f1 g1
              have hres : ∀ st ∈ w1.stations, σ.S.contains st.id = true → st.currentPower = 0 := by
                intro st hst hS
                have : st ∈ (part σ w1).stations := List.mem_filter.mpr ⟨hst, hS⟩
                rw [p1] at this
                have := (List.mem_filter.mp this).1
                unfold resetStations at this
                simp only [List.mem_map] at this
                obtain ⟨x, _, rfl⟩ := this
                rfl
              have hgmem : ∀ g ∈ w1.gcs, g.id = σ.g → g ∈ s.world.gcs := by
                intro g hg hid
                have : g ∈ (part σ w1).gcs := List.mem_filter.mpr ⟨hg, by simp [hid]⟩
                rw [p1] at this
                exact (List.mem_filter.mp this).1
              obtain ⟨cmdsg, r1, r2, r3, i2, g2⟩ := loop_self σ dops law de hh.deps hh.opps s.numberCs connected lk
                s.init hh.gcb kind hh.kind hh.skip w1 w2 ini1 ini2 c1 c2 i1 hres
                (fun g hg hid => hh.noE g (hgmem g hg hid) hid)
                (fun g hg hid => hh.cost g (hgmem g hg hid) hid) hf2
              obtain ⟨i3, p3, f3, g3⟩ := loop_other σ dops law de hh.deps hh.opps s.numberCs connected lk s.init
                hh.gcb L2 hn2 _ _ i2 hf23
              simp only at p3 f3 g3
              -- the final surplus pass does nothing
              obtain ⟨e1, e2⟩ := finalPass_id dops.bat de.env hh.eps w3 w4 ids c4 i3.nn i3.wf.v2g hsur
              subst e1 e2
              refine ⟨cmdsg, ?_, r2, ?_, i3.wf, ?_, rfl, i3.gcb, i3.strat⟩
              · rw [p3, ← r1, p1, part_resetStations, ruleStep_reset]
              · show c3.filter _ = _
                rw [f3, r3, sdUpdate_filter, f1, r2]
                rfl
              · show w4.gcs.map (·.id) = _
                rw [g3, g2, g1]
                rfl

/-! ### the commands of a greedy / balanced step form a dict (distinct keys) -/

theorem sdSet_key_mem {β : Type} (l : List (String × β)) (k : String) (v : β) (x : String)
    (h : x ∈ (sdSet l k v).map (·.1)) : x ∈ l.map (·.1) ∨ x = k := by
  induction l with
  | nil => simp [sdSet] at h; exact Or.inr h
  | cons kv rest ih =>
    obtain ⟨k', v'⟩ := kv
    unfold sdSet at h
    split at h
    · simp only [List.map_cons, List.mem_cons] at h ⊢
      exact Or.inl h
    · simp only [List.map_cons, List.mem_cons] at h ⊢
      rcases h with h | h
      · exact Or.inl (Or.inl h)
      · rcases ih h with h' | h'
        · exact Or.inl (Or.inr h')
        · exact Or.inr h'

theorem sdSet_nodup {β : Type} (l : List (String × β)) (k : String) (v : β) (h : (l.map (·.1)).Nodup) :
    ((sdSet l k v).map (·.1)).Nodup := by
  induction l with
  | nil => simp [sdSet]
  | cons kv rest ih =>
    obtain ⟨k', v'⟩ := kv
    rw [List.map_cons] at h
    obtain ⟨h1, h2⟩ := List.nodup_cons.mp h
    unfold sdSet
    split
    · rw [List.map_cons]; exact List.nodup_cons.mpr ⟨h1, h2⟩
    · rename_i hne
      rw [List.map_cons]
      refine List.nodup_cons.mpr ⟨?_, ih h2⟩
      intro hm
      rcases sdSet_key_mem rest k v k' hm with h' | h'
      · exact h1 h'
      · exact hne (by simp [h'])

theorem sdUpdate_nodup {β : Type} (l c : List (String × β)) (h : (l.map (·.1)).Nodup) :
    ((sdUpdate l c).map (·.1)).Nodup := by
  unfold sdUpdate
  induction c generalizing l with
  | nil => exact h
  | cons kv c ih => simp only [List.foldl_cons]; exact ih _ (sdSet_nodup l kv.1 kv.2 h)

theorem sdSet_append_of_not_mem {β : Type} (l : List (String × β)) (k : String) (v : β)
    (h : k ∉ l.map (·.1)) : sdSet l k v = l ++ [(k, v)] := by
  induction l with
  | nil => rfl
  | cons kv rest ih =>
    obtain ⟨k', v'⟩ := kv
    simp only [List.map_cons, List.mem_cons, not_or] at h
    unfold sdSet
    have : (k' == k) = false := by simpa using fun e => h.1 e.symm
    simp only [this, Bool.false_eq_true, if_false, List.cons_append]
    rw [ih h.2]

/-- `dict.update` of a dict with distinct new keys appends -/
theorem sdUpdate_append {β : Type} (c l : List (String × β)) (h : ((l ++ c).map (·.1)).Nodup) :
    sdUpdate l c = l ++ c := by
  induction c generalizing l with
  | nil => simp [sdUpdate]
  | cons kv c ih =>
    obtain ⟨k, v⟩ := kv
    have hk : k ∉ l.map (·.1) := by
      intro hm
      rw [List.map_append] at h
      exact (List.nodup_append.mp h).2.2 k hm k (by simp) rfl
    show sdUpdate (sdSet l k v) c = _
    rw [sdSet_append_of_not_mem l k v hk, ih (l ++ [(k, v)]) (by simpa using h)]
    simp

theorem sdUpdate_nil {β : Type} (c : List (String × β)) (h : (c.map (·.1)).Nodup) : sdUpdate [] c = c := by
  simpa using sdUpdate_append c [] (by simpa using h)

theorem ruleStep_cmds_nodup (rule : Rule) (ops : BatOps α B) (env : StratEnv α) (w w' : SWorld α B)
    (cmds : List (String × α)) (h : ruleStep rule ops env w = .ok (w', cmds)) : (cmds.map (·.1)).Nodup := by
  unfold ruleStep at h
  cases ha : availBatPower ops w with
  | error e => simp [ha, bind, Except.bind] at h
  | ok avail =>
    simp only [ha, bind, Except.bind] at h
    cases hf : (sortedVehicleIds (resetStations w)).foldlM (allocVehicle rule ops env)
        (resetStations w, [], avail) with
    | error e => simp [hf] at h
    | ok st1 =>
      obtain ⟨w1, c1, a1⟩ := st1
      simp only [hf] at h
      have h1 : (c1.map (·.1)).Nodup :=
        foldlM_inv (allocVehicle rule ops env) (fun s => (s.2.1.map (·.1)).Nodup)
          (fun s x s' hi hs => by
            obtain ⟨v, hv, hc⟩ := allocVehicle_cases rule ops env s s' x hs
            rcases hc with ⟨_, he⟩ | ⟨csId, cs, gc, cheap, power, used, bat', avg, hcs, hst, hgc, _, _, _, he⟩
            · rw [he]; exact hi
            · rw [he]; exact sdSet_nodup _ _ _ hi) _ _ (w1, c1, a1) (by simp) hf
      cases hds : distributeSurplus ops env w1 with
      | error e => simp [hds] at h
      | ok r2 =>
        obtain ⟨w2, c2⟩ := r2
        simp only [hds] at h
        cases hu : updateBatteries ops env w2 with
        | error e => simp [hu] at h
        | ok w3 =>
          simp only [hu, Except.ok.injEq, Prod.mk.injEq] at h
          obtain ⟨_, rfl⟩ := h
          exact sdUpdate_nodup c1 c2 h1

/-- `step_proj` with the commands as a dict: the distributed step's commands for the connector's stations ARE the
stand-alone step's commands -/
theorem step_proj' (σ : Sel) (kind : Kind) (dops : DOps α B) (law : BatLaw dops.bat) (de : DEnv α)
    (s s' : DState α B) (cmds : List (String × α)) (hh : StepHyp σ kind de s)
    (h : step dops de s = .ok (s', cmds)) :
    ruleStep (de.sub kind).rule dops.bat ((de.sub kind).env de.env.now) (part σ s.world)
        = .ok (part σ s'.world, cmds.filter (fun kv => σ.S.contains kv.1)) ∧
      WF σ s'.world ∧ s'.world.gcs.map (·.id) = s.world.gcs.map (·.id) ∧
      s'.numberCs = s.numberCs ∧ s'.init.gcBattery = s.init.gcBattery ∧
      s'.init.strategies = s.init.strategies := by
  obtain ⟨cmdsR, r, _, c, rest⟩ := step_proj σ kind dops law de s s' cmds hh h
  rw [sdUpdate_nil cmdsR (ruleStep_cmds_nodup _ _ _ _ _ _ r)] at c
  rw [c]
  exact ⟨r, rest⟩

/-! ### the run -/

/-- what the selection demands of a vehicle: connected to a real station id, selected iff its station is; no V2G -/
def VeOK (σ : Sel) (v : VehicleS α B) : Prop :=
  (∀ c, v.cs = some c → c ≠ "" ∧ σ.V.contains v.id = σ.S.contains c) ∧ v.v2g = false

/-- Premises on the strategy object at the beginning of the period (they are kept by every step): ids unique, a station
is selected iff it hangs on `σ.g`, every vehicle meets `VeOK`, no stationary batteries, `σ.g` has no `number_cs` and is of
station type `kind`. -/
structure StateOK (σ : Sel) (kind : Kind) (s : DState α B) : Prop where
  stN : (s.world.stations.map (·.id)).Nodup
  veN : (s.world.vehicles.map (·.id)).Nodup
  st : ∀ x ∈ s.world.stations, σ.S.contains x.id = (x.parent == σ.g)
  ve : ∀ v ∈ s.world.vehicles, VeOK σ v
  bats : s.world.batteries = []
  skip : skipPrio s.numberCs σ.g = true
  gcb : ∀ k, (sdGet s.init.gcBattery k).getD [] = []
  kind : sdGet s.init.strategies σ.g = some kind

/-- Premises on what the simulation loop hands to one step: connector ids unique, no negative entry (no generation),
no entry under a station id of `σ.g`, `σ.g` present and priced; greedy / balanced sub-strategies, tolerance ≥ 0; the
vehicle events keep ids and `VeOK` (arrivals at / departures from the right stations, no V2G). -/
structure InOK (σ : Sel) (i : StepIn α B) : Prop where
  gcN : (i.gcs.map (·.id)).Nodup
  nn : ∀ g ∈ i.gcs, ∀ kv ∈ g.loads, 0 ≤ kv.2
  noE : ∀ g ∈ i.gcs, g.id = σ.g → ∀ k, σ.S.contains k = true → (sdGet g.loads k).getD 0 = 0
  cost : ∀ g ∈ i.gcs, g.id = σ.g → g.cost ≠ none
  gc : σ.g ∈ i.gcs.map (·.id)
  deps : i.de.deps.isRule
  opps : i.de.opps.isRule
  eps : 0 ≤ i.de.env.eps
  updId : ∀ v, (i.upd v).id = v.id
  updOK : ∀ v, VeOK σ v → VeOK σ (i.upd v)

theorem stepHyp_enter (σ : Sel) (kind : Kind) (s : DState α B) (i : StepIn α B) (hs : StateOK σ kind s)
    (hi : InOK σ i) : StepHyp σ kind i.de (enter i s) := by
  have hids : (s.world.vehicles.map i.upd).map (·.id) = s.world.vehicles.map (·.id) := by
    rw [List.map_map]
    apply List.map_congr_left
    intro v _
    exact hi.updId v
  have hve : ∀ v ∈ s.world.vehicles.map i.upd, VeOK σ v := by
    intro v hv
    obtain ⟨x, hx, rfl⟩ := List.mem_map.mp hv
    exact hi.updOK x (hs.ve x hx)
  exact {
    wf := ⟨hi.gcN, hs.stN, by show ((s.world.vehicles.map i.upd).map (·.id)).Nodup; rw [hids]; exact hs.veN,
      hs.st, fun v hv c hc => (hve v hv).1 c hc, hs.bats, fun v hv => (hve v hv).2⟩
    nn := hi.nn
    noE := hi.noE
    cost := hi.cost
    gc := hi.gc
    skip := hs.skip
    gcb := hs.gcb
    kind := hs.kind
    deps := hi.deps
    opps := hi.opps
    eps := hi.eps }

theorem part_enterWorld (σ : Sel) (i : StepIn α B) (hid : ∀ v, (i.upd v).id = v.id) (w : SWorld α B) :
    part σ (enterWorld i w) = enterWorld (StepIn.restrict σ.g i) (part σ w) := by
  unfold enterWorld part StepIn.restrict
  simp only
  congr 1
  exact filter_map_comm (fun (v : VehicleS α B) => σ.V.contains v.id) i.upd (fun v => by rw [hid v]) w.vehicles

/-- **The run.** Whenever the distributed strategy gets through the steps `ins` from the strategy object `s`, the
stand-alone greedy / balanced strategy of the connector's station type gets through the same steps on the connector's
part of the world (inputs restricted to that connector), and at every step the part of the distributed world —
connector with its loads, stations with their power, vehicles with their batteries — and the commands for the
connector's stations are the stand-alone strategy's. -/
theorem runD_proj (σ : Sel) (kind : Kind) (dops : DOps α B) (law : BatLaw dops.bat) :
    ∀ (ins : List (StepIn α B)) (s : DState α B) (trace : List (DState α B × List (String × α))),
      StateOK σ kind s → (∀ i ∈ ins, InOK σ i) → runD dops s ins = .ok trace →
      runSub kind dops.bat (part σ s.world) (ins.map (StepIn.restrict σ.g))
        = .ok (trace.map (fun r => (part σ r.1.world, r.2.filter (fun kv => σ.S.contains kv.1)))) := by
  intro ins
  induction ins with
  | nil =>
    intro s trace _ _ h
    simp only [runD, Except.ok.injEq] at h
    subst h
    rfl
  | cons i ins ih =>
    intro s trace hs hi h
    have hi0 := hi i (by simp)
    simp only [runD, bind, Except.bind] at h
    cases h1 : step dops i.de (enter i s) with
    | error e => simp [h1] at h
    | ok r =>
      obtain ⟨s1, cmds⟩ := r
      simp only [h1] at h
      cases h2 : runD dops s1 ins with
      | error e => simp [h2] at h
      | ok tl =>
        simp only [h2, Except.ok.injEq] at h
        subst h
        obtain ⟨r1, wf1, _, n1, g1, k1⟩ := step_proj' σ kind dops law i.de (enter i s) s1 cmds
          (stepHyp_enter σ kind s i hs hi0) h1
        have hs1 : StateOK σ kind s1 :=
          ⟨wf1.stN, wf1.veN, wf1.st, fun v hv => ⟨fun c hc => wf1.ve v hv c hc, wf1.v2g v hv⟩, wf1.bats,
            by rw [n1]; exact hs.skip, by rw [g1]; exact hs.gcb, by rw [k1]; exact hs.kind⟩
        have ih' := ih s1 tl hs1 (fun j hj => hi j (by simp [hj])) h2
        simp only [List.map_cons, runSub, bind, Except.bind]
        have e1 : (StepIn.restrict σ.g i).de = i.de := rfl
        rw [e1, ← part_enterWorld σ i hi0.updId s.world]
        have : (enter i s).world = enterWorld i s.world := rfl
        rw [this] at r1
        rw [r1]
        simp only
        rw [ih']

/-! ### independence of the other connectors over a run -/

/-- two step inputs agree at connector `σ.g`: same sub-strategy options and clock, the same connector object, the same
vehicle events for the selected vehicles -/
structure SameAt (σ : Sel) (kind : Kind) (i j : StepIn α B) : Prop where
  sub : i.de.sub kind = j.de.sub kind
  now : i.de.env.now = j.de.env.now
  gcs : i.gcs.filter (fun x => x.id == σ.g) = j.gcs.filter (fun x => x.id == σ.g)
  upd : ∀ v, σ.V.contains v.id = true → i.upd v = j.upd v

theorem runSub_congr (σ : Sel) (kind : Kind) (ops : BatOps α B) :
    ∀ (ins1 ins2 : List (StepIn α B)), List.Forall₂ (SameAt σ kind) ins1 ins2 →
      (∀ i ∈ ins1, ∀ v, (i.upd v).id = v.id) →
      ∀ (w : SWorld α B), (∀ v ∈ w.vehicles, σ.V.contains v.id = true) →
      runSub kind ops w (ins1.map (StepIn.restrict σ.g)) = runSub kind ops w (ins2.map (StepIn.restrict σ.g)) := by
  intro ins1 ins2 hf
  induction hf with
  | nil => intro _ w _; rfl
  | @cons i j l1 l2 hij _ ih =>
    intro hid w hw
    have hw' : enterWorld (StepIn.restrict σ.g i) w = enterWorld (StepIn.restrict σ.g j) w := by
      unfold enterWorld StepIn.restrict
      simp only
      rw [hij.gcs]
      congr 1
      apply List.map_congr_left
      intro v hv
      exact hij.upd v (hw v hv)
    simp only [List.map_cons, runSub, bind, Except.bind]
    have e1 : (StepIn.restrict σ.g i).de = i.de := rfl
    have e2 : (StepIn.restrict σ.g j).de = j.de := rfl
    rw [e1, e2, hw', hij.sub, hij.now]
    cases hr : ruleStep (j.de.sub kind).rule ops ((j.de.sub kind).env j.de.env.now)
        (enterWorld (StepIn.restrict σ.g j) w) with
    | error e => rfl
    | ok r =>
      simp only
      have hv1 : ∀ v ∈ r.1.vehicles, σ.V.contains v.id = true := by
        refine ruleStep_vstatic (fun v => σ.V.contains v.id = true) (fun v b hq => hq) _ _ _ _ r.1 r.2 ?_ hr
        intro v hv
        rw [← hw'] at hv
        have : v ∈ w.vehicles.map i.upd := hv
        obtain ⟨x, hx, rfl⟩ := List.mem_map.mp this
        rw [hid i (by simp) x]; exact hw x hx
      rw [ih (fun k hk v => hid k (by simp [hk]) v) r.1 hv1]

/-- **Independence over a run.** Two distributed runs — different other connectors, stations, vehicles, loads, prices,
events — whose worlds agree on connector `σ.g`'s part at the beginning and whose step inputs agree at `σ.g` produce,
at every step, the same part at `σ.g` (loads, station powers, SoCs) and the same commands for its stations. -/
theorem runD_independent (σ : Sel) (kind : Kind) (dops : DOps α B) (law : BatLaw dops.bat)
    (ins1 ins2 : List (StepIn α B)) (s1 s2 : DState α B)
    (t1 t2 : List (DState α B × List (String × α)))
    (hs1 : StateOK σ kind s1) (hs2 : StateOK σ kind s2)
    (hi1 : ∀ i ∈ ins1, InOK σ i) (hi2 : ∀ i ∈ ins2, InOK σ i)
    (hsame : List.Forall₂ (SameAt σ kind) ins1 ins2) (hpart : part σ s1.world = part σ s2.world)
    (h1 : runD dops s1 ins1 = .ok t1) (h2 : runD dops s2 ins2 = .ok t2) :
    t1.map (fun r => (part σ r.1.world, r.2.filter (fun kv => σ.S.contains kv.1)))
      = t2.map (fun r => (part σ r.1.world, r.2.filter (fun kv => σ.S.contains kv.1))) := by
  have p1 := runD_proj σ kind dops law ins1 s1 t1 hs1 hi1 h1
  have p2 := runD_proj σ kind dops law ins2 s2 t2 hs2 hi2 h2
  have hV : ∀ v ∈ (part σ s1.world).vehicles, σ.V.contains v.id = true := by
    intro v hv
    have hv' : v ∈ s1.world.vehicles.filter (fun v => σ.V.contains v.id) := hv
    exact (List.mem_filter.mp hv').2
  rw [runSub_congr σ kind dops.bat ins1 ins2 hsame (fun i hi v => (hi1 i hi).updId v) _ hV, hpart, p2] at p1
  exact (Except.ok.inj p1).symm

/-! ### the projection read object by object -/

theorem part_vehicle?_eq (σ : Sel) (w : SWorld α B) (vid : String) (h : σ.V.contains vid = true) :
    (part σ w).vehicle? vid = w.vehicle? vid := by
  cases hv : w.vehicle? vid with
  | some v => exact part_vehicle? σ w vid v hv h
  | none => exact find?_filter_none _ _ _ hv

theorem part_station?_eq (σ : Sel) (w : SWorld α B) (c : String) (h : σ.S.contains c = true) :
    (part σ w).station? c = w.station? c := by
  cases hv : w.station? c with
  | some v => exact part_station? σ w c v hv h
  | none => exact find?_filter_none _ _ _ hv

/-- what "the same result at the connector" means object by object: the connector, every selected station, every
selected vehicle, every command for a selected station -/
def SameAtGc (σ : Sel) (rD : DState α B × List (String × α)) (rR : SWorld α B × List (String × α)) : Prop :=
  rR.1.gc? σ.g = rD.1.world.gc? σ.g ∧
  (∀ c, σ.S.contains c = true → rR.1.station? c = rD.1.world.station? c) ∧
  (∀ vid, σ.V.contains vid = true → rR.1.vehicle? vid = rD.1.world.vehicle? vid) ∧
  (∀ c, σ.S.contains c = true → sdGet rR.2 c = sdGet rD.2 c)

theorem sameAtGc_map (σ : Sel) (trace : List (DState α B × List (String × α))) :
    List.Forall₂ (SameAtGc σ) trace
      (trace.map (fun r => (part σ r.1.world, r.2.filter (fun kv => σ.S.contains kv.1)))) := by
  induction trace with
  | nil => exact List.Forall₂.nil
  | cons r tl ih =>
    refine List.Forall₂.cons ⟨part_gc? σ _, fun c hc => part_station?_eq σ _ c hc,
      fun vid hv => part_vehicle?_eq σ _ vid hv, fun c hc => ?_⟩ ih
    exact sdGet_filter (fun k => σ.S.contains k) r.2 c hc

end SpiceEv.DistRun
