"""C06 — reported powers and SoCs balance (power conservation, energy bookkeeping)."""
import runcheck
import runoracle

PID = "C06"
CHUNK = 4
RULE = ("scenarios from the grammar in harness/scen.py, every strategy, real Scenario.run with run-time trace of the "
        "world state before/after the strategy step and after battery losses plus every Battery.load/unload; "
        "non-trivial = the run reported at least one step; distinct = distinct (seed, index, strategy)")
ASSUMPTIONS = ["energy identity tolerance 1e-7 relative / 1e-9 absolute in SoC units (float rounding of the closed form)",
               "a step in which one battery is both charged and discharged (or probed and restored) is judged on the chain "
               "of recorded operations that leads from the SoC before to the SoC after the step",
               "every run also carries the step-level tie of its strategy: the world before each strategy step is rendered for the Lean model of that strategy class, and commands, connector loads, station powers and SoCs after the real step are compared bit for bit"]
UNPROVED = ["energy bookkeeping is a theorem for schedule-individual, peak_shaving (booking) and flex_window (station entries); "
            "for the other strategies it is decided by the operation-chain oracle on real runs"]


def compare(case, impl, model):
    if case.get("k") == "losses":
        return None if impl == model else "differs"
    return runcheck.compare(case, impl, model)


def gen_cases(tier, seed):
    # Strategy.apply_battery_losses, exact, on a rational grid
    for soc in ["0", "1/1000", "1/2", "1"]:
        for cap in ["1/2", "50", "18446744073709551616"]:
            for rel in ["0", "1/2", "10", "100"]:
                for fr in ["0", "1/10", "60"]:
                    for fa in ["0", "1/20", "30"]:
                        yield {"k": "losses", "a": [soc, cap, rel, fr, fa]}
    yield from runcheck.gen_cases_for(PID, tier, seed, per_strategy_quick=250, per_strategy_thorough=2500,
                                  builder_quick=60, builder_thorough=600)


def eval_losses(case):
    from types import SimpleNamespace as NS
    from exact import Q
    from spice_ev.strategy import Strategy
    soc, cap, rel, fr, fa = [Q(x) for x in case["a"]]
    lr = {}
    if rel != 0:
        lr["relative"] = rel
    if fr != 0:
        lr["fixed_relative"] = fr
    if fa != 0:
        lr["fixed_absolute"] = fa
    b = NS(soc=soc, capacity=cap, loss_rate=lr)
    fake = NS(world_state=NS(batteries={"b": b}, vehicles={}))
    Strategy.apply_battery_losses(fake)
    got = Q(b.soc)
    want = max(soc * (1 - rel / 100) - fr / 100 - fa / cap, Q(0))
    viol = []
    if got != want:
        viol.append(("losses", "C06:self_discharge_formula", "%s != %s" % (got, want)))
    if not (Q(0) <= got <= soc):
        viol.append(("losses", "C06:self_discharge_raises_or_negative", "%s -> %s" % (soc, got)))
    return {"lines": ["losses q " + " ".join(case["a"])], "impl": [str(got)], "violations": viol,
            "nontrivial": bool(lr), "stats": ["losses"]}


def eval_case(case):
    if case.get("k") == "losses":
        return eval_losses(case)
    return runcheck.eval_run(case, [runoracle.check_c06])
