/-
A small exact battery on ℚ (state = SoC; 10 kWh, lossless, one-hour steps, at most 5 kW in either
direction) that satisfies `BatLaw`, and concrete worlds: used by the non-vacuity examples of the
`Cxx_balanced_market_…` theorems (the whole step is evaluated by the kernel, `decide +kernel`).
-/
import SpiceEv.Proofs.StratBalancedMarket
import SpiceEv.Proofs.StratBalancedMarketLimit
namespace SpiceEv.BalancedMarket
open SpiceEv

def toyLoad (b : ℚ) (mp ts tp : Option ℚ) : Py (ℚ × ℚ) :=
  let cap := pymin (mp.getD 5) 5
  let want := match tp with
    | some p => pymin cap p
    | none => cap
  let tgt : ℚ := match ts with
    | some s => pymin s 1
    | none => 1
  let p := pymax 0 (pymin want ((tgt - b) * 10))
  .ok (b + p / 10, p)

def toyUnload (b : ℚ) (mp ts tp : Option ℚ) : Py (ℚ × ℚ) :=
  let cap := pymin (mp.getD 5) 5
  let want := match tp with
    | some p => pymin cap p
    | none => cap
  let tgt : ℚ := match ts with
    | some s => pymax s 0
    | none => 0
  let p := pymax 0 (pymin want ((b - tgt) * 10))
  .ok (b - p / 10, p)

def toyOps : Ops ℚ ℚ where
  soc b := b
  capacity _ := 10
  efficiency _ := 1
  unloadMaxPower _ := 5
  load := toyLoad
  unload := toyUnload
  available b := .ok (pymax 0 (pymin 5 (b * 10)))
  setSoc _ s := s
  sum l := l.foldl (· + ·) 0

theorem toyLaw : BatLaw toyOps.toBatOps where
  load_max := by
    intro b p b' avg h
    simp only [toyOps, toyLoad, Option.getD_some, Except.ok.injEq, Prod.mk.injEq, pymin_eq, pymax_eq] at h
    obtain ⟨_, rfl⟩ := h
    refine ⟨le_max_left _ _, max_le (le_max_right _ _) ?_⟩
    exact le_trans (min_le_left _ _) (le_trans (min_le_left _ _) (le_max_left _ _))
  load_target := by
    intro b p b' avg h
    simp only [toyOps, toyLoad, Option.getD_none, Except.ok.injEq, Prod.mk.injEq, pymin_eq, pymax_eq] at h
    obtain ⟨_, rfl⟩ := h
    refine ⟨le_max_left _ _, max_le (le_max_right _ _) ?_⟩
    exact le_trans (min_le_left _ _) (le_trans (min_le_right _ _) (le_max_left _ _))
  unload_max := by
    intro b p ts b' avg h
    simp only [toyOps, toyUnload, Option.getD_some, Except.ok.injEq, Prod.mk.injEq, pymin_eq, pymax_eq] at h
    obtain ⟨_, rfl⟩ := h
    refine ⟨le_max_left _ _, max_le (le_max_right _ _) ?_⟩
    exact le_trans (min_le_left _ _) (le_trans (min_le_left _ _) (le_max_left _ _))
  unload_target := by
    intro b x b' avg h
    simp only [toyOps, toyUnload, Option.getD_none, Except.ok.injEq, Prod.mk.injEq, pymin_eq, pymax_eq] at h
    obtain ⟨_, rfl⟩ := h
    refine ⟨le_max_left _ _, max_le (le_max_right _ _) ?_⟩
    exact le_trans (min_le_left _ _) (le_trans (min_le_right _ _) (le_max_left _ _))
  available_nonneg := by
    intro b a h
    simp only [toyOps, Except.ok.injEq, pymin_eq, pymax_eq] at h
    subst h
    exact le_max_left _ _

/-- the toy battery's state is its SoC, so every copy with the SoC restored is the original -/
theorem toySim : SimLaw toyOps (fun _ _ => True) where
  refl := fun _ => trivial
  load := fun _ _ _ _ _ _ _ _ _ => trivial
  unload := fun _ _ _ _ _ _ _ _ _ => trivial
  setSoc := fun _ _ _ _ => trivial
  restore := fun _ _ _ => rfl

def hourUs : Int := 3600000000

/-- one connector (20 kW, 4 kW fixed load, 0.30 now), one 11 kW station -/
def toyGc : GcS ℚ := ⟨"GC", 20, some (.fixed (3/10)), [("load", 4)]⟩
def toyCs : StationS ℚ := ⟨"CS1", "GC", 11, 0, 0⟩
/-- vehicle at SoC 0.5 wanting 0.8, leaving after two steps -/
def toyVeh (v2g : Bool) (soc : ℚ) : VehicleS ℚ ℚ := ⟨"v1", some "CS1", 8/10, some (2 * hourUs), 0, v2g, 1/2, soc⟩
def toyWorld (v2g : Bool) (soc : ℚ) : SWorld ℚ ℚ := ⟨[toyGc], [toyCs], [toyVeh v2g soc], []⟩

/-- four one-hour steps of look-ahead; `nextPrice` = price announced for the next step onwards -/
def toyEnv (nextPrice : Option ℚ) : Env ℚ :=
  ⟨1/100000, 0, 0, hourUs, 4 * hourUs, 0,
   match nextPrice with
   | some c => [.signal hourUs "GC" none (some (some (.fixed c)))]
   | none => [],
   []⟩

end SpiceEv.BalancedMarket
