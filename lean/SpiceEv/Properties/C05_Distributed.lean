/-
C05 for the charging strategy `distributed` (model: Model/StratDistributed.lean, tied to the code step by step at
the bit level by harness/s_distributed.py).

* complete `Distributed.step`: no station ends above its (concurrency-scaled) maximum — through the delegation to
  greedy / balanced on the virtual worlds (inherits `C05_greedy_balanced_station`), the virtual stations of the
  stationary batteries, the write-back and the final surplus pass over the charging-point holders;
* every call of the final surplus pass body (one per holder): at most one booking, at the station the vehicle is
  connected to; a discharge needs a V2G-capable vehicle, is at most the station maximum, and — with the repaired
  guard (fix 64265e7) — is only taken while the station's entry at the connector is below `eps` in absolute value,
  so a station that already discharged noticeably in this step (in the sub-strategy's own V2G pass) is skipped.
-/
import SpiceEv.Proofs.StratDistributedLower
set_option linter.unusedSectionVars false
set_option linter.unusedVariables false
namespace SpiceEv
open SpiceEv.Distrib SpiceEv.Frame
variable {α : Type} [Field α] [LinearOrder α] [IsStrictOrderedRing α]

/-- **Delegated greedy / balanced step + repair DIST2: no station above its maximum, and the repair is a no-op.**
For the virtual world of one connector (`⟨[gc], stations, vehicles, batteries⟩`, every station's parent is the
connector, no entry under a station id at the connector, no battery id is a station id, station maxima ≥ 0): after the
sub-strategy's step, setting every station's power to its entry at the connector (`syncStations`, fixes/DIST2.diff)
changes nothing, and every station is at or below its maximum. -/
theorem C05_distributed_substep_station_upper {B : Type} (rule : Rule) (ops : BatOps α B) (law : BatLaw ops)
    (env : StratEnv α) (gc : GcS α) (ss : List (StationS α)) (vs : List (VehicleS α B)) (bs : List (StatBatS α B))
    (vw' : SWorld α B) (cmds : List (String × α))
    (hmax : ∀ s ∈ ss, 0 ≤ s.maxPower) (hpar : ∀ s ∈ ss, s.parent = gc.id)
    (hno : ∀ s ∈ ss, (sdGet gc.loads s.id).getD 0 = 0) (hd : ∀ s ∈ ss, ∀ b ∈ bs, s.id ≠ b.id)
    (h : ruleStep rule ops env ⟨[gc], ss, vs, bs⟩ = .ok (vw', cmds)) :
    syncStations vw' = vw' ∧ ∀ s ∈ (syncStations vw').stations, s.currentPower ≤ s.maxPower := by
  obtain ⟨g1, hg1, hid, _, _⟩ := ruleStep_single rule ops env gc ss vs bs vw' cmds h
  have hb := (ruleStep_booked rule ops law env ⟨[gc], ss, vs, bs⟩ vw' cmds
    (by
      intro s hs g hg _
      simp only [List.mem_cons, List.not_mem_nil, or_false] at hg
      subst hg; exact hno s hs) (fun s hs b hb => hd s hs b hb) h).1
  have hp := ruleStep_static (fun s => s.parent = gc.id) (fun s c hs => hs) rule ops env _ vw' cmds hpar h
  have hnoop := syncStations_noop vw' g1 hg1 hb (fun s hs => (hp s hs).trans hid.symm)
  refine ⟨hnoop, ?_⟩
  rw [hnoop]
  exact C05_greedy_balanced_station rule ops law env _ vw' cmds hmax h

/-- **The final surplus pass keeps every station at or below its maximum** — `clamp_power` reads the station's power,
which after DIST2 is what was booked for it by the sub-strategy (`C06_distributed_sync_booked`), whatever its class: a
station that peak_shaving already charged to its maximum is offered nothing more (the defect of the replay
corpus/S_DISTRIBUTED/dist2_peak_shaving_station_power.json: 7.4 kW at a 3.7 kW station). -/
theorem C05_distributed_final_pass_upper {B : Type} (ops : BatOps α B) (law : BatLaw ops) (env : StratEnv α)
    (w w' : SWorld α B) (ids : List String) (cmds' : List (String × α))
    (hinv : ∀ s ∈ w.stations, s.currentPower ≤ s.maxPower)
    (h : distributeSurplusOn ops env w ids = .ok (w', cmds')) :
    ∀ s ∈ w'.stations, s.currentPower ≤ s.maxPower :=
  distributeSurplusOn_station ops law env w w' ids cmds' hinv h

/-- **No station above its maximum after the complete step** (repaired model, fixes/DIST2.diff) — for sub-strategies
greedy, balanced and peak_shaving.  For any battery obeying `BatLaw`, any number of connectors of either station type,
`number_cs`, stationary batteries (supporting, or simulated as virtual vehicles at virtual stations), V2G: after
`Distributed.step` every station's accumulated power is at most its maximum.  (The same premise `SideOK` covers a
peak_load_window sub-strategy: Properties/C05_PeakLoadWindow.lean.)
Premises on the state before the step: station maxima (real and virtual) ≥ 0; connector ids distinct; no connector carries
an entry under a station id or a virtual station's id (`LoopHyp.noEntry / noVirt`: the base step removed them), no battery
id listed in `gc_battery` is a station id (`disj`), the virtual station of a battery belongs to the battery's connector
(`vpar`: `__init__` builds it so).  Premise on a peak_shaving sub-strategy (`SideOK`, `True` for greedy / balanced): its
step on a connector's virtual world without station entries, followed by DIST2, returns one connector with the same id,
leaves every station at or below its maximum and keeps station ids and parents — the content of
`C05_peak_shaving_commands` / `C05_peak_shaving_station` (Properties/C05_PeakShaving.lean) for the booked entries.
The proof carries "a connector that has not been treated yet is still the connector of the beginning of the step" through
the loop over the connectors (`LoopInv`), uses `C05_greedy_balanced_station` + "DIST2 is a no-op on a booked world" for
greedy / balanced (`ruleStep_subOK`), and the clamp of the final surplus pass. -/
theorem C05_distributed_station_upper {B : Type} (dops : DOps α B) (law : BatLaw dops.bat) (de : DEnv α)
    (hsd : SideOK dops de.deps de) (hso : SideOK dops de.opps de)
    (s s' : DState α B) (cmds : List (String × α))
    (hgnd : (s.world.gcs.map (·.id)).Nodup)
    (hmax : ∀ st ∈ s.world.stations, 0 ≤ st.maxPower) (hvirt : ∀ st ∈ s.init.virtualCs, 0 ≤ st.maxPower)
    (hyp : LoopHyp (resetStations s.world) s.init (s.world.stations.map (·.id)))
    (h : step dops de s = .ok (s', cmds)) :
    ∀ st ∈ s'.world.stations, st.currentPower ≤ st.maxPower := by
  unfold step at h
  simp only [bind, Except.bind] at h
  split at h
  · cases h
  · rename_i lk _
    split at h
    · cases h
    · rename_i connected _
      split at h
      · cases h
      · rename_i st1 hfold
        obtain ⟨w1, ini1, c1⟩ := st1
        simp only at h
        split at h
        · cases h
        · rename_i ids _
          split at h
          · cases h
          · rename_i r hsur
            obtain ⟨w2, c2⟩ := r
            simp only [Except.ok.injEq, Prod.mk.injEq] at h
            obtain ⟨rfl, _⟩ := h
            have hinv1 := stepGc_loop_fold dops law de hsd hso s.numberCs connected lk (resetStations s.world) s.init
              (s.world.stations.map (·.id)) hyp _ hgnd _ (w1, ini1, c1)
              (loopInv_init s.world s.init [] hmax hvirt _) hfold
            exact distributeSurplusOn_station dops.bat law de.env w1 w2 ids c2
              (fun st hst => (hinv1.ok st hst).2) hsur

/-- the same for sub-strategies greedy / balanced (no premise on the sub-strategies) -/
theorem C05_distributed_station_upper_rule {B : Type} (dops : DOps α B) (law : BatLaw dops.bat) (de : DEnv α)
    (hd : de.deps.isRule) (ho : de.opps.isRule)
    (s s' : DState α B) (cmds : List (String × α))
    (hgnd : (s.world.gcs.map (·.id)).Nodup)
    (hmax : ∀ st ∈ s.world.stations, 0 ≤ st.maxPower) (hvirt : ∀ st ∈ s.init.virtualCs, 0 ≤ st.maxPower)
    (hyp : LoopHyp (resetStations s.world) s.init (s.world.stations.map (·.id)))
    (h : step dops de s = .ok (s', cmds)) :
    ∀ st ∈ s'.world.stations, st.currentPower ≤ st.maxPower :=
  C05_distributed_station_upper dops law de (by simp [SideOK, hd.1, hd.2]) (by simp [SideOK, ho.1, ho.2]) s s' cmds hgnd hmax hvirt
    hyp h

/-- **Every station within ± its maximum after the complete step** (lower side with the tolerance the code itself
uses): `−(maximum + E) ≤ power ≤ maximum` for every station, where `E ≥ 0` bounds the three tolerances (`EPS` of the
strategy and of its two sub-strategies).  Premises as for `C06_distributed_booked` (the proof needs "station entry =
station power": the repaired V2G guard reads the entry, so a discharge is only taken at a station whose power is below
`EPS` in absolute value, and it moves at most the station maximum), plus — for a peak_shaving / peak_load_window
sub-strategy only — `SideLow`: after its step and DIST2 no station is below `−(maximum + E)` (both never discharge a
vehicle: `C05_peak_shaving_never_discharges`).  Sub-strategies greedy / balanced: `…_two_sided_rule`, no such premise. -/
theorem C05_distributed_station_two_sided {B : Type} (E : α) (hE0 : 0 ≤ E) (dops : DOps α B) (law : BatLaw dops.bat)
    (de : DEnv α) (hEd : de.deps.eps ≤ E) (hEo : de.opps.eps ≤ E) (hEm : de.env.eps ≤ E)
    (hsd : SideOK dops de.deps de) (hso : SideOK dops de.opps de)
    (hkd : SideKF dops de.deps de) (hko : SideKF dops de.opps de)
    (hld : SideLow E dops de.deps de) (hlo : SideLow E dops de.opps de)
    (s s' : DState α B) (cmds : List (String × α))
    (hgnd : (s.world.gcs.map (·.id)).Nodup)
    (hmax : ∀ st ∈ s.world.stations, 0 ≤ st.maxPower) (hvirt : ∀ st ∈ s.init.virtualCs, 0 ≤ st.maxPower)
    (hyp : LoopHyp (resetStations s.world) s.init (s.world.stations.map (·.id)))
    (hyp2 : LoopHyp2 s.init (s.world.stations.map (·.id)) (s.world.batteries.map (·.id)))
    (h : step dops de s = .ok (s', cmds)) :
    ∀ st ∈ s'.world.stations, -(st.maxPower + E) ≤ st.currentPower ∧ st.currentPower ≤ st.maxPower := by
  have hl := step_two_sided E hE0 dops law de hEd hEo hEm hsd hso hkd hko hld hlo s s' cmds hgnd hmax hvirt hyp hyp2 h
  have hu := C05_distributed_station_upper dops law de hsd hso s s' cmds hgnd hmax hvirt hyp h
  exact fun st hst => ⟨hl.2.2 st hst, hu st hst⟩

/-- the same for sub-strategies greedy / balanced (no premise on the sub-strategies) -/
theorem C05_distributed_station_two_sided_rule {B : Type} (E : α) (hE0 : 0 ≤ E) (dops : DOps α B)
    (law : BatLaw dops.bat) (de : DEnv α) (hEd : de.deps.eps ≤ E) (hEo : de.opps.eps ≤ E) (hEm : de.env.eps ≤ E)
    (hd : de.deps.isRule) (ho : de.opps.isRule)
    (s s' : DState α B) (cmds : List (String × α))
    (hgnd : (s.world.gcs.map (·.id)).Nodup)
    (hmax : ∀ st ∈ s.world.stations, 0 ≤ st.maxPower) (hvirt : ∀ st ∈ s.init.virtualCs, 0 ≤ st.maxPower)
    (hyp : LoopHyp (resetStations s.world) s.init (s.world.stations.map (·.id)))
    (hyp2 : LoopHyp2 s.init (s.world.stations.map (·.id)) (s.world.batteries.map (·.id)))
    (h : step dops de s = .ok (s', cmds)) :
    ∀ st ∈ s'.world.stations, -(st.maxPower + E) ≤ st.currentPower ∧ st.currentPower ≤ st.maxPower :=
  C05_distributed_station_two_sided E hE0 dops law de hEd hEo hEm
    (by simp [SideOK, hd.1, hd.2]) (by simp [SideOK, ho.1, ho.2]) (by simp [SideKF, hd.1, hd.2])
    (by simp [SideKF, ho.1, ho.2]) (by simp [SideLow, hd.1, hd.2]) (by simp [SideLow, ho.1, ho.2])
    s s' cmds hgnd hmax hvirt hyp hyp2 h

/-- Non-vacuity of the two-sided bound on `toyState` (`E` = the common tolerance 1e-5). -/
example : ∃ s' cmds, step (toyDOps 5) toyEnv toyState = .ok (s', cmds) ∧
    ∀ st ∈ s'.world.stations, -(st.maxPower + 1/100000) ≤ st.currentPower ∧ st.currentPower ≤ st.maxPower := by
  have hok : (step (toyDOps 5) toyEnv toyState).toBool = true := by decide +kernel
  cases h : step (toyDOps 5) toyEnv toyState with
  | error e => rw [h] at hok; cases hok
  | ok r =>
    obtain ⟨s', cmds⟩ := r
    obtain ⟨hyp, hnd, hmax, hvirt⟩ := toyState_loopHyp
    exact ⟨s', cmds, rfl, C05_distributed_station_two_sided_rule (1/100000) (by norm_num) (toyDOps 5)
      (toyOps_law 5 (by norm_num)) toyEnv (by norm_num [toyEnv]) (by norm_num [toyEnv]) (by norm_num [toyEnv])
      ⟨rfl, rfl⟩ ⟨rfl, rfl⟩ toyState s' cmds hnd hmax hvirt hyp toyState_loopHyp2 h⟩

/-- **Every call of the final surplus pass** (`distribute_surplus_power(surplus_vehicles)`, one call of the body per
charging-point holder `v`): either nothing changes, or exactly one booking is made — at the station `csId` the
vehicle is connected to (only a station with a connected vehicle is touched), moving the vehicle's battery, the
connector entry, the station power and the command by the same `d`, where
* `d ≥ 0` unless the vehicle is V2G-capable (no discharge without V2G capability),
* a discharge (`d < 0`) happens only while the station's entry at its connector is below `eps` in absolute value,
  the connector draws more than `eps`, the price is not cheap and the vehicle is above its desired SoC,
* `d ≥ −max(station maximum, 0)`: one discharge never exceeds the station maximum. -/
theorem C05_distributed_final_pass_call {B : Type} (ops : BatOps α B) (law : BatLaw ops) (env : StratEnv α)
    (cheap : List (String × Bool)) (w w' : SWorld α B) (cmds cmds' : List (String × α)) (v : VehicleS α B)
    (h : surplusVehicle ops env cheap w cmds v = .ok (w', cmds')) :
    (w' = w ∧ cmds' = cmds) ∨
    ∃ csId cs gc bat' d, v.cs = some csId ∧ w.station? csId = some cs ∧ w.gc? cs.parent = some gc ∧
      w' = (((w.setVehicle { v with bat := bat' }).setGc (gc.addLoad csId d).1).setStation
              { cs with currentPower := cs.currentPower + d }) ∧
      (v.v2g = false → 0 ≤ d) ∧
      (d < 0 → v.v2g = true ∧ |(sdGet gc.loads csId).getD 0| < env.eps ∧ env.eps < gc.currentLoad ∧
        (sdGet cheap cs.parent).getD false = false ∧ v.desiredSoc - ops.soc v.bat < -env.eps) ∧
      -(max cs.maxPower 0) ≤ d := by
  rcases surplusVehicle_shape ops law env cheap w w' cmds cmds' v h with h0 | ⟨csId, cs, gc, bat', d, a1, a2, a3, hloc, a5, _⟩
  · exact Or.inl h0
  · right
    refine ⟨csId, cs, gc, bat', d, a1, a2, a3, a5, ?_⟩
    obtain ⟨_, hsh⟩ := surplusLocal_shape ops law env _ v csId cs gc bat' d _ hloc
    rcases hsh with ⟨p, _, d0, _, _⟩ | ⟨p, ts, avg, _, rfl, g0, g1, g2, g3, g4, g5, g6, g7⟩
    · refine ⟨fun _ => d0, fun hd => absurd d0 (not_le.mpr hd), ?_⟩
      have : 0 ≤ max cs.maxPower 0 := le_max_right _ _
      linarith
    · refine ⟨fun hv => absurd (hv.symm.trans g3) (by simp), fun _ => ⟨g3, g4, g5, g6, g7⟩, ?_⟩
      have : avg ≤ max cs.maxPower 0 := le_trans g1 (max_le_max g2 (le_refl _))
      linarith

/-- **At most one noticeable V2G discharge per station and step.** After a discharge booking the station's entry at
the connector is `entry − avg`; the guard of any later call in the same step reads that entry, so a second discharge
at the same station is possible only if the first one moved less than `2·eps`. -/
theorem C05_distributed_v2g_once (gc : GcS α) (csId : String) (d eps : α)
    (h1 : |(sdGet gc.loads csId).getD 0| < eps)
    (h2 : |(sdGet (gc.addLoad csId d).1.loads csId).getD 0| < eps) : -d < 2 * eps ∧ d < 2 * eps := by
  rw [(addLoad_entry gc csId d).1] at h2
  rw [abs_lt] at h1 h2
  constructor <;> linarith [h1.1, h1.2, h2.1, h2.2]

/-- **Two-sided station bound through the final surplus pass (partial).** If before distributed's final surplus
pass every station's entry at its connector equals the station's power (`Booked`, established by the greedy / balanced
sub-step: `C06_distributed_substep_booked`), no battery id is a station id, station maxima are non-negative and every
station's power is above `−(maximum + EPS)`, then the same holds after the pass: with the repaired guard a V2G discharge
is only taken at a station whose power is below `EPS` in absolute value and moves at most the station maximum.
Partial: the premise `Booked` for the complete world after the charging loop over all connectors (write-back of the
virtual worlds) is not proved; see notes/S_DISTRIBUTED.md. -/
theorem C05_distributed_final_pass_two_sided_partial {B : Type} (ops : BatOps α B) (law : BatLaw ops)
    (env : StratEnv α) (w w' : SWorld α B) (ids : List String) (cmds' : List (String × α))
    (hb : Booked w) (hd : Disj w) (hm : ∀ st ∈ w.stations, 0 ≤ st.maxPower)
    (hl : ∀ st ∈ w.stations, -(st.maxPower + env.eps) < st.currentPower)
    (h : distributeSurplusOn ops env w ids = .ok (w', cmds')) :
    (∀ st ∈ w'.stations, -(st.maxPower + env.eps) < st.currentPower) ∧ Booked w' := by
  obtain ⟨⟨b1, _⟩, _, l1⟩ := distributeSurplusOn_sinv ops law env w w' ids cmds' ⟨⟨hb, hd⟩, hm, hl⟩ h
  exact ⟨l1, b1⟩

/-- Non-vacuity of `C05_distributed_station_upper`: `toyState` meets every premise (`toyState_loopHyp`), the step
returns, and the theorem applies. -/
example : ∃ s' cmds, step (toyDOps 5) toyEnv toyState = .ok (s', cmds) ∧
    ∀ st ∈ s'.world.stations, st.currentPower ≤ st.maxPower := by
  have hok : (step (toyDOps 5) toyEnv toyState).toBool = true := by decide +kernel
  cases h : step (toyDOps 5) toyEnv toyState with
  | error e => rw [h] at hok; cases hok
  | ok r =>
    obtain ⟨s', cmds⟩ := r
    obtain ⟨hyp, hnd, hmax, hvirt⟩ := toyState_loopHyp
    exact ⟨s', cmds, rfl, C05_distributed_station_upper_rule (toyDOps 5) (toyOps_law 5 (by norm_num)) toyEnv ⟨rfl, rfl⟩ ⟨rfl, rfl⟩
      toyState s' cmds hnd hmax hvirt hyp h⟩

/-- Non-vacuity: after the step on `toyState` both 11 kW stations carry exactly 11 kW. -/
example : (match step (toyDOps 5) toyEnv toyState with
    | .ok (s', _) => s'.world.stations.map (fun (st : StationS ℚ) => (st.id, st.currentPower, st.maxPower))
    | .error _ => []) = [("CS_v1_opps", 11, 11), ("CS_v2_deps", 11, 11)] := by
  decide +kernel

/-- Non-vacuity of `C05_distributed_v2g_once`: entry 0, one discharge of 5 kW: the guard fails afterwards
(`|0 − 5| < eps` is false), so the premise of a second discharge is unsatisfiable for a noticeable first one; with a
first discharge of `eps/2` both premises hold. -/
example : |(sdGet (⟨"GC", 20, none, []⟩ : GcS ℚ).loads "CS").getD 0| < (1/100000 : ℚ) ∧
    |(sdGet ((⟨"GC", 20, none, []⟩ : GcS ℚ).addLoad "CS" (-(1/200000))).1.loads "CS").getD 0| < (1/100000 : ℚ) := by
  decide +kernel

end SpiceEv
