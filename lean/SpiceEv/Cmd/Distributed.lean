/- driver command for Model/Distributed.lean -/
import SpiceEv.Wire
import SpiceEv.Model.Distributed
namespace SpiceEv.Cmd.Distributed
open SpiceEv

/-- `prioritise <numberCs> <n> conn ids… <m> (id soc)…` → new holder ids -/
def cmdPrioritise : P String := do
  let n ← P.nat
  let conn ← P.list P.tok
  let arr ← P.list (do let k ← P.tok; let v ← P.num Float; pure (k, v))
  pure (renderPy (fun l => renderList id l) (prioritise n conn arr))

def handlers : List (String × Handler) := [("prioritise", runP cmdPrioritise)]
end SpiceEv.Cmd.Distributed
