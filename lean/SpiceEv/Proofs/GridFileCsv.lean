import SpiceEv.Proofs.GridFile
set_option linter.unusedSectionVars false
set_option linter.unusedSimpArgs false
set_option linter.unusedVariables false
namespace SpiceEv.GridFile
open SpiceEv

/-- a character without meaning for the csv reader -/
def CleanChar (c : Char) : Prop := c ≠ ',' ∧ c ≠ '"' ∧ c ≠ '\n' ∧ c ≠ '\r'

def CleanField (f : List Char) : Prop := ∀ c ∈ f, CleanChar c

instance : DecidablePred CleanChar := fun c => by unfold CleanChar; infer_instance
instance (f : List Char) : Decidable (CleanField f) := by unfold CleanField; infer_instance

/-- `",".join(fields)` on character lists -/
def joinFields : List (List Char) → List Char
  | [] => []
  | [f] => f
  | f :: g :: rest => f ++ ',' :: joinFields (g :: rest)

theorem isNl_clean {c : Char} (h : CleanChar c) : isNl c = false := by
  unfold isNl; simp [h.2.2.1, h.2.2.2]

theorem step_inField_clean (r : Rd) (c : Char) (h : CleanChar c) (hs : r.st = .inField) :
    step r (some c) = .ok (addChar r c) := by
  unfold step; simp [hs, isNl_clean h, h.1]

theorem step_startField_clean (r : Rd) (c : Char) (h : CleanChar c) (hs : r.st = .startField) :
    step r (some c) = .ok { addChar r c with st := .inField } := by
  unfold step; simp [hs, isNl_clean h, h.1, h.2.1]

theorem fold_inField (f : List Char) (hf : CleanField f) :
    ∀ (r : Rd), r.st = .inField →
      f.foldlM (fun r ch => step r (some ch)) r = .ok { r with field := f.reverse ++ r.field } := by
  induction f with
  | nil => intro r _; simp [pure, Except.pure]
  | cons c t ih =>
    intro r hs
    rw [List.foldlM_cons, step_inField_clean r c (hf c List.mem_cons_self) hs]
    simp only [bind, Except.bind]
    rw [ih (fun x hx => hf x (List.mem_cons_of_mem _ hx)) (addChar r c) (by simp [addChar, hs])]
    simp [addChar]

/-- a clean field read from the start of a field -/
theorem fold_field (f : List Char) (hf : CleanField f) (r : Rd) (hs : r.st = .startField) (he : r.field = []) :
    f.foldlM (fun r ch => step r (some ch)) r =
      .ok (if f.isEmpty then r else { r with st := .inField, field := f.reverse }) := by
  cases f with
  | nil => simp [pure, Except.pure]
  | cons c t =>
    rw [List.foldlM_cons, step_startField_clean r c (hf c List.mem_cons_self) hs]
    simp only [bind, Except.bind]
    rw [fold_inField t (fun x hx => hf x (List.mem_cons_of_mem _ hx)) _ (by simp [addChar])]
    simp [addChar, he]

theorem foldlM_append' {β γ : Type} (F : γ → β → G γ) (l1 l2 : List β) (a : γ) :
    (l1 ++ l2).foldlM F a = (l1.foldlM F a) >>= (fun b => l2.foldlM F b) := by
  simp [List.foldlM_append]

/-- one line of clean fields, from the start of a field -/
theorem fold_row : ∀ (fs : List (List Char)), fs ≠ [] → (∀ f ∈ fs, CleanField f) →
    ∀ (r : Rd), r.st = .startField → r.field = [] →
      (joinFields fs ++ ['\n']).foldlM (fun r ch => step r (some ch)) r =
        .ok { st := .eatCrnl, field := [], fields := (fs.map String.ofList).reverse ++ r.fields } := by
  intro fs
  induction fs with
  | nil => intro h; exact absurd rfl h
  | cons f rest ih =>
    intro _ hcl r hs he
    have hf := hcl f List.mem_cons_self
    cases rest with
    | nil =>
      simp only [joinFields]
      rw [foldlM_append', fold_field f hf r hs he]
      simp only [bind, Except.bind]
      by_cases hemp : f.isEmpty = true
      · have : f = [] := List.isEmpty_iff.mp hemp
        subst this
        simp [step, hs, isNl, saveField, he, pure, Except.pure, bind, Except.bind]
      · simp only [hemp, if_false, Bool.false_eq_true]
        simp [step, isNl, saveField, pure, Except.pure, bind, Except.bind]
    | cons g rest' =>
      simp only [joinFields, List.append_assoc, List.cons_append]
      rw [foldlM_append', fold_field f hf r hs he]
      simp only [bind, Except.bind, List.foldlM_cons]
      have ih' := ih (by simp) (fun x hx => hcl x (List.mem_cons_of_mem _ hx))
      by_cases hemp : f.isEmpty = true
      · have : f = [] := List.isEmpty_iff.mp hemp
        subst this
        have hstep : step r (some ',') = .ok (saveField r) := by simp [step, hs, isNl]
        simp only [List.isEmpty_nil, if_true, hstep]
        rw [ih' (saveField r) (by simp [saveField, hs]) (by simp [saveField])]
        simp [saveField, he]
      · simp only [hemp, if_false, Bool.false_eq_true]
        have hstep : step { r with st := .inField, field := f.reverse } (some ',')
            = .ok { saveField { r with st := .inField, field := f.reverse } with st := .startField } := by
          simp [step, isNl]
        rw [hstep]
        dsimp only
        rw [ih' _ (by simp [saveField]) (by simp [saveField])]
        simp [saveField]

/-- the characters of a line of clean fields are clean or commas -/
theorem joinFields_chars : ∀ (fs : List (List Char)), (∀ f ∈ fs, CleanField f) →
    ∀ c ∈ joinFields fs, c ≠ '\n' ∧ c ≠ '\r' := by
  intro fs
  induction fs with
  | nil => intro _ c hc; simp [joinFields] at hc
  | cons f rest ih =>
    intro hcl c hc
    cases rest with
    | nil =>
      simp only [joinFields] at hc
      have := hcl f List.mem_cons_self c hc
      exact ⟨this.2.2.1, this.2.2.2⟩
    | cons g rest' =>
      simp only [joinFields, List.mem_append, List.mem_cons] at hc
      rcases hc with hc | hc | hc
      · have := hcl f List.mem_cons_self c hc
        exact ⟨this.2.2.1, this.2.2.2⟩
      · subst hc; exact ⟨by decide, by decide⟩
      · exact ih (fun x hx => hcl x (List.mem_cons_of_mem _ hx)) c hc

/-- a record line: not the empty record, not the single empty field (both print as an empty line) -/
def PlainRow (fs : List (List Char)) : Prop := fs ≠ [] ∧ fs ≠ [[]] ∧ ∀ f ∈ fs, CleanField f

instance (fs : List (List Char)) : Decidable (PlainRow fs) := by unfold PlainRow; infer_instance

theorem step_startRecord_eq (r : Rd) (c : Char) (hs : r.st = .startRecord) (hnl : isNl c = false) :
    step r (some c) = step { r with st := .startField } (some c) := by
  unfold step; simp [hs, hnl]

theorem line_head (fs : List (List Char)) (h : PlainRow fs) :
    ∃ c t, joinFields fs ++ ['\n'] = c :: t ∧ isNl c = false := by
  obtain ⟨h1, h2, h3⟩ := h
  cases fs with
  | nil => exact absurd rfl h1
  | cons f rest =>
    cases f with
    | cons c t =>
      refine ⟨c, (joinFields ((c :: t) :: rest) ++ ['\n']).tail, ?_,
        isNl_clean (h3 (c :: t) List.mem_cons_self c List.mem_cons_self)⟩
      cases rest <;> simp [joinFields]
    | nil =>
      cases rest with
      | nil => exact absurd rfl h2
      | cons g rest' => exact ⟨',', joinFields (g :: rest') ++ ['\n'], by simp [joinFields], by decide⟩

theorem processLine_plain (fs : List (List Char)) (h : PlainRow fs) :
    processLine Rd.fresh (joinFields fs ++ ['\n']) =
      .ok { st := .startRecord, field := [], fields := (fs.map String.ofList).reverse } := by
  obtain ⟨c, t, hct, hnl⟩ := line_head fs h
  have hfold : (joinFields fs ++ ['\n']).foldlM (fun r ch => step r (some ch)) Rd.fresh
      = (joinFields fs ++ ['\n']).foldlM (fun r ch => step r (some ch)) { Rd.fresh with st := .startField } := by
    rw [hct, List.foldlM_cons, List.foldlM_cons, step_startRecord_eq Rd.fresh c rfl hnl]
  unfold processLine
  rw [hfold, fold_row fs h.1 h.2.2 _ rfl rfl]
  simp [bind, Except.bind, step, Rd.fresh]

theorem readRecordsAux_plain : ∀ (rows : List (List (List Char))), (∀ fs ∈ rows, PlainRow fs) →
    ∀ (acc : List (List String)),
      readRecordsAux (rows.map (fun fs => joinFields fs ++ ['\n'])) Rd.fresh acc =
        .ok (acc.reverse ++ rows.map (fun fs => fs.map String.ofList)) := by
  intro rows
  induction rows with
  | nil => intro _ acc; simp [readRecordsAux, Rd.fresh]
  | cons fs rows ih =>
    intro h acc
    simp only [List.map_cons, readRecordsAux]
    rw [processLine_plain fs (h fs List.mem_cons_self)]
    simp only [bind, Except.bind]
    simp only [beq_self_eq_true, if_true, List.reverse_reverse]
    rw [ih (fun x hx => h x (List.mem_cons_of_mem _ hx))]
    simp

theorem splitLinesAux_plain (l : List Char) (hl : ∀ c ∈ l, c ≠ '\n' ∧ c ≠ '\r') (rest cur : List Char) :
    splitLinesAux (l ++ '\n' :: rest) cur = (cur.reverse ++ l ++ ['\n']) :: splitLinesAux rest [] := by
  induction l generalizing cur with
  | nil => simp [splitLinesAux]
  | cons c t ih =>
    have hc := hl c List.mem_cons_self
    have : splitLinesAux (c :: (t ++ '\n' :: rest)) cur = splitLinesAux (t ++ '\n' :: rest) (c :: cur) := by
      rw [splitLinesAux]
      all_goals (intros; simp_all)
    rw [List.cons_append, this, ih (fun x hx => hl x (List.mem_cons_of_mem _ hx))]
    simp

theorem splitLines_plain : ∀ (rows : List (List (List Char))), (∀ fs ∈ rows, PlainRow fs) →
    splitLines (rows.flatMap (fun fs => joinFields fs ++ ['\n']))
      = rows.map (fun fs => joinFields fs ++ ['\n']) := by
  intro rows
  unfold splitLines
  induction rows with
  | nil => intro _; simp [splitLinesAux]
  | cons fs rows ih =>
    intro h
    simp only [List.flatMap_cons, List.map_cons, List.append_assoc, List.singleton_append]
    rw [splitLinesAux_plain _ (joinFields_chars fs (h fs List.mem_cons_self).2.2)]
    simp only [List.reverse_nil, List.nil_append]
    rw [ih (fun x hx => h x (List.mem_cons_of_mem _ hx))]

/-- **csv records of a plain file**: lines of clean fields joined by commas, each ended by `\n` -/
theorem readRecords_plain (rows : List (List (List Char))) (h : ∀ fs ∈ rows, PlainRow fs) :
    readRecords (rows.flatMap (fun fs => joinFields fs ++ ['\n']))
      = .ok (rows.map (fun fs => fs.map String.ofList)) := by
  unfold readRecords
  rw [splitLines_plain rows h, readRecordsAux_plain rows h []]
  simp

end SpiceEv.GridFile
