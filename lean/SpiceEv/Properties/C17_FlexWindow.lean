/-
C17 — every strategy step finishes in bounded time, strategy `flex_window` (Model/StratFlexWindow.lean, tied to
spice_ev/strategies/flex_window.py bit for bit by harness/s_flex_window.py).

The nine `while hi − lo > EPS` bisections of the class are run on fuel in the model (`bisectM … env.fuel`, the
harness gives 200 passes with EPS = 1e-5); all other loops are `for` loops over finite lists (structural recursion
in the model).  The theorems say that the model's own "out of fuel" answer `.error (.py .fuel)` is never returned —
the loop of the code ends, with a value or a Python exception — as soon as the bracket the bisection starts with is
at most `EPS · 2^fuel` wide; the brackets are computed from the connector limit (`[−cur_max, cur_max]`), the
station rating (`[0, cs.max_power]`) and the vehicle's discharge limit (`[discharge_limit, 1]`), which no pass
changes.  `OpsNoFuel ops`: the battery operations do not answer FUEL themselves (their own loops: C01 / C17).
Exact arithmetic (any ordered field); the doubles are covered by the bit-level correspondence run, which would
report a `!FUEL` answer of the model as a disagreement.
-/
import SpiceEv.Proofs.StratFlexWindowFuel
set_option linter.unusedSectionVars false
set_option linter.unusedVariables false
namespace SpiceEv
open SpiceEv.FlexWindow
variable {α B : Type} [Field α] [LinearOrder α] [IsStrictOrderedRing α]

/-! ### the loop itself -/

/-- **Every bisection of the class ends within its fuel**: the bracket halves exactly in every pass, so `fuel`
passes suffice for a bracket of at most `EPS · 2^fuel`; FUEL can then only come from the loop body. -/
theorem C17_flex_window_bisection_fuel {σ : Type} (eps : α) (body : α → σ → FPy (Bool × σ))
    (hbody : ∀ mid s, body mid s ≠ .error (.py .fuel)) (fuel : Nat) (lo hi : α) (st : σ)
    (h : hi - lo ≤ eps * 2 ^ fuel) : bisectM eps body fuel lo hi st ≠ .error (.py .fuel) :=
  bisectM_noFuel eps body hbody fuel lo hi st h

/-- non-vacuity: a bracket of 20 kW with EPS = 1e-5 is covered by 40 passes; the battery of the examples never
answers FUEL -/
example : (10 : ℚ) - (-10) ≤ (1 / 100000) * 2 ^ 40 ∧ OpsNoFuel idealOps := ⟨by norm_num, idealOps_noFuel⟩

/-! ### the loops without fuel -/

/-- **The forecast, the scan for the connected timesteps and the three surplus passes have no data-dependent loop**:
they are `for` loops over `range(timesteps_ahead)`, `timesteps`, the vehicles, the batteries (the `while True` of the
forecast consumes one list element per pass) — FUEL is never their answer. -/
theorem C17_flex_window_scans_structural (ops : BatOps α B) (hnf : OpsNoFuel ops) (env : FEnv α) (gc : GcS α)
    (window : Option Bool) (events : List (FEvent α)) (etd : Option Int) (t : Int) (win : Option Bool) (wc : Nat)
    (acc ts : List (TS α)) (w : SWorld α B) :
    forecast env gc window events ≠ .error (.py .fuel) ∧
    connectedLoop env etd t win wc acc ts ≠ .error (.py .fuel) ∧
    surplusToVehicles ops env w ≠ .error (.py .fuel) ∧
    surplusToBatteries ops env w ≠ .error (.py .fuel) ∧
    liftPy (distributeSurplus ops env.base w) ≠ .error (.py .fuel) :=
  ⟨(forecast_safe env gc window events).ne, (connectedLoop_safe env etd ts t win wc acc).ne,
   (surplusToVehicles_safe ops hnf env (fun _ => True) (fun _ => True) (fun _ => True) w
      ⟨fun _ _ => trivial, fun _ _ => trivial, fun _ _ => trivial⟩).ne,
   (surplusToBatteries_safe ops hnf env (fun _ => True) (fun _ => True) (fun _ => True) w
      ⟨fun _ _ => trivial, fun _ _ => trivial, fun _ _ => trivial⟩).ne,
   (Safe.ofPy (distributeSurplus_safe ops hnf env.base (fun _ => True) (fun _ => True) (fun _ => True) w
      ⟨fun _ _ => trivial, fun _ _ => trivial, fun _ _ => trivial⟩)).ne⟩

/-- non-vacuity: the forecast of the example (3 h ahead, hourly) is a value -/
example : (match forecast (exEnv .balanced) ⟨"GC", 10, none, [("load", 3)]⟩ (some true) [] with
    | .ok ts => ts.length | .error _ => 0) = 3 := by decide +kernel

/-! ### the nine bisections, per function -/

/-- **`distribute_balanced_vehicles`, power search of one vehicle** (bracket `[0, clamp(cs.max_power)]`): ends
within the fuel when every station's rating is at most `EPS · 2^fuel`. -/
theorem C17_flex_window_balanced_vehicle_terminates (ops : BatOps α B) (hnf : OpsNoFuel ops) (env : FEnv α)
    (heps : 0 < env.base.eps) (acc : FState α B × List (String × α) × Option α) (v0 : VehicleS α B)
    (hst : ∀ s ∈ acc.1.w.stations, s.maxPower ≤ env.base.eps * 2 ^ env.fuel) :
    balVehicle ops env acc v0 ≠ .error (.py .fuel) :=
  (balVehicle_safe ops hnf env heps (fun _ => True) (fun x => x ≤ width env) (fun _ => True) (fun _ h => h)
    acc v0 ⟨fun _ _ => trivial, hst, fun _ _ => trivial⟩ trivial).ne

/-- the whole pass `distribute_balanced_vehicles` (the stations keep their rating from vehicle to vehicle) -/
theorem C17_flex_window_balanced_vehicles_total (ops : BatOps α B) (hnf : OpsNoFuel ops) (env : FEnv α)
    (heps : 0 < env.base.eps) (st : FState α B)
    (hst : ∀ s ∈ st.w.stations, s.maxPower ≤ env.base.eps * 2 ^ env.fuel) :
    distributeBalancedVehicles ops env st ≠ .error (.py .fuel) :=
  (distributeBalancedVehicles_safe ops hnf env heps (fun _ => True) (fun x => x ≤ width env) (fun _ => True)
    (fun _ h => h) st ⟨fun _ _ => trivial, hst, fun _ _ => trivial⟩).ne

/-- **`distribute_balanced_batteries`** (bracket `[−cur_max, cur_max − load]` in a window step,
`[−cur_max, min(cur_max − load, cur_max + load)]` otherwise — repair FW3): ends within the fuel when
`2·cur_max − load ≤ EPS · 2^fuel`.  The bracket depends on the connector's *load* at the time of the pass. -/
theorem C17_flex_window_balanced_batteries_total (ops : BatOps α B) (hnf : OpsNoFuel ops) (env : FEnv α)
    (st : FState α B)
    (hbr : ∀ g ∈ st.w.gcs, 2 * g.curMax - g.currentLoad ≤ env.base.eps * 2 ^ env.fuel) :
    distributeBalancedBatteries ops env st ≠ .error (.py .fuel) :=
  distributeBalancedBatteries_noFuel ops hnf env st hbr

/-- **the discharge-limit search of both V2G passes** (bracket `[vehicle.discharge_limit, 1]`) -/
theorem C17_flex_window_discharge_limit_search_terminates (ops : BatOps α B) (hnf : OpsNoFuel ops) (env : FEnv α)
    (cs : StationS α) (v : VehicleS α B) (chargeP : TS α → α) (connected : List (TS α)) (dl0 : Option α)
    (hbr : 1 - v.dischargeLimit ≤ env.base.eps * 2 ^ env.fuel) :
    dlBisect ops env cs v chargeP connected dl0 ≠ .error (.py .fuel) :=
  (dlBisect_safe ops hnf env cs v chargeP connected dl0 hbr).ne

/-- **`distribute_balanced_v2g`, one vehicle** (discharge-limit search, then the power search on
`[0, min(cs.max_power, headroom)]`) -/
theorem C17_flex_window_balanced_v2g_vehicle_terminates (ops : BatOps α B) (hnf : OpsNoFuel ops) (env : FEnv α)
    (heps : 0 < env.base.eps) (curWindow : Option Bool) (acc : V2gAcc α B) (v0 : VehicleS α B)
    (hst : ∀ s ∈ acc.st.w.stations, s.maxPower ≤ env.base.eps * 2 ^ env.fuel)
    (hveh : ∀ v ∈ acc.st.w.vehicles, 1 - v.dischargeLimit ≤ env.base.eps * 2 ^ env.fuel)
    (hv0 : 1 - v0.dischargeLimit ≤ env.base.eps * 2 ^ env.fuel) :
    balV2gVehicle ops env curWindow acc v0 ≠ .error (.py .fuel) :=
  (balV2gVehicle_safe ops hnf env heps (fun _ => True) (fun x => x ≤ width env) (fun x => 1 - x ≤ width env)
    (fun _ h => h) (fun _ h => h) curWindow acc v0 ⟨fun _ _ => trivial, hst, hveh⟩ hv0).ne

/-- the whole pass `distribute_balanced_v2g` -/
theorem C17_flex_window_balanced_v2g_total (ops : BatOps α B) (hnf : OpsNoFuel ops) (env : FEnv α)
    (heps : 0 < env.base.eps) (st : FState α B)
    (hst : ∀ s ∈ st.w.stations, s.maxPower ≤ env.base.eps * 2 ^ env.fuel)
    (hveh : ∀ v ∈ st.w.vehicles, 1 - v.dischargeLimit ≤ env.base.eps * 2 ^ env.fuel) :
    distributeBalancedV2g ops env st ≠ .error (.py .fuel) :=
  (distributeBalancedV2g_safe ops hnf env heps (fun _ => True) (fun x => x ≤ width env)
    (fun x => 1 - x ≤ width env) (fun _ h => h) (fun _ h => h) st ⟨fun _ _ => trivial, hst, hveh⟩).ne

/-- **`distribute_peak_shaving_vehicles`** (total-power search on `[−cur_max, cur_max]`, two look-ahead simulations
with `distribute_power`) -/
theorem C17_flex_window_peak_shaving_vehicles_total (ops : BatOps α B) (hnf : OpsNoFuel ops) (env : FEnv α)
    (st : FState α B) (hgcs : ∀ g ∈ st.w.gcs, 2 * g.curMax ≤ env.base.eps * 2 ^ env.fuel) :
    distributePeakShavingVehicles ops env st ≠ .error (.py .fuel) :=
  (distributePeakShavingVehicles_safe ops hnf env (fun x => 2 * x ≤ width env) (fun _ => True) (fun _ => True)
    (fun _ h => h) st ⟨hgcs, fun _ _ => trivial, fun _ _ => trivial⟩).ne

/-- **`distribute_peak_shaving_v2g`, one vehicle** (discharge-limit search and the charging resp. discharging search
on `[−cur_max, cur_max]`) -/
theorem C17_flex_window_peak_shaving_v2g_vehicle_terminates (ops : BatOps α B) (hnf : OpsNoFuel ops)
    (env : FEnv α) (curWindow : Option Bool) (acc : V2gAcc α B) (v0 : VehicleS α B)
    (hgcs : ∀ g ∈ acc.st.w.gcs, 2 * g.curMax ≤ env.base.eps * 2 ^ env.fuel)
    (hveh : ∀ v ∈ acc.st.w.vehicles, 1 - v.dischargeLimit ≤ env.base.eps * 2 ^ env.fuel)
    (hv0 : 1 - v0.dischargeLimit ≤ env.base.eps * 2 ^ env.fuel) :
    psV2gVehicle ops env curWindow acc v0 ≠ .error (.py .fuel) :=
  (psV2gVehicle_safe ops hnf env (fun x => 2 * x ≤ width env) (fun _ => True) (fun x => 1 - x ≤ width env)
    (fun _ h => h) (fun _ h => h) curWindow acc v0 ⟨hgcs, fun _ _ => trivial, hveh⟩ hv0).ne

/-- the whole pass `distribute_peak_shaving_v2g` -/
theorem C17_flex_window_peak_shaving_v2g_total (ops : BatOps α B) (hnf : OpsNoFuel ops) (env : FEnv α)
    (st : FState α B) (hgcs : ∀ g ∈ st.w.gcs, 2 * g.curMax ≤ env.base.eps * 2 ^ env.fuel)
    (hveh : ∀ v ∈ st.w.vehicles, 1 - v.dischargeLimit ≤ env.base.eps * 2 ^ env.fuel) :
    distributePeakShavingV2g ops env st ≠ .error (.py .fuel) :=
  (distributePeakShavingV2g_safe ops hnf env (fun x => 2 * x ≤ width env) (fun _ => True)
    (fun x => 1 - x ≤ width env) (fun _ h => h) (fun _ h => h) st ⟨hgcs, fun _ _ => trivial, hveh⟩).ne

/-- **`distribute_peak_shaving_batteries`** (charging search in a window step, discharging search otherwise, both on
`[−cur_max, cur_max]`) -/
theorem C17_flex_window_peak_shaving_batteries_total (ops : BatOps α B) (hnf : OpsNoFuel ops) (env : FEnv α)
    (st : FState α B) (hgcs : ∀ g ∈ st.w.gcs, 2 * g.curMax ≤ env.base.eps * 2 ^ env.fuel) :
    distributePeakShavingBatteries ops env st ≠ .error (.py .fuel) :=
  (distributePeakShavingBatteries_safe ops hnf env (fun x => 2 * x ≤ width env) (fun _ => True) (fun _ => True)
    (fun _ h => h) st ⟨hgcs, fun _ _ => trivial, fun _ _ => trivial⟩).ne

/-- non-vacuity of the bracket hypotheses: the example worlds (connectors of 3 … 10 kW, stations of 2 … 11 kW,
discharge limits 0.2 … 0.5) with EPS = 1e-5 and 40 passes -/
example : (∀ g ∈ exWorld.gcs, 2 * g.curMax ≤ (exEnv .greedy).base.eps * 2 ^ (exEnv .greedy).fuel) ∧
    (∀ g ∈ exWorld.gcs, 2 * g.curMax - g.currentLoad ≤ (exEnv .greedy).base.eps * 2 ^ (exEnv .greedy).fuel) ∧
    (∀ s ∈ exWorld2.stations, s.maxPower ≤ (exEnv .balanced).base.eps * 2 ^ (exEnv .balanced).fuel) ∧
    (∀ v ∈ exWorld3.vehicles, 1 - v.dischargeLimit ≤ (exEnv .balanced).base.eps * 2 ^ (exEnv .balanced).fuel) := by
  decide +kernel

/-! ### the whole step -/

/-- **`FlexWindow.step`, LOAD_STRAT greedy / needy (anything but balanced), never answers FUEL** — it returns a value
or a Python exception — for every world, window and event list, when `2·cur_max ≤ EPS · 2^fuel` for the connectors
and `1 − discharge_limit ≤ EPS · 2^fuel` for the vehicles of the world *before* the step (the passes keep limits and
discharge limits). No battery law is needed. -/
theorem C17_flex_window_step_total_peak_shaving (ops : BatOps α B) (hnf : OpsNoFuel ops) (env : FEnv α)
    (hstrat : env.strat ≠ .balanced) (w : SWorld α B) (window : Option Bool) (events : List (FEvent α))
    (hgcs : ∀ g ∈ w.gcs, 2 * g.curMax ≤ env.base.eps * 2 ^ env.fuel)
    (hveh : ∀ v ∈ w.vehicles, 1 - v.dischargeLimit ≤ env.base.eps * 2 ^ env.fuel) :
    FlexWindow.step ops env w window events ≠ .error (.py .fuel) :=
  step_ps_noFuel ops hnf env hstrat w window events hgcs hveh

/-- **`FlexWindow.step`, LOAD_STRAT balanced, never answers FUEL**, for the one connector the class asserts, when
`2·cur_max + EPS ≤ EPS · 2^fuel`, every station's rating and every `1 − discharge_limit` is at most `EPS · 2^fuel`
in the world before the step.  The bracket of `distribute_balanced_batteries` in a window step is
`[−cur_max, cur_max − load]` with the load *after* the vehicle passes; that pass only runs with a load `≥ 0` or
after the V2G pass, which starts at a load `≥ −EPS` and in a window step only charges — this is where the battery law
(`BatLaw`: 0 ≤ average power ≤ offered power, C01/C02) is used: with a battery answering a negative average power to
`load` the bracket is unbounded. -/
theorem C17_flex_window_step_total_balanced (ops : BatOps α B) (hnf : OpsNoFuel ops) (law : BatLaw ops)
    (env : FEnv α) (heps : 0 < env.base.eps) (hstrat : env.strat = .balanced)
    (w : SWorld α B) (window : Option Bool) (events : List (FEvent α)) (g : GcS α) (hg : w.gcs = [g])
    (hgc : 2 * g.curMax + env.base.eps ≤ env.base.eps * 2 ^ env.fuel)
    (hst : ∀ s ∈ w.stations, s.maxPower ≤ env.base.eps * 2 ^ env.fuel)
    (hveh : ∀ v ∈ w.vehicles, 1 - v.dischargeLimit ≤ env.base.eps * 2 ^ env.fuel) :
    FlexWindow.step ops env w window events ≠ .error (.py .fuel) :=
  step_balanced_noFuel ops hnf law env heps hstrat w window events g hg hgc hst hveh

/-- **Every `FlexWindow.step` finishes**: for every LOAD_STRAT (also an unknown one), world, window and event list the
step returns a value or a Python exception, never FUEL, under bounds on the world before the step only (harness:
EPS = 1e-5, fuel 200, i.e. `EPS · 2^fuel ≈ 1.6e55` kW).  For LOAD_STRAT balanced additionally the battery law and the
single connector the class asserts (see `C17_flex_window_step_total_balanced`). -/
theorem C17_flex_window_step_total (ops : BatOps α B) (hnf : OpsNoFuel ops) (env : FEnv α)
    (heps : 0 < env.base.eps) (w : SWorld α B) (window : Option Bool) (events : List (FEvent α))
    (hbal : env.strat = .balanced → BatLaw ops ∧ ∃ g, w.gcs = [g])
    (hgcs : ∀ g ∈ w.gcs, 2 * g.curMax + env.base.eps ≤ env.base.eps * 2 ^ env.fuel)
    (hst : ∀ s ∈ w.stations, s.maxPower ≤ env.base.eps * 2 ^ env.fuel)
    (hveh : ∀ v ∈ w.vehicles, 1 - v.dischargeLimit ≤ env.base.eps * 2 ^ env.fuel) :
    FlexWindow.step ops env w window events ≠ .error (.py .fuel) :=
  step_noFuel ops hnf env heps w window events hbal hgcs hst hveh

/-- non-vacuity: the hypotheses hold for the example world with a V2G vehicle and a stationary battery (both
LOAD_STRATs), so its step is not FUEL -/
example : FlexWindow.step idealOps (exEnv .balanced) exWorld3 (some false) [] ≠ .error (.py .fuel) :=
  C17_flex_window_step_total idealOps idealOps_noFuel (exEnv .balanced) (by decide +kernel) exWorld3 (some false) []
    (fun _ => ⟨idealOps_law.toBatLaw, _, rfl⟩) (by decide +kernel) (by decide +kernel) (by decide +kernel)
example : FlexWindow.step idealOps (exEnv .greedy) exWorld3 (some true) [] ≠ .error (.py .fuel) :=
  C17_flex_window_step_total_peak_shaving idealOps idealOps_noFuel (exEnv .greedy) (by decide) exWorld3 (some true) []
    (by decide +kernel) (by decide +kernel)

/-- the hypotheses are needed: with 3 passes of fuel (bracket 20 kW > 1e-5 · 2³) the model does answer FUEL, and so it
does with a battery that answers FUEL -/
example : (match FlexWindow.step idealOps { exEnv .greedy with fuel := 3 } exWorld5 (some true) [] with
    | .error e => decide (e = .py .fuel) | .ok _ => false) = true := by decide +kernel
example : (match FlexWindow.step fuelOps (exEnv .greedy) exWorld5 (some true) [] with
    | .error e => decide (e = .py .fuel) | .ok _ => false) = true := by decide +kernel

/-- the battery law is needed for LOAD_STRAT balanced: `badOps` never answers FUEL and the world satisfies all three
bounds, but its `load` answers −10⁹ kW for offers ≥ 1 kW; in a window step the V2G pass then leaves the connector at
≈ −10⁹ kW and the bracket `[−cur_max, cur_max − load]` of `distribute_balanced_batteries` needs more than 40 passes:
the step IS FUEL (with the ideal battery the same world gives a value) -/
example : OpsNoFuel badOps ∧
    2 * (4 : ℚ) + (exEnv .balanced).base.eps ≤ (exEnv .balanced).base.eps * 2 ^ (exEnv .balanced).fuel ∧
    (∀ s ∈ exWorldBad.stations, s.maxPower ≤ (exEnv .balanced).base.eps * 2 ^ (exEnv .balanced).fuel) ∧
    (∀ v ∈ exWorldBad.vehicles, 1 - v.dischargeLimit ≤ (exEnv .balanced).base.eps * 2 ^ (exEnv .balanced).fuel) ∧
    (match FlexWindow.step badOps (exEnv .balanced) exWorldBad (some true) [] with
      | .error e => decide (e = .py .fuel) | .ok _ => false) = true ∧
    (match FlexWindow.step idealOps (exEnv .balanced) exWorldBad (some true) [] with
      | .error _ => false | .ok _ => true) = true :=
  ⟨badOps_noFuel, by decide +kernel, by decide +kernel, by decide +kernel, by decide +kernel, by decide +kernel⟩

end SpiceEv
