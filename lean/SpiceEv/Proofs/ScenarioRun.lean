/-
Lemmas about the simulation-loop model (Model/ScenarioRun.lean): shape of the run, error latch,
meaning of `ok`.
-/
import SpiceEv.Proofs.Basic
import SpiceEv.Model.ScenarioRun
set_option linter.unusedSectionVars false
set_option linter.unusedSimpArgs false
namespace SpiceEv
variable {α : Type} [Field α] [LinearOrder α] [IsStrictOrderedRing α]

/-- in exact arithmetic CPython's `sum` is the plain sum -/
instance fieldPySum : PySum α where
  sumTail x rest := rest.foldl (fun a v => a + v.getD 0) x

variable (eps : α) (genKeys : List String)

theorem simLoop_length_le (n : Nat) (obs : List (StepObs α)) :
    (simLoop eps genKeys n obs).length ≤ n ∧ (simLoop eps genKeys n obs).length ≤ obs.length := by
  induction n generalizing obs with
  | zero => simp [simLoop]
  | succ n ih =>
    cases obs with
    | nil => simp [simLoop]
    | cons o rest =>
      simp only [simLoop]
      split
      · have := ih rest; simp only [List.length_cons]; omega
      · simp

theorem simLoop_getElem (n : Nat) (obs : List (StepObs α)) (i : Nat)
    (hi : i < (simLoop eps genKeys n obs).length) :
    ∃ h : i < obs.length, (simLoop eps genKeys n obs)[i] = stepReport eps genKeys obs[i] := by
  induction n generalizing obs i with
  | zero => simp [simLoop] at hi
  | succ n ih =>
    cases obs with
    | nil => simp [simLoop] at hi
    | cons o rest =>
      simp only [simLoop] at hi ⊢
      split at hi <;> rename_i hok
      · simp only [hok, if_true]
        cases i with
        | zero => exact ⟨by simp, by simp⟩
        | succ i =>
          simp only [List.length_cons, Nat.add_lt_add_iff_right] at hi
          obtain ⟨h, e⟩ := ih rest i hi
          exact ⟨by simp; omega, by simpa using e⟩
      · simp only [hok]
        simp only [List.length_singleton, Nat.lt_one_iff] at hi
        subst hi
        exact ⟨by simp, by simp⟩

/-- every step before the last reported one passed all checks -/
theorem simLoop_ok_before_last (n : Nat) (obs : List (StepObs α)) (i : Nat)
    (hi : i + 1 < (simLoop eps genKeys n obs).length) :
    ((simLoop eps genKeys n obs)[i]'(by omega)).ok = true := by
  induction n generalizing obs i with
  | zero => simp [simLoop] at hi
  | succ n ih =>
    cases obs with
    | nil => simp [simLoop] at hi
    | cons o rest =>
      simp only [simLoop] at hi ⊢
      split at hi <;> rename_i hok
      · simp only [hok, if_true]
        cases i with
        | zero => simpa using hok
        | succ i =>
          simp only [List.length_cons, Nat.add_lt_add_iff_right] at hi
          simpa using ih rest i hi
      · simp at hi

/-- the loop stops before `n` steps only directly after a step that latched an error -/
theorem simLoop_short (n : Nat) (obs : List (StepObs α)) (hobs : n ≤ obs.length)
    (hlt : (simLoop eps genKeys n obs).length < n) :
    ∃ h : (simLoop eps genKeys n obs) ≠ [], ((simLoop eps genKeys n obs).getLast h).ok = false := by
  induction n generalizing obs with
  | zero => simp at hlt
  | succ n ih =>
    cases obs with
    | nil => simp at hobs
    | cons o rest =>
      simp only [simLoop] at hlt ⊢
      split at hlt <;> rename_i hok
      · simp only [hok, if_true]
        simp only [List.length_cons, Nat.add_lt_add_iff_right] at hlt
        obtain ⟨h, e⟩ := ih rest (by simpa using hobs) hlt
        exact ⟨by simp, by rw [List.getLast_cons h]; exact e⟩
      · simp only [hok]
        exact ⟨by simp, by simpa using hok⟩

theorem simLoop_all_ok_full (n : Nat) (obs : List (StepObs α)) (hobs : n ≤ obs.length)
    (hall : ∀ s ∈ simLoop eps genKeys n obs, s.ok = true) :
    (simLoop eps genKeys n obs).length = n := by
  by_contra hne
  have hlt : (simLoop eps genKeys n obs).length < n :=
    lt_of_le_of_ne (simLoop_length_le eps genKeys n obs).1 hne
  obtain ⟨h, e⟩ := simLoop_short eps genKeys n obs hobs hlt
  have := hall _ (List.getLast_mem h)
  rw [e] at this; exact absurd this (by simp)

/-- what `ok` means for one connector -/
theorem stepReport_ok (o : StepObs α) (h : (stepReport eps genKeys o).ok = true) :
    o.eventError = false ∧ o.stratError = false ∧
    ∀ g ∈ o.gcs,
      -(g.curMax + eps) ≤ (gcReport genKeys g).1 ∧ (gcReport genKeys g).1 ≤ g.curMax + eps ∧
      ∀ c ∈ o.stations, c.parent = g.id →
        |optVal (loadOf g.loads c.id)| ≤ c.maxPower + eps := by
  unfold stepReport at h
  simp only [Bool.and_eq_true, Bool.not_eq_true', List.all_eq_true, List.mem_map,
    forall_exists_index, and_imp, forall_apply_eq_imp_iff₂] at h
  obtain ⟨⟨he, hs⟩, hg⟩ := h
  refine ⟨he, hs, ?_⟩
  intro g hgm
  obtain ⟨h1, h2⟩ := hg g hgm
  unfold gcWithin at h1
  simp only [Bool.and_eq_true, decide_eq_true_eq] at h1
  refine ⟨h1.1, h1.2, ?_⟩
  intro c hc hp
  unfold csWithin at h2
  rw [List.all_eq_true] at h2
  have := h2 c hc
  simp only [Bool.or_eq_true, Bool.not_eq_true', decide_eq_true_eq, pyabs_eq] at this
  rcases this with h | h
  · simp [hp] at h
  · exact h

end SpiceEv
