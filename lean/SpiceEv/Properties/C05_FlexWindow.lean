/-
C05 — Charging-station power limits, strategy flex_window (Model/StratFlexWindow.lean).
Proved for the whole step with LOAD_STRAT = "balanced". The model is the code with the repairs fixes/FW1 … FW5;
before FW1/FW2 the greedy/needy V2G pass exceeded the station maximum (example below shows the repaired value).
-/
import SpiceEv.Proofs.StratFlexWindow
set_option linter.unusedSectionVars false
namespace SpiceEv
open SpiceEv.FlexWindow
variable {α B : Type} [Field α] [LinearOrder α] [IsStrictOrderedRing α]

/-- **flex_window (balanced) never charges a station above its (concurrency-scaled) maximum.**
After the whole step every station's `current_power` (the sum of what the vehicle pass, the surplus
pass and the V2G pass gave it, minus V2G discharge) is at most its `max_power`, and every station
still has the id and maximum it had before the step: every charging call goes through
`clamp_power` with `cs.current_power` kept up to date. -/
theorem C05_flex_window_balanced_station_upper (ops : BatOps α B) (law : FwLaw ops) (env : FEnv α)
    (hstrat : env.strat = .balanced)
    (w w' : SWorld α B) (window win' : Option Bool) (events : List (FEvent α))
    (cmds : List (String × α)) (hmax : ∀ s ∈ w.stations, 0 ≤ s.maxPower)
    (h : FlexWindow.step ops env w window events = .ok (w', win', cmds)) :
    ∀ s ∈ w'.stations, s.currentPower ≤ s.maxPower ∧
      ∃ s0 ∈ w.stations, s0.id = s.id ∧ s0.maxPower = s.maxPower :=
  step_balanced_sinv ops law.toBatLaw env hstrat w w' window win' events cmds hmax h

/-- **flex_window (balanced) keeps every station within ± its maximum** — whole step, charging and V2G
discharging — for well-formed worlds: vehicle ids unique (they are dict keys) and no two connected
vehicles at the same station. The vehicle pass and the surplus pass only charge through `clamp_power`;
when the V2G pass reaches a station it still carries `0 ≤ current_power ≤ max_power`, and both its
charging and its discharging call are bounded by `max_power − current_power`; the battery passes do not
touch stations. -/
theorem C05_flex_window_balanced_station_both (ops : BatOps α B) (law : FwLaw ops) (env : FEnv α)
    (hstrat : env.strat = .balanced)
    (w w' : SWorld α B) (window win' : Option Bool) (events : List (FEvent α))
    (cmds : List (String × α)) (hmax : ∀ s ∈ w.stations, 0 ≤ s.maxPower)
    (hvid : (w.vehicles.map (·.id)).Nodup) (hcsd : (w.vehicles.filterMap (·.cs)).Nodup)
    (h : FlexWindow.step ops env w window events = .ok (w', win', cmds)) :
    ∀ s ∈ w'.stations, -s.maxPower ≤ s.currentPower ∧ s.currentPower ≤ s.maxPower :=
  step_balanced_station_both ops law.toBatLaw env hstrat w w' window win' events cmds hmax hvid hcsd h

/-- **Only a station with a connected vehicle carries power, and a vehicle without V2G capability is never
discharged** (whole step, balanced; vehicle ids unique): after the step a station with non-zero
`current_power` is the `connected_charging_station` of some vehicle, and a station with negative
`current_power` is that of a V2G-capable vehicle. (With one vehicle per station: the station of a vehicle
without V2G never carries negative power.) -/
theorem C05_flex_window_balanced_only_connected_and_v2g (ops : BatOps α B) (law : FwLaw ops) (env : FEnv α)
    (hstrat : env.strat = .balanced)
    (w w' : SWorld α B) (window win' : Option Bool) (events : List (FEvent α))
    (cmds : List (String × α)) (hvid : (w.vehicles.map (·.id)).Nodup)
    (h : FlexWindow.step ops env w window events = .ok (w', win', cmds)) :
    ∀ s ∈ w'.stations,
      (s.currentPower ≠ 0 → ∃ v ∈ w.vehicles, v.cs = some s.id) ∧
      (s.currentPower < 0 → ∃ v ∈ w.vehicles, v.cs = some s.id ∧ v.v2g = true) := by
  have hc := step_balanced_cinv ops law.toBatLaw env hstrat w w' window win' events cmds hvid h
  intro s hs
  obtain ⟨h1, h2⟩ := hc s hs
  constructor
  · intro hne
    rcases h1 with h0 | ⟨k, hk, hkc⟩
    · exact absurd h0 hne
    · simp only [List.mem_map] at hk
      obtain ⟨v, hv, rfl⟩ := hk
      exact ⟨v, hv, hkc⟩
  · intro hneg
    rcases h2 with h0 | ⟨k, hk, hkc, hkv⟩
    · exact absurd h0 (not_le.mpr hneg)
    · simp only [List.mem_map] at hk
      obtain ⟨v, hv, rfl⟩ := hk
      exact ⟨v, hv, hkc, hkv⟩

/-- **The power assigned to a station — its load entry at the connector — stays within ± the station maximum**
(whole step, balanced). Well-formedness: one connector `g` whose `current_loads` has no (non-zero) entry
for a station before the step (`Strategy.step` deletes them), station ids are not battery ids, vehicle ids
unique, one vehicle per station, station maxima ≥ 0. Combines `C05_flex_window_balanced_station_both`
with the bookkeeping theorem `C06_flex_window_balanced_station_entries`. -/
theorem C05_flex_window_balanced_load_entries (ops : BatOps α B) (law : FwLaw ops) (env : FEnv α)
    (hstrat : env.strat = .balanced)
    (w w' : SWorld α B) (window win' : Option Bool) (events : List (FEvent α))
    (cmds : List (String × α)) (g : GcS α) (hg : w.gcs = [g])
    (h0 : ∀ s ∈ w.stations, (sdGet g.loads s.id).getD 0 = 0)
    (hsb : ∀ s ∈ w.stations, ∀ b ∈ w.batteries, s.id ≠ b.id)
    (hmax : ∀ s ∈ w.stations, 0 ≤ s.maxPower)
    (hvid : (w.vehicles.map (·.id)).Nodup) (hcsd : (w.vehicles.filterMap (·.cs)).Nodup)
    (h : FlexWindow.step ops env w window events = .ok (w', win', cmds)) :
    ∃ g', w'.gcs = [g'] ∧ ∀ s ∈ w'.stations,
      -s.maxPower ≤ (sdGet g'.loads s.id).getD 0 ∧ (sdGet g'.loads s.id).getD 0 ≤ s.maxPower := by
  obtain ⟨⟨g', hg'⟩, he, _, _⟩ := step_balanced_finv ops env hstrat w w' window win' events cmds g hg h0 hsb h
  have hb := step_balanced_station_both ops law.toBatLaw env hstrat w w' window win' events cmds hmax hvid hcsd h
  refine ⟨g', hg', fun s hs => ?_⟩
  rw [he g' hg' s hs]
  exact hb s hs

/-- **Both directions, one V2G call (partial).** One vehicle of `distribute_balanced_v2g` at a station that
so far carries `0 ≤ current_power ≤ max_power` (what the vehicle pass leaves) ends with
`−max_power ≤ current_power ≤ max_power`: `clamp_power` bounds the discharging call (through
`min(clamp_power(total), max_discharge_power)`) as well as the charging call by
`max_power − current_power`.
This is the per-call fact behind `C05_flex_window_balanced_station_both`; it is *partial* because without
"one vehicle per station" the premise `0 ≤ current_power` can fail: two V2G vehicles at one station can in
principle discharge `3 · max_power` (the second call sees a negative `current_power`). -/
theorem C05_flex_window_balanced_v2g_call_bound_partial (ops : BatOps α B) (law : FwLaw ops) (env : FEnv α)
    (curWindow : Option Bool) (acc acc' : V2gAcc α B) (v0 : VehicleS α B) (csId : String) (cs : StationS α)
    (hcs : ((acc.st.w.vehicle? v0.id).getD v0).cs = some csId)
    (hst : getStation acc.st.w csId = .ok cs)
    (h0 : 0 ≤ cs.currentPower) (h1 : cs.currentPower ≤ cs.maxPower)
    (h : balV2gVehicle ops env curWindow acc v0 = .ok acc') :
    acc'.st.w.stations = acc.st.w.stations ∨
    ∃ x, acc'.st.w.stations = (acc.st.w.setStation { cs with currentPower := cs.currentPower + x }).stations ∧
      -cs.maxPower ≤ cs.currentPower + x ∧ cs.currentPower + x ≤ cs.maxPower := by
  rcases balV2gVehicle_station_step ops law.toBatLaw env curWindow acc acc' v0 csId cs hcs hst h with hs | ⟨x, hx, hlo, hhi⟩
  · exact Or.inl hs
  · right
    have hm : max (cs.maxPower - cs.currentPower) 0 = cs.maxPower - cs.currentPower :=
      max_eq_left (by linarith)
    rw [hm] at hlo hhi
    exact ⟨x, hx, by linarith, by linarith⟩

/-- Non-vacuity: a V2G-capable vehicle at a 2 kW station in a window, balanced: the vehicle pass and the
V2G charging pass together give exactly 2 kW. -/
example : resLoads (FlexWindow.step idealOps (exEnv .balanced) exWorld5 (some true) []) =
    some ([2], [2]) := by decide +kernel

/-- The same world under LOAD_STRAT greedy after repair FW1 (`distribute_peak_shaving_v2g` charges through
`clamp_power`): the 2 kW station carries 2 kW (before FW1: 8 kW, finding `C05:station_limit:flex_window:charge`). -/
example : resLoads (FlexWindow.step idealOps (exEnv .greedy) exWorld5 (some true) []) =
    some ([2], [2]) := by decide +kernel

/-- Non-vacuity of the V2G call bound: outside a window the full V2G vehicle of `exWorld3` discharges ≈ 5 kW
through its 11 kW station. -/
example : resLoads (FlexWindow.step idealOps (exEnv .balanced) exWorld3 (some false) []) =
    some ([-1099509530619 / 274877906944], [-2621435 / 524288]) := by decide +kernel


/-! ### LOAD_STRAT greedy / needy (code with the repairs FW1 / FW2) -/

/-- **flex_window (greedy, needy) keeps every station within ± its (concurrency-scaled) maximum** — whole `step`
with LOAD_STRAT ≠ balanced, for well-formed worlds (vehicle ids unique, no two connected vehicles at one station,
station maxima ≥ 0): `distribute_peak_shaving_vehicles` adds to each station one `clamp_power`-bounded charge
(`distribute_power` yields one command per station), the surplus pass of the base class charges within the room or
discharges at most `cs.max_power`, `distribute_peak_shaving_v2g` charges through `clamp_power` (FW1) and discharges at
most `cs.max_power` (FW2); every station is visited at most once by a discharging pass, while it still carries
`0 ≤ current_power`; the battery passes do not touch stations. -/
theorem C05_flex_window_greedy_needy_station_both (ops : BatOps α B) (law : FwLaw ops) (env : FEnv α)
    (hstrat : env.strat ≠ .balanced)
    (w w' : SWorld α B) (window win' : Option Bool) (events : List (FEvent α))
    (cmds : List (String × α)) (hmax : ∀ s ∈ w.stations, 0 ≤ s.maxPower)
    (hvid : (w.vehicles.map (·.id)).Nodup) (hcsd : (w.vehicles.filterMap (·.cs)).Nodup)
    (h : FlexWindow.step ops env w window events = .ok (w', win', cmds)) :
    ∀ s ∈ w'.stations, -s.maxPower ≤ s.currentPower ∧ s.currentPower ≤ s.maxPower := by
  obtain ⟨N', hj⟩ := step_ps_jinv ops law.toBatLaw env hstrat w w' window win' events cmds hmax hvid hcsd h
  exact fun s hs => ⟨(hj.1 s hs).1, (hj.1 s hs).2.1⟩

/-- **Only a station with a connected vehicle carries power, and a vehicle without V2G capability is never
discharged** (whole `step`, LOAD_STRAT ≠ balanced, same well-formedness): a station with non-zero `current_power`
is some vehicle's `connected_charging_station`; a station with negative `current_power` is that of a V2G-capable
vehicle. -/
theorem C05_flex_window_greedy_needy_only_connected_and_v2g (ops : BatOps α B) (law : FwLaw ops) (env : FEnv α)
    (hstrat : env.strat ≠ .balanced)
    (w w' : SWorld α B) (window win' : Option Bool) (events : List (FEvent α))
    (cmds : List (String × α)) (hmax : ∀ s ∈ w.stations, 0 ≤ s.maxPower)
    (hvid : (w.vehicles.map (·.id)).Nodup) (hcsd : (w.vehicles.filterMap (·.cs)).Nodup)
    (h : FlexWindow.step ops env w window events = .ok (w', win', cmds)) :
    ∀ s ∈ w'.stations,
      (s.currentPower ≠ 0 → ∃ v ∈ w.vehicles, v.cs = some s.id) ∧
      (s.currentPower < 0 → ∃ v ∈ w.vehicles, v.cs = some s.id ∧ v.v2g = true) := by
  obtain ⟨N', hj⟩ := step_ps_jinv ops law.toBatLaw env hstrat w w' window win' events cmds hmax hvid hcsd h
  intro s hs
  obtain ⟨h1, h2⟩ := hj.2 s hs
  constructor
  · intro hne
    rcases h1 with h0 | ⟨k, hk, hkc⟩
    · exact absurd h0 hne
    · simp only [List.mem_map] at hk
      obtain ⟨v, hv, rfl⟩ := hk
      exact ⟨v, hv, hkc⟩
  · intro hneg
    rcases h2 with h0 | ⟨k, hk, hkc, hkv⟩
    · exact absurd h0 (not_le.mpr hneg)
    · simp only [List.mem_map] at hk
      obtain ⟨v, hv, rfl⟩ := hk
      exact ⟨v, hv, hkc, hkv⟩

/-- **The power assigned to a station — its load entry at the connector — stays within ± the station maximum**
(whole `step`, LOAD_STRAT ≠ balanced): combines `C05_flex_window_greedy_needy_station_both` with the bookkeeping
theorem `C06_flex_window_greedy_needy_station_entries` (one connector whose `current_loads` has no non-zero
station entry before the step, station ids ≠ battery ids, vehicle ids unique, one vehicle per station,
maxima ≥ 0). -/
theorem C05_flex_window_greedy_needy_load_entries (ops : BatOps α B) (law : FwLaw ops) (env : FEnv α)
    (hstrat : env.strat ≠ .balanced)
    (w w' : SWorld α B) (window win' : Option Bool) (events : List (FEvent α))
    (cmds : List (String × α)) (g : GcS α) (hg : w.gcs = [g])
    (h0 : ∀ s ∈ w.stations, (sdGet g.loads s.id).getD 0 = 0)
    (hsb : ∀ s ∈ w.stations, ∀ b ∈ w.batteries, s.id ≠ b.id)
    (hmax : ∀ s ∈ w.stations, 0 ≤ s.maxPower)
    (hvid : (w.vehicles.map (·.id)).Nodup) (hcsd : (w.vehicles.filterMap (·.cs)).Nodup)
    (h : FlexWindow.step ops env w window events = .ok (w', win', cmds)) :
    ∃ g', w'.gcs = [g'] ∧ ∀ s ∈ w'.stations,
      -s.maxPower ≤ (sdGet g'.loads s.id).getD 0 ∧ (sdGet g'.loads s.id).getD 0 ≤ s.maxPower := by
  obtain ⟨⟨g', hg'⟩, he, _, _⟩ := step_ps_finv ops env hstrat w w' window win' events cmds g hg h0 hsb h
  obtain ⟨N', hj⟩ := step_ps_jinv ops law.toBatLaw env hstrat w w' window win' events cmds hmax hvid hcsd h
  refine ⟨g', hg', fun s hs => ?_⟩
  rw [he g' hg' s hs]
  exact ⟨(hj.1 s hs).1, (hj.1 s hs).2.1⟩

/-- **Per-call bound, `distribute_power`** (greedy and needy): it returns one command per station; each is the charge
of a vehicle of the given list connected to that station, non-negative and at most the station's room
`max (max_power − current_power) 0` (every call goes through `clamp_power`). -/
theorem C05_flex_window_distribute_power_entries (ops : BatOps α B) (law : FwLaw ops) (env : FEnv α)
    (w : SWorld α B) (vs vs' : List (VehicleS α B)) (P N : α) (cmds : List (String × α))
    (h : distributePower ops env w vs P N = .ok (vs', cmds)) :
    (cmds.map (·.1)).Nodup ∧ ∀ kv ∈ cmds, ∃ cs0 v, v ∈ vs ∧ v.cs = some kv.1 ∧ getStation w kv.1 = .ok cs0 ∧
      0 ≤ kv.2 ∧ kv.2 ≤ max (cs0.maxPower - cs0.currentPower) 0 :=
  distributePower_entries ops law.toBatLaw env w vs vs' P N cmds h

/-- **Per-call bound, `distribute_peak_shaving_v2g`** (repairs FW1 / FW2): one vehicle moves its station's
`current_power` up by at most the room `max (max_power − current_power) 0` (charging through `clamp_power`) or down
by at most `max max_power 0` (discharging with `min(…, max_discharge_power, cs.max_power)`); nothing else changes at
the stations. -/
theorem C05_flex_window_peak_shaving_v2g_call_bound (ops : BatOps α B) (law : FwLaw ops) (env : FEnv α)
    (curWindow : Option Bool) (acc acc' : V2gAcc α B) (v0 : VehicleS α B)
    (h : psV2gVehicle ops env curWindow acc v0 = .ok acc') :
    acc'.st.w.stations = acc.st.w.stations ∨
    ∃ csId cs x, ((acc.st.w.vehicle? v0.id).getD v0).cs = some csId ∧ getStation acc.st.w csId = .ok cs ∧
      acc'.st.w.stations = (acc.st.w.setStation { cs with currentPower := cs.currentPower + x }).stations ∧
      ((0 ≤ x ∧ x ≤ max (cs.maxPower - cs.currentPower) 0) ∨ (x ≤ 0 ∧ -(max cs.maxPower 0) ≤ x)) :=
  psV2gVehicle_station_step ops law.toBatLaw env curWindow acc acc' v0 h

/-- Non-vacuity (kernel-checked, greedy and needy): a full V2G vehicle (desired 0.5) at a 2 kW station, outside a
window, 1 kW load on a 10 kW connector: it discharges ≈ 1.67 kW through the 2 kW station (the connector ends at
≈ −0.67 kW); in a window the V2G-capable vehicle of `exWorld5` charges exactly 2 kW through its 2 kW station. -/
def exWorld6 : SWorld ℚ ℚ :=
  ⟨[⟨"GC", 10, some (.fixed (3/10)), [("load", 1)]⟩], [⟨"CS1", "GC", 2, 0, 0⟩],
   [⟨"v1", some "CS1", 1/2, some (3 * hourUs), 0, true, 1/5, 1⟩], []⟩
example : resLoads (FlexWindow.step idealOps (exEnv .greedy) exWorld6 (some false) []) =
    some ([-349527 / 524288], [-873815 / 524288]) := by decide +kernel
example : resLoads (FlexWindow.step idealOps (exEnv .needy) exWorld6 (some false) []) =
    some ([-349527 / 524288], [-873815 / 524288]) := by decide +kernel
example : resLoads (FlexWindow.step idealOps (exEnv .needy) exWorld5 (some true) []) = some ([2], [2]) := by
  decide +kernel
example : (exWorld6.vehicles.map (·.id)).Nodup ∧ (exWorld6.vehicles.filterMap (·.cs)).Nodup ∧
    ∀ s ∈ exWorld6.stations, (0 : ℚ) ≤ s.maxPower := by decide

end SpiceEv
