/-
C04 — grid-connector power limit, for the strategy `balanced_market`
(model: Model/StratBalancedMarket.lean, tied to the real code by harness/s_balanced_market.py).

The pinned code exceeded the limit (known findings
`C04:strategy_breaks_limit:balanced_market:draw:{vehicles,batteries}`): the stationary-battery block
charged with the forecast headroom `timesteps[0]["power"]`, which was neither reduced by what an
earlier battery at the same connector took in this step nor by what the surplus pass gave to
vehicles.  Repaired by fixes/BM2.diff (the model follows); the two former witnesses are regression
examples below, and `C04_balanced_market_step_gc_with_batteries_within_limit_partial` proves the limit
with stationary batteries.
-/
import SpiceEv.Proofs.StratBalancedMarket
import SpiceEv.Proofs.StratBalancedMarketLimit
import SpiceEv.Proofs.StratBalancedMarketBattery
import SpiceEv.Proofs.StratBalancedMarketLimitStep
import SpiceEv.Proofs.StratBalancedMarketBatLimit
import SpiceEv.Proofs.StratBalancedMarketBatLimitStep
import SpiceEv.Proofs.StratBalancedMarketV2gStep
import SpiceEv.Proofs.StratBalancedMarketDraw
import SpiceEv.Proofs.StratBalancedMarketToy
set_option linter.unusedSectionVars false
namespace SpiceEv
open SpiceEv.BalancedMarket
variable {α B : Type} [Field α] [LinearOrder α] [IsStrictOrderedRing α]

/-- **The planning pass stays within the forecast headroom of the current timestep (partial).**
For one vehicle, whatever the order `sorted`, prices, horizon and battery (obeying `BatLaw`): if the
power planned so far for the current timestep is within `max 0 timesteps[0].power`, then after the
planning loop the connector load has grown by at least 0 and at most `max 0 timesteps[0].power`, and
the limit is unchanged.  `timesteps[0].power` is `cur_max_power − current load` for the first vehicle
and is reduced by the simulated average power of every vehicle planned before.
Excluded (hence `_partial`), each a way in which the unchanged code breaks the limit or is not covered:
the stationary-battery block (witnesses below), the compensating charge of the V2G search (it charges
the increment, not the planned total), and the identification of the forecast reduction with the real
charge (needs a determinism law for the battery that `BatLaw` does not contain). -/
theorem C04_balanced_market_plan_within_headroom_partial (ops : Ops α B) (law : BatLaw ops.toBatOps)
    (env : Env α) (v : VehicleS α B) (ts : List (TS α)) (t0 : TS α) (h0 : ts[0]? = some t0)
    (sorted : List (α × Nat)) (fuel : Nat) (st st' : VSt α B)
    (hp : ∀ p, st.power[0]? = some p → p ≤ max 0 t0.power)
    (h : chargeLoop ops env v ts sorted fuel st = .ok st') :
    st.gc.currentLoad ≤ st'.gc.currentLoad ∧
    st'.gc.currentLoad ≤ st.gc.currentLoad + max 0 t0.power ∧ st'.gc.curMax = st.gc.curMax :=
  chargeLoop_headroom ops law env v ts t0 h0 sorted fuel st st' hp h

/-- corollary for the first vehicle of a connector whose fixed load respects the limit: the planning
pass leaves the connector within its limit -/
theorem C04_balanced_market_first_vehicle_within_limit_partial (ops : Ops α B) (law : BatLaw ops.toBatOps)
    (env : Env α) (v : VehicleS α B) (ts : List (TS α)) (t0 : TS α) (h0 : ts[0]? = some t0)
    (sorted : List (α × Nat)) (fuel : Nat) (st st' : VSt α B)
    (hfirst : t0.power = st.gc.curMax - st.gc.currentLoad) (hbase : st.gc.currentLoad ≤ st.gc.curMax)
    (hp : ∀ p, st.power[0]? = some p → p ≤ max 0 t0.power)
    (h : chargeLoop ops env v ts sorted fuel st = .ok st') :
    st'.gc.currentLoad ≤ st'.gc.curMax := by
  obtain ⟨_, h2, h3⟩ := chargeLoop_headroom ops law env v ts t0 h0 sorted fuel st st' hp h
  rw [h3]
  rcases le_total 0 t0.power with h | h
  · rw [max_eq_right h, hfirst] at h2; linarith
  · rw [max_eq_left h] at h2; linarith

/-- **`step_gc` keeps a connector within its limit unless a stationary battery or a V2G vehicle is
involved (partial).**  For one call of `step_gc` on connector `gcId`, any number of vehicles and
stations, any prices, events and horizon, a battery obeying `BatLaw` whose simulated copy is the real
battery up to its SoC (`SimLaw`; true of the battery model, where only `soc` is ever written): if

* fixed load and generation alone respect the limit from above (`current load ≤ cur_max_power`, `0 ≤
  cur_max_power`),
* every queued future event starts after the current time (the base class has consumed the due ones),
* every station is within its maximum when the call starts (true after the reset at the top of `step`,
  and kept by every `step_gc`: `C05_balanced_market_station`),
* no vehicle is V2G-capable, and no stationary battery hangs on this connector,

then after the call the connector's load lies between the base load and the limit, and the limit is
unchanged: planning pass (real charge ≤ forecast headroom, forecast reduced by exactly the booked power,
or by a planned-but-unused power), and surplus pass (only feed-in is handed out).
Excluded, each with a kernel-checked witness or a replay in notes/S_BALANCED_MARKET.md: stationary
batteries at the connector (witnesses 1, 2 below: the known findings
`C04:strategy_breaks_limit:balanced_market:draw:*`), V2G vehicles (feed-in beyond the limit after a
planned-but-unused charge of an earlier vehicle, corpus/S_BALANCED_MARKET/feedin_phantom_charge.json). -/
theorem C04_balanced_market_step_gc_within_limit_partial (ops : Ops α B) (law : BatLaw ops.toBatOps)
    (R : B → B → Prop) (sl : SimLaw ops R) (env : Env α) (w w' : SWorld α B) (gcId : String)
    (cmds : List (String × α)) (gc : GcS α) (hgc : w.gc? gcId = some gc)
    (heps : 0 ≤ env.eps) (hM : 0 ≤ gc.curMax) (hbase : gc.currentLoad ≤ gc.curMax)
    (hfut : ∀ e ∈ env.events, env.now < e.start)
    (hst : ∀ s ∈ w.stations, -s.maxPower ≤ s.currentPower ∧ s.currentPower ≤ s.maxPower)
    (hnov2g : ∀ v ∈ w.vehicles, v.v2g = false) (hnobat : ∀ b ∈ w.batteries, b.parent ≠ gcId)
    (h : stepGc ops env w gcId = .ok (w', cmds)) :
    ∀ g' ∈ w'.gcs, g'.id = gcId →
      gc.currentLoad ≤ g'.currentLoad ∧ g'.currentLoad ≤ gc.curMax ∧ g'.curMax = gc.curMax :=
  stepGc_limit ops law R sl env w w' gcId cmds gc hgc heps hM hbase hfut hst hnov2g hnobat h

/-- **The whole step keeps every connector within its limit unless a stationary battery or a V2G
vehicle is involved (partial).**  `BalancedMarket.step` on any world with unique connector ids, no
stationary battery, no V2G-capable vehicle, all queued events in the future, station maxima `≥ 0`: if
fixed load and generation alone respect the limit of every connector from above, then after the step
every connector's load lies between its base load and its (unchanged) limit.  The hypotheses on the
battery are `BatLaw` and the copy law `SimLaw` (`C04_balanced_market_battery_model_copy_law`).
What is excluded is exactly what the unchanged code gets wrong (witnesses 1 and 2 below for batteries,
the feed-in replay for V2G); the lower side (`−limit ≤ load`) follows from `base load ≤ load` when fixed
load and generation respect the limit from below. -/
theorem C04_balanced_market_step_within_limit_partial (ops : Ops α B) (law : BatLaw ops.toBatOps)
    (R : B → B → Prop) (sl : SimLaw ops R) (env : Env α) (w w' : SWorld α B) (cmds : List (String × α))
    (heps : 0 ≤ env.eps) (hfut : ∀ e ∈ env.events, env.now < e.start)
    (hmax : ∀ s ∈ w.stations, 0 ≤ s.maxPower) (hnov2g : ∀ v ∈ w.vehicles, v.v2g = false)
    (hnobat : w.batteries = []) (hnd : (w.gcs.map (·.id)).Nodup)
    (hbase : ∀ g ∈ w.gcs, 0 ≤ g.curMax ∧ g.currentLoad ≤ g.curMax)
    (h : BalancedMarket.step ops env w = .ok (w', cmds)) :
    ∀ g' ∈ w'.gcs, ∃ g ∈ w.gcs, g.id = g'.id ∧ g.currentLoad ≤ g'.currentLoad ∧
      g'.currentLoad ≤ g.curMax ∧ g'.curMax = g.curMax :=
  step_limit ops law R sl env w w' cmds heps hfut hmax hnov2g hnobat hnd hbase h

/-- Non-vacuity: two connectors, the second one tight (limit 5 kW, 4 kW fixed load): the vehicle at the
first charges `≈ 1.5` kW, the one at the second exactly the remaining 1 kW — load 5 ≤ 5. -/
example :
    (BalancedMarket.step toyOps (toyEnv none)
      ⟨[toyGc, ⟨"GC2", 5, some (.fixed (3/10)), [("load", 4)]⟩], [toyCs, ⟨"CS2", "GC2", 11, 0, 0⟩],
       [toyVeh false (1/2), ⟨"v2", some "CS2", 8/10, some (2 * hourUs), 0, false, 1/2, 1/2⟩], []⟩).toOption.map
      (fun r => r.1.gcs.map (fun g => (g.currentLoad, decide (g.currentLoad ≤ g.curMax)))) =
      some [(4 + 1572813/1048576, true), (5, true)] := by decide +kernel

/-- Non-vacuity: the flat-price world (20 kW limit, 4 kW fixed load, one vehicle, no battery): the
hypotheses hold for the toy battery, `step_gc` books `≈ 1.5` kW, load `≈ 5.5 ≤ 20`. -/
example :
    (stepGc toyOps (toyEnv none) (toyWorld false (1/2)) "GC").toOption.map
      (fun r => r.1.gcs.map (fun g => (g.currentLoad, decide (g.currentLoad ≤ g.curMax)))) =
      some [(4 + 1572813/1048576, true)] := by decide +kernel

example : BatLaw toyOps.toBatOps ∧ SimLaw toyOps (fun _ _ => True) ∧
    (toyWorld false (1/2)).gc? "GC" = some toyGc ∧ toyGc.currentLoad ≤ toyGc.curMax ∧
    (∀ e ∈ (toyEnv none).events, (toyEnv none).now < e.start) ∧
    (∀ v ∈ (toyWorld false (1/2)).vehicles, v.v2g = false) :=
  ⟨toyLaw, toySim, by rfl, by decide +kernel, by decide +kernel, by decide +kernel⟩

/-- **`step_gc` with stationary batteries keeps the connector within ±limit (repair BM2; partial).**
One call of `step_gc` on connector `gcId`, any number of vehicles, stations and stationary batteries
(minimum charging power `≥ 0`), any prices, events and horizon, battery obeying `BatLaw` and the copy
law `SimLaw`: if fixed load and generation alone respect the limit (`−cur_max_power ≤ load ≤
cur_max_power`), every queued event lies in the future, every station is within its maximum and no
vehicle is V2G-capable, then after the call `−limit ≤ load ≤ limit` and the limit is unchanged —
vehicle planning, surplus pass, and the battery block: each battery charges with at most what is left at
the connector right now (cheap steps: the forecast capped by `cur_max_power − current load`, fixes/BM2.diff;
otherwise the feed-in), and supports the connector with at most `min(load, cur_max_power + load)`.
Still excluded (hence `_partial`), and exactly this:
* V2G-capable vehicles (the V2G search books the increment of a compensating charge but forecasts the
  total; not analysed; no overshoot seen in the survey after BM1);
* more than one stationary battery in the world **when** the current step is not cheap or is the only
  cheap step of the forecast (`num_cheap_ts = 0`): then a battery that has supported the connector is put on
  `discharging_stations` and the next battery's `avail_power` excludes its (negative) load; bounding that
  needs the load keys of the batteries to be fresh and unique, which is not proved.  With
  `num_cheap_ts ≥ 1` (second alternative of `hmode`) any number of batteries is covered. -/
theorem C04_balanced_market_step_gc_with_batteries_within_limit_partial (ops : Ops α B)
    (law : BatLaw ops.toBatOps) (R : B → B → Prop) (sl : SimLaw ops R) (env : Env α)
    (w w' : SWorld α B) (gcId : String) (cmds : List (String × α)) (gc : GcS α)
    (hgc : w.gc? gcId = some gc) (heps : 0 ≤ env.eps) (hM : 0 ≤ gc.curMax)
    (hlo0 : -gc.curMax ≤ gc.currentLoad) (hbase : gc.currentLoad ≤ gc.curMax)
    (hfut : ∀ e ∈ env.events, env.now < e.start)
    (hst : ∀ s ∈ w.stations, -s.maxPower ≤ s.currentPower ∧ s.currentPower ≤ s.maxPower)
    (hnov2g : ∀ v ∈ w.vehicles, v.v2g = false)
    (hmin : ∀ b ∈ w.batteries, 0 ≤ b.minChargingPower)
    (ts0 : List (TS α)) (hts0 : timestepsOf ops env gc = .ok ts0)
    (hmode : w.batteries.length ≤ 1 ∨ ∃ k, numCheap env.priceThreshold ts0 = .ok (some (k + 1)))
    (h : stepGc ops env w gcId = .ok (w', cmds)) :
    ∀ g' ∈ w'.gcs, g'.id = gcId →
      -gc.curMax ≤ g'.currentLoad ∧ g'.currentLoad ≤ gc.curMax ∧ g'.curMax = gc.curMax :=
  stepGc_limit_bat ops law R sl env w w' gcId cmds gc hgc heps hM hlo0 hbase hfut hst hnov2g hmin ts0
    hts0 hmode h

/-- **The whole step with stationary batteries keeps every connector within ±limit (repair BM2; partial).**
`BalancedMarket.step` on any world with unique connector ids, any number of vehicles, stations and
stationary batteries (minimum charging power `≥ 0`), no V2G-capable vehicle, all queued events in the
future, station maxima `≥ 0`: if fixed load and generation alone respect the limit of every connector
(`−cur_max_power ≤ load ≤ cur_max_power`), then after the step every connector's load is within
`±` its unchanged limit.  Excluded, exactly: V2G-capable vehicles; and more than one stationary battery
in the world unless every connector's forecast starts with a cheap step followed by at least one more
step (`num_cheap_ts ≥ 1`, second alternative of `hmode`) — see
`C04_balanced_market_step_gc_with_batteries_within_limit_partial` for why. -/
theorem C04_balanced_market_step_with_batteries_within_limit_partial (ops : Ops α B)
    (law : BatLaw ops.toBatOps) (R : B → B → Prop) (sl : SimLaw ops R) (env : Env α)
    (w w' : SWorld α B) (cmds : List (String × α))
    (heps : 0 ≤ env.eps) (hfut : ∀ e ∈ env.events, env.now < e.start)
    (hmax : ∀ s ∈ w.stations, 0 ≤ s.maxPower) (hnov2g : ∀ v ∈ w.vehicles, v.v2g = false)
    (hmin : ∀ b ∈ w.batteries, 0 ≤ b.minChargingPower) (hnd : (w.gcs.map (·.id)).Nodup)
    (hbase : ∀ g ∈ w.gcs, 0 ≤ g.curMax ∧ -g.curMax ≤ g.currentLoad ∧ g.currentLoad ≤ g.curMax)
    (hmode : w.batteries.length ≤ 1 ∨ ∀ g ∈ w.gcs, ∀ ts0, timestepsOf ops env g = .ok ts0 →
      ∃ k, numCheap env.priceThreshold ts0 = .ok (some (k + 1)))
    (h : BalancedMarket.step ops env w = .ok (w', cmds)) :
    ∀ g' ∈ w'.gcs, ∃ g ∈ w.gcs, g.id = g'.id ∧ -g.curMax ≤ g'.currentLoad ∧
      g'.currentLoad ≤ g.curMax ∧ g'.curMax = g.curMax :=
  step_limit_bat ops law R sl env w w' cmds heps hfut hmax hnov2g hmin hnd hbase hmode h

/-- **balanced_market keeps every connector within ±limit — no exclusion left.**  `BalancedMarket.step`
(with the repairs BM1, BM2) on any world whose load keys are fresh and unique (`FreshKeys`, below): any
number of connectors, stations, vehicles — V2G-capable or not —, stationary batteries, any prices, horizon,
events (all in the future); battery obeying `BatLaw` and the copy law `SimLaw`.  If fixed load and
generation alone respect the limit of every connector (`−cur_max_power ≤ load ≤ cur_max_power`), then after
the step every connector's load is within `±` its unchanged limit.

`FreshKeys w` is the well-formedness of the world *before* the strategy step and is what the run loop
guarantees: `Strategy.step` removes the entries of all charging stations and stationary batteries from every
connector's `current_loads` before the strategy runs (C07 model `StrategyBase`: `resetLoads`, theorem family
C07), so every station / battery entry is created by this step; connector, vehicle and battery ids are
unique; a battery id is not a station id, and neither is the name of a fixed load or generator; batteries'
minimum charging powers are `≥ 0`; and no two vehicles stand at the same charging station.  The last one is
essential: with two vehicles at one station the station's entry can be positive while the station is on
`discharging_stations`, and `get_current_load(exclude=…)` then under-reports the load to the surplus pass.

Proof of the draw side with V2G: through the vehicle loop the forecast of the current timestep equals the
real headroom (each vehicle books exactly the power the forecast update replays), every booked charge is at
most that forecast, and the entries of all discharging stations / batteries in `current_loads` are `≤ 0`
(they are fresh keys holding `−out`), hence `load ≤ load without the discharging ones`, which is what the
surplus pass and the battery block hand out against. -/
theorem C04_balanced_market_step_within_limit (ops : Ops α B) (law : BatLaw ops.toBatOps)
    (R : B → B → Prop) (sl : SimLaw ops R) (env : Env α) (w w' : SWorld α B) (cmds : List (String × α))
    (heps : 0 ≤ env.eps) (hfut : ∀ e ∈ env.events, env.now < e.start) (wf : FreshKeys w)
    (hbase : ∀ g ∈ w.gcs, 0 ≤ g.curMax ∧ -g.curMax ≤ g.currentLoad ∧ g.currentLoad ≤ g.curMax)
    (h : BalancedMarket.step ops env w = .ok (w', cmds)) :
    ∀ g' ∈ w'.gcs, ∃ g ∈ w.gcs, g.id = g'.id ∧ -g.curMax ≤ g'.currentLoad ∧
      g'.currentLoad ≤ g.curMax ∧ g'.curMax = g.curMax :=
  step_both ops law R sl env w w' cmds heps hfut wf hbase h

/-- the draw side for one call of `step_gc`, with V2G-capable vehicles and stationary batteries (the
hypotheses are the part of `FreshKeys` that concerns this connector; `wv` are the vehicles' (id, station)
data, which never change) -/
theorem C04_balanced_market_step_gc_draw_limit_with_v2g (ops : Ops α B) (law : BatLaw ops.toBatOps)
    (R : B → B → Prop) (sl : SimLaw ops R) (env : Env α) (w w' : SWorld α B) (gcId : String)
    (cmds : List (String × α)) (gc : GcS α) (hgc : w.gc? gcId = some gc)
    (heps : 0 ≤ env.eps) (hM : 0 ≤ gc.curMax) (hbase : gc.currentLoad ≤ gc.curMax)
    (hfut : ∀ e ∈ env.events, env.now < e.start)
    (hvnd : (w.vehicles.map (·.id)).Nodup)
    (H2 : ∀ u1 ∈ w.vehicles, ∀ u2 ∈ w.vehicles, ∀ c, u1.cs = some c → u2.cs = some c → u1.id = u2.id)
    (H3 : ∀ u ∈ w.vehicles, ∀ c, u.cs = some c → c ∉ gc.loads.map (·.1))
    (hbnd : (w.batteries.map (·.id)).Nodup)
    (H4a : ∀ id ∈ w.batteries.map (·.id), id ∉ gc.loads.map (·.1))
    (H4c : ∀ id ∈ w.batteries.map (·.id), ∀ u ∈ w.vehicles, u.cs ≠ some id)
    (hmin : ∀ b ∈ w.batteries, 0 ≤ b.minChargingPower)
    (h : stepGc ops env w gcId = .ok (w', cmds)) :
    ∀ g' ∈ w'.gcs, g'.id = gcId → g'.currentLoad ≤ gc.curMax :=
  (stepGc_upper ops law R sl env w w' gcId cmds gc hgc heps hM hbase hfut w.vehicles (VMeta_init w) hvnd H2 H3
    hbnd H4a H4c hmin h).1

/-- the example world of the two non-vacuity examples below: a 3 kW connector with 2 kW of generation, a
V2G vehicle at SoC 0.9, a second vehicle that wants to charge, and a stationary battery -/
def c04World : SWorld ℚ ℚ :=
  ⟨[⟨"GC", 3, some (.fixed (3/10)), [("pv", -2)]⟩], [toyCs, ⟨"CS2", "GC", 11, 0, 0⟩],
   [toyVeh true (9/10), ⟨"v2", some "CS2", 8/10, some (2 * hourUs), 0, false, 1/2, 1/2⟩], [⟨"B1", "GC", 0, 1/2⟩]⟩

/-- Non-vacuity: the world is well-formed (`FreshKeys`), base load −2 within ±3. -/
example : FreshKeys c04World :=
  ⟨by decide +kernel, by decide +kernel, by decide +kernel, by decide +kernel, by decide +kernel,
   by decide +kernel, by decide +kernel, by decide +kernel⟩

/-- … with 0.10 announced for the next step the V2G vehicle discharges 1 kW now (its station goes on
`discharging_stations`), the surplus pass hands the remaining feed-in (3 kW without the discharging station)
to the other vehicle, which takes 2 kW: load −1, within ±3.  With 0.50 announced the second vehicle charges
`≈ 3` kW now and the battery supports the connector: load 0. -/
example :
    (BalancedMarket.step toyOps (toyEnv (some (1/10))) c04World).toOption.map
      (fun r => (r.2, r.1.gcs.map (fun g => (g.currentLoad, decide (-g.curMax ≤ g.currentLoad ∧ g.currentLoad ≤ g.curMax))))) =
      some ([("CS1", -1), ("CS2", 2)], [(-1, true)]) := by decide +kernel
example :
    (BalancedMarket.step toyOps (toyEnv (some (1/2))) c04World).toOption.map
      (fun r => r.1.gcs.map (fun g => (g.currentLoad, decide (-g.curMax ≤ g.currentLoad ∧ g.currentLoad ≤ g.curMax)))) =
      some [(0, true)] := by decide +kernel

/-- **Witness: `FreshKeys.oneVehiclePerStation` cannot be dropped.** Two vehicles at the *same* station CS1
(a malformed world; the scenario loader does not reject it): limit 2.5 kW, generation 2.5 kW (base load −2.5,
within the limit), price 0.30 now and 0.10 next.  Vehicle `a` (leaves after this step) charges `≈ 5` kW, the
V2G vehicle `b` discharges 0.5 kW through the same station: the station's entry is `≈ +4.5` while the station is
on `discharging_stations`, `get_current_load(exclude=…)` reports −2.5, and the surplus pass hands another
2.5 kW to vehicle `c`: load `589811/131072 ≈ 4.5 > 2.5`.  Replayed on the real code
(corpus/S_BALANCED_MARKET/two_vehicles_one_station.json: commands CS1 4.4999, CS2 2.5, total 4.4999 kW at a
2.5 kW connector; the run is flagged as aborted by the monitor). -/
example :
    (BalancedMarket.step toyOps (toyEnv (some (1/10)))
      ⟨[⟨"GC", 5/2, some (.fixed (3/10)), [("pv", -5/2)]⟩], [toyCs, ⟨"CS2", "GC", 11, 0, 0⟩],
       [⟨"a", some "CS1", 8/10, some hourUs, 0, false, 1/2, 3/10⟩,
        ⟨"b", some "CS1", 8/10, some (2 * hourUs), 0, true, 1/2, 11/20⟩,
        ⟨"c", some "CS2", 8/10, some (2 * hourUs), 0, false, 1/2, 1/2⟩], []⟩).toOption.map
      (fun r => r.1.gcs.map (fun g => (g.currentLoad, decide (g.curMax < g.currentLoad)))) =
      some [(589811/131072, true)] := by decide +kernel

/-- **Feed-in side of the limit with V2G-capable vehicles and stationary batteries (whole step).**
After repair BM1 the V2G discharge limit `timesteps[0].power − 2·max_power` is enough: for
`BalancedMarket.step` on any world with unique connector ids — any number of vehicles (V2G-capable or not),
stations, stationary batteries, any prices, events (all in the future) and horizon — with a battery obeying
`BatLaw` and the copy law `SimLaw`: if fixed load and generation alone respect the limit of every
connector from below (`−cur_max_power ≤ load`, `0 ≤ cur_max_power`), then after the step
`−limit ≤ load` at every connector and the limit is unchanged.
Why it holds: through the vehicle loop the forecast of the current timestep never falls below the
connector's real headroom (`max_power − load ≤ timesteps[0].power`): the power replayed by the forecast
update for the current timestep is exactly the one real call that was booked — nothing is planned for the
current timestep unless it is applied (BM1), after a real charge the V2G search cannot reach the current
timestep (it sits before `sorted_idx`; the indices of `sorted_ts` are distinct), the back-tracking restores
`power`; hence a discharge of at most `2·max_power − timesteps[0].power` cannot pass `−max_power`.  Surplus
pass and battery charging only raise the load; the battery support discharge is bounded by
`cur_max_power + load`.
This theorem needs no assumption on load keys; the *draw* side with V2G does (`FreshKeys`) and is part of
`C04_balanced_market_step_within_limit`. -/
theorem C04_balanced_market_step_feed_in_limit_with_v2g (ops : Ops α B) (law : BatLaw ops.toBatOps)
    (R : B → B → Prop) (sl : SimLaw ops R) (env : Env α) (w w' : SWorld α B) (cmds : List (String × α))
    (hfut : ∀ e ∈ env.events, env.now < e.start) (hnd : (w.gcs.map (·.id)).Nodup)
    (hbase : ∀ g ∈ w.gcs, 0 ≤ g.curMax ∧ -g.curMax ≤ g.currentLoad)
    (h : BalancedMarket.step ops env w = .ok (w', cmds)) :
    ∀ g' ∈ w'.gcs, ∃ g ∈ w.gcs, g.id = g'.id ∧ -g.curMax ≤ g'.currentLoad ∧ g'.curMax = g.curMax :=
  step_lower ops law R sl env w w' cmds hfut hnd hbase h

/-- the same for one call of `step_gc` (no assumption on connector ids) -/
theorem C04_balanced_market_step_gc_feed_in_limit_with_v2g (ops : Ops α B) (law : BatLaw ops.toBatOps)
    (R : B → B → Prop) (sl : SimLaw ops R) (env : Env α) (w w' : SWorld α B) (gcId : String)
    (cmds : List (String × α)) (gc : GcS α) (hgc : w.gc? gcId = some gc)
    (hM : 0 ≤ gc.curMax) (hlo0 : -gc.curMax ≤ gc.currentLoad)
    (hfut : ∀ e ∈ env.events, env.now < e.start)
    (h : stepGc ops env w gcId = .ok (w', cmds)) :
    ∀ g' ∈ w'.gcs, g'.id = gcId → -gc.curMax ≤ g'.currentLoad ∧ g'.curMax = gc.curMax :=
  (stepGc_lower ops law R sl env w w' gcId cmds gc hgc hM hlo0 hfut h).1

/-- the V2G search alone: whenever the forecast of the current timestep is at least the connector's real
headroom, the search (discharge at the dearest timesteps, compensating charges, back-tracking) leaves the
connector at `≥ −max_power` -/
theorem C04_balanced_market_v2g_search_feed_in_limit (ops : Ops α B) (law : BatLaw ops.toBatOps)
    (env : Env α) (v : VehicleS α B) (ts : List (TS α)) (t0 : TS α) (h0 : ts[0]? = some t0)
    (sorted : List (α × Nat)) (M : α) (hM : 0 ≤ M) (htm : t0.maxPower = M) (k : Nat) (st st' : VSt α B)
    (hlo : -M ≤ st.gc.currentLoad) (hfore : M - st.gc.currentLoad ≤ t0.power)
    (h : v2gLoop ops env v ts sorted k st = .ok st') :
    -M ≤ st'.gc.currentLoad ∧ st'.gc.curMax = st.gc.curMax :=
  v2gLoop_lower ops law env v ts t0 h0 sorted M hM htm k st st' hlo hfore h

/-- Non-vacuity: a V2G vehicle at SoC 0.9 (discharge limit 0.5, up to 5 kW) behind a 3 kW connector, price
0.30 now and 0.10 from the next step on: it discharges exactly 3 kW (load −3 = −limit); with 2 kW of local
generation it discharges only 1 kW (load again −3). -/
example :
    (BalancedMarket.step toyOps (toyEnv (some (1/10)))
      ⟨[⟨"GC", 3, some (.fixed (3/10)), []⟩], [toyCs], [toyVeh true (9/10)], []⟩).toOption.map
      (fun r => (r.2, r.1.gcs.map (fun g => (g.currentLoad, decide (-g.curMax ≤ g.currentLoad))))) =
      some ([("CS1", -3)], [(-3, true)]) := by decide +kernel
example :
    (BalancedMarket.step toyOps (toyEnv (some (1/10)))
      ⟨[⟨"GC", 3, some (.fixed (3/10)), [("pv", -2)]⟩], [toyCs], [toyVeh true (9/10)], []⟩).toOption.map
      (fun r => (r.2, r.1.gcs.map (fun g => (g.currentLoad, decide (-g.curMax ≤ g.currentLoad))))) =
      some ([("CS1", -1)], [(-3, true)]) := by decide +kernel

/-- the battery block alone, for one battery and any price situation: starting with nobody discharging
and the connector within ±limit, it ends within ±limit -/
theorem C04_balanced_market_battery_block_within_limit (ops : Ops α B) (law : BatLaw ops.toBatOps)
    (env : Env α) (M : α) (gid : String) (nCheap : Option Nat) (g g' : GSt α B) (bid : String)
    (hmin : ∀ b ∈ g.w.batteries, 0 ≤ b.minChargingPower) (hM : 0 ≤ M)
    (hcm : g.gc.curMax = M) (hid : g.gc.id = gid) (hlo : -M ≤ g.gc.currentLoad)
    (hhi : g.gc.currentLoad ≤ M) (hdis : g.dis = [])
    (h : batteryBody ops env nCheap g bid = .ok g') :
    g'.gc.curMax = M ∧ -M ≤ g'.gc.currentLoad ∧ g'.gc.currentLoad ≤ M := by
  obtain ⟨a1, _, a3, a4, _, _⟩ := batteryBody_bounds ops law env M gid nCheap g g' bid hmin hM hcm hid hlo
    hhi hdis h
  exact ⟨a1, a3, a4⟩

/-- Non-vacuity: the two-battery world of regression 1 below is in the second mode (`num_cheap_ts = 3`). -/
example :
    (timestepsOf toyOps ⟨1/100000, 0, 0, hourUs, 4 * hourUs, 0, [], []⟩
      (⟨"GC", 8, some (.fixed 0), [("load", 4)]⟩ : GcS ℚ)).toOption.map
      (fun ts => (numCheap (0 : ℚ) ts).toOption) = some (some (some 3)) := by decide +kernel

/-- all four look-ahead steps are cheap (price 0 ≤ threshold 0) -/
def cheapEnv (steps : Int) : Env ℚ := ⟨1/100000, 0, 0, hourUs, steps * hourUs, 0, [], []⟩

/-- **Regression 1 for BM2 (was: witness, two batteries).** Connector limit 8 kW, fixed load 4 kW,
price 0 ≤ threshold, two stationary batteries at the connector.  Pinned code: each battery was given the
whole forecast headroom, `≈ 3.33` kW each, load `≈ 10.67 > 8`.  Repaired: the second battery sees what
the first one left, `436903/131072 ≈ 3.33` and `87385/131072 ≈ 0.67` kW, load exactly 8. -/
example :
    (BalancedMarket.step toyOps (cheapEnv 4)
      ⟨[⟨"GC", 8, some (.fixed 0), [("load", 4)]⟩], [], [],
       [⟨"B1", "GC", 0, 0⟩, ⟨"B2", "GC", 0, 0⟩]⟩).toOption.map
      (fun r => r.1.gcs.map (fun g => (g.loads, g.currentLoad, decide (g.currentLoad ≤ g.curMax)))) =
      some [([("load", 4), ("B1", 436903/131072), ("B2", 87385/131072)], 8, true)] := by decide +kernel

/-- **Regression 2 for BM2 (was: witness, surplus pass then one battery).** Limit 2 kW, fixed load
1 kW, generation 3 kW (net −2 kW), price 0: the surplus pass gives the 2 kW surplus to the vehicle.
Pinned code: the battery block still saw `timesteps[0].power = 2 − (−2) = 4` kW and charged 4 kW (load
4 > 2).  Repaired: the forecast is capped by the real headroom `2 − 0`, the battery charges 2 kW, load 2. -/
example :
    (BalancedMarket.step toyOps (cheapEnv 2)
      ⟨[⟨"GC", 2, some (.fixed 0), [("load", 1), ("pv", -3)]⟩], [toyCs], [toyVeh false (8/10)],
       [⟨"B1", "GC", 0, 0⟩]⟩).toOption.map
      (fun r => (r.2, r.1.gcs.map (fun g => (g.currentLoad, decide (g.currentLoad ≤ g.curMax))))) =
      some ([("CS1", 2)], [(2, true)]) := by decide +kernel

/-- Non-vacuity of the two theorems: the planning loop of the flat-price world of
`C05_BalancedMarket` charges `≈ 1.5` kW, within the headroom `20 − 4 = 16`. -/
example :
    let ts : List (TS ℚ) := [⟨16, 20, some (.fixed (3/10))⟩, ⟨20, 20, some (.fixed (3/10))⟩]
    let st : VSt ℚ ℚ := ⟨toyGc, toyCs, 1/2, 1/2, [0, 0], 0, [], []⟩
    (chargeLoop toyOps (toyEnv none) (toyVeh false (1/2)) ts [(3/10, 0), (3/10, 1)] 3 st).toOption.map
      (fun s => (s.gc.currentLoad, s.cmds)) = some (4 + 1572813/1048576, [("CS1", 1572813/1048576)]) := by
  decide +kernel

/-- **The battery model satisfies the copy law used above**, for every number type (the driver runs
exactly `modelOps` on `Float`): `Battery.load` / `Battery.unload` only ever write `soc`, so the deep copy
`sim_vehicle.battery` with its SoC set back to `original_soc` is the vehicle's battery. -/
theorem C04_balanced_market_battery_model_copy_law {β : Type} [Add β] [Sub β] [Mul β] [Div β] [Neg β]
    [LT β] [LE β] [DecidableLT β] [DecidableLE β] [OfNat β 0] [OfNat β 1] [BatNum β] (T : β) :
    SimLaw (modelOps T) (SameButSoc (α := β)) :=
  modelOps_simLaw T

end SpiceEv
