/-
C07 — "stays in force until superseded": the own step of the two strategy models with their own world / state types.

* peak_load_window (`PWorld`: the shared connector record wrapped with operator, voltage level, `window`, peak): id, limit,
  cost, fixed-load / generation entries, operator and level are kept — but `gc.window`, an attribute that grid-operator
  events also set, IS overwritten in every step with the strategy's own time-window predicate and not restored
  (`C07_peak_load_window_window_written`, witness below; reported in notes/C07_KEEPS.md).
* distributed (`DState`): the one strategy that edits event-set state — it raises `cur_max_power` of an opportunity
  connector by its supporting batteries' power for the duration of the sub-strategy's step and writes the saved value back;
  a vacant station's battery is booked under the virtual station name `stationary_<b>` and re-booked under the battery's
  id.  After the step everything is restored, for every sub-strategy (greedy, balanced, peak_shaving, peak_load_window), and
  the arrival events of `world_state.future_events` that the model carries are returned unchanged.

Vocabulary: `Proofs/C07Keeps.lean` (`GcKeeps`, `gcKey`, `restLoads`), `Proofs/C07KeepsPeakLoadWindow.lean` (`psbName`,
`WinOK`), `Proofs/C07KeepsWorlds.lean` (`distName`).  Everything is structural: stated for any type with the plain
operations the models use (no ordered-field axioms), so it holds for `Rat`, `Float` and ℝ alike.
-/
import SpiceEv.Proofs.C07KeepsWorlds
import SpiceEv.Proofs.C07KeepsVehWorlds
import SpiceEv.Proofs.StratDistributed
set_option linter.unusedSectionVars false
set_option linter.unusedVariables false
namespace SpiceEv
open Keeps
variable {α B : Type} [Add α] [Sub α] [Mul α] [Div α] [Neg α] [LT α] [LE α]
  [DecidableLT α] [DecidableLE α] [OfNat α 0] [OfNat α 1] [NatCast α] [IntCast α]

/-- **peak_load_window keeps** id, limit, cost and the fixed-load / generation entries of every connector (relative to the
world's own station / battery names), and the connector ids in order. -/
theorem C07_peak_load_window_keeps (ops : BatOps α B) (env : PeakLoadWindow.PEnv α)
    (w w' : PeakLoadWindow.PWorld α B) (cmds : List (String × α))
    (h : PeakLoadWindow.step ops env w = .ok (w', cmds)) :
    GcKeeps (Keeps.PeakLoadWindow.psbName w) (w.gcs.map (·.gc)) (w'.gcs.map (·.gc)) ∧
    w'.gcs.map (·.gc.id) = w.gcs.map (·.gc.id) :=
  ⟨Keeps.PeakLoadWindow.step_keeps ops env w w' cmds h, Keeps.PeakLoadWindow.step_ids ops env w w' cmds h⟩

/-- **peak_load_window overwrites `gc.window`** (what IS changed, and not restored).  After `step` EVERY connector's
`window` is the time-window predicate of the present step for the connector's operator and voltage level — whatever a
grid-operator event had set; with distinct connector ids, operator and level are those of the connector before the step. -/
theorem C07_peak_load_window_window_written (ops : BatOps α B) (env : PeakLoadWindow.PEnv α)
    (w w' : PeakLoadWindow.PWorld α B) (cmds : List (String × α))
    (h : PeakLoadWindow.step ops env w = .ok (w', cmds)) :
    (∀ g' ∈ w'.gcs, ∃ seasons level, env.windows.lookup g'.operator = some seasons ∧ g'.level = some level ∧
      g'.window = some (datetimeWithinTimeWindow env.now seasons level)) ∧
    ((w.gcs.map (·.gc.id)).Nodup → ∀ g ∈ w.gcs, ∀ g' ∈ w'.gcs, g'.gc.id = g.gc.id →
      g'.operator = g.operator ∧ g'.level = g.level ∧
      ∃ seasons level, env.windows.lookup g.operator = some seasons ∧ g.level = some level ∧
        g'.window = some (datetimeWithinTimeWindow env.now seasons level)) :=
  ⟨Keeps.PeakLoadWindow.step_window_own ops env w w' cmds h,
   fun hnd => Keeps.PeakLoadWindow.step_window ops env w w' cmds hnd h⟩

/-- Witness (kernel-evaluated on ℚ): `exEnv` has a peak-load window 02:00–04:00 for level MV.  At 00:00 a connector whose
`window` an event had set to `True` has `window = False` after the strategy's step; at 02:00 one set to `False` has `True`.
The event-set window does not stay in force under peak_load_window. -/
example :
    Keeps.PeakLoadWindow.windowsOf (PeakLoadWindow.step (PeakLoadWindow.toyOps 10 11) PeakLoadWindow.exEnv
      (Keeps.PeakLoadWindow.exWinWorld true)) = some [some false] ∧
    Keeps.PeakLoadWindow.windowsOf (PeakLoadWindow.step (PeakLoadWindow.toyOps 10 11) (PeakLoadWindow.exEnvAt 2)
      (Keeps.PeakLoadWindow.exWinWorld false)) = some [some true] := by
  decide +kernel

/-- non-vacuity of `C07_peak_load_window_keeps`: the step returns on the witness world; limit 20 and the fixed-load entry
are kept -/
example :
    (match PeakLoadWindow.step (PeakLoadWindow.toyOps 10 11) PeakLoadWindow.exEnv (Keeps.PeakLoadWindow.exWinWorld true) with
     | .ok (w', _) => w'.gcs.map (fun g => (g.gc.id, g.gc.curMax, g.gc.loads))
     | .error _ => []) = [("G", 20, [("load", 2)])] := by decide +kernel

/-- **distributed restores what it touches.**  After `Distributed.step` — for every sub-strategy — every connector carries
id, limit (`cur_max_power`: the temporary raise by supporting batteries is undone), cost and the entries under names
other than stations, batteries and virtual stations `stationary_<b>` of a connector before the step, ids in the same
order; the arrival events of the pending queue and `number_cs` are returned unchanged. -/
theorem C07_distributed_keeps (dops : Distrib.DOps α B) (de : Distrib.DEnv α) (s s' : Distrib.DState α B)
    (cmds : List (String × α)) (h : Distrib.step dops de s = .ok (s', cmds)) :
    GcKeeps (Keeps.Distrib.distName s) s.world.gcs s'.world.gcs ∧ s'.future = s.future ∧
      s'.numberCs = s.numberCs :=
  Keeps.Distrib.step_keeps dops de s s' cmds h

/-- … with distinct connector ids, connector by connector: `cur_max_power` after the step is the one before it. -/
theorem C07_distributed_limits_restored (dops : Distrib.DOps α B) (de : Distrib.DEnv α) (s s' : Distrib.DState α B)
    (cmds : List (String × α)) (hnd : (s.world.gcs.map (·.id)).Nodup)
    (h : Distrib.step dops de s = .ok (s', cmds)) :
    s'.world.gcs.map (fun g => (g.id, g.curMax, g.cost)) = s.world.gcs.map (fun g => (g.id, g.curMax, g.cost)) := by
  have hk := (Keeps.Distrib.step_keeps dops de s s' cmds h).1.map_key hnd
  have := congrArg (List.map (fun (k : String × α × Option (GcCost α) × List (String × α)) => (k.1, k.2.1, k.2.2.1))) hk
  simpa [List.map_map, Function.comp_def, gcKey] using this

/-- non-vacuity: `toyState` — opportunity connector GC1 (limit 10, 4 kW fixed load) with a vehicle and a supporting
battery (5 kW available: the limit is raised to 15 for the sub-strategy's step), depot connector GC2 — the step returns,
books power, and limits and the fixed-load entry are what they were -/
example :
    (match Distrib.step (Distrib.toyDOps 5) Distrib.toyEnv Distrib.toyState with
     | .ok (s', _) => (s'.world.gcs.map (fun g => (g.id, g.curMax, sdGet g.loads "load")),
                       s'.world.gcs.map (fun g => g.loads.length), s'.future.length)
     | .error _ => ([], [], 1)) =
    ([("GC1", 10, some 4), ("GC2", 20, none)], [3, 1], 0) := by decide +kernel

/-- **peak_load_window changes a vehicle through its battery and its `schedule` attribute only** (`vehicle.schedule` is
the strategy's scratch for the planned power of the present step; it is written for every connected vehicle — by design,
like `gc.window`): ids in order, and id, station, desired SoC, departure estimate, type data of every vehicle are those of
a vehicle before the step. -/
theorem C07_peak_load_window_keeps_vehicles (ops : BatOps α B) (env : PeakLoadWindow.PEnv α)
    (w w' : PeakLoadWindow.PWorld α B) (cmds : List (String × α))
    (h : PeakLoadWindow.step ops env w = .ok (w', cmds)) :
    w'.vehicles.map (·.v.id) = w.vehicles.map (·.v.id) ∧
    ∀ x ∈ w'.vehicles, KeepsVeh.vehKey x.v ∈ w.vehicles.map (fun y => KeepsVeh.vehKey y.v) :=
  KeepsVeh.PeakLoadWindow.step_vkeeps ops env w w' cmds h

/-- **distributed changes a vehicle only through its battery**, whatever the sub-strategies: the virtual vehicles that
stand for stationary batteries never reach the world (they exist only at a vacant station, where no vehicle is written
back), a peak_load_window sub-strategy's shifted clock is shifted back. -/
theorem C07_distributed_keeps_vehicles (dops : Distrib.DOps α B) (de : Distrib.DEnv α) (s s' : Distrib.DState α B)
    (cmds : List (String × α)) (h : Distrib.step dops de s = .ok (s', cmds)) :
    KeepsVeh.VehKeeps (s.world.vehicles.map KeepsVeh.vehKey) (s.world.vehicles.map (·.id)) s'.world.vehicles :=
  KeepsVeh.Distrib.step_vkeeps_all dops de s s' cmds h

/-- non-vacuity: `toyState`'s two vehicles keep station, desired SoC 4/5 and departure after the step (which books
power for both, see the example above; the toy battery of `Proofs/StratDistributed.lean` is its own SoC and ideal) -/
example :
    (match Distrib.step (Distrib.toyDOps 5) Distrib.toyEnv Distrib.toyState with
     | .ok (s', _) => s'.world.vehicles.map (fun (v : VehicleS ℚ ℚ) => (v.id, v.cs, v.desiredSoc, v.etd))
     | .error _ => []) =
    [("v1", some "CS_v1_opps", 4/5, some 3600000000), ("v2", some "CS_v2_deps", 4/5, some 3600000000)] := by
  decide +kernel

end SpiceEv
