/-
Helper lemmas for C07 / C08 (part 1): the stable sort by an integer key, the bucket arithmetic of
`get_event_steps`, and the fold that fills the buckets.
-/
import Mathlib.Data.List.Basic
import Mathlib.Data.List.Range
import Mathlib.Data.List.Perm.Basic
import Mathlib.Algebra.Order.Floor.Ring
import Mathlib.Algebra.Order.Field.Basic
import Mathlib.Data.Rat.Floor
import Mathlib.Tactic.Linarith
import Mathlib.Tactic.Ring
import Mathlib.Tactic.FieldSimp
import SpiceEv.Model.StrategyBase
set_option linter.unusedSectionVars false
set_option linter.unusedSimpArgs false
set_option linter.unusedVariables false
namespace SpiceEv
section StableSort
variable {β : Type}

/-- key-ordered (by an integer key) -/
def KeySorted (key : β → Int) (l : List β) : Prop := l.Pairwise (fun a b => key a ≤ key b)

def keyLe (key : β → Int) : β → β → Bool := fun a b => decide (key a ≤ key b)

theorem keyLe_trans (key : β → Int) (a b c : β) :
    keyLe key a b = true → keyLe key b c = true → keyLe key a c = true := by
  unfold keyLe; simp only [decide_eq_true_eq]; exact le_trans

theorem keyLe_total (key : β → Int) (a b : β) : (keyLe key a b || keyLe key b a) = true := by
  unfold keyLe; simp only [Bool.or_eq_true, decide_eq_true_eq]; exact le_total _ _

/-- a key-sorted list is determined by its per-key sublists -/
theorem eq_of_keySorted_of_classes (key : β → Int) :
    ∀ (l₁ l₂ : List β), KeySorted key l₁ → KeySorted key l₂ →
      (∀ k : Int, l₁.filter (fun x => key x = k) = l₂.filter (fun x => key x = k)) → l₁ = l₂ := by
  intro l₁
  induction l₁ with
  | nil =>
    intro l₂ _ _ h
    cases l₂ with
    | nil => rfl
    | cons b t =>
      have := h (key b)
      simp at this
  | cons a t ih =>
    intro l₂ h1 h2 h
    cases l₂ with
    | nil =>
      have := h (key a)
      simp at this
    | cons b t₂ =>
      have ha : a ∈ (b :: t₂) := by
        have : a ∈ (b :: t₂).filter (fun x => key x = key a) := by
          rw [← h (key a)]; simp
        exact (List.mem_filter.mp this).1
      have hb : b ∈ (a :: t) := by
        have : b ∈ (a :: t).filter (fun x => key x = key b) := by
          rw [h (key b)]; simp
        exact (List.mem_filter.mp this).1
      have hab : key a ≤ key b := by
        rcases List.mem_cons.mp hb with rfl | hb'
        · exact le_refl _
        · exact (List.pairwise_cons.mp h1).1 b hb'
      have hba : key b ≤ key a := by
        rcases List.mem_cons.mp ha with rfl | ha'
        · exact le_refl _
        · exact (List.pairwise_cons.mp h2).1 a ha'
      have hk : key b = key a := le_antisymm hba hab
      have h0 := h (key a)
      simp [hk] at h0
      obtain ⟨rfl, h0'⟩ := h0
      congr 1
      apply ih t₂ (List.pairwise_cons.mp h1).2 (List.pairwise_cons.mp h2).2
      intro k
      by_cases hka : key a = k
      · subst hka; simpa using h0'
      · have := h k
        simpa [hka] using this

theorem keySorted_mergeSort (key : β → Int) (l : List β) : KeySorted key (l.mergeSort (keyLe key)) := by
  have := List.pairwise_mergeSort (keyLe_trans key) (keyLe_total key) l
  unfold KeySorted
  refine this.imp ?_
  intro a b hab; simpa [keyLe] using hab

/-- stability: the per-key sublists survive sorting -/
theorem filter_key_mergeSort (key : β → Int) (l : List β) (k : Int) :
    (l.mergeSort (keyLe key)).filter (fun x => key x = k) = l.filter (fun x => key x = k) := by
  set c := l.filter (fun x => key x = k) with hc
  have hcs : c.Pairwise (fun a b => keyLe key a b = true) := by
    rw [List.pairwise_iff_forall_sublist]
    intro a b hab
    have ha : a ∈ c := hab.subset (by simp)
    have hb : b ∈ c := hab.subset (by simp)
    have ha' := (List.mem_filter.mp ha).2
    have hb' := (List.mem_filter.mp hb).2
    simp only [decide_eq_true_eq] at ha' hb'
    simp [keyLe, ha', hb']
  have hsub : c.Sublist (l.mergeSort (keyLe key)) :=
    List.sublist_mergeSort (keyLe_trans key) (keyLe_total key) hcs List.filter_sublist
  have hsub' : c.Sublist ((l.mergeSort (keyLe key)).filter (fun x => key x = k)) := by
    have := hsub.filter (fun x => decide (key x = k))
    simpa [hc, List.filter_filter] using this
  have hlen : ((l.mergeSort (keyLe key)).filter (fun x => key x = k)).length = c.length :=
    ((List.mergeSort_perm l (keyLe key)).filter _).length_eq
  exact (hsub'.eq_of_length hlen.symm).symm

/-- characterisation of the stable sort -/
theorem mergeSort_unique (key : β → Int) (l r : List β) (hs : KeySorted key r)
    (hc : ∀ k : Int, r.filter (fun x => key x = k) = l.filter (fun x => key x = k)) :
    l.mergeSort (keyLe key) = r :=
  eq_of_keySorted_of_classes key _ _ (keySorted_mergeSort key l) hs
    (fun k => by rw [filter_key_mergeSort, hc])

theorem mergeSort_mergeSort_append (key : β → Int) (l m : List β) :
    (l.mergeSort (keyLe key) ++ m).mergeSort (keyLe key) = (l ++ m).mergeSort (keyLe key) := by
  apply mergeSort_unique key _ _ (keySorted_mergeSort key _)
  intro k
  rw [filter_key_mergeSort, List.filter_append, List.filter_append, filter_key_mergeSort]

theorem filter_mergeSort (key : β → Int) (p : β → Bool) (l : List β) :
    (l.mergeSort (keyLe key)).filter p = (l.filter p).mergeSort (keyLe key) := by
  symm
  apply mergeSort_unique key
  · exact (keySorted_mergeSort key l).sublist List.filter_sublist
  · intro k
    rw [List.filter_filter, List.filter_filter]
    have : (fun a => (decide (key a = k) && p a)) = (fun a => (p a && decide (key a = k))) := by
      funext a; exact Bool.and_comm _ _
    rw [this, ← List.filter_filter, filter_key_mergeSort, List.filter_filter]

/-- on a key-sorted list `takeWhile (key ≤ t)` is `filter (key ≤ t)` -/
theorem takeWhile_eq_filter_of_sorted (key : β → Int) (t : Int) :
    ∀ l : List β, KeySorted key l →
      l.takeWhile (fun x => decide (key x ≤ t)) = l.filter (fun x => decide (key x ≤ t)) ∧
      l.dropWhile (fun x => decide (key x ≤ t)) = l.filter (fun x => decide (t < key x)) := by
  intro l
  induction l with
  | nil => intro _; simp
  | cons a l ih =>
    intro hs
    have hs' := (List.pairwise_cons.mp hs)
    by_cases ha : key a ≤ t
    · have := ih hs'.2
      simp [List.takeWhile_cons, List.dropWhile_cons, ha, this.1, this.2, not_lt.mpr ha]
    · have hall : ∀ x ∈ l, ¬ key x ≤ t := fun x hx h => ha (le_trans (hs'.1 x hx) h)
      have hlt : t < key a := not_le.mp ha
      constructor
      · simp [List.takeWhile_cons, ha]
        intro x hx; exact not_le.mp (hall x hx)
      · simp [List.dropWhile_cons, ha, hlt]
        symm; apply List.filter_eq_self.mpr
        intro x hx; simpa using not_le.mp (hall x hx)
end StableSort

section Buckets
variable {α : Type}

/-- characterisation of the bucket index for a positive interval:
`(i-1)·Δ < signal − start ≤ i·Δ`, i.e. `i = ⌈(signal − start)/Δ⌉` -/
theorem bucketIndex_spec (start signal Δ : Int) (hΔ : 0 < Δ) :
    (bucketIndex start signal Δ - 1) * Δ < signal - start ∧
    signal - start ≤ bucketIndex start signal Δ * Δ := by
  unfold bucketIndex
  rw [Int.fdiv_eq_ediv_of_nonneg _ hΔ.le]
  have h1 := Int.ediv_mul_le (start - signal) (ne_of_gt hΔ)
  have h2 := Int.lt_ediv_add_one_mul_self (start - signal) hΔ
  constructor <;> nlinarith

theorem bucketIndex_unique (start signal Δ i : Int) (hΔ : 0 < Δ)
    (h1 : (i - 1) * Δ < signal - start) (h2 : signal - start ≤ i * Δ) :
    bucketIndex start signal Δ = i := by
  obtain ⟨g1, g2⟩ := bucketIndex_spec start signal Δ hΔ
  set j := bucketIndex start signal Δ
  by_contra hne
  rcases lt_or_gt_of_ne hne with h | h
  · have : j ≤ i - 1 := by omega
    have : j * Δ ≤ (i - 1) * Δ := Int.mul_le_mul_of_nonneg_right this hΔ.le
    linarith
  · have : i ≤ j - 1 := by omega
    have : i * Δ ≤ (j - 1) * Δ := Int.mul_le_mul_of_nonneg_right this hΔ.le
    linarith

theorem bucketIndex_eq_ceil (start signal Δ : Int) (hΔ : 0 < Δ) :
    bucketIndex start signal Δ = ⌈((signal - start : Int) : ℚ) / (Δ : ℚ)⌉ := by
  symm
  rw [Int.ceil_eq_iff]
  obtain ⟨g1, g2⟩ := bucketIndex_spec start signal Δ hΔ
  have hq : (0 : ℚ) < (Δ : ℚ) := by exact_mod_cast hΔ
  constructor
  · rw [lt_div_iff₀ hq]; exact_mod_cast g1
  · rw [div_le_iff₀ hq]; exact_mod_cast g2

/-- `i ≤ bucketIndex ↔ ` the event is signalled after simulation time `start + (i-1)·Δ` -/
theorem le_bucketIndex_iff (start signal Δ i : Int) (hΔ : 0 < Δ) :
    bucketIndex start signal Δ ≤ i ↔ signal ≤ start + i * Δ := by
  obtain ⟨g1, g2⟩ := bucketIndex_spec start signal Δ hΔ
  set j := bucketIndex start signal Δ
  constructor
  · intro h
    have : j * Δ ≤ i * Δ := Int.mul_le_mul_of_nonneg_right h hΔ.le
    linarith
  · intro h
    by_contra hlt
    have : i ≤ j - 1 := by omega
    have : i * Δ ≤ (j - 1) * Δ := Int.mul_le_mul_of_nonneg_right this hΔ.le
    linarith

/-- the bucket an event lands in (`none` = ignored) -/
def bucketOf (start : Int) (n : Nat) (Δ : Int) (e : Event α) : Option Nat :=
  let i := bucketIndex start e.signal Δ
  if i < 0 then some 0 else if (n : Int) ≤ i then none else some i.toNat

def bucketsOf (start : Int) (n : Nat) (Δ : Int) (all : List (Event α)) : List (List (Event α)) :=
  (List.range n).map (fun k => all.filter (fun e => bucketOf start n Δ e == some k))

theorem modify_map_range {γ : Type} (n i : Nat) (f : Nat → γ) (g : γ → γ) :
    ((List.range n).map f).modify i g = (List.range n).map (fun k => if k = i then g (f k) else f k) := by
  apply List.ext_getElem
  · simp
  · intro k h1 h2
    simp only [List.length_modify, List.length_map, List.length_range] at h1
    simp [List.getElem_modify]
    split <;> rename_i h
    · subst h; simp
    · have : ¬ k = i := fun hh => h hh.symm
      simp [this]

def isMoved (start : Int) (Δ : Int) (e : Event α) : Bool := decide (bucketIndex start e.signal Δ < 0)
def isIgnored (start : Int) (n : Nat) (Δ : Int) (e : Event α) : Bool :=
  !(decide (bucketIndex start e.signal Δ < 0)) && decide ((n : Int) ≤ bucketIndex start e.signal Δ)

theorem placeEvent_buckets (start : Int) (n : Nat) (Δ : Int) (hΔ : 0 < Δ) (hn : 0 < n)
    (pre : List (Event α)) (e : Event α) (m ig : Nat) :
    placeEvent start n Δ ⟨bucketsOf start n Δ pre, m, ig⟩ e
      = .ok ⟨bucketsOf start n Δ (pre ++ [e]), m + (if isMoved start Δ e then 1 else 0),
              ig + (if isIgnored start n Δ e then 1 else 0)⟩ := by
  unfold placeEvent
  have hΔ0 : Δ ≠ 0 := ne_of_gt hΔ
  simp only [hΔ0, if_false]
  by_cases h1 : bucketIndex start e.signal Δ < 0
  · simp only [h1, if_true]
    have hb : bucketOf start n Δ e = some 0 := by simp [bucketOf, h1]
    obtain ⟨n', rfl⟩ : ∃ n', n = n' + 1 := ⟨n - 1, by omega⟩
    have hmod : bucketsOf start (n'+1) Δ (pre ++ [e]) =
        (bucketsOf start (n'+1) Δ pre).modify 0 (· ++ [e]) := by
      unfold bucketsOf
      rw [modify_map_range]
      apply List.map_congr_left
      intro k _
      rw [List.filter_append]
      by_cases hk : k = 0
      · subst hk; simp [hb]
      · have : ¬ (0 = k) := fun h => hk h.symm
        simp [hb, hk, this]
    rw [hmod]
    cases hbs : bucketsOf start (n'+1) Δ pre with
    | nil => simp [bucketsOf, List.range_succ_eq_map] at hbs
    | cons s0 rest => simp [isMoved, isIgnored, h1]
  · simp only [h1, if_false]
    by_cases h2 : (n : Int) ≤ bucketIndex start e.signal Δ
    · simp only [h2, if_true]
      have hb : bucketOf start n Δ e = none := by simp [bucketOf, h1, h2]
      have : bucketsOf start n Δ (pre ++ [e]) = bucketsOf start n Δ pre := by
        unfold bucketsOf
        apply List.map_congr_left
        intro k _
        rw [List.filter_append]
        simp [hb]
      simp [isMoved, isIgnored, h1, h2, this]
    · simp only [h2, if_false]
      have hb : bucketOf start n Δ e = some (bucketIndex start e.signal Δ).toNat := by
        simp [bucketOf, h1, h2]
      have : bucketsOf start n Δ (pre ++ [e]) =
          (bucketsOf start n Δ pre).modify (bucketIndex start e.signal Δ).toNat (· ++ [e]) := by
        unfold bucketsOf
        rw [modify_map_range]
        apply List.map_congr_left
        intro k _
        rw [List.filter_append]
        by_cases hk : k = (bucketIndex start e.signal Δ).toNat
        · subst hk; simp [hb]
        · have : ¬ ((bucketIndex start e.signal Δ).toNat = k) := fun h => hk h.symm
          simp [hb, hk, this]
      simp [isMoved, isIgnored, h1, h2, this]

/-- `get_event_steps` returns, for a positive interval and at least one step, exactly the buckets
`bucketsOf` (bucket `k` = the events whose bucket is `k`, in the order of `all_events`) and the
two counters of its warnings -/
theorem getEventSteps_eq (start : Int) (n : Nat) (Δ : Int) (hΔ : 0 < Δ) (hn : 0 < n)
    (all : List (Event α)) :
    getEventSteps start n Δ all = .ok ⟨bucketsOf start n Δ all, all.countP (isMoved start Δ),
      all.countP (isIgnored start n Δ)⟩ := by
  unfold getEventSteps
  induction all using List.reverseRecOn with
  | nil =>
    simp [bucketsOf, List.foldlM, pure, Except.pure]
  | append_singleton pre e ih =>
    rw [List.foldlM_append, ih]
    have h' := placeEvent_buckets start n Δ hΔ hn pre e (pre.countP (isMoved start Δ))
      (pre.countP (isIgnored start n Δ))
    simp only [List.foldlM, bind, Except.bind, h', pure, Except.pure, List.countP_append,
      List.countP_cons, List.countP_nil]
    simp
end Buckets
end SpiceEv
