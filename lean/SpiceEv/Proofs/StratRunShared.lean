/-
Greedy for a vehicle at ANY position of the id order at a SHARED, possibly binding connector: the `j`
vehicles served before it take at most `M` each (a bound of every station's maximum), so the vehicle
finds a headroom of at least `headroom − j·M`.  Generalises the first-vehicle form (`j = 0`) and the
non-binding form.  Helper lemmas for `C09_greedy_run_lower_shared_partial`.
-/
import SpiceEv.Proofs.StratRun
import SpiceEv.Proofs.StratRunAmple
import SpiceEv.Proofs.StratRunBalanced
set_option linter.unusedSectionVars false
set_option linter.unusedSimpArgs false
set_option linter.unusedVariables false
namespace SpiceEv.StratRun
open SpiceEv SpiceEv.Frame
variable {α B : Type} [Field α] [LinearOrder α] [IsStrictOrderedRing α]

/-- **one step, the vehicle at position `pre.length` of the id order**, generic in the rule -/
theorem ruleStep_pos (rule : Rule) (ops : BatOps α B) (law : BatLaw ops) (env : StratEnv α) (top : α)
    (cap : B → α) (lin : LinearLoad ops env.tsPerHour top cap)
    (v0 : VehicleS α B) (hv : VehOk ops top v0) (R0 R : B → Prop)
    (hRup : ∀ b b', R b → Up ops cap b b' → R b')
    (csId gid : String) (mx M : α) (hcs : v0.cs = some csId)
    (w : SWorld α B) (d : StepGcs α) (w' : SWorld α B) (cmds : List (String × α))
    (pre post : List String) (hsort : sortedVehicleIds w = pre ++ v0.id :: post) (hnot : v0.id ∉ pre)
    (hOwn : ∀ b cs left a power used b' avg, R0 b → cs.maxPower = mx → cs.minPower = 0 →
      cs.currentPower = 0 → 0 ≤ a → headroom d gid - (pre.length : α) * M ≤ left →
      planPower rule ops env false left a cs { v0 with bat := b } = .ok (power, used) →
      chargeCall rule ops env false { v0 with bat := b } power = .ok (b', avg) → R b')
    (hst : StationIs w csId gid mx)
    (hstn : ∀ s ∈ w.stations, 0 ≤ s.maxPower ∧ s.maxPower ≤ M) (hM : 0 ≤ M)
    (hsolo : Solo csId v0.id w) (hdear : Dear env d)
    (hat : At R0 v0 w) (h : ruleStep rule ops env (enter w d) = .ok (w', cmds)) : At R v0 w' := by
  obtain ⟨avail, st1, w2, c2, ha, hf, hd, hu⟩ := ruleStep_split rule ops env (enter w d) w' cmds h
  have hav := availBatPower_nonneg ops law (enter w d) avail ha
  have hids : sortedVehicleIds (resetStations (enter w d)) = pre ++ v0.id :: post := hsort
  rw [hids] at hf
  obtain ⟨stp, hfp, hfx⟩ := foldlM_append_ok (allocVehicle rule ops env) pre (v0.id :: post) _ _ hf
  simp only [List.foldlM_cons, bind, Except.bind] at hfx
  cases hs : allocVehicle rule ops env stp v0.id with
  | error e => simp [hs] at hfx
  | ok sta =>
    simp only [hs] at hfx
    have ht0 : Turn R0 v0 csId gid mx M (headroom d gid) 0 (resetStations (enter w d), [], avail) := by
      refine ⟨at_of_vehicles_eq _ v0 w _ rfl hat, ?_, ?_, ?_, hsolo, ?_, ?_⟩
      · intro s hs
        unfold resetStations enter at hs
        simp only [List.mem_map] at hs
        obtain ⟨s0, hs0, rfl⟩ := hs
        obtain ⟨h0, h1⟩ := hstn s0 hs0
        exact ⟨le_refl _, h0, h1⟩
      · intro s hs _
        unfold resetStations at hs
        simp only [List.mem_map] at hs
        obtain ⟨s0, _, rfl⟩ := hs
        rfl
      · intro g hg
        have hg' : d.find? (·.id == gid) = some g := hg
        unfold headroom
        rw [hg']
        simp
      · exact hav
      · intro s hs hid
        unfold resetStations enter at hs
        simp only [List.mem_map] at hs
        obtain ⟨s0, hs0, rfl⟩ := hs
        exact hst s0 hs0 hid
    have htp := turn_fold rule ops law env _ v0 csId gid mx M (headroom d gid) hM pre 0 _ stp hnot ht0 hfp
    have hmeta : SameMeta (enter w d) stp.1 := allocFold_sameMeta rule ops env pre _ stp hfp
    have hdear' : Dear env stp.1.gcs := dear_of_sameMeta env (enter w d) stp.1 hmeta hdear
    have hata : At R v0 sta.1 := by
      obtain ⟨v, hvv, hc⟩ := allocVehicle_cases rule ops env stp sta v0.id hs
      rcases hc with ⟨hn, _⟩ | ⟨csId', cs, gc, cheap, power, used, bat', avg, hcs', hstt, hgc, hch, hpl, hcc, rfl⟩
      · obtain ⟨b, hb0, hr0⟩ := htp.veh
        rw [hb0] at hvv
        have hvb : v = { v0 with bat := b } := (Option.some.inj hvv).symm
        rw [hvb] at hn; simp only at hn; rw [hcs] at hn; cases hn
      · apply at_write2 _ _ v0 v stp.1 v0.id bat' _ _ hvv _ (fun hx => absurd rfl hx) htp.veh
        intro b _ hvb hr0
        have hcid : csId' = csId := by
          rw [hvb] at hcs'; simp only at hcs'; rw [hcs] at hcs'; exact (Option.some.inj hcs').symm
        subst hcid
        obtain ⟨hcsm, hcsid⟩ := station?_some' _ _ _ hstt
        obtain ⟨hgm, hgid⟩ := gc?_some' _ _ _ hgc
        obtain ⟨hmx, hmn, hpar⟩ := htp.stat cs hcsm hcsid
        have hcur := htp.idle cs hcsm hcsid
        obtain ⟨_, _, hcsM⟩ := htp.stn cs hcsm
        have hcf : cheap = false := by
          have := hdear' gc hgm
          rw [this] at hch
          exact (Except.ok.inj hch).symm
        subst hcf
        have hroom' := htp.room gc (by rw [← hpar]; exact hgc)
        have ha0 : 0 ≤ (sdGet stp.2.2 cs.parent).getD 0 := sdGet_getD_nonneg _ htp.avail _
        rw [hvb] at hpl hcc
        have hbig : headroom d gid - (pre.length : α) * M ≤ gc.curMax - gc.currentLoad := by
          have e : ((0 + pre.length : ℕ) : α) = (pre.length : α) := by simp
          rw [e] at hroom'
          exact hroom'
        exact hOwn b cs _ _ power used bat' avg hr0 hmx hmn hcur ha0 hbig hpl hcc
    have hat1 := (allocFold_at rule ops env (fun _ => True) _ v0 (fun _ _ _ _ _ => trivial)
      (fun w1 b cs gc cheap a power used b' avg _ _ hr _ _ hcc =>
        hRup b b' hr (chargeCall_up rule ops env top cap lin cheap { v0 with bat := b } power b' avg hcc))
      post sta st1 trivial hata hfx).2
    have hat2 := distributeSurplus_at ops env (fun _ => True) _ v0 (fun _ _ _ _ _ _ => trivial)
      (fun w1 b csId' cs gc isCheap r _ _ hr hloc =>
        hRup b r.1 hr
          (surplusLocal_up ops env top cap lin isCheap { v0 with bat := b } hv.v2g csId' cs gc r hloc))
      st1.1 w2 c2 trivial hat1 hd
    exact at_of_vehicles_eq _ v0 w2 w' (updateBatteries_vehicles ops env w2 w' hu) hat2


/-- full power left for a vehicle served after `j` others that take at most `M` each -/
def sharedPower (mx capv M : α) (j : ℕ) (d : StepGcs α) (gid : String) : α :=
  max (min (min (headroom d gid - (j : α) * M) mx) capv) 0

/-- **greedy, one step, position `j`, shared connector** -/
theorem ruleStep_greedy_shared (ops : BatOps α B) (law : BatLaw ops) (env : StratEnv α) (top : α)
    (cap : B → α) (lin : LinearLoad ops env.tsPerHour top cap) (heps : 0 ≤ env.eps)
    (ht : 0 < env.tsPerHour) (v0 : VehicleS α B) (hv : VehOk ops top v0) (hvm : v0.minChargingPower = 0)
    (csId gid : String) (mx M : α) (hcs : v0.cs = some csId)
    (w : SWorld α B) (d : StepGcs α) (w' : SWorld α B) (cmds : List (String × α))
    (pre post : List String) (hsort : sortedVehicleIds w = pre ++ v0.id :: post) (hnot : v0.id ∉ pre)
    (hst : StationIs w csId gid mx)
    (hstn : ∀ s ∈ w.stations, 0 ≤ s.maxPower ∧ s.maxPower ≤ M) (hM : 0 ≤ M)
    (hsolo : Solo csId v0.id w) (hdear : Dear env d) (lo : α)
    (hat : At (Reached ops cap v0 (min (v0.desiredSoc - env.eps) lo)) v0 w)
    (h : ruleStep .greedy ops env (enter w d) = .ok (w', cmds)) :
    At (Reached ops cap v0 (min (v0.desiredSoc - env.eps)
      (lo + sharedPower mx (cap v0.bat) M pre.length d gid * gain ops env.tsPerHour v0.bat))) v0 w' := by
  refine ruleStep_pos .greedy ops law env top cap lin v0 hv _ _
    (fun b b' hr hu => reached_up ops cap v0 _ b b' hr hu) csId gid mx M hcs w d w' cmds pre post hsort hnot
    ?_ hst hstn hM hsolo hdear hat h
  intro b cs left a power used b' avg hr hmx hmn hcur ha0 hbig hpl hcc
  have hres := greedy_call_reached ops env top cap lin heps ht v0 hv hvm cs mx hmx hmn hcur left a lo b
    power used b' avg hr hpl hcc
  refine reached_mono ops cap v0 _ _ b' hres ?_
  apply min_le_min (le_refl _)
  have hg : 0 ≤ gain ops env.tsPerHour v0.bat := (gain_pos ops env.tsPerHour v0.bat hv.cap_pos hv.eff_pos ht).le
  have hle : sharedPower mx (cap v0.bat) M pre.length d gid
      ≤ max (min (min (left + a) mx) (cap v0.bat)) 0 := by
    unfold sharedPower
    apply max_le_max _ (le_refl _)
    apply min_le_min _ (le_refl _)
    apply min_le_min _ (le_refl _)
    linarith
  have := mul_le_mul_of_nonneg_right hle hg
  linarith

/-- SoC gained in the steps `ds` at the power left after `j` earlier vehicles -/
def sharedGain (ops : BatOps α B) (tsph : α) (b0 : B) (mx capv M : α) (j : ℕ) (gid : String) :
    List (StepGcs α) → α
  | [] => 0
  | d :: ds => sharedPower mx capv M j d gid * gain ops tsph b0 + sharedGain ops tsph b0 mx capv M j gid ds

/-- **greedy over a standing period, position `j`, shared connector** -/
theorem runLast_greedy_shared (ops : BatOps α B) (law : BatLaw ops) (top : α) (cap : B → α)
    (v0 : VehicleS α B) (hv : VehOk ops top v0) (hvm : v0.minChargingPower = 0)
    (csId gid : String) (mx M : α) (hM : 0 ≤ M) (hcs : v0.cs = some csId) (w0 : SWorld α B)
    (pre post : List String) (hsort : sortedVehicleIds w0 = pre ++ v0.id :: post) (hnot : v0.id ∉ pre)
    (hst : StationIs w0 csId gid mx) (hstn : ∀ s ∈ w0.stations, 0 ≤ s.maxPower ∧ s.maxPower ≤ M)
    (ds : List (StepGcs α)) :
    ∀ (env : StratEnv α) (w : SWorld α B) (lo : α) (wl : SWorld α B),
      LinearLoad ops env.tsPerHour top cap → 0 ≤ env.eps → 0 < env.tsPerHour →
      (∀ d ∈ ds, Dear env d) → Keep w0 w → Solo csId v0.id w →
      At (Reached ops cap v0 (min (v0.desiredSoc - env.eps) lo)) v0 w →
      runLast .greedy ops env w ds = .ok wl →
      At (Reached ops cap v0 (min (v0.desiredSoc - env.eps)
        (lo + sharedGain ops env.tsPerHour v0.bat mx (cap v0.bat) M pre.length gid ds))) v0 wl := by
  induction ds with
  | nil =>
    intro env w lo wl _ _ _ _ _ _ hat h
    unfold runLast at h
    simp only [Except.ok.injEq] at h
    subst h
    simpa [sharedGain] using hat
  | cons d ds ih =>
    intro env w lo wl lin heps ht hd hk hsolo hat h
    obtain ⟨w', cmds, hs, hr⟩ := runLast_cons .greedy ops env w d ds wl h
    have hstn' : ∀ s ∈ w.stations, 0 ≤ s.maxPower ∧ s.maxPower ≤ M := by
      intro s hs
      obtain ⟨s0, hs0, _, e2, _, _⟩ := hk.stations s hs
      rw [e2]; exact hstn s0 hs0
    have hat' := ruleStep_greedy_shared ops law env top cap lin heps ht v0 hv hvm csId gid mx M hcs w d w' cmds
      pre post (by rw [keep_sorted w0 w hk]; exact hsort) hnot
      (stationIs_keep w0 w csId gid mx hk hst) hstn' hM hsolo (hd d (by simp)) lo hat hs
    have hk' : Keep w0 w' := ruleStep_keep .greedy ops env w0 (enter w d) w' cmds (keep_enter w0 w d hk) hs
    have hsolo' : Solo csId v0.id w' := ruleStep_solo .greedy ops env csId v0.id (enter w d) w' cmds hsolo hs
    have := ih (tick env) w' _ wl lin heps ht (fun d' hd' => hd d' (List.mem_cons_of_mem _ hd')) hk' hsolo'
      hat' hr
    have e1 : (tick env).eps = env.eps := rfl
    have e2 : (tick env).tsPerHour = env.tsPerHour := rfl
    rw [e1, e2] at this
    simpa [sharedGain, add_assoc] using this

/-- **balanced, one step, position `j`, shared connector**: `P` at most what is left after `j` earlier
vehicles -/
theorem ruleStep_balanced_shared (ops : BatOps α B) (law : BatLaw ops) (env : StratEnv α) (top : α)
    (cap : B → α) (lin : LinearLoad ops env.tsPerHour top cap) (heps : 0 ≤ env.eps)
    (ht : 0 < env.tsPerHour) (v0 : VehicleS α B) (hv : VehOk ops top v0) (hvm : v0.minChargingPower = 0)
    (csId gid : String) (mx M : α) (hcs : v0.cs = some csId) (etd : Int) (hetd : v0.etd = some etd)
    (w : SWorld α B) (d : StepGcs α) (w' : SWorld α B) (cmds : List (String × α))
    (pre post : List String) (hsort : sortedVehicleIds w = pre ++ v0.id :: post) (hnot : v0.id ∉ pre)
    (hst : StationIs w csId gid mx)
    (hstn : ∀ s ∈ w.stations, 0 ≤ s.maxPower ∧ s.maxPower ≤ M) (hM : 0 ≤ M)
    (hsolo : Solo csId v0.id w) (hdear : Dear env d)
    (D P : α) (hD : 0 ≤ D) (hP : 0 ≤ P)
    (hfull : P ≤ sharedPower mx (cap v0.bat) M pre.length d gid * gain ops env.tsPerHour v0.bat)
    (hm : 0 < ceilDiv (etd - env.now) env.interval)
    (hat : At (Reached ops cap v0 (min (v0.desiredSoc - env.eps)
      (v0.desiredSoc - (D + P * ((ceilDiv (etd - env.now) env.interval : Int) : α))))) v0 w)
    (h : ruleStep .balanced ops env (enter w d) = .ok (w', cmds)) :
    At (Reached ops cap v0 (min (v0.desiredSoc - env.eps)
      (v0.desiredSoc - (D + P * (((ceilDiv (etd - env.now) env.interval : Int) : α) - 1))))) v0 w' := by
  refine ruleStep_pos .balanced ops law env top cap lin v0 hv _ _
    (fun b b' hr hu => reached_up ops cap v0 _ b b' hr hu) csId gid mx M hcs w d w' cmds pre post hsort hnot
    ?_ hst hstn hM hsolo hdear hat h
  intro b cs left a power used b' avg hr hmx hmn hcur _ hbig hpl hcc
  refine balanced_call_reached ops env top cap lin heps ht v0 hv hvm etd hetd hm cs mx hmx hmn hcur left a
    D P hD hP ?_ b power used b' avg hr hpl hcc
  refine le_trans hfull ?_
  have hg : 0 ≤ gain ops env.tsPerHour v0.bat := (gain_pos ops env.tsPerHour v0.bat hv.cap_pos hv.eff_pos ht).le
  apply mul_le_mul_of_nonneg_right _ hg
  unfold sharedPower
  apply max_le_max _ (le_refl _)
  apply min_le_min _ (le_refl _)
  exact min_le_min hbig (le_refl _)

/-- **balanced over (a prefix of) the standing period, position `j`, shared connector** -/
theorem runLast_balanced_shared (ops : BatOps α B) (law : BatLaw ops) (top : α) (cap : B → α)
    (v0 : VehicleS α B) (hv : VehOk ops top v0) (hvm : v0.minChargingPower = 0)
    (csId gid : String) (mx M : α) (hM : 0 ≤ M) (hcs : v0.cs = some csId)
    (etd : Int) (hetd : v0.etd = some etd) (w0 : SWorld α B)
    (pre post : List String) (hsort : sortedVehicleIds w0 = pre ++ v0.id :: post) (hnot : v0.id ∉ pre)
    (hst : StationIs w0 csId gid mx) (hstn : ∀ s ∈ w0.stations, 0 ≤ s.maxPower ∧ s.maxPower ≤ M)
    (D P : α) (hD : 0 ≤ D) (hP : 0 ≤ P) (ds : List (StepGcs α)) :
    ∀ (env : StratEnv α) (w : SWorld α B) (wl : SWorld α B),
      LinearLoad ops env.tsPerHour top cap → 0 ≤ env.eps → 0 < env.tsPerHour → 0 < env.interval →
      (∀ d ∈ ds, Dear env d ∧
        P ≤ sharedPower mx (cap v0.bat) M pre.length d gid * gain ops env.tsPerHour v0.bat) →
      (ds.length : Int) ≤ ceilDiv (etd - env.now) env.interval → Keep w0 w → Solo csId v0.id w →
      At (Reached ops cap v0 (min (v0.desiredSoc - env.eps)
        (v0.desiredSoc - (D + P * ((ceilDiv (etd - env.now) env.interval : Int) : α))))) v0 w →
      runLast .balanced ops env w ds = .ok wl →
      At (Reached ops cap v0 (min (v0.desiredSoc - env.eps)
        (v0.desiredSoc - (D + P * (((ceilDiv (etd - env.now) env.interval : Int) : α) - (ds.length : α))))))
        v0 wl := by
  induction ds with
  | nil =>
    intro env w wl _ _ _ _ _ _ _ _ hat h
    unfold runLast at h
    simp only [Except.ok.injEq] at h
    subst h
    simpa using hat
  | cons d ds ih =>
    intro env w wl lin heps ht hI hd hlen hk hsolo hat h
    obtain ⟨w', cmds, hs, hr⟩ := runLast_cons .balanced ops env w d ds wl h
    have hm : 0 < ceilDiv (etd - env.now) env.interval := by
      simp only [List.length_cons] at hlen
      omega
    have hstn' : ∀ s ∈ w.stations, 0 ≤ s.maxPower ∧ s.maxPower ≤ M := by
      intro s hs
      obtain ⟨s0, hs0, _, e2, _, _⟩ := hk.stations s hs
      rw [e2]; exact hstn s0 hs0
    have hat' := ruleStep_balanced_shared ops law env top cap lin heps ht v0 hv hvm csId gid mx M hcs etd hetd
      w d w' cmds pre post (by rw [keep_sorted w0 w hk]; exact hsort) hnot
      (stationIs_keep w0 w csId gid mx hk hst) hstn' hM hsolo (hd d (by simp)).1
      D P hD hP (hd d (by simp)).2 hm hat hs
    have hk' : Keep w0 w' := ruleStep_keep .balanced ops env w0 (enter w d) w' cmds (keep_enter w0 w d hk) hs
    have hsolo' : Solo csId v0.id w' := ruleStep_solo .balanced ops env csId v0.id (enter w d) w' cmds hsolo hs
    have htick : ceilDiv (etd - (tick env).now) (tick env).interval
        = ceilDiv (etd - env.now) env.interval - 1 := by
      have : etd - (tick env).now = (etd - env.now) - env.interval := by
        show etd - (env.now + env.interval) = _
        ring
      rw [this]
      exact ceilDiv_tick _ _ hI
    have hcast : ((ceilDiv (etd - (tick env).now) (tick env).interval : Int) : α)
        = ((ceilDiv (etd - env.now) env.interval : Int) : α) - 1 := by
      rw [htick]; push_cast; ring
    have hat'' : At (Reached ops cap v0 (min (v0.desiredSoc - (tick env).eps)
        (v0.desiredSoc - (D + P * ((ceilDiv (etd - (tick env).now) (tick env).interval : Int) : α))))) v0 w' := by
      rw [hcast]; exact hat'
    have hlen' : (ds.length : Int) ≤ ceilDiv (etd - (tick env).now) (tick env).interval := by
      rw [htick]
      simp only [List.length_cons] at hlen
      omega
    have := ih (tick env) w' wl lin heps ht hI
      (fun d' hd' => hd d' (List.mem_cons_of_mem _ hd')) hlen' hk' hsolo' hat'' hr
    rw [hcast] at this
    have e1 : (tick env).eps = env.eps := rfl
    rw [e1] at this
    have e2 : ((ceilDiv (etd - env.now) env.interval : Int) : α) - 1 - (ds.length : α)
        = ((ceilDiv (etd - env.now) env.interval : Int) : α) - ((d :: ds).length : α) := by
      simp only [List.length_cons]; push_cast; ring
    rw [e2] at this
    exact this

end SpiceEv.StratRun
