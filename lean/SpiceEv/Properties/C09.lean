/-
C09 — Service guarantee: feasible charging demands are met by departure.

Theorems for the two modelled strategies.  Balanced: with a battery that accepts the planned power
(constant charging curve on [soc, desired], station and headroom admit it) the plan is a constant
power and reaches the desired SoC exactly at the announced departure; the remaining-steps count is
the ceiling of the remaining time (`C10_remaining_steps`).  Greedy: each step offers the full
available power or what is still needed.  For balanced_market, peak_load_window and flex_window no
model exists; their guarantee is decided by the oracle on real runs (harness/c09.py).
-/
import SpiceEv.Properties.C10
import Mathlib.Tactic.FieldSimp
set_option linter.unusedSectionVars false
namespace SpiceEv
variable {α : Type} [Field α] [LinearOrder α] [IsStrictOrderedRing α]

/-- SoC trajectory of balanced charging when every planned power is accepted: in step `k` of `n`
the vehicle gets `(desired − soc)·c/η · tsph / (n − k)` kW, i.e. its SoC rises by
`(desired − soc)/(n − k)`. -/
def balancedSoc (desired s0 : α) (n : ℕ) : ℕ → α
  | 0 => s0
  | k + 1 => balancedSoc desired s0 n k + (desired - balancedSoc desired s0 n k) / ((n : α) - (k : α))

theorem balancedSoc_gap (desired s0 : α) (n : ℕ) (k : ℕ) (hk : k ≤ n) (hn : 0 < n) :
    desired - balancedSoc desired s0 n k = (desired - s0) * (((n : α) - (k : α)) / (n : α)) := by
  have hn' : (n : α) ≠ 0 := by exact_mod_cast (ne_of_gt hn)
  induction k with
  | zero => simp [balancedSoc, hn']
  | succ k ih =>
    have hk' : k ≤ n := Nat.le_of_succ_le hk
    have hlt : (k : α) < (n : α) := by exact_mod_cast (Nat.lt_of_succ_le hk)
    have hne : (n : α) - (k : α) ≠ 0 := ne_of_gt (sub_pos.mpr hlt)
    have ih' := ih hk'
    simp only [balancedSoc]
    have e : desired - (balancedSoc desired s0 n k + (desired - balancedSoc desired s0 n k) / ((n : α) - (k : α)))
        = (desired - balancedSoc desired s0 n k) * (((n : α) - (k : α) - 1) / ((n : α) - (k : α))) := by
      field_simp
      ring
    rw [e, ih']
    push_cast
    field_simp
    ring

/-- **Balanced reaches the desired SoC exactly at departure** (`n ≥ 1` remaining steps, every
planned power accepted). -/
theorem C09_balanced_const (desired s0 : α) (n : ℕ) (hn : 0 < n) :
    balancedSoc desired s0 n n = desired := by
  have := balancedSoc_gap desired s0 n n (le_refl _) hn
  simp at this
  linarith

/-- **…with a constant power**: the power planned in step `k` equals the power planned in step 0
(`E₀·tsph/n`), so if the first planned power is admissible (curve, station, headroom) all are. -/
theorem C09_balanced_constant_power (desired s0 cEta tsph : α) (n k : ℕ) (hk : k < n) :
    (desired - balancedSoc desired s0 n k) * cEta * tsph / ((n : α) - (k : α))
      = (desired - s0) * cEta * tsph / (n : α) := by
  have hn : 0 < n := lt_of_le_of_lt (Nat.zero_le _) hk
  have hn' : (n : α) ≠ 0 := by exact_mod_cast (ne_of_gt hn)
  have hlt : (k : α) < (n : α) := by exact_mod_cast hk
  have hne : (n : α) - (k : α) ≠ 0 := ne_of_gt (sub_pos.mpr hlt)
  rw [balancedSoc_gap desired s0 n k hk.le hn]
  field_simp

/-- **Greedy offers the full available power or what is still needed** (whichever is smaller),
so a vehicle below its desired SoC is never offered less than `min needed available`. -/
theorem C09_greedy_offer {B : Type} (ops : BatOps α B) (env : StratEnv α) (left availGc : α)
    (cs : StationS α) (v : VehicleS α B) (hneed : env.eps < v.desiredSoc - ops.soc v.bat) :
    ∃ p, planPower .greedy ops env false left availGc cs v = .ok (p, true) ∧
      p = clampPower
            (min ((v.desiredSoc - ops.soc v.bat) * ops.capacity v.bat / ops.efficiency v.bat * env.tsPerHour)
                 (left + availGc))
            cs.currentPower cs.maxPower cs.minPower v.minChargingPower :=
  ⟨_, (C10_greedy_rule ops env left availGc cs v hneed).1, rfl⟩

/-- Non-vacuity: 4 steps from SoC 1/2 to 9/10 rise by 1/10 each. -/
example : balancedSoc (9/10 : ℚ) (1/2) 4 2 = 7/10 := by
  simp [balancedSoc]; norm_num

end SpiceEv
