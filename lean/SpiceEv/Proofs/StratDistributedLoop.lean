/-
The connector loop of `Distributed.step` on the repaired model (DIST2): the invariant "a connector that has not been
treated yet still is the connector of the beginning of the step (hence carries no station entry)", the contract a
sub-strategy's run has to meet on a connector's virtual world (`SubOK`; proved for greedy / balanced, a premise for
peak_shaving), and what one connector's treatment preserves.
-/
import SpiceEv.Proofs.StratDistributedBooked
set_option linter.unusedSectionVars false
set_option linter.unusedSimpArgs false
set_option linter.unusedVariables false
namespace SpiceEv.Distrib
open SpiceEv SpiceEv.Frame
variable {α B : Type} [Field α] [LinearOrder α] [IsStrictOrderedRing α]

/-! ### the virtual world is local -/

theorem connectedAt_local (w : SWorld α B) (gcId : String) (cands : List String) (cvs : List (VehicleS α B))
    (h : connectedAt w gcId cands = .ok cvs) :
    ∀ v ∈ cvs, ∃ csId cs, v.cs = some csId ∧ w.station? csId = some cs ∧ cs.parent = gcId := by
  unfold connectedAt at h
  refine foldlM_inv _ (fun (acc : List (VehicleS α B)) =>
    ∀ v ∈ acc, ∃ csId cs, v.cs = some csId ∧ w.station? csId = some cs ∧ cs.parent = gcId) ?_ cands [] cvs
    (by intro v hv; simp at hv) h
  intro acc id acc' hi hs
  split at hs
  · simp only [Except.ok.injEq] at hs; subst hs; exact hi
  · rename_i v hv
    split at hs
    · simp only [Except.ok.injEq] at hs; subst hs; exact hi
    · rename_i csId hcs
      split at hs
      · simp only [Except.ok.injEq] at hs; subst hs; exact hi
      · split at hs
        · cases hs
        · rename_i cs hst
          split at hs
          · rename_i hpar
            simp only [Except.ok.injEq] at hs; subst hs
            intro v' hv'
            rcases List.mem_append.mp hv' with h' | h'
            · exact hi v' h'
            · simp only [List.mem_cons, List.not_mem_nil, or_false] at h'
              subst h'
              exact ⟨csId, cs, hcs, hst, by simpa using hpar⟩
          · simp only [Except.ok.injEq] at hs; subst hs; exact hi

theorem subStations_local (w : SWorld α B) (gcId : String) (cvs : List (VehicleS α B)) (stations : List (StationS α))
    (hloc : ∀ v ∈ cvs, ∃ csId cs, v.cs = some csId ∧ w.station? csId = some cs ∧ cs.parent = gcId)
    (h : subStations w cvs = .ok stations) : ∀ s ∈ stations, s ∈ w.stations ∧ s.parent = gcId := by
  unfold subStations at h
  have key : ∀ (l : List (VehicleS α B)) (acc acc' : List (StationS α)), (∀ v ∈ l, v ∈ cvs) →
      (∀ s ∈ acc, s ∈ w.stations ∧ s.parent = gcId) →
      l.foldlM (fun (acc : List (StationS α)) v =>
        match v.cs with
        | none => Except.ok acc
        | some csId =>
          match w.station? csId with
          | none => Except.error PyErr.keyError
          | some cs => if acc.any (fun s => s.id == csId) then Except.ok acc else Except.ok (acc ++ [cs])) acc
        = .ok acc' → ∀ s ∈ acc', s ∈ w.stations ∧ s.parent = gcId := by
    intro l
    induction l with
    | nil =>
      intro acc acc' _ hi h
      simp only [List.foldlM_nil, pure, Except.pure, Except.ok.injEq] at h
      subst h; exact hi
    | cons v rest ih =>
      intro acc acc' hl hi h
      simp only [List.foldlM_cons, bind, Except.bind] at h
      split at h
      · cases h
      · rename_i acc1 hacc1
        refine ih acc1 acc' (fun x hx => hl x (by simp [hx])) ?_ h
        split at hacc1
        · simp only [Except.ok.injEq] at hacc1; subst hacc1; exact hi
        · rename_i csId hcs
          split at hacc1
          · cases hacc1
          · rename_i cs hst
            split at hacc1
            · simp only [Except.ok.injEq] at hacc1; subst hacc1; exact hi
            · simp only [Except.ok.injEq] at hacc1; subst hacc1
              intro s hs
              rcases List.mem_append.mp hs with h' | h'
              · exact hi s h'
              · simp only [List.mem_cons, List.not_mem_nil, or_false] at h'
                subst h'
                obtain ⟨c2, cs2, e1, e2, e3⟩ := hloc v (hl v (by simp))
                rw [hcs] at e1
                simp only [Option.some.injEq] at e1
                subst e1
                rw [hst] at e2
                simp only [Option.some.injEq] at e2
                subst e2
                exact ⟨(station?_some' _ _ _ hst).1, e3⟩
  exact key cvs [] stations (fun v hv => hv) (by intro s hs; simp at hs) h

/-! ### contract of a sub-strategy's run on a connector's virtual world -/

/-- what the connector loop needs from `strat.step()` on `new_world_state = ⟨[g], ss, vs, bs⟩` followed by DIST2
(`syncStations`): one connector with the same id comes back; if the stations' maxima are non-negative, all stations
belong to `g`, `g` carries no entry under a station id and no battery id is a station id, then afterwards every
station is at or below its (non-negative) maximum, and station ids and parents are those of the input -/
def SubOK (run : SWorld α B → Py (SWorld α B × List (String × α))) : Prop :=
  ∀ (g : GcS α) (ss : List (StationS α)) (vs : List (VehicleS α B)) (bs : List (StatBatS α B))
    (vw' : SWorld α B) (cmds : List (String × α)), run ⟨[g], ss, vs, bs⟩ = .ok (vw', cmds) →
    (∃ g1, vw'.gcs = [g1] ∧ g1.id = g.id) ∧
    (MaxOK ss → (∀ s ∈ ss, s.parent = g.id) → (∀ s ∈ ss, (sdGet g.loads s.id).getD 0 = 0) →
      (∀ s ∈ ss, ∀ b ∈ bs, s.id ≠ b.id) →
      StOK (syncStations vw').stations ∧
      ∀ s' ∈ (syncStations vw').stations, ∃ s ∈ ss, s'.id = s.id ∧ s'.parent = s.parent)

/-- greedy and balanced meet the contract (for them DIST2 is a no-op) -/
theorem ruleStep_subOK (rule : Rule) (ops : BatOps α B) (law : BatLaw ops) (env : StratEnv α) :
    SubOK (ruleStep rule ops env) := by
  intro g ss vs bs vw' cmds h
  obtain ⟨g1, hg1, hid, _, _⟩ := ruleStep_single rule ops env g ss vs bs vw' cmds h
  refine ⟨⟨g1, hg1, hid⟩, ?_⟩
  intro hmax hpar hno hd
  have hb := (ruleStep_booked rule ops law env ⟨[g], ss, vs, bs⟩ vw' cmds
    (by
      intro s hs g' hg' _
      simp only [List.mem_cons, List.not_mem_nil, or_false] at hg'
      subst hg'; exact hno s hs) (fun s hs b hb => hd s hs b hb) h).1
  have hp := ruleStep_static (fun s => s.parent = g.id) (fun s c hs => hs) rule ops env _ vw' cmds hpar h
  have hnoop := syncStations_noop vw' g1 hg1 hb (fun s hs => (hp s hs).trans hid.symm)
  rw [hnoop]
  refine ⟨fun s hs => ⟨ruleStep_maxOK rule ops env ⟨[g], ss, vs, bs⟩ vw' cmds hmax h s hs,
    C05_greedy_balanced_station rule ops law env ⟨[g], ss, vs, bs⟩ vw' cmds (fun s hs => hmax s hs) h s hs⟩, ?_⟩
  exact ruleStep_static (fun s' => ∃ s ∈ ss, s'.id = s.id ∧ s'.parent = s.parent)
    (fun s c hs => hs) rule ops env ⟨[g], ss, vs, bs⟩ vw' cmds (fun s hs => ⟨s, hs, rfl, rfl⟩) h

/-- the run of a peak-shaving sub-strategy object as a function of the virtual world -/
def psRun (dops : DOps α B) (sub : SubStrat α) (cfg : PSCfg) (now : Int)
    (events future : List (PeakShaving.Ev α)) (vw : SWorld α B) : Py (SWorld α B × List (String × α)) :=
  (psStep dops sub cfg now events future vw).map (fun r => (r.1, r.2.1))

/-- the run of a peak-load-window sub-strategy object as a function of the virtual world -/
def plwRun (dops : DOps α B) (sub : SubStrat α) (cfg : PLWCfg α) (de : DEnv α) (peaks : List (String × α))
    (extra : List (String × List α × Option α)) (vw : SWorld α B) : Py (SWorld α B × List (String × α)) :=
  (plwStep dops sub cfg de peaks extra vw).map (fun r => (r.1, r.2.1))

/-- the contract for the sub-strategy object of one side, whatever its class: proved for greedy / balanced (`True`
here), a premise for peak_shaving (its own C05 theorems: Properties/C05_PeakShaving.lean) and for peak_load_window
(Properties/C05_PeakLoadWindow.lean) -/
def SideOK (dops : DOps α B) (sub : SubStrat α) (de : DEnv α) : Prop :=
  match sub.ps with
  | some cfg => ∀ events future, SubOK (psRun dops sub cfg de.env.now events future)
  | none =>
    match sub.plw with
    | some cfg => ∀ peaks extra, SubOK (plwRun dops sub cfg de peaks extra)
    | none => True

theorem subClass (sub : SubStrat α) :
    (sub.ps = none ∧ sub.plw = none) ∨ (∃ cfg, sub.ps = some cfg) ∨ (sub.ps = none ∧ ∃ c, sub.plw = some c) := by
  cases h1 : sub.ps with
  | some c => exact Or.inr (Or.inl ⟨c, rfl⟩)
  | none =>
    cases h2 : sub.plw with
    | none => exact Or.inl ⟨rfl, rfl⟩
    | some c => exact Or.inr (Or.inr ⟨rfl, c, rfl⟩)

/-! ### the battery preparation of an opportunity station -/

theorem oppsBattery_prep (dops : DOps α B) (de : DEnv α) (ini : DInit α) (lk : Look α) (w : SWorld α B)
    (occ : Bool) (gcId : String) (st st' : OppsPrep α B) (bId : String)
    (h : oppsBattery dops de ini lk w occ gcId st bId = .ok st') :
    st'.gc.loads = st.gc.loads ∧ st'.gc.id = st.gc.id ∧
    ∀ s ∈ st'.vcs, s ∈ st.vcs ∨ (s ∈ ini.virtualCs ∧ s.id = virtName bId) := by
  unfold oppsBattery at h
  split at h
  · cases h
  · split at h
    · simp only [bind, Except.bind] at h
      split at h
      · cases h
      · split at h
        · simp only [Except.ok.injEq] at h; subst h; exact ⟨rfl, rfl, fun s hs => Or.inl hs⟩
        · split at h
          · cases h
          · split at h
            · cases h
            · split at h
              · simp only [Except.ok.injEq] at h; subst h; exact ⟨rfl, rfl, fun s hs => Or.inl hs⟩
              · simp only [Except.ok.injEq] at h; subst h; exact ⟨rfl, rfl, fun s hs => Or.inl hs⟩
    · dsimp only at h
      split at h
      · cases h
      · split at h
        · cases h
        · rename_i vcs hfind
          simp only [bind, Except.bind] at h
          split at h
          · cases h
          · simp only [Except.ok.injEq] at h; subst h
            refine ⟨rfl, rfl, ?_⟩
            intro s hs
            rcases List.mem_append.mp hs with h' | h'
            · exact Or.inl (List.mem_filter.mp h').1
            · simp only [List.mem_cons, List.not_mem_nil, or_false] at h'
              subst h'
              exact Or.inr ⟨List.mem_of_find?_eq_some hfind, by simpa using List.find?_some hfind⟩

theorem oppsPrep_facts (dops : DOps α B) (de : DEnv α) (ini : DInit α) (lk : Look α) (w : SWorld α B)
    (occ : Bool) (gcId : String) (batIds : List String) (st0 prep : OppsPrep α B) (hv0 : st0.vcs = [])
    (h : batIds.foldlM (oppsBattery dops de ini lk w occ gcId) st0 = .ok prep) :
    prep.gc.loads = st0.gc.loads ∧ prep.gc.id = st0.gc.id ∧
    ∀ s ∈ prep.vcs, s ∈ ini.virtualCs ∧ ∃ b ∈ batIds, s.id = virtName b := by
  have key : ∀ (l : List String) (st st' : OppsPrep α B), (∀ b ∈ l, b ∈ batIds) →
      (∀ s ∈ st.vcs, s ∈ ini.virtualCs ∧ ∃ b ∈ batIds, s.id = virtName b) →
      l.foldlM (oppsBattery dops de ini lk w occ gcId) st = .ok st' →
      st'.gc.loads = st.gc.loads ∧ st'.gc.id = st.gc.id ∧
      ∀ s ∈ st'.vcs, s ∈ ini.virtualCs ∧ ∃ b ∈ batIds, s.id = virtName b := by
    intro l
    induction l with
    | nil =>
      intro st st' _ hi h
      simp only [List.foldlM_nil, pure, Except.pure, Except.ok.injEq] at h
      subst h; exact ⟨rfl, rfl, hi⟩
    | cons b rest ih =>
      intro st st' hl hi h
      simp only [List.foldlM_cons, bind, Except.bind] at h
      split at h
      · cases h
      · rename_i st1 hst1
        obtain ⟨a1, a2, a3⟩ := oppsBattery_prep dops de ini lk w occ gcId st st1 b hst1
        obtain ⟨b1, b2, b3⟩ := ih st1 st' (fun x hx => hl x (by simp [hx]))
          (fun s hs => by
            rcases a3 s hs with h' | ⟨h1, h2⟩
            · exact hi s h'
            · exact ⟨h1, b, hl b (by simp), h2⟩) h
        exact ⟨b1.trans a1, b2.trans a2, b3⟩
  exact key batIds st0 prep (fun b hb => hb) (by rw [hv0]; intro s hs; simp at hs) h

/-! ### the loop invariant -/

/-- hypotheses on the world at the beginning of the step (`w0`, after the reset of the station powers), with `K` the
station ids: no connector carries an entry under a station id or a virtual station's id (the base step removed them),
no battery id listed in `gc_battery` is a station id, the virtual station of a battery belongs to the battery's connector -/
structure LoopHyp (w0 : SWorld α B) (ini0 : DInit α) (K : List String) : Prop where
  noEntry : ∀ g ∈ w0.gcs, ∀ k ∈ K, (sdGet g.loads k).getD 0 = 0
  noVirt : ∀ g ∈ w0.gcs, ∀ s0 ∈ ini0.virtualCs, (sdGet g.loads s0.id).getD 0 = 0
  disj : ∀ g', ∀ b ∈ (sdGet ini0.gcBattery g').getD [], b ∉ K
  vpar : ∀ g', ∀ b ∈ (sdGet ini0.gcBattery g').getD [], ∀ s0 ∈ ini0.virtualCs, s0.id = virtName b → s0.parent = g'

/-- invariant of the loop over the connectors; `R` = ids of the connectors still to be treated -/
structure LoopInv (w0 : SWorld α B) (ini0 : DInit α) (K R : List String)
    (st : SWorld α B × DInit α × List (String × α)) : Prop where
  ok : StOK st.1.stations
  ids : ∀ s ∈ st.1.stations, s.id ∈ K
  virt : ∀ s ∈ st.2.1.virtualCs, 0 ≤ s.maxPower ∧ ∃ s0 ∈ ini0.virtualCs, s.id = s0.id ∧ s.parent = s0.parent
  fresh : ∀ g ∈ st.1.gcs, g.id ∈ R → g ∈ w0.gcs
  gcb : st.2.1.gcBattery = ini0.gcBattery

/-- writing a connector's virtual world back (depot) -/
theorem depsCore (w vw : SWorld α B) (stations : List (StationS α)) (cvs : List (VehicleS α B)) (K : List String)
    (g1 : GcS α) (hg1 : vw.gcs = [g1]) (hv : StOK vw.stations)
    (hvid : ∀ s' ∈ vw.stations, ∃ s ∈ stations, s'.id = s.id ∧ s'.parent = s.parent)
    (hsub : ∀ s ∈ stations, s ∈ w.stations) (h0 : StOK w.stations) (hK : ∀ s ∈ w.stations, s.id ∈ K) :
    StOK (mergeDeps w vw stations cvs).stations ∧ (∀ s ∈ (mergeDeps w vw stations cvs).stations, s.id ∈ K) ∧
    ∀ g ∈ (mergeDeps w vw stations cvs).gcs, g = g1 ∨ (g ∈ w.gcs ∧ g.id ≠ g1.id) := by
  have hst : ∀ s ∈ (mergeDeps w vw stations cvs).stations, s ∈ w.stations ∨ s ∈ vw.stations := by
    intro s hs
    unfold mergeDeps at hs
    simp only [foldl_setBattery_stations, foldl_setGc_stations] at hs
    exact writeBack_stations_mem _ _ _ _ s hs
  refine ⟨?_, ?_, ?_⟩
  · intro s hs
    rcases hst s hs with h | h
    · exact h0 s h
    · exact hv s h
  · intro s hs
    rcases hst s hs with h | h
    · exact hK s h
    · obtain ⟨x, hx, e, _⟩ := hvid s h
      rw [e]; exact hK x (hsub x hx)
  · intro g hg
    unfold mergeDeps at hg
    simp only [foldl_setBattery_gcs, hg1] at hg
    rcases setGc_single_mem _ g1 g hg with h | ⟨h, h'⟩
    · exact Or.inl h
    · rw [writeBack_gcs] at h; exact Or.inr ⟨h, h'⟩

/-- the virtual stations after an opportunity station's treatment -/
theorem virtUpdate_ok (ini0 : DInit α) (vcsOld : List (StationS α)) (vids : List String) (sub : List (StationS α))
    (gcId : String)
    (hold : ∀ s ∈ vcsOld, 0 ≤ s.maxPower ∧ ∃ s0 ∈ ini0.virtualCs, s.id = s0.id ∧ s.parent = s0.parent)
    (hsub : ∀ y ∈ sub, 0 ≤ y.maxPower ∧ y.parent = gcId)
    (hvp : ∀ x ∈ vcsOld, vids.contains x.id = true → ∀ s0 ∈ ini0.virtualCs, x.id = s0.id → s0.parent = gcId) :
    ∀ s ∈ vcsOld.map (fun s => if vids.contains s.id then (sub.find? (·.id == s.id)).getD s else s),
      0 ≤ s.maxPower ∧ ∃ s0 ∈ ini0.virtualCs, s.id = s0.id ∧ s.parent = s0.parent := by
  intro s hs
  simp only [List.mem_map] at hs
  obtain ⟨x, hx, rfl⟩ := hs
  split
  · rename_i hc
    cases hf : sub.find? (·.id == x.id) with
    | none => simpa using hold x hx
    | some y =>
      simp only [Option.getD_some]
      have hym := List.mem_of_find?_eq_some hf
      have hyid : y.id = x.id := by simpa using List.find?_some hf
      obtain ⟨_, s0, hs0, e1, e2⟩ := hold x hx
      refine ⟨(hsub y hym).1, s0, hs0, hyid.trans e1, ?_⟩
      rw [(hsub y hym).2]
      exact (hvp x hx hc s0 hs0 e1).symm
  · exact hold x hx

theorem writeBack_stations_mem' (w sub : SWorld α B) (a b : List String) (s : StationS α)
    (h : s ∈ (writeBack w sub a b).stations) : s ∈ w.stations ∨ (s ∈ sub.stations ∧ a.contains s.id = true) := by
  unfold writeBack at h
  have h2 : ∀ (l : List (VehicleS α B)) (w : SWorld α B),
      (l.foldl (fun (w : SWorld α B) v => if b.contains v.id then w.setVehicle v else w) w).stations
        = w.stations := by
    intro l
    induction l with
    | nil => intro w; rfl
    | cons x xs ih => intro w; simp only [List.foldl_cons]; rw [ih]; split <;> rfl
  have h1 : ∀ (l : List (StationS α)) (w : SWorld α B), (∀ x ∈ l, x ∈ sub.stations) →
      ∀ s ∈ (l.foldl (fun (w : SWorld α B) s => if a.contains s.id then w.setStation s else w) w).stations,
        s ∈ w.stations ∨ (s ∈ sub.stations ∧ a.contains s.id = true) := by
    intro l
    induction l with
    | nil => intro w _ s hs; exact Or.inl hs
    | cons x xs ih =>
      intro w hl s hs
      simp only [List.foldl_cons] at hs
      rcases ih _ (fun y hy => hl y (by simp [hy])) s hs with h | h
      · split at h
        · rename_i hc
          rcases mem_setStation _ _ s h with rfl | hm
          · exact Or.inr ⟨hl _ (by simp), hc⟩
          · exact Or.inl hm
        · exact Or.inl h
      · exact Or.inr h
  simp only [h2] at h
  exact h1 sub.stations w (fun x hx => hx) s h

/-- the end of an opportunity station's treatment (after the sub-strategy ran and DIST2) -/
theorem oppsFinish (dops : DOps α B) (w0 : SWorld α B) (ini0 : DInit α) (K R : List String)
    (hyp : LoopHyp w0 ini0 K) (gcId : String) (hnot : gcId ∉ R)
    (st : SWorld α B × DInit α × List (String × α)) (hinv : LoopInv w0 ini0 K (gcId :: R) st)
    (stations : List (StationS α)) (cvs : List (VehicleS α B)) (batIds : List String)
    (hbat : batIds = (sdGet ini0.gcBattery gcId).getD [])
    (hss : ∀ s ∈ stations, s ∈ st.1.stations ∧ s.parent = gcId)
    (vcs : List (StationS α)) (hvcs : ∀ s ∈ vcs, s ∈ st.2.1.virtualCs ∧ ∃ b ∈ batIds, s.id = virtName b)
    (svw : SWorld α B) (g1 : GcS α) (hg1id : g1.id = gcId)
    (hv : StOK svw.stations)
    (hvid : ∀ s' ∈ svw.stations, ∃ s ∈ stations ++ vcs, s'.id = s.id ∧ s'.parent = s.parent)
    (saved : α) (avail : List (String × α)) (vveh : List (VehicleS α B)) (cmds : List (String × α))
    (post : OppsPost α B)
    (hpost : batIds.foldlM (oppsAfter dops saved avail vveh)
      ⟨g1, cmds, (writeBack st.1 svw (stations.map (·.id)) (cvs.map (·.id))).batteries⟩ = .ok post)
    (ini' : DInit α)
    (hini1 : ini'.virtualCs = st.2.1.virtualCs.map (fun s =>
      if (vcs.map (·.id)).contains s.id then (svw.stations.find? (·.id == s.id)).getD s else s))
    (hini2 : ini'.gcBattery = st.2.1.gcBattery) (acc' : List (String × α)) :
    LoopInv w0 ini0 K R
      ({ ((writeBack st.1 svw (stations.map (·.id)) (cvs.map (·.id))).setGc post.gc) with batteries := post.bats },
        ini', acc') := by
  have hpid : post.gc.id = g1.id :=
    foldlM_preserves _ (fun (a b : OppsPost α B) => b.gc.id = a.gc.id) (fun _ => rfl)
      (fun _ _ _ h1 h2 => h2.trans h1)
      (fun s i s' hs => oppsAfter_gcid dops _ _ _ s s' i hs) _ _ post hpost
  have hpar : ∀ s ∈ stations ++ vcs, s.parent = gcId := by
    intro s hs
    rcases List.mem_append.mp hs with h | h
    · exact (hss s h).2
    · obtain ⟨hm, b, hb, e⟩ := hvcs s h
      obtain ⟨_, s0, hs0, e1, e2⟩ := hinv.virt s hm
      rw [e2]
      exact hyp.vpar gcId b (by rw [← hbat]; exact hb) s0 hs0 (e1.symm.trans e)
  have hstm : ∀ s ∈ (writeBack st.1 svw (stations.map (·.id)) (cvs.map (·.id))).stations,
      s ∈ st.1.stations ∨ (s ∈ svw.stations ∧ (stations.map (·.id)).contains s.id = true) :=
    fun s hs => writeBack_stations_mem' _ _ _ _ s hs
  refine ⟨?_, ?_, ?_, ?_, ?_⟩
  · intro s hs
    rcases hstm s hs with h | ⟨h, _⟩
    · exact hinv.ok s h
    · exact hv s h
  · intro s hs
    rcases hstm s hs with h | ⟨_, hc⟩
    · exact hinv.ids s h
    · have : s.id ∈ stations.map (·.id) := by simpa using hc
      simp only [List.mem_map] at this
      obtain ⟨x, hx, e⟩ := this
      rw [← e]; exact hinv.ids x (hss x hx).1
  · show ∀ s ∈ ini'.virtualCs, _
    rw [hini1]
    apply virtUpdate_ok ini0 st.2.1.virtualCs (vcs.map (·.id)) svw.stations gcId hinv.virt
    · intro y hy
      obtain ⟨x, hx, _, e2⟩ := hvid y hy
      exact ⟨(hv y hy).1, e2.trans (hpar x hx)⟩
    · intro x hx hc s0 hs0 e
      have : x.id ∈ vcs.map (·.id) := by simpa using hc
      simp only [List.mem_map] at this
      obtain ⟨v, hvm, ev⟩ := this
      obtain ⟨_, b, hb, eb⟩ := hvcs v hvm
      exact hyp.vpar gcId b (by rw [← hbat]; exact hb) s0 hs0 (e.symm.trans (ev.symm.trans eb))
  · intro g hg hgR
    have hg' : g ∈ ((writeBack st.1 svw (stations.map (·.id)) (cvs.map (·.id))).setGc post.gc).gcs := hg
    rcases mem_setGc _ post.gc g hg' with rfl | ⟨hm, _⟩
    · exact absurd (by rw [← hg1id, ← hpid]; exact hgR) hnot
    · rw [writeBack_gcs] at hm
      exact hinv.fresh g hm (by simp [hgR])
  · show ini'.gcBattery = _
    rw [hini2]; exact hinv.gcb

/-- the end of a depot's treatment -/
theorem depsFinish (w0 : SWorld α B) (ini0 : DInit α) (K R : List String) (gcId : String) (hnot : gcId ∉ R)
    (st : SWorld α B × DInit α × List (String × α)) (hinv : LoopInv w0 ini0 K (gcId :: R) st)
    (stations : List (StationS α)) (cvs : List (VehicleS α B))
    (hss : ∀ s ∈ stations, s ∈ st.1.stations ∧ s.parent = gcId)
    (vw' : SWorld α B) (g1 : GcS α) (hg1 : vw'.gcs = [g1]) (hg1id : g1.id = gcId)
    (hv : StOK (syncStations vw').stations)
    (hvid : ∀ s' ∈ (syncStations vw').stations, ∃ s ∈ stations, s'.id = s.id ∧ s'.parent = s.parent)
    (ini' : DInit α) (hini1 : ini'.virtualCs = st.2.1.virtualCs) (hini2 : ini'.gcBattery = st.2.1.gcBattery)
    (acc' : List (String × α)) :
    LoopInv w0 ini0 K R (mergeDeps st.1 (syncStations vw') stations cvs, ini', acc') := by
  obtain ⟨c1, c2, c3⟩ := depsCore st.1 (syncStations vw') stations cvs K g1 (by rw [syncStations_gcs]; exact hg1)
    hv hvid (fun s hs => (hss s hs).1) hinv.ok hinv.ids
  refine ⟨c1, c2, ?_, ?_, ?_⟩
  · show ∀ s ∈ ini'.virtualCs, _
    rw [hini1]; exact hinv.virt
  · intro g hg hgR
    rcases c3 g hg with rfl | ⟨hm, _⟩
    · exact absurd (by rw [← hg1id]; exact hgR) hnot
    · exact hinv.fresh g hm (by simp [hgR])
  · show ini'.gcBattery = _
    rw [hini2]; exact hinv.gcb

/-- **one connector's treatment preserves the loop invariant** (sub-strategies greedy / balanced, or peak_shaving
under the contract `SideOK`) -/
theorem stepGc_loop (dops : DOps α B) (law : BatLaw dops.bat) (de : DEnv α)
    (hsd : SideOK dops de.deps de) (hso : SideOK dops de.opps de)
    (ncs : List (String × Option Int)) (conn : List (String × List String)) (lk : Look α)
    (w0 : SWorld α B) (ini0 : DInit α) (K : List String) (hyp : LoopHyp w0 ini0 K)
    (gcId : String) (R : List String) (hnot : gcId ∉ R)
    (st st' : SWorld α B × DInit α × List (String × α)) (hinv : LoopInv w0 ini0 K (gcId :: R) st)
    (h : stepGc dops de ncs conn lk st gcId = .ok st') : LoopInv w0 ini0 K R st' := by
  have hkeep : LoopInv w0 ini0 K R st :=
    ⟨hinv.ok, hinv.ids, hinv.virt, fun g hg hgR => hinv.fresh g hg (by simp [hgR]), hinv.gcb⟩
  unfold stepGc at h
  split at h
  · cases h
  · rename_i gc hgc
    obtain ⟨hgm, hgid⟩ := gc?_some _ _ gc hgc
    have hgc0 : gc ∈ w0.gcs := hinv.fresh gc hgm (by rw [hgid]; simp)
    simp only [bind, Except.bind] at h
    split at h
    · cases h
    · split at h
      · cases h
      · rename_i cands _ _ cvs hcv
        split at h
        · simp only [Except.ok.injEq] at h; subst h; exact hkeep
        · split at h
          · cases h
          · rename_i kind _
            split at h
            · cases h
            · rename_i stations hst
              have hss := subStations_local st.1 gcId cvs stations (connectedAt_local st.1 gcId cands cvs hcv) hst
              have hbat : (sdGet st.2.1.gcBattery gcId).getD [] = (sdGet ini0.gcBattery gcId).getD [] := by
                rw [hinv.gcb]
              obtain ⟨w', ini', acc'⟩ := st'
              have hmaxS : MaxOK stations := fun s hs => (hinv.ok s (hss s hs).1).1
              have hnoS : ∀ s ∈ stations, (sdGet gc.loads s.id).getD 0 = 0 :=
                fun s hs => hyp.noEntry gc hgc0 s.id (hinv.ids s (hss s hs).1)
              cases kind with
              | deps =>
                -- the virtual world of a depot meets the premises of the contract
                have hprem : (∀ s ∈ stations, s.parent = gc.id) ∧
                    (∀ s ∈ stations, ∀ b ∈ depotBatteries st.1 ((sdGet st.2.1.gcBattery gcId).getD []), s.id ≠ b.id) := by
                  refine ⟨fun s hs => (hss s hs).2.trans hgid.symm, ?_⟩
                  intro s hs b hb e
                  have hbi := (depotBatteries_mem st.1 _ b hb).1
                  rw [hbat] at hbi
                  exact hyp.disj gcId b.id hbi (e ▸ hinv.ids s (hss s hs).1)
                unfold stepDeps at h
                rcases subClass de.deps with ⟨hps, hpl⟩ | ⟨cfg, hps⟩ | ⟨hps, cfg, hpl⟩
                · simp only [hps, hpl] at h
                  unfold stepDepsRule at h
                  simp only [bind, Except.bind] at h
                  split at h
                  · cases h
                  · rename_i r hr
                    obtain ⟨vw', cmds⟩ := r
                    simp only [Except.ok.injEq, Prod.mk.injEq] at h
                    obtain ⟨rfl, rfl, rfl⟩ := h
                    obtain ⟨⟨g1, hg1, hid⟩, hrest⟩ := ruleStep_subOK _ dops.bat law _ gc stations cvs _ vw' cmds hr
                    obtain ⟨hv, hvid⟩ := hrest hmaxS hprem.1 hnoS hprem.2
                    refine depsFinish w0 ini0 K R gcId hnot st hinv stations cvs hss vw' g1 hg1 (hid.trans hgid) hv hvid
                      _ ?_ ?_ _ <;> rfl
                · simp only [hps] at h
                  unfold stepDepsPS at h
                  simp only [bind, Except.bind] at h
                  split at h
                  · cases h
                  · rename_i r hr
                    obtain ⟨vw', cmds, evs'⟩ := r
                    simp only [Except.ok.injEq, Prod.mk.injEq] at h
                    obtain ⟨rfl, rfl, rfl⟩ := h
                    have hsub : SubOK (psRun dops de.deps cfg de.env.now st.2.1.depsEvents
                        (subFuture de.future gc.id cvs)) := by
                      simp only [SideOK, hps] at hsd
                      exact hsd _ _
                    obtain ⟨⟨g1, hg1, hid⟩, hrest⟩ := hsub gc stations cvs _ vw' cmds
                      (by unfold psRun; rw [hr]; rfl)
                    obtain ⟨hv, hvid⟩ := hrest hmaxS hprem.1 hnoS hprem.2
                    refine depsFinish w0 ini0 K R gcId hnot st hinv stations cvs hss vw' g1 hg1 (hid.trans hgid) hv hvid
                      _ ?_ ?_ _ <;> rfl
                · simp only [hps, hpl] at h
                  unfold stepDepsPLW at h
                  simp only [bind, Except.bind] at h
                  split at h
                  · cases h
                  · rename_i r hr
                    obtain ⟨vw', cmds, pk'⟩ := r
                    simp only [Except.ok.injEq, Prod.mk.injEq] at h
                    obtain ⟨rfl, rfl, rfl⟩ := h
                    have hsub : SubOK (plwRun dops de.deps cfg de st.2.1.depsPeaks []) := by
                      simp only [SideOK, hps, hpl] at hsd
                      exact hsd _ _
                    obtain ⟨⟨g1, hg1, hid⟩, hrest⟩ := hsub gc stations cvs _ vw' cmds
                      (by unfold plwRun; rw [hr]; rfl)
                    obtain ⟨hv, hvid⟩ := hrest hmaxS hprem.1 hnoS hprem.2
                    refine depsFinish w0 ini0 K R gcId hnot st hinv stations cvs hss vw' g1 hg1 (hid.trans hgid) hv hvid
                      _ ?_ ?_ _ <;> rfl
              | opps =>
                unfold stepOpps at h
                -- facts about the battery preparation, common to both classes of sub-strategy
                have prepFacts : ∀ prep : OppsPrep α B,
                    ((sdGet st.2.1.gcBattery gcId).getD []).foldlM
                      (oppsBattery dops de st.2.1 lk st.1 (!cvs.isEmpty) gcId) ⟨gc, [], [], []⟩ = .ok prep →
                    prep.gc.id = gcId ∧
                    (∀ s ∈ prep.vcs, s ∈ st.2.1.virtualCs ∧
                      ∃ b ∈ (sdGet st.2.1.gcBattery gcId).getD [], s.id = virtName b) ∧
                    MaxOK (stations ++ prep.vcs) ∧ (∀ s ∈ stations ++ prep.vcs, s.parent = prep.gc.id) ∧
                    (∀ s ∈ stations ++ prep.vcs, (sdGet prep.gc.loads s.id).getD 0 = 0) := by
                  intro prep hprep
                  obtain ⟨p1, p2, p3⟩ := oppsPrep_facts dops de st.2.1 lk st.1 _ gcId _ ⟨gc, [], [], []⟩ prep rfl hprep
                  have p2' : prep.gc.id = gcId := p2.trans hgid
                  refine ⟨p2', p3, ?_, ?_, ?_⟩
                  · intro s hs
                    rcases List.mem_append.mp hs with h' | h'
                    · exact hmaxS s h'
                    · exact (hinv.virt s (p3 s h').1).1
                  · intro s hs
                    rw [p2']
                    rcases List.mem_append.mp hs with h' | h'
                    · exact (hss s h').2
                    · obtain ⟨hm, b, hb, e⟩ := p3 s h'
                      obtain ⟨_, s0, hs0, e1, e2⟩ := hinv.virt s hm
                      rw [e2]
                      exact hyp.vpar gcId b (by rw [← hbat]; exact hb) s0 hs0 (e1.symm.trans e)
                  · intro s hs
                    rw [p1]
                    rcases List.mem_append.mp hs with h' | h'
                    · exact hnoS s h'
                    · obtain ⟨hm, _⟩ := p3 s h'
                      obtain ⟨_, s0, hs0, e1, _⟩ := hinv.virt s hm
                      rw [e1]; exact hyp.noVirt gc hgc0 s0 hs0
                rcases subClass de.opps with ⟨hps, hpl⟩ | ⟨cfg, hps⟩ | ⟨hps, cfg, hpl⟩
                · simp only [hps, hpl] at h
                  unfold stepOppsRule at h
                  simp only [bind, Except.bind] at h
                  split at h
                  · cases h
                  · rename_i prep hprep
                    obtain ⟨q1, q2, q3, q4, q5⟩ := prepFacts prep hprep
                    split at h
                    · cases h
                    · rename_i r hr
                      obtain ⟨vw', cmds⟩ := r
                      obtain ⟨⟨g1, hg1, hid⟩, hrest⟩ := ruleStep_subOK _ dops.bat law _ prep.gc _ _ _ vw' cmds hr
                      obtain ⟨hv, hvid⟩ := hrest q3 q4 q5 (by intro s _ b hb; simp at hb)
                      simp only [hg1] at h
                      split at h
                      · cases h
                      · rename_i post hpost
                        simp only [Except.ok.injEq, Prod.mk.injEq] at h
                        obtain ⟨rfl, rfl, rfl⟩ := h
                        refine oppsFinish dops w0 ini0 K R hyp gcId hnot st hinv stations cvs _ hbat hss prep.vcs q2
                          (syncStations vw') g1 (hid.trans q1) hv hvid _ _ _ _ post hpost _ ?_ ?_ _ <;> rfl
                · simp only [hps] at h
                  unfold stepOppsPS at h
                  simp only [bind, Except.bind] at h
                  split at h
                  · cases h
                  · rename_i prep hprep
                    obtain ⟨q1, q2, q3, q4, q5⟩ := prepFacts prep hprep
                    split at h
                    · cases h
                    · rename_i r hr
                      obtain ⟨vw', cmds, evs'⟩ := r
                      have hsub : SubOK (psRun dops de.opps cfg de.env.now st.2.1.oppsEvents
                          (subFuture de.future gcId cvs)) := by
                        simp only [SideOK, hps] at hso
                        exact hso _ _
                      obtain ⟨⟨g1, hg1, hid⟩, hrest⟩ := hsub prep.gc _ _ _ vw' cmds
                        (by unfold psRun; rw [hr]; rfl)
                      obtain ⟨hv, hvid⟩ := hrest q3 q4 q5 (by intro s _ b hb; simp at hb)
                      simp only [hg1] at h
                      split at h
                      · cases h
                      · rename_i post hpost
                        simp only [Except.ok.injEq, Prod.mk.injEq] at h
                        obtain ⟨rfl, rfl, rfl⟩ := h
                        refine oppsFinish dops w0 ini0 K R hyp gcId hnot st hinv stations cvs _ hbat hss prep.vcs q2
                          (syncStations vw') g1 (hid.trans q1) hv hvid _ _ _ _ post hpost _ ?_ ?_ _ <;> rfl

                · simp only [hps, hpl] at h
                  unfold stepOppsPLW at h
                  simp only [bind, Except.bind] at h
                  split at h
                  · cases h
                  · rename_i prep hprep
                    obtain ⟨q1, q2, q3, q4, q5⟩ := prepFacts prep hprep
                    split at h
                    · cases h
                    · rename_i r hr
                      obtain ⟨vw', cmds, pk'⟩ := r
                      have hsub : SubOK (plwRun dops de.opps cfg de st.2.1.oppsPeaks
                          (prep.vveh.filterMap (fun v => (sdGet st.2.1.virtualVt (virtName v.id)).map
                            (fun vt => (v.id, vt.chargingCurve.points.map (·.2), (none : Option α)))))) := by
                        simp only [SideOK, hps, hpl] at hso
                        exact hso _ _
                      obtain ⟨⟨g1, hg1, hid⟩, hrest⟩ := hsub prep.gc _ _ _ vw' cmds
                        (by unfold plwRun; rw [hr]; rfl)
                      obtain ⟨hv, hvid⟩ := hrest q3 q4 q5 (by intro s _ b hb; simp at hb)
                      simp only [hg1] at h
                      split at h
                      · cases h
                      · rename_i post hpost
                        simp only [Except.ok.injEq, Prod.mk.injEq] at h
                        obtain ⟨rfl, rfl, rfl⟩ := h
                        refine oppsFinish dops w0 ini0 K R hyp gcId hnot st hinv stations cvs _ hbat hss prep.vcs q2
                          (syncStations vw') g1 (hid.trans q1) hv hvid _ _ _ _ post hpost _ ?_ ?_ _ <;> rfl

theorem stepGc_loop_fold (dops : DOps α B) (law : BatLaw dops.bat) (de : DEnv α)
    (hsd : SideOK dops de.deps de) (hso : SideOK dops de.opps de)
    (ncs : List (String × Option Int)) (conn : List (String × List String)) (lk : Look α)
    (w0 : SWorld α B) (ini0 : DInit α) (K : List String) (hyp : LoopHyp w0 ini0 K)
    (ids : List String) (hnd : ids.Nodup)
    (st st' : SWorld α B × DInit α × List (String × α)) (hinv : LoopInv w0 ini0 K ids st)
    (h : ids.foldlM (stepGc dops de ncs conn lk) st = .ok st') : LoopInv w0 ini0 K [] st' := by
  induction ids generalizing st with
  | nil =>
    simp only [List.foldlM_nil, pure, Except.pure, Except.ok.injEq] at h
    subst h; exact hinv
  | cons id rest ih =>
    simp only [List.nodup_cons] at hnd
    simp only [List.foldlM_cons, bind, Except.bind] at h
    split at h
    · cases h
    · rename_i st1 hst1
      exact ih hnd.2 st1
        (stepGc_loop dops law de hsd hso ncs conn lk w0 ini0 K hyp id rest hnd.1 st st1 hinv hst1) h

/-- the invariant holds at the beginning of the loop -/
theorem loopInv_init (w : SWorld α B) (ini : DInit α) (acc : List (String × α))
    (hmax : ∀ s ∈ w.stations, 0 ≤ s.maxPower) (hvirt : ∀ s ∈ ini.virtualCs, 0 ≤ s.maxPower) (R : List String) :
    LoopInv (resetStations w) ini (w.stations.map (·.id)) R (resetStations w, ini, acc) := by
  refine ⟨?_, ?_, ?_, fun g hg _ => hg, rfl⟩
  · intro s hs
    unfold resetStations at hs
    simp only [List.mem_map] at hs
    obtain ⟨x, hx, rfl⟩ := hs
    exact ⟨hmax x hx, hmax x hx⟩
  · intro s hs
    unfold resetStations at hs
    simp only [List.mem_map] at hs
    obtain ⟨x, hx, rfl⟩ := hs
    exact List.mem_map.mpr ⟨x, hx, rfl⟩
  · intro s hs
    exact ⟨hvirt s hs, s, hs, rfl, rfl⟩

/-- `toyState` meets the premises of the loop -/
theorem toyState_loopHyp :
    LoopHyp (resetStations toyState.world) toyState.init (toyState.world.stations.map (·.id)) ∧
    (toyState.world.gcs.map (·.id)).Nodup ∧ (∀ st ∈ toyState.world.stations, 0 ≤ st.maxPower) ∧
    (∀ st ∈ toyState.init.virtualCs, 0 ≤ st.maxPower) := by
  refine ⟨⟨?_, ?_, ?_, ?_⟩, by decide, ?_, ?_⟩
  · intro g hg k hk
    simp only [resetStations, toyState, List.mem_cons, List.not_mem_nil, or_false, List.map_cons, List.map_nil] at hg hk
    rcases hg with rfl | rfl <;> rcases hk with rfl | rfl <;> decide
  · intro g _ s0 hs0
    simp [toyState] at hs0
  · intro g' b hb
    simp only [toyState, sdGet] at hb
    split at hb
    · simp only [Option.getD_some, List.mem_cons, List.not_mem_nil, or_false] at hb
      subst hb; decide
    · simp at hb
  · intro g' b _ s0 hs0
    simp [toyState] at hs0
  · intro st hst
    simp only [toyState, List.mem_cons, List.not_mem_nil, or_false] at hst
    rcases hst with rfl | rfl <;> norm_num
  · intro st hst
    simp [toyState] at hst

end SpiceEv.Distrib
