/-
Bookkeeping of the whole `BalancedMarket.step`: composition of the per-`step_gc` statements.
-/
import SpiceEv.Proofs.StratBalancedMarketBookStep
set_option linter.unusedSectionVars false
set_option linter.unusedSimpArgs false
set_option linter.unusedVariables false
namespace SpiceEv.BalancedMarket
open SpiceEv
variable {α B : Type} [Field α] [LinearOrder α] [IsStrictOrderedRing α]

/-- the entry of key `k` in the connector with id `id` of world `w` (0 if there is none) -/
def entry0 (w : SWorld α B) (id k : String) : α := ((w.gc? id).map (fun g => loadAt g k)).getD 0

/-- total change of the entries of key `k` over all connectors, from world `w0` to the connector list `gcs` -/
def entryDelta (w0 : SWorld α B) (gcs : List (GcS α)) (k : String) : α :=
  (gcs.map (fun g' => loadAt g' k - entry0 w0 g'.id k)).sum

theorem sum_replace (F : GcS α → α) (gid : String) (gc gc' : GcS α) (hid' : gc'.id = gid) :
    ∀ (l : List (GcS α)), (l.map (·.id)).Nodup → gc ∈ l → gc.id = gid →
      ((l.map (fun x => if x.id == gid then gc' else x)).map F).sum = (l.map F).sum - F gc + F gc' := by
  intro l
  induction l with
  | nil => intro _ h; simp at h
  | cons x rest ih =>
    intro hnd hmem hid
    simp only [List.map_cons, List.nodup_cons, List.mem_map, not_exists, not_and] at hnd
    simp only [List.map_cons, List.sum_cons]
    rcases List.mem_cons.mp hmem with rfl | hm
    · have hx : (gc.id == gid) = true := by simpa using hid
      rw [if_pos hx]
      -- no other element has this id
      have hrest : rest.map (fun x => if x.id == gid then gc' else x) = rest := by
        conv_rhs => rw [← List.map_id rest]
        apply List.map_congr_left
        intro y hy
        have : ¬ y.id = gid := by
          intro hy'
          exact hnd.1 y hy (by rw [hy', hid])
        simp [this]
      rw [hrest]; ring
    · have hx : ¬ x.id = gid := by
        intro hx'
        exact hnd.1 gc hm (by rw [hid, hx'])
      have hxb : (x.id == gid) = false := by simpa using hx
      simp only [hxb, Bool.false_eq_true, if_false]
      rw [ih hnd.2 hm hid]; ring

theorem gc?_self (w : SWorld α B) (hnd : (w.gcs.map (·.id)).Nodup) (g : GcS α) (hg : g ∈ w.gcs) :
    w.gc? g.id = some g := by
  unfold SWorld.gc?
  cases hf : w.gcs.find? (·.id == g.id) with
  | none =>
    have := List.find?_eq_none.mp hf g hg
    simp at this
  | some x =>
    have hx := List.mem_of_find?_eq_some hf
    have hxid : x.id = g.id := by simpa using List.find?_some hf
    rw [eq_of_id_eq_of_nodup w.gcs hnd x g hx hg hxid]

structure JInv (w0 : SWorld α B) (done : List String) (wc : SWorld α B) : Prop where
  ids : wc.gcs.map (·.id) = w0.gcs.map (·.id)
  unproc : ∀ g' ∈ wc.gcs, g'.id ∉ done → g' ∈ w0.gcs
  same : ∀ k, (wc.station? k).isSome = (w0.station? k).isSome
  bids : wc.batteries.map (·.id) = w0.batteries.map (·.id)
  sum : ∀ k, (w0.station? k).isSome = true → stPow wc k - stPow w0 k = entryDelta w0 wc.gcs k

theorem stepFold_book (ops : Ops α B) (env : Env α) (w0 : SWorld α B)
    (hnd : (w0.gcs.map (·.id)).Nodup) (hsb : ∀ b ∈ w0.batteries, w0.station? b.id = none) :
    ∀ (rest done : List String) (st st' : SWorld α B × List (String × α)),
      (∀ id ∈ rest, id ∉ done) → rest.Nodup → JInv w0 done st.1 →
      rest.foldlM (fun (st : SWorld α B × List (String × α)) gid => do
        let (w', c) ← stepGc ops env st.1 gid
        pure (w', sdUpdate st.2 c)) st = .ok st' →
      JInv w0 (done ++ rest) st'.1 := by
  intro rest
  induction rest with
  | nil =>
    intro done st st' _ _ hJ h
    simp only [List.foldlM_nil, pure, Except.pure, Except.ok.injEq] at h
    subst h; simpa using hJ
  | cons gid rest ih =>
    intro done st st' hnew hndr hJ h
    simp only [List.foldlM_cons, bind, Except.bind] at h
    split at h
    · cases h
    · rename_i st1 hst1
      split at hst1
      · cases hst1
      · rename_i r hr
        obtain ⟨w1, c1⟩ := r
        simp only [pure, Except.pure, Except.ok.injEq] at hst1
        subst hst1
        have hgidnew : gid ∉ done := hnew gid (List.mem_cons_self ..)
        cases hgc : st.1.gc? gid with
        | none => unfold stepGc at hr; rw [hgc] at hr; cases hr
        | some gc =>
          obtain ⟨hgm, hgid⟩ := gc?_some st.1 gid gc hgc
          have hg0 : gc ∈ w0.gcs := hJ.unproc gc hgm (by rw [hgid]; exact hgidnew)
          have hsbc : ∀ b ∈ st.1.batteries, st.1.station? b.id = none := by
            intro b hb
            have hbid : b.id ∈ w0.batteries.map (·.id) := by
              rw [← hJ.bids]; exact List.mem_map_of_mem hb
            simp only [List.mem_map] at hbid
            obtain ⟨b0, hb0, hb0id⟩ := hbid
            have h0 := hsb b0 hb0
            rw [hb0id] at h0
            have hs := hJ.same b.id
            rw [h0] at hs
            cases hc : st.1.station? b.id with
            | none => rfl
            | some x => rw [hc] at hs; cases hs
          obtain ⟨gc', _, hgc'id, hent, hsame, _, hgcs, hbids⟩ :=
            stepGc_bookkeeping ops env st.1 w1 gid c1 gc hgc hsbc hr
          have hndc : (st.1.gcs.map (·.id)).Nodup := by rw [hJ.ids]; exact hnd
          have hJ1 : JInv w0 (done ++ [gid]) w1 := by
            refine ⟨?_, ?_, fun k => by rw [hsame k]; exact hJ.same k, by rw [hbids]; exact hJ.bids, ?_⟩
            · rw [hgcs, List.map_map, ← hJ.ids]
              apply List.map_congr_left
              intro x _
              simp only [Function.comp]
              split
              · rename_i hx
                rw [hgc'id]; exact (by simpa using hx : x.id = gid).symm
              · rfl
            · intro g' hg' hnot
              rw [hgcs] at hg'
              simp only [List.mem_map] at hg'
              obtain ⟨x, hx, rfl⟩ := hg'
              by_cases hxid : (x.id == gid) = true
              · simp only [hxid, if_true] at hnot
                exfalso; apply hnot; rw [hgc'id]; simp
              · simp only [hxid, Bool.false_eq_true, if_false] at hnot ⊢
                exact hJ.unproc x hx (fun hm => hnot (List.mem_append_left _ hm))
            · intro k hk
              have hk' : (st.1.station? k).isSome = true := by rw [hJ.same k]; exact hk
              have hdelta := hent k hk'
              have hsum := hJ.sum k hk
              unfold entryDelta at hsum ⊢
              rw [hgcs, sum_replace (fun g' => loadAt g' k - entry0 w0 g'.id k) gid gc gc' hgc'id
                st.1.gcs hndc hgm hgid]
              rw [hgc'id, hgid]
              linarith
          have := ih (done ++ [gid]) (w1, sdUpdate st.2 c1) st'
            (by
              intro id hid hmem
              rcases List.mem_append.mp hmem with hm | hm
              · exact hnew id (List.mem_cons_of_mem _ hid) hm
              · simp only [List.mem_singleton] at hm
                subst hm
                exact (List.nodup_cons.mp hndr).1 hid)
            (List.nodup_cons.mp hndr).2 hJ1 h
          simpa [List.append_assoc] using this

/-- **bookkeeping of the whole step**: with unique connector ids and no station sharing its id with a
stationary battery, after `BalancedMarket.step` the `current_power` of every station is the total change of
its entries in `current_loads` over all connectors -/
theorem step_bookkeeping (ops : Ops α B) (env : Env α) (w w' : SWorld α B) (cmds : List (String × α))
    (hnd : (w.gcs.map (·.id)).Nodup) (hsb : ∀ b ∈ w.batteries, w.station? b.id = none)
    (h : step ops env w = .ok (w', cmds)) :
    (∀ k, (w.station? k).isSome = true → stPow w' k = entryDelta w w'.gcs k) ∧
    (∀ k, (w'.station? k).isSome = (w.station? k).isSome) ∧
    w'.gcs.map (·.id) = w.gcs.map (·.id) := by
  unfold step at h
  have hrs : ∀ k, ((resetStations w).station? k).isSome = (w.station? k).isSome := by
    intro k
    unfold resetStations SWorld.station?
    simp only
    rw [List.find?_map]
    have : ((fun x : StationS α => x.id == k) ∘ fun (s : StationS α) => ({ s with currentPower := 0 } : StationS α)) =
        (fun (x : StationS α) => x.id == k) := by funext x; rfl
    rw [this]
    simp
  have hrp : ∀ k, stPow (resetStations w) k = 0 := by
    intro k
    unfold stPow resetStations SWorld.station?
    simp only
    rw [List.find?_map]
    cases hf : List.find? ((fun x => x.id == k) ∘ fun s => ({ s with currentPower := 0 } : StationS α)) w.stations with
    | none => simp
    | some x => simp
  have hJ0 : JInv (resetStations w) [] (resetStations w) := by
    refine ⟨rfl, fun g' hg' _ => hg', fun k => rfl, rfl, ?_⟩
    intro k _
    unfold entryDelta
    rw [sub_self]
    symm
    apply List.sum_eq_zero
    intro x hx
    simp only [List.mem_map] at hx
    obtain ⟨g', hg', rfl⟩ := hx
    unfold entry0
    have : (resetStations w).gc? g'.id = some g' := gc?_self (resetStations w) hnd g' hg'
    rw [this]; simp
  have hsb' : ∀ b ∈ (resetStations w).batteries, (resetStations w).station? b.id = none := by
    intro b hb
    have h0 := hsb b hb
    have hs := hrs b.id
    rw [h0] at hs
    cases hc : (resetStations w).station? b.id with
    | none => rfl
    | some x => rw [hc] at hs; cases hs
  have hres := stepFold_book ops env (resetStations w) hnd hsb' (w.gcs.map (·.id)) []
    (resetStations w, []) (w', cmds) (by intro id _ hm; simp at hm) hnd hJ0 h
  refine ⟨?_, fun k => by rw [hres.same k]; exact hrs k, hres.ids⟩
  intro k hk
  have := hres.sum k (by rw [hrs k]; exact hk)
  rw [hrp k, sub_zero] at this
  exact this

end SpiceEv.BalancedMarket
