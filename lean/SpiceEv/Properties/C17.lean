/-
C17 — Every simulation terminates and fails loudly.
Run-shape part for every strategy (run-loop model): the loop is a structural recursion over the
step count (it terminates), errors are latched and never swallowed, the run ends with the failing
step, and a run without error reports exactly the configured number of steps.
-/
import SpiceEv.Proofs.ScenarioRun
import SpiceEv.Properties.C11
set_option linter.unusedSectionVars false
namespace SpiceEv
variable {α : Type} [Field α] [LinearOrder α] [IsStrictOrderedRing α]

/-- **Run shape.** For any strategy behaviour (including raising at any step) and any `n`:
* at most `n` steps are reported, one output record per reported step;
* every step before the last passed all checks (no error is swallowed: an error in event
  processing, in the strategy, or a violated safety check ends the run *with that step*);
* the run is flagged as aborted iff its last reported step latched an error;
* without error exactly `n` steps are reported. -/
theorem C17_run_shape (eps : α) (genKeys : List String) (n : Nat) (obs : List (StepObs α))
    (hobs : n ≤ obs.length) :
    let out := run eps genKeys n obs
    out.stepI = out.steps.length ∧ out.stepI ≤ n ∧
    (∀ i (h : i + 1 < out.steps.length), (out.steps[i]'(by omega)).ok = true) ∧
    (out.aborted = true ↔ ∃ h : out.steps ≠ [], (out.steps.getLast h).ok = false) ∧
    (out.aborted = false → out.stepI = n) := by
  intro out
  refine ⟨rfl, (simLoop_length_le eps genKeys n obs).1, ?_, ?_, ?_⟩
  · intro i h
    exact simLoop_ok_before_last eps genKeys n obs i h
  · constructor
    · intro hab
      show ∃ h : simLoop eps genKeys n obs ≠ [], ((simLoop eps genKeys n obs).getLast h).ok = false
      have hab' : (simLoop eps genKeys n obs).any (fun s => !s.ok) = true := hab
      rw [List.any_eq_true] at hab'
      obtain ⟨s, hs, hsok⟩ := hab'
      have hne : simLoop eps genKeys n obs ≠ [] := List.ne_nil_of_mem hs
      refine ⟨hne, ?_⟩
      -- the failing step must be the last one
      obtain ⟨i, hi, rfl⟩ := List.getElem_of_mem hs
      by_cases hl : i + 1 < (simLoop eps genKeys n obs).length
      · have := simLoop_ok_before_last eps genKeys n obs i hl
        simp [this] at hsok
      · have : i = (simLoop eps genKeys n obs).length - 1 := by omega
        subst this
        rw [List.getLast_eq_getElem]
        simpa using hsok
    · rintro ⟨h, e⟩
      show (simLoop eps genKeys n obs).any (fun s => !s.ok) = true
      rw [List.any_eq_true]
      exact ⟨_, List.getLast_mem h, by simp [e]⟩
  · intro hab
    have hab' : (simLoop eps genKeys n obs).any (fun s => !s.ok) = false := hab
    rw [List.any_eq_false] at hab'
    exact simLoop_all_ok_full eps genKeys n obs hobs (fun s hs => by simpa using hab' s hs)

/-- An error raised by the strategy (or by event processing) at an observed step ends the run
there: no later step is reported. -/
theorem C17_error_is_last (eps : α) (genKeys : List String) (n : Nat) (obs : List (StepObs α))
    (i : Nat) (hi : i < (run eps genKeys n obs).stepI) (h : i < obs.length)
    (herr : obs[i].eventError = true ∨ obs[i].stratError = true) :
    i + 1 = (run eps genKeys n obs).stepI ∧ (run eps genKeys n obs).aborted = true := by
  have hi' : i < (simLoop eps genKeys n obs).length := hi
  obtain ⟨_, e⟩ := simLoop_getElem eps genKeys n obs i hi'
  have hnok : ((simLoop eps genKeys n obs)[i]'hi').ok = false := by
    rw [e]
    unfold stepReport
    rcases herr with h1 | h1 <;> simp [h1]
  constructor
  · by_contra hne
    have hl : i + 1 < (simLoop eps genKeys n obs).length := by
      have : i + 1 ≠ (simLoop eps genKeys n obs).length := hne
      omega
    have := simLoop_ok_before_last eps genKeys n obs i hl
    rw [hnok] at this; exact absurd this (by simp)
  · show (simLoop eps genKeys n obs).any (fun s => !s.ok) = true
    rw [List.any_eq_true]
    exact ⟨_, List.getElem_mem hi', by simp [hnok]⟩

/-- Non-vacuity: a strategy that raises in step 1 of 3 gives a 2-step aborted run. -/
example :
    let o1 : StepObs ℚ := ⟨false, false, [⟨"GC", 10, 10, [("load", some 4)]⟩], []⟩
    let o2 : StepObs ℚ := ⟨false, true, [⟨"GC", 10, 10, [("load", some 4)]⟩], []⟩
    (run (1/100000 : ℚ) [] 3 [o1, o2, o1]).stepI = 2 ∧
    (run (1/100000 : ℚ) [] 3 [o1, o2, o1]).aborted = true := by
  decide +kernel

/-! ### Inner loops: iteration bounds

The strategies' own loops are not modelled as a whole, but their three loop *patterns* are, and
each has a termination theorem elsewhere in this library; they are re-stated here so that the
property's first sentence ("every strategy step finishes in bounded time") has its proved part
in one place:

* `C17_bisect_bound` — every `while max − min > EPS` bisection ends within `⌈log₂((hi−lo)/ε)⌉`
  iterations (the variants `while not safe or …` are NOT covered: two of them looped forever on the
  pinned code, findings H1/H2, found by the watchdog);
* the battery's section loop ends within its fuel (`C01_load_ok` / `C01_unload_ok`, Properties/C01);
* the end-of-core-standing-time scan ends iff some minute of the week is outside
  (`C15_end_of_window`, `C15_end_of_window_never`, Properties/C15);
* the run loop itself is a structural recursion over the step count (`C17_run_shape`).
-/

/-- iteration bound of the bisection pattern (re-export of `C11_bisect_terminates`) -/
theorem C17_bisect_bound (ok : α → Bool) (eps : α) (heps : 0 < eps) (fuel : Nat) (lo hi : α)
    (last : Option α) (hw : hi - lo ≤ eps * 2 ^ fuel) :
    bisect ok eps fuel lo hi last ≠ none :=
  C11_bisect_terminates ok eps heps fuel lo hi last hw

end SpiceEv
