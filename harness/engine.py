"""Shared machinery of all checks: Lean build + axiom audit (leg P), model driver and
correspondence diff (leg C), property oracle bookkeeping (leg O), known findings, evidence,
replay files and the decision rule of DESIGN.md §2.4.

A check module provides
    PID                         property id
    RULE                        how cases are generated and what counts as non-trivial
    gen_cases(tier, seed)       -> iterable of JSON-serialisable cases (corpus cases are prepended)
    eval_case(case)             -> dict(lines=[protocol lines], impl=[expected model outputs],
                                        violations=[(clause, key, detail)], nontrivial=bool,
                                        stats=[branch names])       (runs in a worker process)
optional
    compare(case, impl, model)  -> None if equal else description     (default: string equality)
    search_cases(seed)          -> wider case stream used when only P or C broke
    ASSUMPTIONS, TRUSTED        -> lists of strings for the evidence file
"""
import concurrent.futures as cf
import hashlib
import itertools
import json
import os
import re
import subprocess
import sys
import threading
import time
from pathlib import Path

VERIF = Path(__file__).resolve().parent.parent
LEAN = VERIF / "lean"
REPO = Path(os.environ.get("VERIF_REPO", "/repo"))
DRIVER = LEAN / ".lake" / "build" / "bin" / "driver"
ALLOWED_AXIOMS = {"propext", "Classical.choice", "Quot.sound"}
NPROC = int(os.environ.get("VERIF_NPROC", "16"))

TRUSTED_BASE = [
    "Lean 4.33.0 kernel (and leanchecker re-check in the thorough tier)",
    "axioms: propext, Classical.choice, Quot.sound only (audited with #print axioms on every run); "
    "no native_decide, bv_decide, sorry, admit, added axioms, implemented_by or unsafe",
    "Mathlib v4.33.0 as compiled in /opt/veriftools/mathlib4 (single modules, proof files only)",
    "Lean compiler/runtime executing the model in the driver; libm exp/log shared with CPython",
    "the hand-written model is tied to /repo's working tree only by the correspondence run "
    "(harness generators, adapters and diff are trusted not to hide a disagreement)",
    "CPython 3.12 semantics of datetime, sorted, round, sum, fractions",
]


def use_repo():
    """make `import spice_ev` resolve to the working tree under test"""
    p = str(REPO)
    if p not in sys.path:
        sys.path.insert(0, p)
    os.environ.setdefault("SPICE_EV_VERIF", "1")


# ------------------------------------------------------------------------------------------
# leg P: build + audit

def lean_build():
    """lake build (no-op when up to date). Returns (ok, log)."""
    t0 = time.time()
    p = subprocess.run(["lake", "build"], cwd=LEAN, capture_output=True, text=True)
    return p.returncode == 0, (p.stdout + p.stderr)[-4000:], time.time() - t0


_FORBIDDEN = re.compile(r"\b(sorry|admit|native_decide|bv_decide|implemented_by|unsafe)\b|^\s*axiom\s", re.M)


def _strip_comments(src):
    src = re.sub(r"/-.*?-/", "", src, flags=re.S)
    return re.sub(r"--.*", "", src)


def lean_grep():
    """forbidden tokens outside comments in any Lean source of the project"""
    hits = []
    for f in sorted(LEAN.rglob("*.lean")):
        if ".lake" in f.parts:
            continue
        for m in _FORBIDDEN.finditer(_strip_comments(f.read_text())):
            hits.append("%s: %s" % (f.relative_to(LEAN), m.group(0).strip()))
    return hits


def theorem_modules(pid):
    """property theorem modules of `pid`: SpiceEv/Properties/<pid>.lean and SpiceEv/Properties/<pid>_*.lean
    (one file per strategy model); a development check may name its modules in THEOREM_MODULES"""
    if pid in _THEOREM_MODULES:
        return list(_THEOREM_MODULES[pid])
    d = LEAN / "SpiceEv" / "Properties"
    mods = [pid] if (d / (pid + ".lean")).exists() else []
    return mods + sorted(f.stem for f in d.glob(pid + "_*.lean"))


_THEOREM_MODULES = {}


def theorem_names_by_module(pid):
    out = {}
    for m in theorem_modules(pid):
        f = LEAN / "SpiceEv" / "Properties" / (m + ".lean")
        if not f.exists():
            out[m] = []
            continue
        pat = r"^theorem\s+(%s_\w+)" % (pid if re.match(r"^C\d\d$", pid) else r"C\d\d")
        out[m] = re.findall(pat, _strip_comments(f.read_text()), flags=re.M)
    return out


def gen_modules(pid):
    """modules lean/SpiceEvGen/<pid>.lean, <pid>_*.lean: theorems about definitions GENERATED from the Python source
    (harness/py2lean.py); built and audited under a lock after the source has been re-translated"""
    d = LEAN / "SpiceEvGen"
    if not re.match(r"^C\d\d$", pid) or not d.is_dir():
        return []
    return ([pid] if (d / (pid + ".lean")).exists() else []) + sorted(f.stem for f in d.glob(pid + "_*.lean"))


def gen_theorem_names(pid):
    out = {}
    for m in gen_modules(pid):
        out[m] = re.findall(r"^theorem\s+(%s_gen_\w+)" % pid,
                            _strip_comments((LEAN / "SpiceEvGen" / (m + ".lean")).read_text()), flags=re.M)
    return out


def theorem_names(pid):
    """property theorems of `pid`: every `theorem <pid>_…` in its theorem modules (+ generated-model modules)"""
    return [n for ns in theorem_names_by_module(pid).values() for n in ns] + \
        [n for ns in gen_theorem_names(pid).values() for n in ns]


def _axioms_of(out, names, res):
    flat = re.sub(r"\s+", " ", out)
    for n in names:
        m = re.search(r"'SpiceEv\.%s' depends on axioms: \[([^\]]*)\]" % re.escape(n), flat)
        if m:
            ax = [a.strip() for a in m.group(1).split(",") if a.strip()]
        elif re.search(r"'SpiceEv\.%s' does not depend on any axioms" % re.escape(n), flat):
            ax = []
        else:
            res["failed"].append("%s: not found / did not compile" % n)
            continue
        res["axioms"][n] = ax
        bad = [a for a in ax if a not in ALLOWED_AXIOMS]
        if bad:
            res["failed"].append("%s: disallowed axioms %s" % (n, bad))
        else:
            res["discharged"].append(n)


def gen_audit(pid, res):
    """re-translate the Python source, build the generated-model theorem modules of pid and audit them"""
    by_mod = gen_theorem_names(pid)
    if not by_mod:
        return
    import fcntl
    import py2lean
    (LEAN / ".lake").mkdir(exist_ok=True)
    with open(LEAN / ".lake" / "gen.lock", "w") as lk:
        fcntl.flock(lk, fcntl.LOCK_EX)          # Src.lean is shared by concurrent checks (possibly of other trees)
        status = py2lean.generate(str(REPO), str(LEAN / "SpiceEvGen" / "Src.lean"))
        res["generated"] = {k: ("translated" if v is None else v) for k, v in status.items()}
        for mod_name, names in by_mod.items():
            res["obligations"] += [n for n in names if n not in res["obligations"]]
            p = subprocess.run(["lake", "build", "SpiceEvGen." + mod_name], cwd=LEAN, capture_output=True, text=True)
            if p.returncode != 0:
                res["failed"].append("generated-model module SpiceEvGen.%s no longer builds against the current "
                                     "source of %s" % (mod_name, ", ".join(sorted(status))))
                res["log"] = (res["log"] + (p.stdout + p.stderr)[-2500:])[-4000:]
                continue
            audit = LEAN / ".lake" / ("audit_gen_%s.lean" % mod_name)
            audit.write_text("import SpiceEvGen.%s\n" % mod_name +
                             "".join("#print axioms SpiceEv.%s\n" % n for n in names))
            q = subprocess.run(["lake", "env", "lean", str(audit)], cwd=LEAN, capture_output=True, text=True)
            res["log"] = (res["log"] + q.stdout + q.stderr)[-4000:]
            _axioms_of(q.stdout + q.stderr, names, res)


def lean_audit(pid):
    """#print axioms on every property theorem of pid (one audit file per module). Returns dict."""
    by_mod = theorem_names_by_module(pid)
    names = [n for ns in by_mod.values() for n in ns]
    res = {"obligations": names, "discharged": [], "failed": [], "axioms": {}, "log": ""}
    if not names:
        res["failed"].append("no property theorems found for " + pid)
        return res
    for mod_name, mod_names in by_mod.items():
        if not mod_names:
            res["failed"].append("no property theorems found in module " + mod_name)
            continue
        audit = LEAN / ".lake" / ("audit_%s.lean" % mod_name)
        audit.parent.mkdir(exist_ok=True)
        audit.write_text("import SpiceEv.Properties.%s\n" % mod_name +
                         "".join("#print axioms SpiceEv.%s\n" % n for n in mod_names))
        p = subprocess.run(["lake", "env", "lean", str(audit)], cwd=LEAN, capture_output=True, text=True)
        out = p.stdout + p.stderr
        res["log"] = (res["log"] + out)[-3000:]
        flat = re.sub(r"\s+", " ", out)
        for n in mod_names:
            m = re.search(r"'SpiceEv\.%s' depends on axioms: \[([^\]]*)\]" % re.escape(n), flat)
            if m:
                ax = [a.strip() for a in m.group(1).split(",") if a.strip()]
            elif re.search(r"'SpiceEv\.%s' does not depend on any axioms" % re.escape(n), flat):
                ax = []
            else:
                res["failed"].append("%s: not found / did not compile" % n)
                continue
            res["axioms"][n] = ax
            bad = [a for a in ax if a not in ALLOWED_AXIOMS]
            if bad:
                res["failed"].append("%s: disallowed axioms %s" % (n, bad))
            else:
                res["discharged"].append(n)
    gen_audit(pid, res)
    return res


def leanchecker(pid):
    """independent re-check of the compiled property modules (thorough tier)"""
    p = subprocess.run(["lake", "env", "leanchecker"] + ["SpiceEv.Properties.%s" % m for m in theorem_modules(pid)],
                       cwd=LEAN, capture_output=True, text=True)
    return p.returncode == 0, (p.stdout + p.stderr)[-2000:]


# ------------------------------------------------------------------------------------------
# leg C: driver

def _private_driver():
    """this run's own copy of the compiled model: a concurrent `lake build` that relinks the driver (another check after a
    model change, a builder at work) cannot pull the binary away under a running exploration"""
    global DRIVER
    import atexit
    import shutil
    if not DRIVER.exists():
        return
    priv = LEAN / ".lake" / ("driver_run_%d" % os.getpid())
    try:
        shutil.copy2(DRIVER, priv)
    except OSError:
        return
    DRIVER = priv
    atexit.register(lambda: priv.exists() and priv.unlink())


def drive(lines):
    """run the compiled model on protocol lines, return one output line per input line"""
    if not lines:
        return []
    p = subprocess.run([str(DRIVER)], input="\n".join(lines) + "\n", capture_output=True, text=True)
    out = p.stdout.split("\n")
    if out and out[-1] == "":
        out.pop()
    if p.returncode != 0 or len(out) != len(lines):
        raise RuntimeError("driver failed: rc=%s, %d lines in, %d out, stderr=%s"
                           % (p.returncode, len(lines), len(out), p.stderr[-500:]))
    return out


# ------------------------------------------------------------------------------------------
# known findings

def load_known():
    f = VERIF / "known_findings.json"
    if not f.exists():
        return {}
    d = json.loads(f.read_text())
    return {(e["property"], e["key"]): e for e in d.get("findings", []) if e.get("status") == "finding"}


# ------------------------------------------------------------------------------------------

def _worker_init(repo):
    os.environ["VERIF_REPO"] = repo
    import warnings
    warnings.simplefilter("ignore")


def _eval_chunk(args):
    modname, cases = args
    import importlib
    mod = importlib.import_module(modname)
    out = []
    for c in cases:
        try:
            r = mod.eval_case(c)
        except (KeyboardInterrupt, SystemExit):
            raise
        except BaseException as e:  # harness crash (incl. adapter errors): reported as exit 2, never as a violation
            import traceback
            r = {"crash": traceback.format_exc()}
        out.append(r)
    return out


def chunks(it, n):
    it = iter(it)
    while True:
        c = list(itertools.islice(it, n))
        if not c:
            return
        yield c


def source_drift(pid):
    """Files of this property's anchored source (anchors.json: closure of the property's anchor files under the
    repository's imports) whose parsed form differs from the fingerprint recorded when the model was last tied to the
    code.  A changed file is never a violation by itself; main_check explores further inputs when the list is not empty
    (a change that is rare to trigger gets several times the quick budget).  None = table absent / other Python."""
    p = VERIF / "anchors.json"
    if not p.exists():
        return None
    t = json.loads(p.read_text())
    if t.get("python") != "%d.%d" % sys.version_info[:2]:
        return None
    sys.path.insert(0, str(VERIF / "tools"))
    import gen_anchors
    base = re.match(r"^(C\d\d)", pid)
    files = t["properties"].get(base.group(1) if base else pid)
    if files is None:
        files = sorted(t["files"])
    out = []
    for f in files:
        if gen_anchors.fingerprint(str(REPO / f)) != t["files"].get(f):
            out.append(f)
    # new modules under the package count as a change of every property
    for f in gen_anchors.py_files(str(REPO)):
        if f not in t["files"]:
            out.append(f)
    return sorted(set(out))


class Run:
    def __init__(self, mod, tier, seed):
        self.mod, self.pid, self.tier, self.seed = mod, mod.PID, tier, seed
        self.t0 = time.time()
        self.evaluations = 0
        self.distinct = set()
        self.samples = []
        self.stats = {}
        self.disagreements = []
        self.violations = []
        self.known_hits = {}
        self.crashes = []
        self.extra = {}
        self.model_lines = {}   # model command -> number of request lines evaluated by the Lean driver and compared

    # -- exploration ------------------------------------------------------------------------
    def explore(self, cases, label="main", budget_s=None, stop_on_violation=False):
        modname = self.mod.__name__
        compare = getattr(self.mod, "compare", None)
        chunk = getattr(self.mod, "CHUNK", 200)
        t_end = None if budget_s is None else time.time() + budget_s
        with cf.ProcessPoolExecutor(NPROC, initializer=_worker_init, initargs=(str(REPO),)) as ex:
            pending = []
            gen = chunks(cases, chunk)

            def submit():
                try:
                    c = next(gen)
                except StopIteration:
                    return False
                pending.append((c, ex.submit(_eval_chunk, (modname, c))))
                return True
            for _ in range(NPROC * 2):
                if not submit():
                    break
            while pending:
                cs, fut = pending.pop(0)
                rs = fut.result()
                if t_end is None or time.time() < t_end:
                    submit()
                lines, owners = [], []
                for ci, r in enumerate(rs):
                    if "crash" in r:
                        self.crashes.append({"case": cs[ci], "trace": r["crash"]})
                        continue
                    for li, ln in enumerate(r.get("lines", [])):
                        lines.append(ln)
                        owners.append((ci, li))
                outs = drive(lines)
                for ln in lines:
                    cmd = ln.split(" ", 1)[0]
                    self.model_lines[cmd] = self.model_lines.get(cmd, 0) + 1
                for (ci, li), mo in zip(owners, outs):
                    r, c = rs[ci], cs[ci]
                    io = r["impl"][li]
                    d = (None if io == mo else "differs") if compare is None else compare(c, io, mo)
                    if d is not None:
                        self.disagreements.append({"case": r.get("replay_case", c),
                                                   "line": r["lines"][li][:2000], "impl": io[:2000],
                                                   "model": mo[:2000], "what": d})
                for ci, r in enumerate(rs):
                    if "crash" in r:
                        continue
                    self.evaluations += 1
                    if r.get("nontrivial", True):
                        self.distinct.add(hashlib.sha1(json.dumps(cs[ci], sort_keys=True).encode()).digest()[:8])
                    if len(self.samples) < 5 and r.get("nontrivial", True):
                        smp = {"case": cs[ci], "impl": [x[:400] for x in r["impl"][:2]]}
                        if r.get("sample") is not None:
                            smp["what_was_run"] = r["sample"]
                        self.samples.append(smp)
                    for s in r.get("stats", []):
                        self.stats[s] = self.stats.get(s, 0) + 1
                    for k, v in r.get("num", {}).items():
                        self.extra[k] = max(self.extra.get(k, 0), v)
                    for (clause, key, detail) in r.get("violations", []):
                        self.violations.append({"clause": clause, "key": key, "detail": detail,
                                                "case": r.get("replay_case", cs[ci])})
                if stop_on_violation and self.unexplained():
                    for _, f in pending:
                        f.cancel()
                    break

    def unexplained(self):
        known = load_known()
        return [v for v in self.violations if (self.pid, v["key"]) not in known]

    # -- decision ---------------------------------------------------------------------------
    def finish(self, proof):
        pid = self.pid
        known = load_known()
        out_lines = []
        rc = 0
        replay_dir = VERIF / "replays"
        replay_dir.mkdir(exist_ok=True)
        unexplained = []
        for v in self.violations:
            e = known.get((pid, v["key"]))
            if e is not None:
                self.known_hits[v["key"]] = self.known_hits.get(v["key"], 0) + 1
            else:
                unexplained.append(v)
        for key, n in sorted(self.known_hits.items()):
            e = known[(pid, key)]
            out_lines.append("KNOWN-FINDING: property=%s %s [%s; hit %d times in this run]"
                             % (pid, e["what"], e["id"], n))
        proof_ok = proof["build_ok"] and not proof["audit"]["failed"] and not proof["grep"]
        if self.crashes:
            rc = 2
            out_lines.append("HARNESS-ERROR property=%s %d harness crashes, first:\n%s"
                             % (pid, len(self.crashes), self.crashes[0]["trace"]))
        if unexplained:
            # smallest case first (a cheap stand-in for shrinking: generators emit small cases first)
            unexplained.sort(key=lambda v: len(json.dumps(v["case"])))
            seen = set()
            for v in unexplained:
                if v["key"] in seen:
                    continue
                seen.add(v["key"])
                path = replay_dir / ("%s-%s-%d.json" % (pid, re.sub(r"\W+", "_", v["key"])[:60], self.seed))
                path.write_text(json.dumps({
                    "property": pid, "kind": "failing-input", "clause": v["clause"], "key": v["key"],
                    "detail": v["detail"], "case": v["case"],
                    "replay": "./check %s --replay %s" % (pid, path)}, indent=1))
                out_lines.append("VIOLATION property=%s replay=%s" % (pid, path))
            rc = 1
        elif self.disagreements or not proof_ok:
            # P or C broke but the oracle found no failing input
            path = replay_dir / ("%s-unverified-%d.json" % (pid, self.seed))
            what = {}
            if not proof_ok:
                what["proof"] = {"build_ok": proof["build_ok"], "build_log": proof["build_log"][-1500:],
                                 "audit_failed": proof["audit"]["failed"], "grep": proof["grep"],
                                 "audit_log": proof["audit"]["log"][-1500:]}
            if self.disagreements:
                what["correspondence"] = self.disagreements[:5]
                what["n_disagreements"] = len(self.disagreements)
            path.write_text(json.dumps({
                "property": pid, "kind": "no-failing-input-found", "broken": what,
                "note": "the model/proof no longer covers the code; the search on the implementation "
                        "found no input on which the property fails",
                "replay": "./check %s --replay %s" % (pid, path)}, indent=1))
            out_lines.append("VIOLATION property=%s replay=%s no-failing-input-found" % (pid, path))
            rc = 1
        self.write_evidence(proof, len(unexplained))
        for ln in out_lines:
            print(ln)
        print("%s %s tier=%s seed=%d evaluations=%d distinct_nontrivial=%d disagreements=%d "
              "violations=%d known=%d obligations=%d/%d wall=%.1fs"
              % (pid, "OK" if rc == 0 else "FAIL", self.tier, self.seed, self.evaluations,
                 len(self.distinct), len(self.disagreements), len(unexplained),
                 sum(self.known_hits.values()), len(proof["audit"]["discharged"]),
                 len(proof["audit"]["obligations"]), time.time() - self.t0))
        return rc

    def write_evidence(self, proof, n_viol):
        if os.environ.get("VERIF_NO_EVIDENCE"):
            return   # trial runs against a scratch copy with a seeded change: evidence comes from /repo itself only
        mod = self.mod
        aud = proof["audit"]
        ev = {
            "property_id": self.pid, "tier": self.tier, "seed": self.seed, "level": "proof",
            "coverage": {
                "obligations": len(aud["obligations"]),
                "discharged": len(aud["discharged"]),
                "obligation_names": aud["obligations"],
                "axioms": aud["axioms"],
                "checker_cmd": "cd lean && lake build && " + " && ".join(
                    "lake env lean .lake/audit_%s.lean" % m for m in theorem_modules(self.pid))
                + "  (#print axioms on every %s_* theorem of SpiceEv/Properties/{%s}.lean)"
                % (self.pid, ",".join(theorem_modules(self.pid))),
                "trusted_base": TRUSTED_BASE + list(getattr(mod, "TRUSTED", [])),
                "forbidden_token_hits": proof["grep"],
                "generated_model": aud.get("generated"),
                "leanchecker": proof.get("leanchecker"),
                "evaluations": self.evaluations,
                "distinct_nontrivial": len(self.distinct),
                "rule": mod.RULE,
                "samples": self.samples,
                "branch_histogram": dict(sorted(self.stats.items())),
                "correspondence_disagreements": len(self.disagreements),
                "model_lines_compared": dict(sorted(self.model_lines.items())),
                "known_findings_hit": self.known_hits,
                "unproved_clauses": list(getattr(mod, "UNPROVED", [])),
                "exhaustive": bool(getattr(mod, "EXHAUSTIVE", {}).get(self.tier, False)),
                **self.extra,
            },
            "assumptions": list(getattr(mod, "ASSUMPTIONS", [])),
            "wall_s": round(time.time() - self.t0, 2),
            "violations": n_viol,
        }
        # development checks of strategy models (S_<X>) are not properties: their evidence goes to a scratch place
        d = VERIF / ("evidence" if re.match(r"^C\d\d$", self.pid) else "replays")
        d.mkdir(exist_ok=True)
        (d / (self.pid + ".json")).write_text(json.dumps(ev, indent=1, default=str))


def corpus_cases(pid):
    d = VERIF / "corpus" / pid
    out = []
    if d.is_dir():
        for f in sorted(d.glob("*.json")):
            j = json.loads(f.read_text())
            out.append(j["case"] if isinstance(j, dict) and "case" in j else j)
    return out


def main_check(mod, argv):
    import argparse
    ap = argparse.ArgumentParser()
    ap.add_argument("--tier", default=os.environ.get("VERIF_TIER", "quick"), choices=["quick", "thorough"])
    ap.add_argument("--replay")
    a = ap.parse_args(argv)
    seed = int(os.environ.get("VERIF_SEED", "0"))
    use_repo()
    if getattr(mod, "THEOREM_MODULES", None):
        _THEOREM_MODULES[mod.PID] = list(mod.THEOREM_MODULES)
    if a.replay:
        return replay(mod, a.replay)
    run = Run(mod, a.tier, seed)
    # leg P (build first: the driver is needed by leg C; audit runs concurrently with leg C)
    build_ok, build_log, _ = lean_build()
    proof = {"build_ok": build_ok, "build_log": build_log, "grep": lean_grep(),
             "audit": {"obligations": theorem_names(mod.PID), "discharged": [], "failed": ["build failed"],
                       "axioms": {}, "log": ""}}
    th = None
    if build_ok:
        def _aud():
            proof["audit"] = lean_audit(mod.PID)
            if a.tier == "thorough":
                proof["leanchecker"] = leanchecker(mod.PID)
                if not proof["leanchecker"][0]:
                    proof["audit"]["failed"].append("leanchecker rejected the module")
        th = threading.Thread(target=_aud)
        th.start()
    _private_driver()
    if not DRIVER.exists():
        print("HARNESS-ERROR property=%s model driver missing (build failed)\n%s" % (mod.PID, build_log))
        if th:
            th.join()
        run.write_evidence(proof, 0)
        return 2
    run.explore(itertools.chain(corpus_cases(mod.PID), mod.gen_cases(a.tier, seed)))
    if th:
        th.join()
    proof_ok = proof["build_ok"] and not proof["audit"]["failed"] and not proof["grep"]
    if (run.disagreements or not proof_ok) and not run.unexplained():
        # decision rule §2.4: search the implementation for an input on which the property fails
        sc = getattr(mod, "search_cases", None)
        stream = sc(seed, run.disagreements) if sc else mod.gen_cases("thorough", seed + 7919)
        run.explore(stream, label="search", budget_s=float(os.environ.get("VERIF_SEARCH_S", "120")),
                    stop_on_violation=True)
    drift = source_drift(mod.PID)
    run.extra["source_drift"] = {"changed_files": drift, "extra_rounds": 0}
    if drift and a.tier == "quick" and not run.unexplained() and not run.crashes:
        # the anchored source differs from what the model was tied to: keep exploring with fresh seeds of the quick
        # generator (oracle AND correspondence) until something turns up or the budget is used
        t_end = time.time() + float(os.environ.get("VERIF_DRIFT_S", "240"))
        k = 0
        while time.time() < t_end and not run.unexplained():
            k += 1
            run.explore(mod.gen_cases("quick", seed + 104729 * k), label="drift",
                        budget_s=max(1.0, t_end - time.time()), stop_on_violation=True)
        run.extra["source_drift"]["extra_rounds"] = k
    return run.finish(proof)


def replay(mod, path):
    j = json.loads(Path(path).read_text())
    if j.get("kind") == "no-failing-input-found":
        print(json.dumps(j["broken"], indent=1)[:6000])
        print("REPLAY property=%s: no failing input is recorded; the broken obligation is shown above"
              % mod.PID)
        return 1
    case = j["case"]
    r = mod.eval_case(case)
    outs = drive(r.get("lines", []))
    print("case:", json.dumps(case))
    for ln, io, mo in zip(r.get("lines", []), r["impl"], outs):
        print("line :", ln[:300])
        print("impl :", io[:600])
        print("model:", mo[:600])
    for v in r.get("violations", []):
        print("violated clause %s [%s]: %s" % v)
    if r.get("violations"):
        print("REPLAY property=%s: violation reproduced" % mod.PID)
        return 1
    print("REPLAY property=%s: no violation on the current tree" % mod.PID)
    return 0
