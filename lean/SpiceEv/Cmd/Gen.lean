/- driver commands for Model/GenStatistics.lean, GenCsvEvents.lean, GenSimbev.lean (property C19) -/
import SpiceEv.Wire
import SpiceEv.Model.GenStatistics
import SpiceEv.Model.GenCsvEvents
import SpiceEv.Model.GenSimbev
namespace SpiceEv.Cmd.Gen
open SpiceEv SpiceEv.Gen

section
variable {α : Type} [Add α] [Sub α] [Mul α] [Div α] [Neg α] [LT α] [LE α]
  [DecidableLT α] [DecidableLE α] [OfNat α 0] [OfNat α 1] [OfNat α 100] [Wire α]

def rNum (x : α) : String := Wire.render x
def rStr (s : String) : String := s
def rInt (i : Int) : String := toString i

def rInit (v : VInit α) : String :=
  s!"{v.id} {renderOpt rStr v.cs} {renderOpt rInt v.etd} {renderOpt rNum v.desired} {rNum v.soc} {v.vtype}"

def rEvent (e : VEvent α) : String :=
  match e.kind with
  | .departure => s!"D {e.time} {e.vehicle} {renderOpt rInt e.eta}"
  | .arrival =>
    s!"A {e.time} {e.vehicle} {renderOpt rStr e.cs} {renderOpt rInt e.etd} {rNum e.desired} {rNum e.socDelta}"

def rStation (s : Station α) : String := s!"{s.id} {rNum s.maxPower}"

def pStr : P String := P.tok

/-- `c19clamp T x lo hi` → `min(max(x, lo), hi)` -/
def cmdClamp : P String := do
  let x ← P.num α; let lo ← P.num α; let hi ← P.num α
  pure (rNum (clampDraw x lo hi))

def pStatType : P (StatType α) := do
  let name ← pStr; let cap ← P.num α; let mil ← P.num α
  let nd ← P.list P.nat; let pw ← P.list (P.num α)
  pure { name := name, capacity := cap, mileage := mil, noDrive := nd, curvePowers := pw }

def pDraw : P (Draw α) := do
  let t ← P.int; let d ← P.int; let x ← P.num α
  pure { depTod := t, duration := d, distance := x }

/-- `c19stat T start days minSoc buffer <holidays> <types> <vehicles> <draws>` →
    `V <vehicles> E <events> S <stations> U <unused draws>` -/
def cmdStat : P String := do
  let start ← P.int; let days ← P.int
  let minSoc ← P.num α; let buffer ← P.num α
  let holidays ← P.list P.int
  let types ← P.list (pStatType (α := α))
  let vehicles ← P.list (do let c ← P.int; let t ← pStr; pure (c, t))
  let draws ← P.list (pDraw (α := α))
  let P' : StatParams α := {
      start := start, days := days, minSoc := minSoc, buffer := buffer,
      holidays := holidays, predefined := types, vehicles := vehicles }
  pure (renderPy (fun (o : StatOut α) =>
    s!"V {renderList rInit o.vehicles} E {renderList rEvent o.events} S {renderList rStation o.stations} U {o.unused}")
    (generateFromStatistics P' draws))

def pCsvType : P (CsvType α) := do
  let name ← pStr; let cap ← P.num α; let mil ← P.num α; let pw ← P.list (P.num α)
  pure { name := name, capacity := cap, mileage := mil, curvePowers := pw }

def pCsvRow : P (CsvRow α) := do
  let dep ← P.int; let arr ← P.int; let vt ← pStr; let vid ← pStr
  let val ← P.num α; let c ← P.int
  pure { dep := dep, arr := arr, vtype := vt, vid := vid, val := val, connect := c }

def pMode : P CsvMode := do
  let t ← P.tok
  if t == "delta_soc" then pure .deltaSoc else if t == "soc" then pure .soc
  else if t == "distance" then pure .distance else failure

/-- `c19csv T mode days minSoc <types> <rows>` →
    `T start stop V <vehicles> E <events> S <stations> W w1 w2 w3` -/
def cmdCsv : P String := do
  let mode ← pMode; let days ← P.int; let minSoc ← P.num α
  let types ← P.list (pCsvType (α := α))
  let rows ← P.list (pCsvRow (α := α))
  let P' : CsvParams α := { mode := mode, days := days, minSoc := minSoc, predefined := types }
  pure (renderPy (fun (o : CsvOut α) =>
    s!"T {o.start} {o.stop} V {renderList rInit o.vehicles} E {renderList rEvent o.events} S {renderList rStation o.stations} W {o.w1} {o.w2} {o.w3}")
    (generateFromCsv P' rows))

def pSimRow : P (SimRow α) := do
  let es ← P.int; let et ← P.int; let loc ← pStr
  let s0 ← P.num α; let s1 ← P.num α; let en ← P.num α; let pw ← P.num α
  pure {
      eventStart := es, eventTime := et, location := loc, socStart := s0, socEnd := s1,
      energy := en, stationPower := pw }

def pSimFile : P (SimFile α) := do
  let vid ← pStr; let vt ← pStr; let cap ← P.num α
  let rows ← P.list (pSimRow (α := α))
  pure { vid := vid, vtype := vt, fileCapacity := cap, rows := rows }

/-- `c19simbev T start interval ignore minSoc verbose tol <types> <files>` →
    `N n_intervals V <vehicles> E <events> S <stations> C <type capacities>` -/
def cmdSimbev : P String := do
  let start ← P.int; let interval ← P.int; let ign ← P.bool
  let minSoc ← P.num α; let verbose ← P.bool; let tol ← P.num α
  let types ← P.list (do let n ← pStr; let c ← P.num α; pure (n, c))
  let files ← P.list (pSimFile (α := α))
  let P' : SimParams α := {
      start := start, interval := interval, ignoreSoc := ign, minSoc := minSoc,
      verbose := verbose, tolerance := tol, types := types }
  pure (renderPy (fun (o : SimOut α) =>
    s!"N {o.nIntervals} V {renderList rInit o.vehicles} E {renderList rEvent o.events} S {renderList rStation o.stations} C {renderList (fun (t : String × α) => t.1 ++ " " ++ rNum t.2) o.types}")
    (generateFromSimbev P' files))
end

def handlers : List (String × Handler) :=
  [("c19clamp", byNumType (cmdClamp (α := Rat)) (cmdClamp (α := Float))),
   ("c19stat", byNumType (cmdStat (α := Rat)) (cmdStat (α := Float))),
   ("c19csv", byNumType (cmdCsv (α := Rat)) (cmdCsv (α := Float))),
   ("c19simbev", byNumType (cmdSimbev (α := Rat)) (cmdSimbev (α := Float)))]

end SpiceEv.Cmd.Gen
