/-
C12, metamorphic part: how the documented composition (`Spec.costs`) behaves when every step is split
into two equal halves (`Input.halve`) and when the whole profile is repeated `k` times
(`Input.repeat`).  Via the refinement (`calculateCostsRaw_eq`) the statements transfer to the model of
the code.
-/
import SpiceEv.Proofs.Costs
set_option linter.unusedSectionVars false
set_option linter.unusedSimpArgs false
set_option linter.unusedVariables false
namespace SpiceEv.Costs
open SpiceEv
variable {α : Type} [Field α] [LinearOrder α] [IsStrictOrderedRing α]

/-! ### Splitting every step into two equal halves -/

/-- every element twice -/
def dup {β : Type} : List β → List β
  | [] => []
  | x :: xs => x :: x :: dup xs

def PriceArg.mapLists (fn : List α → List α) : PriceArg α → PriceArg α
  | .none => .none
  | .list l => .list (fn l)
  | .dict p c => .dict (p.map fn) (c.map fn)

/-- the same profile sampled with half the interval: twice as many timestamps, every value of every
series twice, interval halved -/
def Input.halve (inp : Input α) : Input α :=
  { inp with
    sec := inp.sec / 2
    nTimestamps := 2 * inp.nTimestamps
    supply := dup inp.supply
    prices := inp.prices.mapLists dup
    fixLoad := dup inp.fixLoad
    genFeedIn := inp.genFeedIn.map dup
    v2gFeedIn := inp.v2gFeedIn.map dup
    batFeedIn := inp.batFeedIn.map dup
    window := inp.window.map dup
    scheduleList := inp.scheduleList.map dup }

@[simp] theorem dup_length {β : Type} (l : List β) : (dup l).length = 2 * l.length := by
  induction l with
  | nil => rfl
  | cons x xs ih => simp [dup, ih]; omega

theorem dup_map {β γ : Type} (fn : β → γ) (l : List β) : (dup l).map fn = dup (l.map fn) := by
  induction l with
  | nil => rfl
  | cons x xs ih => simp [dup, ih]

theorem dup_sum (l : List α) : (dup l).sum = 2 * l.sum := by
  induction l with
  | nil => simp [dup]
  | cons x xs ih => simp [dup, ih]; ring

theorem dup_peak (l : List α) : Spec.peak (dup l) = Spec.peak l := by
  induction l with
  | nil => rfl
  | cons x xs ih =>
    show max x (max x (Spec.peak (dup xs))) = max x (Spec.peak xs)
    rw [ih, ← max_assoc, max_self]

theorem dup_foldr_max (l : List α) (a : α) : (dup l).foldr max a = l.foldr max a := by
  induction l with
  | nil => rfl
  | cons x xs ih =>
    show max x (max x ((dup xs).foldr max a)) = max x (xs.foldr max a)
    rw [ih, ← max_assoc, max_self]

theorem le_foldr_max_init (l : List α) (a : α) : a ≤ l.foldr max a := by
  induction l with
  | nil => exact le_refl _
  | cons x xs ih => exact le_trans ih (le_max_right _ _)

theorem dup_listMax (l : List α) : Spec.listMax (dup l) = Spec.listMax l := by
  cases l with
  | nil => rfl
  | cons x xs =>
    show max x ((dup xs).foldr max x) = xs.foldr max x
    rw [dup_foldr_max, max_eq_right (le_foldr_max_init xs x)]

theorem dup_select (l : List α) (w : List Bool) :
    Spec.select (dup l) (dup w) = dup (Spec.select l w) := by
  induction l generalizing w with
  | nil => cases w <;> simp [dup, Spec.select]
  | cons x xs ih =>
    cases w with
    | nil => simp [dup, Spec.select]
    | cons b bs => cases b <;> simp [dup, Spec.select, ih]

theorem dup_selectNot (l : List α) (w : List Bool) :
    Spec.selectNot (dup l) (dup w) = dup (Spec.selectNot l w) := by
  induction l generalizing w with
  | nil => cases w <;> simp [dup, Spec.selectNot]
  | cons x xs ih =>
    cases w with
    | nil => simp [dup, Spec.selectNot]
    | cons b bs => cases b <;> simp [dup, Spec.selectNot, ih]

theorem dup_selectEq (top : α) (l c : List α) :
    Spec.selectEq top (dup l) (dup c) = dup (Spec.selectEq top l c) := by
  induction l generalizing c with
  | nil => cases c <;> simp [dup, Spec.selectEq]
  | cons x xs ih =>
    cases c with
    | nil => simp [dup, Spec.selectEq]
    | cons y ys => by_cases hy : y = top <;> simp [dup, Spec.selectEq, ih, hy]

theorem dup_zipWith {β γ δ : Type} (fn : β → γ → δ) (a : List β) (b : List γ) :
    List.zipWith fn (dup a) (dup b) = dup (List.zipWith fn a b) := by
  induction a generalizing b with
  | nil => cases b <;> simp [dup]
  | cons x xs ih =>
    cases b with
    | nil => simp [dup]
    | cons y ys => simp [dup, ih]

theorem dup_replicate {β : Type} (n : Nat) (x : β) :
    List.replicate (2 * n) x = dup (List.replicate n x) := by
  induction n with
  | zero => rfl
  | succ k ih =>
    rw [show 2 * (k + 1) = (2 * k + 1) + 1 by ring, List.replicate_succ, List.replicate_succ, ih,
      List.replicate_succ]
    rfl

theorem dup_energy (l : List α) (sec : α) : Spec.energy (dup l) (sec / 2) = Spec.energy l sec := by
  simp only [Spec.energy, dup_sum]; ring

theorem dup_priced (p c : List α) (sec : α) :
    Spec.priced (dup p) (dup c) (sec / 2) = Spec.priced p c sec := by
  induction p generalizing c with
  | nil => cases c <;> simp [dup, Spec.priced]
  | cons x xs ih =>
    cases c with
    | nil => simp [dup, Spec.priced]
    | cons y ys =>
      have := ih ys
      simp only [Spec.priced, dup, List.zipWith_cons_cons, List.sum_cons] at this ⊢
      rw [this]; ring

theorem dup_flexLoad (g f : List α) : Spec.flexLoad (dup g) (dup f) = dup (Spec.flexLoad g f) :=
  dup_zipWith _ g f

section
variable (inp : Input α)

theorem halve_fy : Spec.fy inp.halve = Spec.fy inp := by
  simp only [Spec.fy, Input.halve, Nat.cast_mul, Nat.cast_ofNat]; ring

theorem halve_g : Spec.g inp.halve = dup (Spec.g inp) := by
  simp [Spec.g, Input.halve, dup_map]

theorem halve_f : Spec.f inp.halve = dup (Spec.f inp) := by
  simp [Spec.f, Input.halve, dup_map]

theorem halve_e : Spec.e inp.halve = Spec.e inp := by
  rw [Spec.e, halve_g, show inp.halve.sec = inp.sec / 2 from rfl, dup_energy]; rfl

theorem halve_epa : Spec.epa inp.halve = Spec.epa inp := by
  rw [Spec.epa, halve_e, halve_fy]; rfl

theorem halve_P : Spec.P inp.halve = Spec.P inp := by
  rw [Spec.P, halve_g, dup_peak]; rfl

theorem halve_util : Spec.util inp.halve = Spec.util inp := by
  rw [Spec.util, halve_P, halve_epa]; rfl

theorem halve_cls : Spec.cls inp.halve = Spec.cls inp := by
  rw [Spec.cls, halve_epa]; rfl

theorem halve_r (ps : PriceSheet α) : Spec.r inp.halve ps = Spec.r inp ps := by
  rw [Spec.r, halve_cls, halve_util]; rfl

theorem halve_peakWin : Spec.peakWin inp.halve = Spec.peakWin inp := by
  unfold Spec.peakWin
  rw [halve_g]
  have : inp.halve.window = inp.window.map dup := rfl
  rw [this]
  cases inp.window with
  | none => rfl
  | some w => simp [dup_select, dup_peak]

theorem halve_flex : Spec.flex inp.halve = dup (Spec.flex inp) := by
  rw [Spec.flex, halve_g, halve_f, dup_flexLoad]; rfl

theorem halve_varPrices (c p : α) :
    Spec.varPrices inp.halve c p = (dup (Spec.varPrices inp c p).1, dup (Spec.varPrices inp c p).2) := by
  unfold Spec.varPrices
  show (match inp.prices.mapLists dup with
    | .dict proc com => (com.getD (List.replicate (2 * inp.nTimestamps) c),
        proc.getD (List.replicate (2 * inp.nTimestamps) p))
    | _ => ([], [])) = _
  cases inp.prices with
  | none => rfl
  | list l => rfl
  | dict pr co =>
    cases pr <;> cases co <;> simp [PriceArg.mapLists, dup_replicate]

theorem halve_marketPrices (c : α) :
    Spec.marketPrices inp.halve c = dup (Spec.marketPrices inp c) := by
  unfold Spec.marketPrices
  show (match inp.prices.mapLists dup with
    | .dict _ (some l) => l.map (· * 100)
    | .list l => l.map (· * 100)
    | _ => List.replicate (2 * inp.nTimestamps) c) = _
  cases inp.prices with
  | none => simp [PriceArg.mapLists, dup_replicate]
  | list l => simp [PriceArg.mapLists, dup_map]
  | dict pr co =>
    cases co <;> simp [PriceArg.mapLists, dup_replicate, dup_map]

theorem dup_fixPart (ps : PriceSheet α) (c : FeeType) (vl : Nat) (f : List α) (sec fy red : α) :
    Spec.fixPart ps c vl (dup f) (sec / 2) fy red = Spec.fixPart ps c vl f sec fy red := by
  unfold Spec.fixPart
  simp only [dup_peak, dup_energy]

theorem halve_deviationCosts (ps : PriceSheet α) :
    Spec.deviationCosts inp.halve ps = Spec.deviationCosts inp ps := by
  unfold Spec.deviationCosts
  rw [halve_g]
  have : inp.halve.scheduleList = inp.scheduleList.map dup := rfl
  rw [this]
  cases inp.scheduleList with
  | none => rfl
  | some s => simp [dup_map, dup_zipWith, dup_peak]

theorem halve_special (ps : PriceSheet α) (red : α) (c1 k1 c2 k2 : FeeType → α)
    (hc : ∀ t, c1 t = c2 t) (hk : ∀ t, k1 t = k2 t) :
    Spec.special inp.halve ps red c1 k1 = Spec.special inp ps red c2 k2 := by
  unfold Spec.special
  have hvl : inp.halve.voltageLevel = inp.voltageLevel := rfl
  have hsec : inp.halve.sec = inp.sec / 2 := rfl
  simp only [hvl, hsec, halve_f, halve_fy, dup_fixPart, halve_cls, halve_epa, halve_peakWin, hc, hk]

/-- the scheme-dependent part is unchanged by halving -/
theorem halve_core (ps : PriceSheet α) : Spec.core inp.halve ps = Spec.core inp ps := by
  unfold Spec.core
  have hscheme : inp.halve.scheme = inp.scheme := rfl
  have hvl : inp.halve.voltageLevel = inp.voltageLevel := rfl
  have hsec : inp.halve.sec = inp.sec / 2 := rfl
  have hwin : inp.halve.window = inp.window.map dup := rfl
  simp only [hscheme, hvl, halve_cls, halve_r, halve_e, halve_fy, halve_P, halve_peakWin,
    halve_g, halve_varPrices, halve_marketPrices, halve_flex, hsec, dup_priced]
  cases inp.scheme with
  | fixedWoPlw => rfl
  | fixedWPlw => rfl
  | variableWoPlw => rfl
  | variableWPlw => rfl
  | balancedMarket =>
    apply halve_special
    · intro t; rfl
    · intro t; simp only [dup_listMax, dup_selectEq, dup_peak]
  | flexWindow =>
    apply halve_special
    · intro t; simp only [dup_energy]
    · intro t
      rw [hwin]
      cases inp.window with
      | none => simp [Spec.selectNot, dup]
      | some w => simp [dup_selectNot, dup_peak]
  | schedule =>
    apply halve_special
    · intro t; simp only [dup_energy]
    · intro t; exact halve_deviationCosts inp ps
  | other => rfl

theorem halve_feedIn (c : α) (l : Option (List α)) :
    Spec.feedIn c (l.map dup) (inp.sec / 2) (Spec.fy inp) = Spec.feedIn c l inp.sec (Spec.fy inp) := by
  unfold Spec.feedIn
  cases l with
  | none => simp [Spec.energy]
  | some l => simp [dup_energy]

/-- **Halving.** The documented composition (every quantity, per year and per period, before
rounding) is unchanged when every step is split into two equal halves. -/
theorem halve_costs (ps : PriceSheet α) : Spec.costs inp.halve ps = Spec.costs inp ps := by
  unfold Spec.costs
  rw [halve_fy, halve_e, halve_epa, halve_util, halve_core]
  show assemble ps _ _ _ _ _ (Spec.feedIn _ (inp.genFeedIn.map dup) (inp.sec / 2) _)
    (Spec.feedIn _ (inp.v2gFeedIn.map dup) (inp.sec / 2) _)
    (Spec.feedIn _ (inp.batFeedIn.map dup) (inp.sec / 2) _) = _
  rw [halve_feedIn, halve_feedIn, halve_feedIn]
  rfl
end

/-! ### Repeating the profile `k` times -/

/-- `k` copies of a list, one after the other -/
def rep {β : Type} : Nat → List β → List β
  | 0, _ => []
  | k + 1, l => l ++ rep k l

/-- the same profile simulated `k` times in a row: `k` times as many timestamps, every series
repeated `k` times, same interval -/
def Input.repeat (k : Nat) (inp : Input α) : Input α :=
  { inp with
    nTimestamps := k * inp.nTimestamps
    supply := rep k inp.supply
    prices := inp.prices.mapLists (rep k)
    fixLoad := rep k inp.fixLoad
    genFeedIn := inp.genFeedIn.map (rep k)
    v2gFeedIn := inp.v2gFeedIn.map (rep k)
    batFeedIn := inp.batFeedIn.map (rep k)
    window := inp.window.map (rep k)
    scheduleList := inp.scheduleList.map (rep k) }

@[simp] theorem rep_length {β : Type} (k : Nat) (l : List β) : (rep k l).length = k * l.length := by
  induction k with
  | zero => simp [rep]
  | succ k ih => simp [rep, ih]; ring

@[simp] theorem rep_nil {β : Type} (k : Nat) : rep k ([] : List β) = [] := by
  induction k with
  | zero => rfl
  | succ k ih => simp [rep, ih]

theorem rep_map {β γ : Type} (fn : β → γ) (k : Nat) (l : List β) :
    (rep k l).map fn = rep k (l.map fn) := by
  induction k with
  | zero => rfl
  | succ k ih => simp [rep, ih]

theorem rep_sum (k : Nat) (l : List α) : (rep k l).sum = k * l.sum := by
  induction k with
  | zero => simp [rep]
  | succ k ih => simp [rep, ih]; ring

theorem mem_rep {β : Type} (k : Nat) (l : List β) (x : β) : x ∈ rep k l ↔ 0 < k ∧ x ∈ l := by
  induction k with
  | zero => simp [rep]
  | succ k ih =>
    simp only [rep, List.mem_append, ih]
    constructor
    · rintro (h | ⟨_, h⟩) <;> exact ⟨Nat.succ_pos _, h⟩
    · rintro ⟨_, h⟩; exact Or.inl h

theorem peak_eq_of_mem (a b : List α) (h1 : ∀ x ∈ a, x ∈ b) (h2 : ∀ x ∈ b, x ∈ a) :
    Spec.peak a = Spec.peak b := by
  apply le_antisymm
  · rcases peak_mem a with h | h
    · rw [h]; exact peak_nonneg b
    · exact le_peak b _ (h1 _ h)
  · rcases peak_mem b with h | h
    · rw [h]; exact peak_nonneg a
    · exact le_peak a _ (h2 _ h)

theorem rep_peak (k : Nat) (hk : 0 < k) (l : List α) : Spec.peak (rep k l) = Spec.peak l :=
  peak_eq_of_mem _ _ (fun x hx => ((mem_rep k l x).mp hx).2) (fun x hx => (mem_rep k l x).mpr ⟨hk, hx⟩)

theorem listMax_mem (x : α) (xs : List α) : Spec.listMax (x :: xs) ∈ x :: xs := by
  induction xs with
  | nil => simp [Spec.listMax]
  | cons y ys ih =>
    have h : Spec.listMax (x :: y :: ys) = max y (Spec.listMax (x :: ys)) := rfl
    rw [h]
    rcases max_cases y (Spec.listMax (x :: ys)) with ⟨h1, _⟩ | ⟨h1, _⟩
    · rw [h1]; simp
    · rw [h1]
      rcases List.mem_cons.mp ih with h2 | h2
      · rw [h2]; simp
      · exact List.mem_cons_of_mem _ (List.mem_cons_of_mem _ h2)

theorem le_listMax (l : List α) : ∀ y ∈ l, y ≤ Spec.listMax l := by
  cases l with
  | nil => simp
  | cons x xs =>
    induction xs with
    | nil => simp [Spec.listMax]
    | cons z zs ih =>
      intro y hy
      have h : Spec.listMax (x :: z :: zs) = max z (Spec.listMax (x :: zs)) := rfl
      rw [h]
      simp only [List.mem_cons] at hy
      rcases hy with rfl | rfl | hy
      · exact le_trans (ih y (by simp)) (le_max_right _ _)
      · exact le_max_left _ _
      · exact le_trans (ih y (by simp [hy])) (le_max_right _ _)

theorem rep_listMax (k : Nat) (hk : 0 < k) (l : List α) :
    Spec.listMax (rep k l) = Spec.listMax l := by
  cases l with
  | nil =>
    have : rep k ([] : List α) = [] := by
      apply List.eq_nil_of_length_eq_zero; simp
    rw [this]
  | cons x xs =>
    obtain ⟨y, ys, hy⟩ : ∃ y ys, rep k (x :: xs) = y :: ys := by
      cases h : rep k (x :: xs) with
      | nil =>
        have := congrArg List.length h
        simp at this
        omega
      | cons y ys => exact ⟨y, ys, rfl⟩
    apply le_antisymm
    · have h1 := listMax_mem y ys
      rw [← hy] at h1
      exact le_listMax _ _ ((mem_rep k _ _).mp h1).2
    · have h1 := listMax_mem x xs
      exact le_listMax _ _ ((mem_rep k _ _).mpr ⟨hk, h1⟩)

theorem select_append (a b : List α) (w v : List Bool) (h : a.length = w.length) :
    Spec.select (a ++ b) (w ++ v) = Spec.select a w ++ Spec.select b v := by
  induction a generalizing w with
  | nil =>
    cases w with
    | nil => rfl
    | cons _ _ => simp at h
  | cons x xs ih =>
    cases w with
    | nil => simp at h
    | cons c cs =>
      simp only [List.length_cons, Nat.add_right_cancel_iff] at h
      cases c <;> simp [Spec.select, ih cs h]

theorem selectNot_append (a b : List α) (w v : List Bool) (h : a.length = w.length) :
    Spec.selectNot (a ++ b) (w ++ v) = Spec.selectNot a w ++ Spec.selectNot b v := by
  induction a generalizing w with
  | nil =>
    cases w with
    | nil => rfl
    | cons _ _ => simp at h
  | cons x xs ih =>
    cases w with
    | nil => simp at h
    | cons c cs =>
      simp only [List.length_cons, Nat.add_right_cancel_iff] at h
      cases c <;> simp [Spec.selectNot, ih cs h]

theorem selectEq_append (top : α) (a b c d : List α) (h : a.length = c.length) :
    Spec.selectEq top (a ++ b) (c ++ d) = Spec.selectEq top a c ++ Spec.selectEq top b d := by
  induction a generalizing c with
  | nil =>
    cases c with
    | nil => rfl
    | cons _ _ => simp at h
  | cons x xs ih =>
    cases c with
    | nil => simp at h
    | cons y ys =>
      simp only [List.length_cons, Nat.add_right_cancel_iff] at h
      by_cases hy : y = top <;> simp [Spec.selectEq, ih ys h, hy]

theorem rep_select (k : Nat) (a : List α) (w : List Bool) (h : a.length = w.length) :
    Spec.select (rep k a) (rep k w) = rep k (Spec.select a w) := by
  induction k with
  | zero => simp [rep, Spec.select]
  | succ k ih => simp [rep, select_append _ _ _ _ h, ih]

theorem rep_selectNot (k : Nat) (a : List α) (w : List Bool) (h : a.length = w.length) :
    Spec.selectNot (rep k a) (rep k w) = rep k (Spec.selectNot a w) := by
  induction k with
  | zero => simp [rep, Spec.selectNot]
  | succ k ih => simp [rep, selectNot_append _ _ _ _ h, ih]

theorem rep_selectEq (top : α) (k : Nat) (a c : List α) (h : a.length = c.length) :
    Spec.selectEq top (rep k a) (rep k c) = rep k (Spec.selectEq top a c) := by
  induction k with
  | zero => simp [rep, Spec.selectEq]
  | succ k ih => simp [rep, selectEq_append _ _ _ _ _ h, ih]

theorem rep_zipWith {β γ δ : Type} (fn : β → γ → δ) (k : Nat) (a : List β) (b : List γ)
    (h : a.length = b.length) :
    List.zipWith fn (rep k a) (rep k b) = rep k (List.zipWith fn a b) := by
  induction k with
  | zero => simp [rep]
  | succ k ih => simp [rep, List.zipWith_append h, ih]

theorem rep_replicate {β : Type} (k n : Nat) (x : β) :
    List.replicate (k * n) x = rep k (List.replicate n x) := by
  induction k with
  | zero => simp [rep]
  | succ k ih =>
    rw [show (k + 1) * n = n + k * n by ring, List.replicate_add, ih]
    rfl

theorem rep_energy (k : Nat) (l : List α) (sec : α) :
    Spec.energy (rep k l) sec = k * Spec.energy l sec := by
  simp only [Spec.energy, rep_sum]; ring

theorem rep_priced (k : Nat) (p c : List α) (sec : α) (h : p.length = c.length) :
    Spec.priced (rep k p) (rep k c) sec = k * Spec.priced p c sec := by
  simp only [Spec.priced, rep_zipWith _ _ _ _ h, rep_sum]

section
variable (inp : Input α) (ps : PriceSheet α) (k : Nat) (hk : 0 < k) (h : WF inp ps)
include hk h

theorem kcast_ne : (k : α) ≠ 0 := by
  have : (0 : α) < k := Nat.cast_pos.mpr hk
  exact ne_of_gt this

omit hk h in
theorem repeat_fy : Spec.fy (inp.repeat k) = k * Spec.fy inp := by
  simp only [Spec.fy, Input.repeat, Nat.cast_mul]; ring

omit hk h in
theorem repeat_g : Spec.g (inp.repeat k) = rep k (Spec.g inp) := by
  simp [Spec.g, Input.repeat, rep_map]

omit hk h in
theorem repeat_f : Spec.f (inp.repeat k) = rep k (Spec.f inp) := by
  simp [Spec.f, Input.repeat, rep_map]

omit hk h in
theorem repeat_e : Spec.e (inp.repeat k) = k * Spec.e inp := by
  rw [Spec.e, repeat_g, show (inp.repeat k).sec = inp.sec from rfl, rep_energy]; rfl

theorem repeat_epa : Spec.epa (inp.repeat k) = Spec.epa inp := by
  have hk0 := kcast_ne (α := α) inp ps k hk h
  have hfy := h.fy_ne
  rw [Spec.epa, repeat_e, repeat_fy, Spec.epa]
  field_simp

theorem repeat_P : Spec.P (inp.repeat k) = Spec.P inp := by
  rw [Spec.P, repeat_g, rep_peak k hk]; rfl

theorem repeat_util : Spec.util (inp.repeat k) = Spec.util inp := by
  rw [Spec.util, repeat_P inp ps k hk h, repeat_epa inp ps k hk h]; rfl

theorem repeat_cls : Spec.cls (inp.repeat k) = Spec.cls inp := by
  rw [Spec.cls, repeat_epa inp ps k hk h]; rfl

theorem repeat_r : Spec.r (inp.repeat k) ps = Spec.r inp ps := by
  rw [Spec.r, repeat_cls inp ps k hk h, repeat_util inp ps k hk h]; rfl

theorem repeat_peakWin : Spec.peakWin (inp.repeat k) = Spec.peakWin inp := by
  unfold Spec.peakWin
  rw [repeat_g]
  have : (inp.repeat k).window = inp.window.map (rep k) := rfl
  rw [this]
  cases hw : inp.window with
  | none => rfl
  | some w =>
    have hl : (Spec.g inp).length = w.length := by
      rw [g_length, h.supplyLen, h.windowLen w hw]
    simp [rep_select k _ _ hl, rep_peak k hk]

theorem repeat_flex : Spec.flex (inp.repeat k) = rep k (Spec.flex inp) := by
  rw [Spec.flex, repeat_g, repeat_f, Spec.flexLoad,
    rep_zipWith _ k _ _ (by rw [g_length, f_length, h.supplyLen, h.fixLen])]
  rfl

theorem varPrices_lengths (c p : α) :
    inp.scheme.isVariable = true →
    (Spec.varPrices inp c p).1.length = inp.nTimestamps ∧
    (Spec.varPrices inp c p).2.length = inp.nTimestamps := by
  intro hv
  obtain ⟨pr, co, hp, _⟩ := h.variablePrices hv
  unfold Spec.varPrices
  rw [hp]
  constructor
  · cases co with
    | none => simp
    | some l => simpa using h.pricesLen l (Or.inr (Or.inr ⟨pr, hp⟩))
  · cases pr with
    | none => simp
    | some l => simpa using h.pricesLen l (Or.inr (Or.inl ⟨co, hp⟩))

omit hk h in
theorem repeat_varPrices (c p : α) :
    Spec.varPrices (inp.repeat k) c p
      = (rep k (Spec.varPrices inp c p).1, rep k (Spec.varPrices inp c p).2) := by
  unfold Spec.varPrices
  have : (inp.repeat k).prices = inp.prices.mapLists (rep k) := rfl
  rw [this]
  have hn : (inp.repeat k).nTimestamps = k * inp.nTimestamps := rfl
  cases inp.prices with
  | none => simp [PriceArg.mapLists, rep_nil]
  | list l => simp [PriceArg.mapLists, rep_nil]
  | dict pr co =>
    cases pr <;> cases co <;> simp [PriceArg.mapLists, hn, rep_replicate]

omit hk h in
theorem repeat_marketPrices (c : α) :
    Spec.marketPrices (inp.repeat k) c = rep k (Spec.marketPrices inp c) := by
  unfold Spec.marketPrices
  have : (inp.repeat k).prices = inp.prices.mapLists (rep k) := rfl
  rw [this]
  have hn : (inp.repeat k).nTimestamps = k * inp.nTimestamps := rfl
  cases inp.prices with
  | none => simp [PriceArg.mapLists, hn, rep_replicate]
  | list l => simp [PriceArg.mapLists, rep_map]
  | dict pr co => cases co <;> simp [PriceArg.mapLists, hn, rep_replicate, rep_map]

omit h in
theorem rep_fixPart (c : FeeType) (vl : Nat) (f : List α) (sec fy red : α) (hfy : fy ≠ 0) :
    Spec.fixPart ps c vl (rep k f) sec (k * fy) red
      = ((Spec.fixPart ps c vl f sec fy red).1, k * (Spec.fixPart ps c vl f sec fy red).2.1,
         (Spec.fixPart ps c vl f sec fy red).2.2.1, (Spec.fixPart ps c vl f sec fy red).2.2.2) := by
  have hk0 : (k : α) ≠ 0 := ne_of_gt (Nat.cast_pos.mpr hk)
  unfold Spec.fixPart
  simp only [rep_peak k hk, rep_energy]
  by_cases hp : Spec.peak f = 0
  · simp [hp]
  · simp only [hp, if_false]
    have e1 : (k : α) * Spec.energy f sec / (k * fy) = Spec.energy f sec / fy := by field_simp
    rw [e1]
    refine Prod.ext ?_ (Prod.ext ?_ rfl)
    · simp only []; field_simp
    · simp only []; ring

/-- a `Core` whose per-period amounts are multiplied by `c` -/
def Core.scale (c : α) (x : Core α) : Core α :=
  { x with
    commoditySim := c * x.commoditySim
    procurementSimVar := x.procurementSimVar.map (c * ·)
    fixFlex := x.fixFlex.map (fun ff =>
      { ff with commoditySimFix := c * ff.commoditySimFix,
                commoditySimFlex := c * ff.commoditySimFlex }) }

theorem repeat_special (red : α) (c1 k1 c2 k2 : FeeType → α)
    (hc : ∀ t, c1 t = k * c2 t) (hkk : ∀ t, k1 t = k2 t) :
    Spec.special (inp.repeat k) ps red c1 k1 = (Spec.special inp ps red c2 k2).scale (k : α) := by
  have hk0 : (k : α) ≠ 0 := ne_of_gt (Nat.cast_pos.mpr hk)
  have hfy := h.fy_ne
  unfold Spec.special Core.scale
  have hvl : (inp.repeat k).voltageLevel = inp.voltageLevel := rfl
  have hsec : (inp.repeat k).sec = inp.sec := rfl
  simp only [hvl, hsec, repeat_f, repeat_fy, rep_fixPart ps k hk _ _ _ _ _ _ hfy,
    repeat_cls inp ps k hk h, repeat_epa inp ps k hk h, repeat_peakWin inp ps k hk h, hc, hkk,
    Option.map_some, Option.map_none]
  congr 1
  · ring
  · congr 1; field_simp
  · congr 2; field_simp

theorem repeat_deviationCosts :
    Spec.deviationCosts (inp.repeat k) ps = Spec.deviationCosts inp ps := by
  unfold Spec.deviationCosts
  rw [repeat_g]
  have : (inp.repeat k).scheduleList = inp.scheduleList.map (rep k) := rfl
  rw [this]
  cases hs : inp.scheduleList with
  | none => rfl
  | some s =>
    have hl : (Spec.g inp).length = (s.map (fun v => max v 0)).length := by
      rw [g_length, h.supplyLen, List.length_map, h.schedLen s hs]
    simp [rep_map, rep_zipWith _ k _ _ hl, rep_peak k hk]

/-- repeating the profile multiplies the per-period amounts of the scheme-dependent part by `k` and
leaves its per-year amounts, the capacity costs, the tariff class and the peaks unchanged -/
theorem repeat_core : Spec.core (inp.repeat k) ps = (Spec.core inp ps).scale (k : α) := by
  have hk0 : (k : α) ≠ 0 := ne_of_gt (Nat.cast_pos.mpr hk)
  have hfy := h.fy_ne
  have hscheme : (inp.repeat k).scheme = inp.scheme := rfl
  have hvl : (inp.repeat k).voltageLevel = inp.voltageLevel := rfl
  have hsec : (inp.repeat k).sec = inp.sec := rfl
  have hwin : (inp.repeat k).window = inp.window.map (rep k) := rfl
  have hflexlen := flex_length inp ps h
  unfold Spec.core
  simp only [hscheme, hvl, hsec, repeat_cls inp ps k hk h, repeat_r inp ps k hk h, repeat_e,
    repeat_fy, repeat_P inp ps k hk h, repeat_peakWin inp ps k hk h, repeat_g, repeat_varPrices,
    repeat_marketPrices, repeat_flex inp ps k hk h]
  cases hs : inp.scheme with
  | fixedWoPlw =>
    simp only [Core.scale, Option.map_none]
    congr 1
    · ring
    · field_simp
  | fixedWPlw =>
    simp only [Core.scale, Option.map_none]
    congr 1
    · ring
    · field_simp
  | variableWoPlw =>
    obtain ⟨l1, l2⟩ := varPrices_lengths inp ps k hk h (Spec.r inp ps).1 ps.procurement
      (by rw [hs]; rfl)
    have e1 : (Spec.g inp).length = (Spec.varPrices inp (Spec.r inp ps).1 ps.procurement).1.length := by
      rw [g_length, h.supplyLen, l1]
    have e2 : (Spec.g inp).length = (Spec.varPrices inp (Spec.r inp ps).1 ps.procurement).2.length := by
      rw [g_length, h.supplyLen, l2]
    simp only [Core.scale, Option.map_none, Option.map_some, rep_priced k _ _ _ e1,
      rep_priced k _ _ _ e2]
    congr 1
    field_simp
  | variableWPlw =>
    obtain ⟨l1, l2⟩ := varPrices_lengths inp ps k hk h (Spec.r inp ps).1 ps.procurement
      (by rw [hs]; rfl)
    have e1 : (Spec.g inp).length = (Spec.varPrices inp (Spec.r inp ps).1 ps.procurement).1.length := by
      rw [g_length, h.supplyLen, l1]
    have e2 : (Spec.g inp).length = (Spec.varPrices inp (Spec.r inp ps).1 ps.procurement).2.length := by
      rw [g_length, h.supplyLen, l2]
    simp only [Core.scale, Option.map_none, Option.map_some, rep_priced k _ _ _ e1,
      rep_priced k _ _ _ e2]
    congr 1
    field_simp
  | balancedMarket =>
    have hml := marketPrices_length inp ps h (Spec.r inp ps).1
    have el : (Spec.flex inp).length = (Spec.marketPrices inp (Spec.r inp ps).1).length := by
      rw [hflexlen, hml]
    apply repeat_special inp ps k hk h
    · intro t; exact rep_priced k _ _ _ el
    · intro t
      simp only [rep_listMax k hk, rep_selectEq _ k _ _ el, rep_peak k hk]
  | flexWindow =>
    apply repeat_special inp ps k hk h
    · intro t; rw [rep_energy]; ring
    · intro t
      rw [hwin]
      obtain ⟨w, hw⟩ : ∃ w, inp.window = some w := by
        have := h.flexWindow hs
        cases hw : inp.window with
        | none => exact absurd hw this
        | some w => exact ⟨w, rfl⟩
      have el : (Spec.flex inp).length = w.length := by rw [hflexlen, h.windowLen w hw]
      simp [hw, rep_selectNot k _ _ el, rep_peak k hk]
  | schedule =>
    apply repeat_special inp ps k hk h
    · intro t; rw [rep_energy]; ring
    · intro t; exact repeat_deviationCosts inp ps k hk h
  | other => exact absurd hs h.scheme

end

/-! ### The per-year view of a result -/

/-- everything a result says about one year (the returned dict and the "per year" half of the JSON
section are functions of this view) -/
structure Annual (α : Type) where
  feeType : FeeType
  energyPa : α
  utilization : α
  peakInWindows : Option α
  sigSheet : Option α
  commodityYear : α
  capacity : α
  fixFlex : Option (α × α × α × α)
  additionalYear : α
  procurementYear : α
  eegYear : α
  chpYear : α
  indYear : α
  offYear : α
  intYear : α
  concessionYear : α
  pvYear : α
  v2gYear : α
  batYear : α
  taxYear : α
  netYear : α
  vatYear : α
  grossYear : α
  totalYear : α

def Detail.annual (d : Detail α) : Annual α :=
  { feeType := d.feeType, energyPa := d.energyPa, utilization := d.utilization,
    peakInWindows := d.peakInWindows, sigSheet := d.sigSheet, commodityYear := d.commodityYear,
    capacity := d.capacity,
    fixFlex := d.fixFlex.map (fun ff =>
      (ff.commodityYearFix, ff.capacityFix, ff.commodityYearFlex, ff.capacityFlex)),
    additionalYear := d.additionalYear, procurementYear := d.procurementYear,
    eegYear := d.eegYear, chpYear := d.chpYear, indYear := d.indYear, offYear := d.offYear,
    intYear := d.intYear, concessionYear := d.concessionYear, pvYear := d.pvYear,
    v2gYear := d.v2gYear, batYear := d.batYear, taxYear := d.taxYear, netYear := d.netYear,
    vatYear := d.vatYear, grossYear := d.grossYear, totalYear := d.totalYear }

/-- the returned dict as a function of the per-year view -/
def roundAnnual (r : α → α) (a : Annual α) : Result α :=
  { totalCostsPerYear := r a.totalYear
    commodityCostsPerYear := r a.commodityYear
    capacityCosts := r a.capacity
    procurementPerYear := r a.procurementYear
    leviesFeesTaxesPerYear :=
      r (r a.eegYear + r a.chpYear + r a.indYear + r a.offYear + r a.intYear
         + r a.concessionYear + r a.taxYear + r a.vatYear)
    feedInPerYear := r (a.pvYear + a.v2gYear + a.batYear)
    peakPowerInWindows := a.peakInWindows }

theorem roundResult_annual (r : α → α) (d : Detail α) :
    roundResult r d = roundAnnual r d.annual := rfl

/-- scaling the period (fraction of the year, energy, per-period amounts) by `c ≠ 0` leaves the
per-year view unchanged -/
theorem assemble_scale_annual (ps : PriceSheet α) (fy e epa util : α) (core : Core α)
    (pv v2g bat : α × α) (c : α) (hc : c ≠ 0) (hfy : fy ≠ 0) :
    (assemble ps (c * fy) (c * e) epa util (core.scale c) (pv.1, c * pv.2) (v2g.1, c * v2g.2)
      (bat.1, c * bat.2)).annual
      = (assemble ps fy e epa util core pv v2g bat).annual := by
  obtain ⟨ft, cs, cy, cap, pvar, ff, pk, sg⟩ := core
  cases pvar <;> by_cases hr : ft = .rlm <;>
    simp only [assemble, Detail.annual, Core.scale, lit_eq, Nat.cast_ofNat, Option.map_none,
      Option.map_some, hr, if_true, if_false, ↓reduceIte] <;>
    (congr 1 <;> first | rfl | (cases ff <;> rfl) | (field_simp <;> ring))

theorem repeat_feedIn (c : α) (l : Option (List α)) (sec fy : α) (k : Nat) (hk : 0 < k)
    (hfy : fy ≠ 0) :
    Spec.feedIn c (l.map (rep k)) sec (k * fy)
      = ((Spec.feedIn c l sec fy).1, k * (Spec.feedIn c l sec fy).2) := by
  have hk0 : (k : α) ≠ 0 := ne_of_gt (Nat.cast_pos.mpr hk)
  unfold Spec.feedIn
  cases l with
  | none => simp [Spec.energy]
  | some l =>
    simp only [Option.map_some, Option.getD_some, rep_energy]
    refine Prod.ext ?_ ?_
    · simp only []; field_simp
    · simp only []; ring

/-- **Repetition.** Repeating a well-formed profile `k ≥ 1` times leaves the per-year view of the
documented composition (before rounding) unchanged. -/
theorem repeat_costs_annual (inp : Input α) (ps : PriceSheet α) (k : Nat) (hk : 0 < k)
    (h : WF inp ps) :
    (Spec.costs (inp.repeat k) ps).annual = (Spec.costs inp ps).annual := by
  have hk0 : (k : α) ≠ 0 := ne_of_gt (Nat.cast_pos.mpr hk)
  have hfy := h.fy_ne
  unfold Spec.costs
  rw [repeat_fy, repeat_e, repeat_epa inp ps k hk h, repeat_util inp ps k hk h,
    repeat_core inp ps k hk h]
  show (assemble ps _ _ _ _ _ (Spec.feedIn _ (inp.genFeedIn.map (rep k)) inp.sec _)
    (Spec.feedIn _ (inp.v2gFeedIn.map (rep k)) inp.sec _)
    (Spec.feedIn _ (inp.batFeedIn.map (rep k)) inp.sec _)).annual = _
  rw [repeat_feedIn _ _ _ _ k hk hfy, repeat_feedIn _ _ _ _ k hk hfy,
    repeat_feedIn _ _ _ _ k hk hfy]
  exact assemble_scale_annual ps _ _ _ _ _ _ _ _ (k : α) hk0 hfy

/-! ### Well-formedness is preserved -/

theorem WF.halve {inp : Input α} {ps : PriceSheet α} (h : WF inp ps) : WF inp.halve ps := by
  refine ⟨h.sheet, ?_, ?_, ?_, ?_, ?_, ?_, ?_, h.fee, h.covers, h.sig, ?_, ?_, h.scheme⟩
  · show 0 < 2 * inp.nTimestamps
    have := h.npos; omega
  · show 0 < inp.sec / 2
    have := h.secpos; positivity
  · show (dup inp.supply).length = 2 * inp.nTimestamps
    rw [dup_length, h.supplyLen]
  · show (dup inp.fixLoad).length = 2 * inp.nTimestamps
    rw [dup_length, h.fixLen]
  · intro w hw
    have hw' : inp.window.map dup = some w := hw
    cases hwin : inp.window with
    | none => rw [hwin] at hw'; simp at hw'
    | some w0 =>
      rw [hwin] at hw'
      simp only [Option.map_some, Option.some.injEq] at hw'
      rw [← hw', dup_length, h.windowLen w0 hwin]
      rfl
  · intro s hs
    have hs' : inp.scheduleList.map dup = some s := hs
    cases hsch : inp.scheduleList with
    | none => rw [hsch] at hs'; simp at hs'
    | some s0 =>
      rw [hsch] at hs'
      simp only [Option.map_some, Option.some.injEq] at hs'
      rw [← hs', dup_length, h.schedLen s0 hsch]
      rfl
  · intro l hl
    have hp : inp.halve.prices = inp.prices.mapLists dup := rfl
    rw [hp] at hl
    show l.length = 2 * inp.nTimestamps
    cases hpr : inp.prices with
    | none => rw [hpr] at hl; simp [PriceArg.mapLists] at hl
    | list l0 =>
      rw [hpr] at hl
      simp only [PriceArg.mapLists] at hl
      rcases hl with hl | ⟨c, hl⟩ | ⟨p, hl⟩
      · injection hl with hl
        rw [← hl, dup_length, h.pricesLen l0 (Or.inl hpr)]
      · cases hl
      · cases hl
    | dict p0 c0 =>
      rw [hpr] at hl
      simp only [PriceArg.mapLists] at hl
      rcases hl with hl | ⟨c, hl⟩ | ⟨p, hl⟩
      · cases hl
      · injection hl with h1 h2
        cases p0 with
        | none => simp at h1
        | some l0 =>
          simp only [Option.map_some, Option.some.injEq] at h1
          rw [← h1, dup_length, h.pricesLen l0 (Or.inr (Or.inl ⟨c0, hpr⟩))]
      · injection hl with h1 h2
        cases c0 with
        | none => simp at h2
        | some l0 =>
          simp only [Option.map_some, Option.some.injEq] at h2
          rw [← h2, dup_length, h.pricesLen l0 (Or.inr (Or.inr ⟨p0, hpr⟩))]
  · intro hs
    have : inp.window ≠ none := h.flexWindow hs
    show inp.window.map dup ≠ none
    cases hw : inp.window with
    | none => exact absurd hw this
    | some w => simp
  · intro hv
    obtain ⟨p, c, hp, hpc⟩ := h.variablePrices hv
    refine ⟨p.map dup, c.map dup, ?_, ?_⟩
    · show inp.prices.mapLists dup = _
      rw [hp]; rfl
    · intro ⟨h1, h2⟩
      apply hpc
      constructor
      · cases p <;> simp_all
      · cases c <;> simp_all

theorem WF.repeat {inp : Input α} {ps : PriceSheet α} (h : WF inp ps) (k : Nat) (hk : 0 < k) :
    WF (inp.repeat k) ps := by
  refine ⟨h.sheet, ?_, ?_, ?_, ?_, ?_, ?_, ?_, h.fee, h.covers, h.sig, ?_, ?_, h.scheme⟩
  · show 0 < k * inp.nTimestamps
    exact Nat.mul_pos hk h.npos
  · exact h.secpos
  · show (rep k inp.supply).length = k * inp.nTimestamps
    rw [rep_length, h.supplyLen]
  · show (rep k inp.fixLoad).length = k * inp.nTimestamps
    rw [rep_length, h.fixLen]
  · intro w hw
    have hw' : inp.window.map (rep k) = some w := hw
    cases hwin : inp.window with
    | none => rw [hwin] at hw'; simp at hw'
    | some w0 =>
      rw [hwin] at hw'
      simp only [Option.map_some, Option.some.injEq] at hw'
      rw [← hw', rep_length, h.windowLen w0 hwin]
      rfl
  · intro s hs
    have hs' : inp.scheduleList.map (rep k) = some s := hs
    cases hsch : inp.scheduleList with
    | none => rw [hsch] at hs'; simp at hs'
    | some s0 =>
      rw [hsch] at hs'
      simp only [Option.map_some, Option.some.injEq] at hs'
      rw [← hs', rep_length, h.schedLen s0 hsch]
      rfl
  · intro l hl
    have hp : (inp.repeat k).prices = inp.prices.mapLists (rep k) := rfl
    rw [hp] at hl
    show l.length = k * inp.nTimestamps
    cases hpr : inp.prices with
    | none => rw [hpr] at hl; simp [PriceArg.mapLists] at hl
    | list l0 =>
      rw [hpr] at hl
      simp only [PriceArg.mapLists] at hl
      rcases hl with hl | ⟨c, hl⟩ | ⟨p, hl⟩
      · injection hl with hl
        rw [← hl, rep_length, h.pricesLen l0 (Or.inl hpr)]
      · cases hl
      · cases hl
    | dict p0 c0 =>
      rw [hpr] at hl
      simp only [PriceArg.mapLists] at hl
      rcases hl with hl | ⟨c, hl⟩ | ⟨p, hl⟩
      · cases hl
      · injection hl with h1 h2
        cases p0 with
        | none => simp at h1
        | some l0 =>
          simp only [Option.map_some, Option.some.injEq] at h1
          rw [← h1, rep_length, h.pricesLen l0 (Or.inr (Or.inl ⟨c0, hpr⟩))]
      · injection hl with h1 h2
        cases c0 with
        | none => simp at h2
        | some l0 =>
          simp only [Option.map_some, Option.some.injEq] at h2
          rw [← h2, rep_length, h.pricesLen l0 (Or.inr (Or.inr ⟨p0, hpr⟩))]
  · intro hs
    have : inp.window ≠ none := h.flexWindow hs
    show inp.window.map (rep k) ≠ none
    cases hw : inp.window with
    | none => exact absurd hw this
    | some w => simp
  · intro hv
    obtain ⟨p, c, hp, hpc⟩ := h.variablePrices hv
    refine ⟨p.map (rep k), c.map (rep k), ?_, ?_⟩
    · show inp.prices.mapLists (rep k) = _
      rw [hp]; rfl
    · intro ⟨h1, h2⟩
      apply hpc
      constructor
      · cases p <;> simp_all
      · cases c <;> simp_all

/-! ### A concrete well-formed input (non-vacuity of the hypotheses of the property theorems) -/

/-- the numbers of examples/data/price_sheet.json -/
def exSheet : PriceSheet ℚ :=
  { slpBasic := 657/10, slpCommodity := 748/100,
    rlmLowCommodity := [23/10, 381/100, 349/100, 439/100, 483/100],
    rlmLowCapacity := [1913/100, 2525/100, 4106/100, 4426/100, 4426/100],
    rlmHighCommodity := [81/100, 76/100, 232/100, 228/100, 403/100],
    rlmHighCapacity := [5633/100, 10152/100, 7014/100, 9701/100, 6433/100],
    additionalCosts := 0, procurement := 77/10, eeg := 0, chp := 378/1000, individual := 437/1000,
    offshore := 419/1000, interruptible := 3/1000, concession := 132/100, vat := 19,
    electricityTax := 205/100, pvKwp := [10, 40, 100], pvRemuneration := [624/100, 606/100, 474/100],
    v2g := 0, battery := 0, significance := [10, 20, 20, 30, 30, 5, 10],
    schedReduction := 0, schedDeviationCharge := 7014/100, schedDeviationTolerance := 1/10 }

/-- four quarter-hours, peak-load-window scheme, medium voltage, a 30 kWp PV plant -/
def exInput : Input ℚ :=
  { scheme := .fixedWPlw, voltageLevel := 2, sec := 900, nTimestamps := 4,
    supply := [-600, -50, 0, 12], prices := .none, fixLoad := [10, 10, 10, 10],
    genFeedIn := some [0, 0, 0, 12], v2gFeedIn := none, batFeedIn := none,
    window := some [false, true, true, true], sheet := some exSheet, feeType := some .rlm,
    pvNominal := 30, scheduleList := none }

theorem exInput_wf : WF exInput exSheet := by
  refine ⟨rfl, by decide, by norm_num [exInput], rfl, rfl, ?_, ?_, ?_, by decide, ?_, ?_, ?_, ?_,
    by decide⟩
  · intro w hw; cases hw; rfl
  · intro s hs; cases hs
  · intro l hl
    rcases hl with hl | ⟨c, hl⟩ | ⟨p, hl⟩ <;> cases hl
  · refine ⟨?_, ?_, ?_, ?_⟩ <;> decide
  · intro _; decide
  · intro hs; cases hs
  · intro hv; cases hv

end SpiceEv.Costs
