/-
C01 — Battery SoC stays in bounds and energy is conserved on every (dis)charge.

Property theorems only (helper lemmas: SpiceEv/Proofs/Battery.lean, SpiceEv/Proofs/BatteryLoad.lean).
All statements are about the executable model `SpiceEv.Battery` (SpiceEv/Model/Battery.lean — the
transliteration of the repaired `battery.py`) instantiated at the reals (`Real.exp`, `Real.log`);
the driver runs the same definitions on `Float` bit-for-bit against the real code.

Hypotheses (`BatOK`): capacity > 0, EPS > 0 (any positive value, in the code `1e-5/capacity`),
0 < efficiency ≤ 1, well-formed charge/discharge curves with non-negative `max_power`,
-1 ≤ SoC ≤ 1.  Per call: duration `T ≥ 0` (hours), limit ≥ 0 or absent, not both `target_soc` and
`target_power`.
-/
import SpiceEv.Proofs.BatteryLoad
set_option linter.unusedSectionVars false
set_option linter.unusedVariables false
namespace SpiceEv

/-- `load` completes without error (no assertion, no uncaught exception, fuel of both loops not
exhausted), also when the curve offers zero power at the current SoC; only the SoC changes. -/
theorem C01_load_ok (b : Battery ℝ) (hb : BatOK b) (T : ℝ) (hT : 0 ≤ T) (mp ts tp : Option ℝ)
    (hmp : ∀ L, mp = some L → 0 ≤ L) (hex : ts = none ∨ tp = none) :
    ∃ s' avg delta, b.load T mp ts tp = .ok ({ b with soc := s' }, avg, delta) := by
  obtain ⟨s', avg, h, _⟩ := load_spec b hb T hT mp ts tp hmp hex
  exact ⟨s', avg, _, h⟩

/-- `unload` completes without error; only the SoC changes. -/
theorem C01_unload_ok (b : Battery ℝ) (hb : BatOK b) (T : ℝ) (hT : 0 ≤ T) (mp ts tp : Option ℝ)
    (hmp : ∀ L, mp = some L → 0 ≤ L) (hex : ts = none ∨ tp = none) :
    ∃ s' avg delta, b.unload T mp ts tp = .ok ({ b with soc := s' }, avg, delta) := by
  obtain ⟨s', avg, h, _⟩ := unload_spec b hb T hT mp ts tp hmp hex
  exact ⟨s', avg, _, h⟩

/-- The inadmissible call (both `target_soc` and `target_power`) raises `AssertionError`. -/
theorem C01_both_targets_assert (b : Battery ℝ) (T t P : ℝ) (mp : Option ℝ) :
    b.load T mp (some t) (some P) = .error .assertion ∧
    b.unload T mp (some t) (some P) = .error .assertion := by
  constructor <;> rfl

/-- Charging never lowers the SoC and never raises it above 1 or above the requested target
(`target_soc`, or `soc + target_power·η·T/c`, or 1). -/
theorem C01_load_soc (b : Battery ℝ) (hb : BatOK b) (T : ℝ) (hT : 0 ≤ T) (mp ts tp : Option ℝ)
    (hmp : ∀ L, mp = some L → 0 ≤ L) (hex : ts = none ∨ tp = none)
    (b' : Battery ℝ) (avg delta : ℝ) (h : b.load T mp ts tp = .ok (b', avg, delta)) :
    b.soc ≤ b'.soc ∧ b'.soc ≤ max b.soc (min 1 (loadTarget b T ts tp)) ∧ b'.soc ≤ 1 := by
  obtain ⟨s', avg0, h0, g1, g2, _⟩ := load_spec b hb T hT mp ts tp hmp hex
  rw [h0] at h
  obtain ⟨rfl, -, -⟩ : { b with soc := s' } = b' ∧ avg0 = avg ∧ s' - b.soc = delta := by
    simpa using h
  exact ⟨g1, g2, le_trans g2 (max_le hb.soc1 (min_le_left _ _))⟩

/-- Discharging never raises the SoC and never takes it below the requested target or below zero:
with `τ = max (min soc 0) target`, `min soc τ ≤ soc' ≤ soc`; from a non-negative SoC the result is
non-negative; an already negative SoC is left alone. -/
theorem C01_unload_soc (b : Battery ℝ) (hb : BatOK b) (T : ℝ) (hT : 0 ≤ T) (mp ts tp : Option ℝ)
    (hmp : ∀ L, mp = some L → 0 ≤ L) (hex : ts = none ∨ tp = none)
    (b' : Battery ℝ) (avg delta : ℝ) (h : b.unload T mp ts tp = .ok (b', avg, delta)) :
    b'.soc ≤ b.soc ∧ min b.soc (max (min b.soc 0) (unloadTarget b T ts tp)) ≤ b'.soc ∧
    min b.soc (unloadTarget b T ts tp) ≤ b'.soc ∧
    (0 ≤ b.soc → 0 ≤ b'.soc) ∧ (b.soc < 0 → b'.soc = b.soc) := by
  obtain ⟨s', avg0, h0, g1, g2, _⟩ := unload_spec b hb T hT mp ts tp hmp hex
  rw [h0] at h
  obtain ⟨rfl, -, -⟩ : { b with soc := s' } = b' ∧ avg0 = avg ∧ b.soc - s' = delta := by
    simpa using h
  have h0' : ∀ hs : 0 ≤ b.soc, 0 ≤ s' := by
    intro hs
    have h1 : (0 : ℝ) ≤ max (min b.soc 0) (unloadTarget b T ts tp) :=
      le_trans (le_min hs (le_refl _)) (le_max_left _ _)
    exact le_trans (le_min hs h1) g2
  refine ⟨g1, g2, le_trans (min_le_min (le_refl _) (le_max_right _ _)) g2, h0', ?_⟩
  intro hs
  have h1 : b.soc ≤ max (min b.soc 0) (unloadTarget b T ts tp) := by
    rw [min_eq_left hs.le]; exact le_max_left _ _
  have : b.soc ≤ s' := by rw [min_eq_left h1] at g2; exact g2
  exact le_antisymm g1 this

/-- The reported average power is non-negative and never exceeds the power limit (the given
`max_power` or the curve's maximum) — up to `EPS/η` (charging) resp. `EPS·η` (discharging): on a
nearly flat section (`|slope| < EPS`) the code integrates with the intercept of the line,
`n = y1 − m·x1`, which can exceed the curve value by less than `EPS = 1e-5/capacity` kW. -/
theorem C01_avg_bounds (b : Battery ℝ) (hb : BatOK b) (T : ℝ) (hT : 0 ≤ T) (mp ts tp : Option ℝ)
    (hmp : ∀ L, mp = some L → 0 ≤ L) (hex : ts = none ∨ tp = none) :
    (∀ b' avg delta, b.load T mp ts tp = .ok (b', avg, delta) →
      0 ≤ avg ∧ avg ≤ limitOf mp b.loadingCurve + b.eps / b.efficiency) ∧
    (∀ b' avg delta, b.unload T mp ts tp = .ok (b', avg, delta) →
      0 ≤ avg ∧ avg ≤ limitOf mp b.unloadingCurve + b.eps * b.efficiency) := by
  constructor
  · intro b' avg delta h
    obtain ⟨s', avg0, h0, _, _, _, g4, g5, _⟩ := load_spec b hb T hT mp ts tp hmp hex
    rw [h0] at h
    obtain ⟨-, rfl, -⟩ : { b with soc := s' } = b' ∧ avg0 = avg ∧ s' - b.soc = delta := by
      simpa using h
    exact ⟨g4, g5⟩
  · intro b' avg delta h
    obtain ⟨s', avg0, h0, _, _, _, g4, g5, _⟩ := unload_spec b hb T hT mp ts tp hmp hex
    rw [h0] at h
    obtain ⟨-, rfl, -⟩ : { b with soc := s' } = b' ∧ avg0 = avg ∧ b.soc - s' = delta := by
      simpa using h
    exact ⟨g4, g5⟩

/-- Energy conservation, charging: average power × duration = stored energy / efficiency. -/
theorem C01_energy_load (b : Battery ℝ) (hb : BatOK b) (T : ℝ) (hT : 0 ≤ T) (mp ts tp : Option ℝ)
    (hmp : ∀ L, mp = some L → 0 ≤ L) (hex : ts = none ∨ tp = none)
    (b' : Battery ℝ) (avg delta : ℝ) (h : b.load T mp ts tp = .ok (b', avg, delta)) :
    avg * T = (b'.soc - b.soc) * b.capacity / b.efficiency := by
  obtain ⟨s', avg0, h0, _, _, g3, _⟩ := load_spec b hb T hT mp ts tp hmp hex
  rw [h0] at h
  obtain ⟨rfl, rfl, -⟩ : { b with soc := s' } = b' ∧ avg0 = avg ∧ s' - b.soc = delta := by
    simpa using h
  exact g3

/-- Energy conservation, discharging: average power × duration = released energy × efficiency. -/
theorem C01_energy_unload (b : Battery ℝ) (hb : BatOK b) (T : ℝ) (hT : 0 ≤ T) (mp ts tp : Option ℝ)
    (hmp : ∀ L, mp = some L → 0 ≤ L) (hex : ts = none ∨ tp = none)
    (b' : Battery ℝ) (avg delta : ℝ) (h : b.unload T mp ts tp = .ok (b', avg, delta)) :
    avg * T = (b.soc - b'.soc) * b.capacity * b.efficiency := by
  obtain ⟨s', avg0, h0, _, _, g3, _⟩ := unload_spec b hb T hT mp ts tp hmp hex
  rw [h0] at h
  obtain ⟨rfl, rfl, -⟩ : { b with soc := s' } = b' ∧ avg0 = avg ∧ b.soc - s' = delta := by
    simpa using h
  exact g3

/-- The reported `soc_delta` is the actual change of the SoC (both directions). -/
theorem C01_delta_reported (b : Battery ℝ) (hb : BatOK b) (T : ℝ) (hT : 0 ≤ T) (mp ts tp : Option ℝ)
    (hmp : ∀ L, mp = some L → 0 ≤ L) (hex : ts = none ∨ tp = none) :
    (∀ b' avg delta, b.load T mp ts tp = .ok (b', avg, delta) → delta = b'.soc - b.soc) ∧
    (∀ b' avg delta, b.unload T mp ts tp = .ok (b', avg, delta) → delta = b.soc - b'.soc) := by
  constructor
  · intro b' avg delta h
    obtain ⟨s', avg0, h0, _⟩ := load_spec b hb T hT mp ts tp hmp hex
    rw [h0] at h
    obtain ⟨rfl, -, rfl⟩ : { b with soc := s' } = b' ∧ avg0 = avg ∧ s' - b.soc = delta := by
      simpa using h
    rfl
  · intro b' avg delta h
    obtain ⟨s', avg0, h0, _⟩ := unload_spec b hb T hT mp ts tp hmp hex
    rw [h0] at h
    obtain ⟨rfl, -, rfl⟩ : { b with soc := s' } = b' ∧ avg0 = avg ∧ b.soc - s' = delta := by
      simpa using h
    rfl

/-- Asking for the available discharge power completes without error, leaves the battery
unchanged, and reports what an unrestricted `unload` over the same duration would deliver. -/
theorem C01_available_pure (b : Battery ℝ) (hb : BatOK b) (T : ℝ) (hT : 0 ≤ T) :
    ∃ p, b.getAvailablePower T = .ok (b, p) ∧ 0 ≤ p ∧
      ∃ s', b.unload T none none none = .ok ({ b with soc := s' }, p, b.soc - s') :=
  available_spec b hb T hT

/-- When the clamped curve offers less than EPS at the current SoC (in particular zero power, also
on a section that rises in the direction of travel), nothing is transferred: the SoC is unchanged
and the average power is 0. -/
theorem C01_zero_power_nothing (b : Battery ℝ) (hb : BatOK b) (T : ℝ) (hT : 0 ≤ T) (mp ts tp : Option ℝ)
    (hmp : ∀ L, mp = some L → 0 ≤ L) (hex : ts = none ∨ tp = none) :
    (b.efficiency * min (interp b.loadingCurve.points b.soc) (limitOf mp b.loadingCurve) < b.eps →
      b.load T mp ts tp = .ok (b, 0, 0)) ∧
    (1 / b.efficiency * min (interp b.unloadingCurve.points b.soc) (limitOf mp b.unloadingCurve) < b.eps →
      b.unload T mp ts tp = .ok (b, 0, 0)) := by
  constructor
  · intro hz
    obtain ⟨s', avg0, h0, _, _, _, _, _, g6⟩ := load_spec b hb T hT mp ts tp hmp hex
    obtain ⟨e1, e2⟩ := g6 hz
    rw [h0, e1, e2, battery_eta b, sub_self]
  · intro hz
    obtain ⟨s', avg0, h0, _, _, _, _, _, g6⟩ := unload_spec b hb T hT mp ts tp hmp hex
    obtain ⟨e1, e2⟩ := g6 hz
    rw [h0, e1, e2, battery_eta b, sub_self]

/-! Non-vacuity: the hypotheses are satisfied by a 50 kWh battery at SoC 0.3 with efficiency 0.95
and the 3-point taper `[(0,11),(4/5,11),(1,2)]` for charging and discharging. -/
noncomputable def exampleTaper : Curve ℝ := ⟨[(0, 11), (4/5, 11), (1, 2)], 11⟩
noncomputable def exampleBattery : Battery ℝ :=
  ⟨50, exampleTaper, exampleTaper, 3/10, 19/20, 1/5000000⟩

theorem exampleTaper_wf : WF exampleTaper.points := by
  refine ⟨?_, ⟨(0, 11), rfl, rfl⟩, ⟨(1, 2), rfl, rfl⟩, ?_⟩
  · unfold StrictSoc exampleTaper; simp; norm_num
  · intro p hp; simp [exampleTaper] at hp; rcases hp with rfl | rfl | rfl <;> norm_num

example : BatOK exampleBattery :=
  ⟨by norm_num [exampleBattery], by norm_num [exampleBattery], by norm_num [exampleBattery],
   by norm_num [exampleBattery], exampleTaper_wf, exampleTaper_wf,
   by norm_num [exampleBattery, exampleTaper], by norm_num [exampleBattery, exampleTaper],
   by norm_num [exampleBattery], by norm_num [exampleBattery]⟩

end SpiceEv
