"""Step tie for Greedy.step / Balanced.step (model: `rulestep`, Model/Strategies.lean) — the renderer of c10.py."""
import c10


def render_world(strat, rule):
    return c10.render_world(strat, rule)


def render_result(strat, cmds):
    return c10.render_result(strat, cmds)


class tie:
    def __init__(self, full):
        from spice_ev import strategy as st_mod
        self.rule = "g" if full["strategy"] == "greedy" else "b"
        self.cls = st_mod.class_from_str(full["strategy"])
        self.lines, self.impl = [], []

    def __enter__(self):
        self.orig = orig = self.cls.step
        lines, impl, rule = self.lines, self.impl, self.rule

        def wrapped(strat):
            line = render_world(strat, rule)
            try:
                res = orig(strat)
            except Exception as e:
                lines.append(line)
                impl.append("!" + type(e).__name__)
                raise
            lines.append(line)
            impl.append(render_result(strat, res["commands"]))
            return res
        self.cls.step = wrapped
        return self

    def __exit__(self, *a):
        self.cls.step = self.orig
        return False


def compare(case, impl, model):
    return c10.compare(case, impl, model)
