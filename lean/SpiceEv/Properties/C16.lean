/-
C16 — Simulations are deterministic, isolated and invariant under time relabelling.

The executable model is a pure function by construction; what is stated here is the part of the
property that has content on the model: the loop's bookkeeping treats connectors independently
(frame), and the time/bucket functions only see differences of timestamps (added when the time and
event models are integrated).  Hidden state of the Python objects is decided by paired real runs
(harness/c16.py).
-/
import SpiceEv.Proofs.ScenarioRun
import SpiceEv.Proofs.StrategiesFrame
import SpiceEv.Proofs.Relabel
set_option linter.unusedSectionVars false
namespace SpiceEv
variable {α : Type} [Field α] [LinearOrder α] [IsStrictOrderedRing α]

/-- **Frame.** Adding another connector (with arbitrary loads) to a step leaves the reported power
and generation of the existing connectors unchanged. -/
theorem C16_report_frame (eps : α) (genKeys : List String) (o : StepObs α) (g' : GcObs α) :
    (stepReport eps genKeys { o with gcs := o.gcs ++ [g'] }).loads
      = (stepReport eps genKeys o).loads ++ [(gcReport genKeys g').1] ∧
    (stepReport eps genKeys { o with gcs := o.gcs ++ [g'] }).generation
      = (stepReport eps genKeys o).generation ++ [(gcReport genKeys g').2] := by
  unfold stepReport
  simp [List.map_append]

/-- The reported power of a connector does not depend on loads registered under keys of *other*
connectors' stations: it is a function of its own load list only; permuting which station a load
belongs to elsewhere cannot change it.  (Stated as: equal load lists, rating ⇒ equal report.) -/
theorem C16_report_local (genKeys : List String) (g h : GcObs α)
    (hl : g.loads = h.loads) (hr : g.rating = h.rating) :
    gcReport genKeys g = gcReport genKeys h := by
  unfold gcReport
  rw [hl, hr]


/-! ### isolation of connectors in the greedy / balanced step (any number type the model runs on) -/

section Isolation
open Frame
variable {β B : Type} [Add β] [Sub β] [Mul β] [Div β] [Neg β] [LT β] [LE β]
  [DecidableLT β] [DecidableLE β] [OfNat β 0] [OfNat β 1] [NatCast β] [IntCast β]

/-- **Isolation.** `σ` names a connector `g`, its stations `S`, the vehicles `V` connected to them and
its stationary batteries `Bs` (`Link`: the names are right for both worlds).  If two worlds agree on
that part — whatever else they contain: other connectors, their stations, vehicles, batteries,
prices, loads — then `Greedy.step` / `Balanced.step` (allocation pass, surplus/V2G pass, battery pass)
leave them agreeing on it: same connector loads, station powers, vehicle and battery states, and
the same commands for `g`'s stations. -/
theorem C16_ruleStep_isolation (rule : Rule) (ops : BatOps β B) (env : StratEnv β) (σ : Sel)
    (w1 w2 w1' w2' : SWorld β B) (cmds1 cmds2 : List (String × β))
    (hl1 : Link σ w1) (hl2 : Link σ w2) (hsame : part σ w1 = part σ w2)
    (h1 : ruleStep rule ops env w1 = .ok (w1', cmds1))
    (h2 : ruleStep rule ops env w2 = .ok (w2', cmds2)) :
    part σ w1' = part σ w2' ∧
    cmds1.filter (fun kv => σ.S.contains kv.1) = cmds2.filter (fun kv => σ.S.contains kv.1) := by
  have e1 := ruleStep_part σ rule ops env w1 w1' cmds1 hl1 h1
  have e2 := ruleStep_part σ rule ops env w2 w2' cmds2 hl2 h2
  rw [hsame, e2] at e1
  simp only [Except.ok.injEq, Prod.mk.injEq] at e1
  exact ⟨e1.1.symm, e1.2.symm⟩

/-- **Adding an unrelated connector changes nothing at the existing ones.**  `x` brings its own
connectors, stations, vehicles and batteries under new ids (`Unrelated`); ids of `w` are unique (dict
keys).  If the step succeeds on `w` and on `w` with `x` appended, then for every connector of `w` the
results coincide: loads, station powers, SoCs and commands.  (And by `ruleStep_part` the step on `w`
alone succeeds whenever the step on the larger world does, restricted to each connector.) -/
theorem C16_added_connector (rule : Rule) (ops : BatOps β B) (env : StratEnv β)
    (w x w' wx' : SWorld β B) (cmds cmdsx : List (String × β))
    (hu : UniqueIds w) (hx : Unrelated w x)
    (h1 : ruleStep rule ops env w = .ok (w', cmds))
    (h2 : ruleStep rule ops env (union w x) = .ok (wx', cmdsx)) :
    ∀ g ∈ w.gcs, part (selOf w g.id) wx' = part (selOf w g.id) w' ∧
      cmdsx.filter (fun kv => (selOf w g.id).S.contains kv.1)
        = cmds.filter (fun kv => (selOf w g.id).S.contains kv.1) := by
  intro g hg
  exact C16_ruleStep_isolation rule ops env (selOf w g.id) (union w x) w wx' w' cmdsx cmds
    (link_union w x g hg hu hx) (link_selOf w g.id hu) (part_union w x g hg hx) h2 h1

/-- a toy battery for the non-vacuity check: accepts half of what it is offered -/
def toyOps : BatOps ℚ ℚ where
  soc b := b
  capacity _ := 10
  efficiency _ := 1
  unloadMaxPower _ := 5
  load b mp _ tp := .ok (b + 1/100, ((tp.getD (mp.getD 0)) / 2))
  unload b _ _ tp := .ok (b, (tp.getD 0) / 2)
  available _ := .ok 0

def toyW : SWorld ℚ ℚ :=
  ⟨[⟨"GC1", 20, some (.fixed (3/10)), [("load", 2)]⟩], [⟨"CS1", "GC1", 11, 0, 0⟩],
   [⟨"v1", some "CS1", 4/5, some 7200000000, 0, false, 0, 1/2⟩], [⟨"BAT1", "GC1", 0, 1/2⟩]⟩

def toyX : SWorld ℚ ℚ :=
  ⟨[⟨"GC2", 5, some (.fixed (1/10)), []⟩], [⟨"CS2", "GC2", 22, 0, 0⟩],
   [⟨"v2", some "CS2", 1, none, 0, false, 0, 1/5⟩], []⟩

def toyEnv : StratEnv ℚ := ⟨1/100000, 1/10, 4, 0, 900000000⟩

/-- Non-vacuity: the hypotheses of `C16_added_connector` are met by a depot with one vehicle and a
battery, and an added connector with its own vehicle; both steps succeed. -/
example : UniqueIds toyW ∧ Unrelated toyW toyX ∧
    (ruleStep .greedy toyOps toyEnv toyW).isOk = true ∧
    (ruleStep .greedy toyOps toyEnv (union toyW toyX)).isOk = true := by
  refine ⟨⟨by decide, by decide, by decide⟩, ⟨by decide, by decide, by decide, by decide, by decide,
    by decide, by decide⟩, by decide +kernel, ?_⟩
  -- the kernel does not unfold the well-founded `mergeSort`: the id list is already sorted
  have hs : sortedVehicleIds (resetStations (union toyW toyX)) = ["v1", "v2"] := by
    unfold sortedVehicleIds
    exact List.mergeSort_of_pairwise (by decide)
  unfold ruleStep
  simp only [hs]
  decide +kernel

end Isolation

/-! ### time relabelling: only differences of timestamps, times of day and weekdays are seen -/

section Relabelling
open Relabel

/-- **Event buckets.** Relabel every timestamp by `c` (start of the simulation, every event's signal
time — and whatever else `f` does to the event, e.g. moving its start time and the times in its
payload): `get_event_steps` puts the relabelled events into the same buckets, in the same order,
with the same counters, and raises in the same cases. -/
theorem C16_event_buckets_shift {γ : Type} (f : Event γ → Event γ) (c : Int)
    (hf : ∀ e, (f e).signal = e.signal + c) (start : Int) (n : Nat) (Δ : Int) (all : List (Event γ)) :
    getEventSteps (start + c) n Δ (all.map f) = (getEventSteps start n Δ all).map (mapSteps f) :=
  getEventSteps_shift f c hf start n Δ all

/-- **Peak-load / flex windows.** A shift by `k` whole weeks that keeps the date in the same season
(for every season of the table: inside before iff inside after) does not change
`datetime_within_time_window`. -/
theorem C16_window_shift (dt : DateTime) (k : Int) (seasons : List Season) (level : String)
    (hs : ∀ s ∈ seasons, (decide (s.start ≤ dt.date) && decide (dt.date ≤ s.stop))
        = (decide (s.start ≤ dt.date + 7 * k) && decide (dt.date + 7 * k ≤ s.stop))) :
    datetimeWithinTimeWindow (dt.add (7 * k * usPerDay)) seasons level
      = datetimeWithinTimeWindow dt seasons level :=
  window_shift dt k seasons level hs

/-- **Core standing time.** A shift by `k` whole weeks (the holiday dates of the scenario moving
along) does not change `dt_within_core_standing_time`: weekday and time of day are kept. -/
theorem C16_core_shift (dt : DateTime) (k : Int) (cst : Option CoreStandingTime) :
    dtWithinCoreStandingTime (dt.add (7 * k * usPerDay)) (cst.map (shiftHolidays (7 * k)))
      = dtWithinCoreStandingTime dt cst :=
  core_shift dt k cst

/-- Non-vacuity of the season hypothesis: Monday 2020-01-06 shifted by three weeks stays inside a
season covering the year 2020 (ordinals 737425 … 737790) and outside one that ended in 2019. -/
example : ∀ s ∈ [(⟨737425, 737790, none⟩ : Season), ⟨737060, 737424, none⟩],
    (decide (s.start ≤ (737430 : Int)) && decide ((737430 : Int) ≤ s.stop))
      = (decide (s.start ≤ 737430 + 7 * 3) && decide ((737430 : Int) + 7 * 3 ≤ s.stop)) := by
  decide

end Relabelling

end SpiceEv
