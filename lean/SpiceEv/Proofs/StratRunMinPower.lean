/-
Greedy over a standing period for a vehicle WITH a minimum charging power (finding GRD1): the
vehicle served first leaves within ONE minimum-power step of its desired SoC or on the full-power
trajectory (counting only the steps in which the minimum power is available).  This is the
mechanism bound the C09 oracle uses to recognise GRD1 (`shortfall ≤ min_power·Δt·η/c`).
Helper lemmas for `C09_greedy_run_lower_minpower_partial`.
-/
import SpiceEv.Proofs.StratRun
set_option linter.unusedSectionVars false
set_option linter.unusedSimpArgs false
set_option linter.unusedVariables false
namespace SpiceEv.StratRun
open SpiceEv SpiceEv.Frame
variable {α B : Type} [Field α] [LinearOrder α] [IsStrictOrderedRing α]

/-- `clamp_power` at an idle station without station minimum, vehicle minimum `mp ≥ 0` -/
theorem clampPower_min (p mx mp : α) (hmp : 0 ≤ mp) :
    clampPower p 0 mx 0 mp = if min p mx < mp then 0 else min p mx := by
  unfold clampPower
  simp only [pymin_eq, pymax_eq, zero_add, sub_zero]
  by_cases h : min p mx < mp
  · have : min p mx < 0 ∨ min p mx < mp := Or.inr h
    simp [this, h]
  · have h0 : ¬ (min p mx < 0 ∨ min p mx < mp) := by
      intro hh
      rcases hh with h1 | h1
      · exact h (lt_of_lt_of_le h1 hmp)
      · exact h h1
    rw [if_neg h0, if_neg h]
    exact max_eq_left (le_trans hmp (not_lt.mp h))

/-- full power of a step, counted only if the vehicle's minimum power is available -/
def minFullPower (mp mx capv left : α) : α :=
  if mp ≤ min left mx then max (min (min left mx) capv) 0 else 0

/-- greedy's call for a vehicle with minimum charging power `mp` at an idle station, price above the
threshold: from `soc ≥ min(desired − slack, lo)` to `soc ≥ min(desired − slack, lo + F·gain)`,
`slack = max(EPS, mp·gain)` -/
theorem greedy_call_reached_min (ops : BatOps α B) (env : StratEnv α) (top : α) (cap : B → α)
    (lin : LinearLoad ops env.tsPerHour top cap) (heps : 0 ≤ env.eps) (ht : 0 < env.tsPerHour)
    (v0 : VehicleS α B) (hv : VehOk ops top v0) (hmp : 0 ≤ v0.minChargingPower)
    (cs : StationS α) (mx : α) (hmx : cs.maxPower = mx) (hmn : cs.minPower = 0)
    (hcur : cs.currentPower = 0) (left a lo : α) (ha : 0 ≤ a) (b : B) (power : α) (used : Bool) (b' : B)
    (avg : α)
    (hr : Reached ops cap v0 (min (v0.desiredSoc -
      max env.eps (v0.minChargingPower * gain ops env.tsPerHour v0.bat)) lo) b)
    (hpl : planPower .greedy ops env false left a cs { v0 with bat := b } = .ok (power, used))
    (hcc : chargeCall .greedy ops env false { v0 with bat := b } power = .ok (b', avg)) :
    Reached ops cap v0 (min (v0.desiredSoc -
      max env.eps (v0.minChargingPower * gain ops env.tsPerHour v0.bat))
      (lo + minFullPower v0.minChargingPower mx (cap v0.bat) left * gain ops env.tsPerHour v0.bat)) b' := by
  obtain ⟨hu, hlo⟩ := hr
  have hcb : 0 < ops.capacity b := by rw [hu.2.1]; exact hv.cap_pos
  have heb : 0 < ops.efficiency b := by rw [hu.2.2.1]; exact hv.eff_pos
  have hgain : gain ops env.tsPerHour b = gain ops env.tsPerHour v0.bat := by
    unfold gain; rw [hu.2.1, hu.2.2.1]
  have hg := gain_pos ops env.tsPerHour b hcb heb ht
  set slack := max env.eps (v0.minChargingPower * gain ops env.tsPerHour v0.bat) with hslack
  have hF0 : 0 ≤ minFullPower v0.minChargingPower mx (cap v0.bat) left := by
    unfold minFullPower; split
    · exact le_max_right _ _
    · exact le_refl _
  rcases greedy_dear_call ops env left a cs { v0 with bat := b } power used b' avg hpl hcc with
    ⟨hd, rfl⟩ | ⟨hd, hp, hl⟩
  · refine ⟨hu, ?_⟩
    simp only at hd
    refine le_trans (min_le_left _ _) ?_
    have : env.eps ≤ slack := le_max_left _ _
    linarith [not_lt.mp hd]
  · simp only at hd hp hl
    rw [hmx, hmn, hcur, clampPower_min _ _ _ hmp] at hp
    obtain ⟨h1, h2, h3, h4⟩ := lin.up _ _ _ _ _ _ hl
    refine ⟨Up.trans hu ⟨h1, h2, h3, h4⟩, ?_⟩
    have hng := need_gain ops env.tsPerHour { v0 with bat := b } hcb heb ht
    simp only at hng
    set nd := need ops env.tsPerHour { v0 with bat := b } with hnd
    have hn : 0 < nd := by
      by_contra hneg
      have : nd * gain ops env.tsPerHour b ≤ 0 := mul_nonpos_of_nonpos_of_nonneg (not_lt.mp hneg) hg.le
      linarith
    by_cases hcut : min (min nd (left + a)) mx < v0.minChargingPower
    · -- the request is below the minimum power: nothing is charged
      have hp0 : power = 0 := by
        have : power = if min (min nd (left + a)) mx < v0.minChargingPower then 0 else min (min nd (left + a)) mx := hp
        rw [this, if_pos hcut]
      rw [hp0] at hl
      obtain ⟨ha0, hs⟩ := lin.target _ _ _ _ hl (le_refl _) (by
        have := hv.desired_le; rw [zero_mul, add_zero]; linarith)
      have havg : avg = 0 := by rw [ha0]; exact min_eq_left (lin.cap_nonneg b)
      rw [hs, havg, zero_mul, add_zero]
      by_cases hnm : nd < v0.minChargingPower
      · -- within one minimum-power step of the desired SoC
        refine le_trans (min_le_left _ _) ?_
        have h5 : nd * gain ops env.tsPerHour b < v0.minChargingPower * gain ops env.tsPerHour b :=
          mul_lt_mul_of_pos_right hnm hg
        have h6 : v0.minChargingPower * gain ops env.tsPerHour v0.bat ≤ slack := le_max_right _ _
        rw [hgain] at h5
        have hng' : nd * gain ops env.tsPerHour v0.bat = v0.desiredSoc - ops.soc b := by
          rw [← hgain]; exact hng
        linarith
      · -- the connector / station cannot supply the minimum power in this step
        have hF : minFullPower v0.minChargingPower mx (cap v0.bat) left = 0 := by
          unfold minFullPower
          rw [if_neg]
          intro hle
          have h7 : v0.minChargingPower ≤ min (min nd (left + a)) mx := by
            apply le_min
            · apply le_min (not_lt.mp hnm)
              have := min_le_left left mx
              linarith
            · exact le_trans hle (min_le_right _ _)
          exact absurd hcut (not_lt.mpr h7)
        rw [hF, zero_mul, add_zero]
        exact hlo
    · -- the request is honoured as without a minimum power
      have hp1 : power = min (min nd (left + a)) mx := by
        have : power = if min (min nd (left + a)) mx < v0.minChargingPower then 0 else min (min nd (left + a)) mx := hp
        rw [this, if_neg hcut]
      have hpge : 0 ≤ min (min nd (left + a)) mx := le_trans hmp (not_lt.mp hcut)
      have hp0 : 0 ≤ power := by rw [hp1]; exact hpge
      have hpn : power ≤ nd := by rw [hp1]; exact le_trans (min_le_left _ _) (min_le_left _ _)
      have hpg : power * gain ops env.tsPerHour b ≤ v0.desiredSoc - ops.soc b := by
        rw [← hng]; exact mul_le_mul_of_nonneg_right hpn hg.le
      obtain ⟨ha1, hs⟩ := lin.target _ _ _ _ hl hp0 (by have := hv.desired_le; linarith)
      have key := greedy_gain_arith nd (left + a) mx (cap b) (gain ops env.tsPerHour b) (ops.soc b)
        v0.desiredSoc hn (lin.cap_nonneg b) hg.le (by linarith)
      rw [max_eq_left hpge] at key
      rw [hs, ha1, hp1]
      refine le_trans ?_ key
      -- compare the two minima
      have hFle : minFullPower v0.minChargingPower mx (cap v0.bat) left
          ≤ max (min (min (left + a) mx) (cap b)) 0 := by
        unfold minFullPower
        split
        · rw [hu.2.2.2]
          apply max_le_max _ (le_refl _)
          apply min_le_min _ (le_refl _)
          apply min_le_min _ (le_refl _)
          linarith
        · exact le_max_right _ _
      have hmul := mul_le_mul_of_nonneg_right hFle hg.le
      rw [← hgain]
      have hsl : 0 ≤ slack := le_trans heps (le_max_left _ _)
      rcases le_total (v0.desiredSoc - slack) lo with h5 | h5
      · rw [min_eq_left h5] at hlo
        -- already within the slack: the SoC only rises
        refine le_trans (min_le_left _ _) ?_
        apply le_min
        · linarith
        · have : 0 ≤ max (min (min (left + a) mx) (cap b)) 0 * gain ops env.tsPerHour b :=
            mul_nonneg (le_max_right _ _) hg.le
          linarith
      · rw [min_eq_right h5] at hlo
        apply min_le_min
        · linarith
        · linarith

/-- **greedy, one step, the vehicle served first, with a minimum charging power** -/
theorem ruleStep_greedy_first_min (ops : BatOps α B) (law : BatLaw ops) (env : StratEnv α) (top : α)
    (cap : B → α) (lin : LinearLoad ops env.tsPerHour top cap) (heps : 0 ≤ env.eps) (ht : 0 < env.tsPerHour)
    (v0 : VehicleS α B) (hv : VehOk ops top v0) (hmp : 0 ≤ v0.minChargingPower)
    (csId gid : String) (mx : α) (hcs : v0.cs = some csId)
    (w : SWorld α B) (d : StepGcs α) (w' : SWorld α B) (cmds : List (String × α))
    (hst : StationIs w csId gid mx) (rest : List String)
    (hsort : sortedVehicleIds w = v0.id :: rest) (hdear : Dear env d) (lo : α)
    (hat : At (Reached ops cap v0 (min (v0.desiredSoc -
      max env.eps (v0.minChargingPower * gain ops env.tsPerHour v0.bat)) lo)) v0 w)
    (h : ruleStep .greedy ops env (enter w d) = .ok (w', cmds)) :
    At (Reached ops cap v0 (min (v0.desiredSoc -
      max env.eps (v0.minChargingPower * gain ops env.tsPerHour v0.bat))
      (lo + minFullPower v0.minChargingPower mx (cap v0.bat) (headroom d gid)
        * gain ops env.tsPerHour v0.bat))) v0 w' := by
  refine ruleStep_first .greedy ops law env (fun w1 => True) _ _ v0 csId hcs (fun _ _ => trivial)
    (fun _ _ _ _ _ => trivial) (fun _ _ _ _ _ _ => trivial) ?_ ?_ (enter w d) w' cmds ?_ rest hsort
    trivial hat h
  · intro w1 b cs gc cheap a power used b' avg _ _ hr _ _ hcc
    exact reached_up ops cap v0 _ b b' hr
      (chargeCall_up .greedy ops env top cap lin cheap { v0 with bat := b } power b' avg hcc)
  · intro w1 b csId' cs gc isCheap r _ _ hr hloc
    exact reached_up ops cap v0 _ b r.1 hr
      (surplusLocal_up ops env top cap lin isCheap { v0 with bat := b } hv.v2g csId' cs gc r hloc)
  · intro b cs0 gc cheap a power used b' avg hr hcs0 hid hgm hgid hch ha0 hpl hcc
    obtain ⟨hmx, hmn, hpar⟩ := hst cs0 hcs0 hid
    have hcf : cheap = false := by
      have := hdear gc hgm
      rw [this] at hch
      exact (Except.ok.inj hch).symm
    subst hcf
    have hhead : headroom d gid = gc.curMax - gc.currentLoad := by
      unfold headroom
      have : (enter w d).gc? cs0.parent = some gc := hgid
      unfold SWorld.gc? enter at this
      simp only at this
      rw [← hpar, this]
    rw [hhead]
    exact greedy_call_reached_min ops env top cap lin heps ht v0 hv hmp { cs0 with currentPower := 0 } mx
      hmx hmn rfl (gc.curMax - gc.currentLoad) a lo ha0 b power used b' avg hr hpl hcc

/-- SoC gained in the steps `ds` at full available power, counting only steps that offer the minimum -/
def minFullGain (ops : BatOps α B) (tsph : α) (b0 : B) (mp mx capv : α) (gid : String) :
    List (StepGcs α) → α
  | [] => 0
  | d :: ds => minFullPower mp mx capv (headroom d gid) * gain ops tsph b0
      + minFullGain ops tsph b0 mp mx capv gid ds

/-- **greedy over a standing period, the vehicle served first, with a minimum charging power** -/
theorem runLast_greedy_first_min (ops : BatOps α B) (law : BatLaw ops) (top : α) (cap : B → α)
    (v0 : VehicleS α B) (hv : VehOk ops top v0) (hmp : 0 ≤ v0.minChargingPower)
    (csId gid : String) (mx : α) (hcs : v0.cs = some csId) (w0 : SWorld α B)
    (hst : StationIs w0 csId gid mx) (rest : List String)
    (hsort : sortedVehicleIds w0 = v0.id :: rest) (ds : List (StepGcs α)) :
    ∀ (env : StratEnv α) (w : SWorld α B) (lo : α) (wl : SWorld α B),
      LinearLoad ops env.tsPerHour top cap → 0 ≤ env.eps → 0 < env.tsPerHour →
      (∀ d ∈ ds, Dear env d) → Keep w0 w →
      At (Reached ops cap v0 (min (v0.desiredSoc -
        max env.eps (v0.minChargingPower * gain ops env.tsPerHour v0.bat)) lo)) v0 w →
      runLast .greedy ops env w ds = .ok wl →
      At (Reached ops cap v0 (min (v0.desiredSoc -
        max env.eps (v0.minChargingPower * gain ops env.tsPerHour v0.bat))
        (lo + minFullGain ops env.tsPerHour v0.bat v0.minChargingPower mx (cap v0.bat) gid ds))) v0 wl := by
  induction ds with
  | nil =>
    intro env w lo wl _ _ _ _ _ hat h
    unfold runLast at h
    simp only [Except.ok.injEq] at h
    subst h
    simpa [minFullGain] using hat
  | cons d ds ih =>
    intro env w lo wl lin heps ht hd hk hat h
    obtain ⟨w', cmds, hs, hr⟩ := runLast_cons .greedy ops env w d ds wl h
    have hat' := ruleStep_greedy_first_min ops law env top cap lin heps ht v0 hv hmp csId gid mx hcs w d w' cmds
      (stationIs_keep w0 w csId gid mx hk hst) rest
      (by rw [keep_sorted w0 w hk]; exact hsort) (hd d (by simp)) lo hat hs
    have hk' : Keep w0 w' := ruleStep_keep .greedy ops env w0 (enter w d) w' cmds (keep_enter w0 w d hk) hs
    have := ih (tick env) w' _ wl lin heps ht (fun d' hd' => hd d' (List.mem_cons_of_mem _ hd')) hk' hat' hr
    have e1 : (tick env).eps = env.eps := rfl
    have e2 : (tick env).tsPerHour = env.tsPerHour := rfl
    rw [e1, e2] at this
    simpa [minFullGain, add_assoc] using this

end SpiceEv.StratRun
