"""FB1: estimated departure before the registration step -> negative energy need (real code, /repo read-only)"""
import sys, json, tempfile, warnings, io, contextlib
from argparse import Namespace
from pathlib import Path
sys.path.insert(0, sys.argv[1] if len(sys.argv) > 1 else "/repo")
warnings.simplefilter("ignore")
from spice_ev import scenario
from spice_ev.generate import generate_schedule as gs
sc = {"scenario": {"start_time": "2023-01-02T08:00:00+01:00", "interval": 15, "n_intervals": 8},
      "components": {
          "vehicle_types": {"t": {"name": "t", "capacity": 50, "mileage": 40, "charging_curve": [[0, 11], [1, 11]],
                                  "battery_efficiency": 1.0}},
          "vehicles": {"v0": {"vehicle_type": "t", "soc": 0.2, "desired_soc": 1.0,
                              "connected_charging_station": "CS0",
                              # the bus was expected to leave at 07:00, it is still standing at 08:00
                              "estimated_time_of_departure": "2023-01-02T07:00:00+01:00"}},
          "grid_connectors": {"GC1": {"max_power": 50, "cost": {"type": "fixed", "value": 0.3}}},
          "charging_stations": {"CS0": {"max_power": 11, "parent": "GC1"}},
          "batteries": {}, "photovoltaics": {}},
      "events": {"grid_operator_signals": [], "fixed_load": {}, "local_generation": {}, "vehicle_events": []}}
s = scenario.Scenario(json.loads(json.dumps(sc)), ".")
flex = gs.generate_flex_band(s, "GC1", None)
print("intervals:", flex["intervals"])
print("vehicle flex max:", flex["vehicles"]["max"], "band max:", flex["max"])
with tempfile.TemporaryDirectory() as d:
    d = Path(d)
    (d / "s.json").write_text(json.dumps(sc))
    (d / "grid.csv").write_text("residual load,curtailment\n" + "5,0\n" * 8)
    args = Namespace(scenario=str(d / "s.json"), input=str(d / "grid.csv"), output=str(d / "out.csv"),
                     individual=False, core_standing_time=None, visual=False)
    out = None
    with contextlib.redirect_stdout(io.StringIO()):
        try:
            gs.generate_schedule(args)
            out = (d / "out.csv").read_text()
        except Exception as e:
            out = "generate_schedule raised %s %s" % (type(e).__name__, e)
    print(out)
