/-
Model of spice_ev/loading_curve.py (class LoadingCurve), transliterated statement by
statement.  Generic in the number type; Python exceptions are explicit (`Py = Except PyErr`).
-/
import SpiceEv.Py
namespace SpiceEv

structure Curve (α : Type) where
  points : List (α × α)
  maxPower : α
  deriving Repr

section
variable {α : Type} [Add α] [Sub α] [Mul α] [Div α] [LT α] [LE α]
  [DecidableLT α] [DecidableLE α] [OfNat α 0] [OfNat α 1]

/-- `a == b` on numbers, via `<` only. -/
@[inline] def numEq (a b : α) : Bool := !(decide (a < b)) && !(decide (b < a))

/-- `max_power` accumulation of `LoadingCurve.__init__`: `max(p[1], self.max_power)` from 0. -/
def curveMaxPower (pts : List (α × α)) : α := pts.foldl (fun m p => pymax p.2 m) 0

/-- `LoadingCurve.__init__`: stable sort by SoC, running maximum, two endpoint assertions. -/
def Curve.new (pts : List (α × α)) : Py (Curve α) :=
  let sorted := pts.mergeSort (fun a b => decide (a.1 ≤ b.1))
  match sorted.head?, sorted.getLast? with
  | some f, some l =>
    if numEq f.1 0 && numEq l.1 1 then .ok ⟨sorted, curveMaxPower sorted⟩
    else .error .assertion
  | _, _ => .error .indexError

/-- loop of `power_from_soc`; `prev` is `self.points[i-1]` (none for `i == 0`). -/
def powerFromSocAux (soc : α) : Option (α × α) → List (α × α) → Py α
  | _, [] => .error .noneResult          -- loop ends without `return`: Python returns None
  | prev, p :: rest =>
    if soc ≤ p.1 then
      match prev with
      | none => .ok p.2
      | some q => do
        let t ← pydiv (soc - q.1) (p.1 - q.1)
        .ok (q.2 + (p.2 - q.2) * t)
    else powerFromSocAux soc (some p) rest

/-- `LoadingCurve.power_from_soc` -/
def Curve.powerFromSoc (c : Curve α) (soc : α) : Py α := do
  pyassert (decide (soc ≤ 1))
  powerFromSocAux soc none c.points

/-- one iteration of the section loop of `clamped` (points already pre-scaled) -/
def clampSection (L : α) (p q : α × α) : Py (List (α × α)) :=
  if p.2 ≤ L ∧ q.2 ≤ L then .ok [p]
  else if L ≤ p.2 ∧ L ≤ q.2 then .ok [(p.1, L)]
  else if p.2 ≤ L ∧ L ≤ q.2 then do
    let t ← pydiv (L - p.2) (q.2 - p.2)
    .ok [p, (p.1 + (q.1 - p.1) * t, L)]
  else if L ≤ p.2 ∧ q.2 ≤ L then do
    let t ← pydiv (L - p.2) (q.2 - p.2)
    .ok [(p.1, L), (p.1 + (q.1 - p.1) * t, L)]
  else .ok []

/-- the `for … else` of `clamped`: all sections, then the last point `(1.0, min(L, last power))` -/
def clampSections (L : α) : List (α × α) → Py (List (α × α))
  | [] => .error .exception              -- `next_point` unbound (NameError); unreachable for a constructed curve
  | [_] => .error .exception
  | [p, q] => do
    let s ← clampSection L p q
    .ok (s ++ [(1, pymin L q.2)])
  | p :: q :: rest => do
    let s ← clampSection L p q
    let r ← clampSections L (q :: rest)
    .ok (s ++ r)

/-- `LoadingCurve.clamped(max_power, pre_scale, post_scale)` -/
def Curve.clamped (c : Curve α) (L pre post : α) : Py (Curve α) := do
  let preScaled := c.points.map (fun p => (p.1, pre * p.2))
  let newPoints ← clampSections L preScaled
  Curve.new (newPoints.map (fun p => (p.1, post * p.2)))

/-- `while` loop of `get_section_boundary`, `fuel` = number of points. -/
def sectionBoundaryAux (pts : Array (α × α)) (soc : α) : Nat → Nat → Nat → Nat × Nat
  | 0, i1, i2 => (i1, i2)
  | fuel + 1, i1, i2 =>
    if i1 + 1 < pts.size then
      match pts[i1 + 1]? with
      | some x2 => if x2.1 ≤ soc then sectionBoundaryAux pts soc fuel (i1 + 1) (i1 + 1)
                   else (i1, i1 + 1)
      | none => (i1, i2)
    else (i1, i2)

/-- `LoadingCurve.get_section_boundary` (for curves with ≥ 2 points). -/
def Curve.sectionBoundary (c : Curve α) (soc : α) : Nat × Nat :=
  sectionBoundaryAux c.points.toArray soc c.points.length 0 1

end
end SpiceEv

namespace SpiceEv
section
variable {α : Type} [Add α] [Sub α] [Mul α] [Div α] [LT α] [LE α]
  [DecidableLT α] [DecidableLE α] [OfNat α 0] [OfNat α 1]
/-- `components.VehicleType.__init__`: the discharge curve used when none is configured:
`self.charging_curve.clamped(max_power, pre_scale=self.v2g_power_factor)`. -/
def defaultDischargeCurve (charging : Curve α) (v2gPowerFactor : α) : Py (Curve α) :=
  charging.clamped charging.maxPower v2gPowerFactor 1
end
end SpiceEv
