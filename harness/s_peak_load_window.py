"""S_PEAK_LOAD_WINDOW — step-level, bit-exact tie of the Lean model of `PeakLoadWindow`
(lean/SpiceEv/Model/StratPeakLoadWindow.lean) to the real class.

The real `Scenario.run('peak_load_window')` is executed on scenarios of harness/scen.py; `PeakLoadWindow.step`
is wrapped at run time: the complete state the step reads (world state, event table `self.events`, time windows,
`self.peak_power`, clock) is rendered as one protocol line (`step_peak_load_window`), the real step runs, and
commands, connector loads, `gc.window`, `self.peak_power`, vehicle SoCs and `vehicle.schedule`, battery SoCs after
the step are compared with the model's line by value (floats at the bit level).  `PeakLoadWindow.__init__` is wrapped
as well: the `self.peak_power` it derives from the event table is compared with `init_peak_load_window`.

`tie(full)` is the context manager other run-level checks can use to add this stream to theirs.
"""
import contextlib
import datetime
import random

import engine
import scen
from wire import enc, dec
from c10 import r_battery, r_cost, compare  # noqa: F401  (compare: by value, as in C10)

engine.use_repo()

PID = "S_PEAK_LOAD_WINDOW"
THEOREM_MODULES = ["C04_PeakLoadWindow", "C05_PeakLoadWindow", "C06_PeakLoadWindow", "C09_PeakLoadWindow", "C11_PeakLoadWindow",
                   "C17_PeakLoadWindow"]
CHUNK = 2
BISECT_FUEL = 2200
RULE = ("scenarios from the grammar in harness/scen.py for strategy peak_load_window (fixed load, generation, one or "
        "two stationary batteries incl. unlimited, V2G-capable types, limit/price/window signals, CONCURRENCY, station and "
        "vehicle minimum power, one or two connectors, feasible and infeasible trips, window table variants); every "
        "strategy step of every run is one model evaluation, every constructor call one more; non-trivial = a run in "
        "which at least one station or battery carries power; distinct = distinct (seed, index, variant)")
ASSUMPTIONS = ["model vs implementation: floats compared by value (+0.0 == -0.0, int 0 == 0.0), no tolerance",
               "all datetimes of a scenario are timezone-aware with fixed offsets (what fromisoformat yields); mixing "
               "naive and aware datetimes (TypeError in Python) is not modelled",
               "ints in load dicts / powers are rendered as floats: CPython's sum() adds an int uncompensated, the model "
               "adds the equal float compensated; identical for the int 0 (the only int that occurs: `avg_power: 0`)"]
UNPROVED = ["the theorems are over ordered fields (exact arithmetic); IEEE rounding is covered by this bit-level stream only",
            "C09/C11 service and signal-following sentences are proved for the plan of one step under explicit premises "
            "(see notes/S_PEAK_LOAD_WINDOW.md); the run-level statements stay with the oracles of C09/C11"]

US_DAY = 86400 * 1000000


def f(x):
    return enc(float(x))


def us_of(t):
    return ((t.hour * 60 + t.minute) * 60 + t.second) * 1000000 + t.microsecond


def off_us(d):
    off = d.utcoffset()
    if off is None:
        raise AssertionError("naive datetime in a scenario: not modelled")
    return (off.days * 86400 + off.seconds) * 1000000 + off.microseconds


def w_dt(d):
    return "%d %d S %d" % (d.toordinal(), us_of(d), off_us(d))


def inst(d):
    """the model's `DateTime.instant`"""
    return d.toordinal() * US_DAY + us_of(d) - off_us(d)


def td_us(td):
    return (td.days * 86400 + td.seconds) * 1000000 + td.microseconds


def tok(s):
    s = str(s)
    if not s or any(c.isspace() for c in s):
        raise AssertionError("identifier not renderable as a token: %r" % s)
    return s


def r_windows(tw):
    parts = [str(len(tw))]
    for op, seasons in tw.items():
        parts += [tok(op), str(len(seasons))]
        for info in seasons.values():
            parts += [str(info["start"].toordinal()), str(info["end"].toordinal())]
            if "windows" not in info:
                parts.append("N")
            else:
                parts += ["S", str(len(info["windows"]))]
                for lvl, ws in info["windows"].items():
                    parts += [tok(lvl), str(len(ws))]
                    for a, b in ws:
                        parts += [str(us_of(a)), str(us_of(b))]
    return " ".join(parts)


def r_table(table):
    from spice_ev import events
    parts = [str(len(table))]
    for evs in table:
        parts.append(str(len(evs)))
        for e in evs:
            if type(e) is events.LocalEnergyGeneration:
                parts += ["G", tok(e.grid_connector_id), tok(e.name), f(e.value)]
            elif type(e) is events.FixedLoad:
                parts += ["L", tok(e.grid_connector_id), tok(e.name), f(e.value)]
            elif type(e) is events.GridOperatorSignal:
                parts += ["S", tok(e.grid_connector_id), "N" if e.max_power is None else "S " + f(e.max_power)]
            else:
                raise AssertionError("unexpected event type in PeakLoadWindow.events: %r" % type(e))
    return " ".join(parts)


def r_gcs(strat, peaks=None):
    ws = strat.world_state
    peaks = strat.peak_power if peaks is None else peaks
    parts = [str(len(ws.grid_connectors))]
    for gid, gc in ws.grid_connectors.items():
        parts += [tok(gid), f(gc.cur_max_power), r_cost(gc.cost), str(len(gc.current_loads))]
        for k, v in gc.current_loads.items():
            parts += [tok(k), f(v)]
        parts += ["~None" if gc.grid_operator is None else tok(gc.grid_operator),
                  "N" if gc.voltage_level is None else "S " + tok(gc.voltage_level),
                  "N" if gc.window is None else "S %d" % int(bool(gc.window)),
                  f(peaks.get(gid, 0))]
    return " ".join(parts)


def render_world(strat):
    ws = strat.world_state
    parts = ["step_peak_load_window", f(strat.EPS), w_dt(strat.current_time), str(td_us(strat.interval)),
             str(inst(strat.start_time)), str(inst(strat.stop_time)), str(BISECT_FUEL),
             r_windows(strat.time_windows), r_table(strat.events), r_gcs(strat)]
    parts.append(str(len(ws.charging_stations)))
    for cid, cs in ws.charging_stations.items():
        parts += [tok(cid), tok(cs.parent), f(cs.max_power), f(cs.min_power), f(cs.current_power)]
    parts.append(str(len(ws.vehicles)))
    for vid, v in ws.vehicles.items():
        etd = v.estimated_time_of_departure
        pts = v.vehicle_type.charging_curve.points
        sched = getattr(v, "schedule", None)
        parts += [tok(vid), "N" if v.connected_charging_station is None else "S " + tok(v.connected_charging_station),
                  f(v.desired_soc), "N" if etd is None else "S %d" % inst(etd),
                  f(v.vehicle_type.min_charging_power), "1" if v.vehicle_type.v2g else "0",
                  f(v.vehicle_type.discharge_limit), r_battery(v.battery),
                  str(len(pts))] + [f(p[1]) for p in pts] + ["N" if sched is None else "S " + f(sched)]
    parts.append(str(len(ws.batteries)))
    for bid, b in ws.batteries.items():
        parts += [tok(bid), tok(b.parent), f(b.min_charging_power), r_battery(b)]
    return " ".join(parts)


def kv(d):
    return " ".join([str(len(d))] + ["%s %s" % (k, f(v)) for k, v in d.items()])


def render_result(strat, res):
    ws = strat.world_state
    gcs = " ; ".join("%s %s %s %s" % (gid, kv(gc.current_loads),
                                      "N" if gc.window is None else "S %d" % int(bool(gc.window)),
                                      f(strat.peak_power[gid]))
                     for gid, gc in ws.grid_connectors.items())
    vs = " ".join("%s %s" % (f(v.battery.soc), "N" if getattr(v, "schedule", None) is None else "S " + f(v.schedule))
                  for v in ws.vehicles.values())
    return (kv(res["commands"]) + " | " + gcs + " | " + vs + " | " + " ".join(f(b.soc) for b in ws.batteries.values()))


def render_init(strat):
    """request for `init_peak_load_window`; called right after the real `__init__` (the world state and the event
    table are as the constructor's peak loop saw them: `__init__` changes neither loads nor the table afterwards)"""
    start = strat.start_time
    return " ".join(["init_peak_load_window", w_dt(start), str(td_us(strat.interval)),
                     r_windows(strat.time_windows), r_table(strat.events), r_gcs(strat, peaks={})])


def render_init_result(strat):
    return kv({gid: strat.peak_power[gid] for gid in strat.world_state.grid_connectors})


def perturb(strat, seed, n):
    """boundary states (variant `boundary`): before some steps the strategy's own state `peak_power` is set so that
    a comparison of the battery section meets equality: sum(loads) - peak == ±min_charging_power exactly; and vehicle SoCs
    are put on the EPS boundary of the needs-charging tests"""
    import math
    rng = random.Random("%s:%d" % (seed, n))
    ws = strat.world_state
    for gid, gc in ws.grid_connectors.items():
        bats = [b for b in ws.batteries.values() if b.parent == gid]
        if not bats or rng.random() < 0.5:
            continue
        s = sum(gc.current_loads.values())
        m = rng.choice(bats).min_charging_power * rng.choice([1, -1])
        cand = s - m
        for _ in range(6):
            if s - cand == m:
                break
            cand = math.nextafter(cand, -math.inf if s - cand < m else math.inf)
        strat.peak_power[gid] = cand
    # EPS boundaries of the "charged enough" / "needs charging" tests: desired_soc - soc == EPS exactly, or one ulp
    # to either side
    for v in ws.vehicles.values():
        if v.connected_charging_station is None or rng.random() < 0.75:
            continue
        d, eps = v.desired_soc, strat.EPS
        cand = d - eps
        for _ in range(8):
            if d - cand == eps:
                break
            cand = math.nextafter(cand, -math.inf if d - cand < eps else math.inf)
        mode = rng.choice(["eq", "eq", "more", "less"])
        if mode == "more":
            cand = math.nextafter(cand, -math.inf)
        elif mode == "less":
            cand = math.nextafter(cand, math.inf)
        if 0 <= cand <= 1:
            v.battery.soc = cand


@contextlib.contextmanager
def tie(full, stats=None):
    """wrap the real class for the duration of a `scen.run_real(full)`; yields a dict with `lines` (model requests),
    `impl` (implementation results), `active` (steps with a non-zero command)"""
    from spice_ev import strategy as st_mod
    cls = st_mod.class_from_str("peak_load_window")
    orig_step, orig_init = cls.step, cls.__init__
    box = {"lines": [], "impl": [], "active": 0, "stats": set()}

    def step(self, *a, **k):
        if type(self) is not cls or a or k:
            return orig_step(self, *a, **k)
        if full.get("meta", {}).get("perturb"):
            perturb(self, full["meta"]["perturb"], len(box["lines"]))
        line = render_world(self)
        try:
            res = orig_step(self)
        except Exception as e:
            box["lines"].append(line)
            box["impl"].append("!" + type(e).__name__)
            box["stats"].add("step_raises_" + type(e).__name__)
            raise
        box["lines"].append(line)
        box["impl"].append(render_result(self, res))
        if any(abs(x) > 1e-5 for x in res["commands"].values()):
            box["active"] += 1
        if any(bid in gc.current_loads for gc in self.world_state.grid_connectors.values()
               for bid in self.world_state.batteries):
            box["stats"].add("battery_command")
        for gc in self.world_state.grid_connectors.values():
            box["stats"].add("window_%s" % gc.window)
        return res

    def init(self, *a, **k):
        orig_init(self, *a, **k)
        if type(self) is cls:
            box["lines"].append(render_init(self))
            box["impl"].append(render_init_result(self))

    cls.step, cls.__init__ = step, init
    try:
        yield box
    finally:
        cls.step, cls.__init__ = orig_step, orig_init


VARIANTS = ["feasible", "infeasible", "battery", "two_batt_v2g", "limit_gen", "overstay", "tables", "malformed",
            "wide_windows", "boundary"]


def _parse(t):
    return datetime.datetime.fromisoformat(t)


def make_case(seed, i, variant):
    rng = random.Random("S_PLW:%s:%s:%s" % (seed, i, variant))
    feats = {"window": False, "window_signal": None}
    if variant == "battery":
        feats["battery"] = True
    elif variant == "two_batt_v2g":
        feats.update({"battery": True, "v2g": True, "generation": True})
    elif variant == "limit_gen":
        feats.update({"limit_signal": True, "generation": True, "fixed_load": True})
    elif variant == "boundary":
        feats.update({"battery": True, "fixed_load": True})
    full = scen.gen_scenario(rng, strategy="peak_load_window", feasible=(variant != "infeasible"), max_steps=40,
                             features=feats)
    sc = full["scenario"]
    dt = datetime.timedelta(minutes=sc["scenario"]["interval"])
    if variant == "overstay":
        # vehicles that stay beyond their estimated departure, or have none: the announced time is moved
        # forward / dropped, the departure event stays where it is
        for e in sc["events"]["vehicle_events"]:
            if e["event_type"] == "arrival" and rng.random() < 0.6:
                etd = _parse(e["update"]["estimated_time_of_departure"])
                e["update"]["estimated_time_of_departure"] = (etd - rng.choice([1, 2, 5]) * dt).isoformat()
        for v in sc["components"]["vehicles"].values():
            if "estimated_time_of_departure" in v:
                r = rng.random()
                if r < 0.4:
                    del v["estimated_time_of_departure"]
                elif r < 0.8:
                    etd = _parse(v["estimated_time_of_departure"])
                    v["estimated_time_of_departure"] = (etd - rng.choice([1, 2, 5]) * dt).isoformat()
    elif variant == "tables":
        # several seasons / operators; a season without a "windows" key; the scenario year missing from the table
        tw = full["meta"]["time_windows"]
        s1 = tw["default_grid_operator"]["s1"]
        tw["default_grid_operator"] = {
            "s0": {"start": "2020-01-01", "end": "2020-01-%02d" % rng.choice([5, 6, 9])},
            "s1": s1}
        if rng.random() < 0.5:
            tw["default_grid_operator"]["s0"]["windows"] = {"MV": [["00:00", "06:30"]], "LV": [["05:00", "22:00"]]}
        tw["op2"] = {"all": {"start": "2020-01-01", "end": "2020-12-31", "windows": {
            lvl: [[rng.choice(["00:00", "06:45"]), rng.choice(["07:00", "12:00"])], ["22:10", "03:20"]]
            for lvl in ["HV", "MV", "LV"]}}}
        gcs = list(sc["components"]["grid_connectors"].values())
        if rng.random() < 0.6:
            gcs[-1]["grid_operator"] = "op2"
        if rng.random() < 0.3:
            del gcs[0]["voltage_level"]
        if rng.random() < 0.25:
            for op in tw.values():
                for info in op.values():
                    info["start"] = "2019" + info["start"][4:]
                    info["end"] = "2019" + info["end"][4:]
    elif variant == "wide_windows":
        # most of the standing time lies inside windows and all vehicles share one connector: several vehicles
        # need peak shaving / the bisection in the same step
        h = _parse(sc["scenario"]["start_time"]).hour
        full["meta"]["time_windows"] = {"default_grid_operator": {"s1": {
            "start": "2020-01-01", "end": "2020-12-31", "windows": {
                lvl: [["%02d:%02d" % ((h + rng.choice([0, 1, 2])) % 24, rng.choice([0, 20])),
                       "%02d:00" % ((h + rng.choice([5, 9, 14])) % 24)]] for lvl in ["HV", "MV", "LV"]}}}}
        g0 = next(iter(sc["components"]["grid_connectors"]))
        for cs in sc["components"]["charging_stations"].values():
            cs["parent"] = g0
        for v in sc["components"]["vehicles"].values():
            v["soc"] = rng.choice([0.1, 0.2, 0.4])
    elif variant == "malformed":
        kind = rng.choice(["missing_station", "zero_efficiency", "unknown_gc_event"])
        full["meta"]["malformed"] = kind
        if kind == "missing_station":
            arr = [e for e in sc["events"]["vehicle_events"] if e["event_type"] == "arrival"]
            if arr:
                rng.choice(arr)["update"]["connected_charging_station"] = "CS_missing"
        elif kind == "zero_efficiency":
            rng.choice(list(sc["components"]["vehicle_types"].values()))["battery_efficiency"] = 0.0
        else:
            sc["events"]["grid_operator_signals"].append({
                "signal_time": sc["scenario"]["start_time"], "start_time": sc["scenario"]["start_time"],
                "grid_connector_id": "GC_unknown", "max_power": 5.0})
    if variant == "boundary":
        full["meta"]["perturb"] = "S_PLW:%s:%s" % (seed, i)
    full["pid"] = PID
    return full


def gen_cases(tier, seed):
    n = 100 if tier == "quick" else 1000
    for i in range(n):
        for v in sorted(set(VARIANTS)):
            yield {"seed": seed, "i": i, "variant": v, "pid": PID}


def eval_case(case):
    full = case if "scenario" in case else make_case(case["seed"], case["i"], case["variant"])
    with tie(full) as box:
        res = scen.run_real(full, timeout_s=120, collect_ops=False)
    stats = sorted(box["stats"]) + ["variant_" + case.get("variant", "replay")]
    if res.get("timeout"):
        stats.append("timeout")
    if res.get("escaped"):
        stats.append("escaped_" + res["escaped"].split(":")[0])
    if res.get("aborted"):
        stats.append("aborted")
    return {"lines": box["lines"], "impl": box["impl"], "violations": [], "nontrivial": box["active"] > 0,
            "stats": stats, "replay_case": full, "num": {"steps_compared": len(box["lines"])}}
