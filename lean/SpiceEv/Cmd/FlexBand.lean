/- driver commands for Model/FlexBand.lean (Float stream: bit-level comparison with the real
`generate_flex_band` / `generate_individual_flex_band`).  The request format is documented in
harness/s_flexband.py, which renders the scenario in exactly this order. -/
import SpiceEv.Wire
import SpiceEv.Model.FlexBand
import SpiceEv.Model.Battery
import SpiceEv.Cmd.Battery
import SpiceEv.Cmd.Events
import SpiceEv.Cmd.Util
import SpiceEv.Cmd.Strategies
namespace SpiceEv.Cmd.FlexBand
open SpiceEv SpiceEv.FlexBand

/-- CPython 3.12 `sum()` over a list that mixes ints (flag `true`) and floats, start value int `0`:
ints are added exactly while no float has been seen (the values here are small integers, exact in a
double); the first float is added to the int result by an ordinary `int + float`; afterwards floats
are accumulated with Neumaier's compensation and ints by a plain `f_result += (double)value`; the
compensation is added at the end if it is non-zero and finite. -/
def floatSumTagged (l : List (Float × Bool)) : Float :=
  let step (st : Option Float × Float × Float) (x : Float × Bool) : Option Float × Float × Float :=
    match st with
    | (some i, _, _) => if x.2 then (some (i + x.1), 0, 0) else (none, i + x.1, 0)
    | (none, f, c) =>
      if x.2 then (none, f + x.1, c)
      else
        let t := f + x.1
        if Float.abs x.1 ≤ Float.abs f then (none, t, c + ((f - t) + x.1))
        else (none, t, c + ((x.1 - t) + f))
  match l.foldl step (some 0, 0, 0) with
  | (some i, _, _) => i
  | (none, f, c) => if c != 0 && c.isFinite then f + c else f

/-- the battery of Model/Battery.lean behind `FlexBand.Ops`; `T` = `interval.total_seconds() / 3600` -/
def floatOps (T : Float) : Ops Float (Battery Float) where
  capacity b := b.capacity
  efficiency b := b.efficiency
  soc b := b.soc
  setSoc b s := { b with soc := s }
  loadMax b := b.loadingCurve.maxPower
  available b := (b.getAvailablePower T).map (fun r => r.2)
  sum := floatSum
  sumTagged := floatSumTagged
  ofInt := Float.ofInt

/-- `timedelta(hours=1) / interval`: CPython divides the two microsecond counts as ints (correctly
rounded); both are exact doubles, so the double division is the same -/
def tsPerHour (interval : Int) : Float := Float.ofInt 3600000000 / Float.ofInt interval

/-- `Strategy.EPS` (the literal `1e-5`; only used by the counters of `Strategy.step`) -/
def stratEps : Float := 1e-5

def rNum (x : Float) : String := Wire.render x
def rNums (l : List Float) : String := renderList rNum l

def pScen : P (Scen Float (Battery Float) × String × Option CoreStandingTime × Float) := do
  let eps ← P.num Float
  let interval ← P.int
  let n ← P.nat
  let start ← Cmd.Util.pDateTime
  let stop ← P.int
  let gcId ← P.tok
  let cst ← Cmd.Util.pCore
  let connectors ← P.list (Cmd.Events.pConnector (α := Float))
  let stations ← P.list (do
    let s ← Cmd.Events.pStation (α := Float); let mn ← P.num Float; pure (s, mn))
  let vehicles ← P.list (Cmd.Events.pVehicle (α := Float))
  let vtypes ← P.list (do
    let vid ← P.tok; let v2g ← P.bool; let f ← P.num Float; let mc ← P.num Float
    let b ← Cmd.Strategies.pBattery
    let li ← P.bool
    pure (vid, ({ battery := b, v2g := v2g, v2gFactor := f, minChargingPower := mc, loadMaxInt := li } : VehType Float (Battery Float))))
  let batteries ← P.list (do
    let name ← P.tok; let parent ← P.tok; let b ← Cmd.Strategies.pBattery; pure (name, parent, b))
  let vehicleEvents ← P.list (Cmd.Events.pEvent (α := Float))
  let gridSignals ← P.list (Cmd.Events.pEvent (α := Float))
  let fixedLoads ← P.list (Cmd.Events.pValuesList (α := Float))
  let localGen ← P.list (Cmd.Events.pValuesList (α := Float))
  let sc : Scen Float (Battery Float) :=
    { connectors, stations := stations.map (·.1), stationMin := stations.map (fun s => (s.1.1, s.2))
      vehicles, vtypes, batteries, start, stop, interval, n
      events := { fixedLoads, localGen, gridSignals, vehicleEvents } }
  pure (sc, gcId, cst, eps)

def rInterval (iv : Interval Float) : String :=
  s!"{rNum iv.needed} {renderList (fun (t : Nat) => toString t) iv.time} {iv.numPresent}"

def rBat (b : BatInfo Float) : String :=
  s!"{rNum b.stored} {rNum b.power} {rNum b.free} {rNum b.efficiency}"

/-- `flexband eps interval n start stop gcId cst connectors stations vehicles vtypes batteries
vehicle_events grid_signals fixed_loads local_generation` →
`min | base | max | F capacity desired_energy v2g efficiency | vmin | vmax | B stored power free efficiency | I intervals` -/
def cmdFlexBand : P String := do
  let (sc, gcId, cst, eps) ← pScen
  let ops := floatOps (Cmd.Battery.hoursOfMicros sc.interval)
  match generateFlexBand ops eps stratEps (tsPerHour sc.interval) sc gcId cst with
  | .error e => pure (renderErr e)
  | .ok f =>
    pure (" | ".intercalate [rNums f.min, rNums f.base, rNums f.max,
      s!"F {rNum f.fleet.capacity} {rNum f.fleet.desiredEnergy} {renderBool f.fleet.v2g} {rNum f.fleet.efficiency}",
      rNums f.vmin, rNums f.vmax, "B " ++ rBat f.batteries,
      "I " ++ renderList rInterval f.intervals])

def rRec (r : ArrRec Float) : String :=
  s!"{r.vid} {rNum r.v2g} {r.tStart} {r.tEnd} {r.idxStart} {r.idxEnd} {rNum r.initSoc} {rNum r.energy} {rNum r.desiredSoc} {rNum r.efficiency} {rNum r.pMin} {rNum r.pMax}"

/-- `flexband_individual <same scenario tokens>` →
`V records per step | B stored power free efficiency init_discharge full_discharge | base | min | max` -/
def cmdIndividual : P String := do
  let (sc, gcId, _, _) ← pScen
  let ops := floatOps (Cmd.Battery.hoursOfMicros sc.interval)
  match generateIndividualFlexBand ops sc gcId with
  | .error e => pure (renderErr e)
  | .ok f =>
    pure (" | ".intercalate ["V " ++ renderList (renderList rRec) f.vehicles,
      s!"B {rBat f.batteries} {rNum f.batteries.initDischarge} {rNum f.batteries.fullDischarge}",
      rNums f.base, rNums f.min, rNums f.max])

def handlers : List (String × Handler) :=
  [("flexband", runP cmdFlexBand), ("flexband_individual", runP cmdIndividual)]

end SpiceEv.Cmd.FlexBand
