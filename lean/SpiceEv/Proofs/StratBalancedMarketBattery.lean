/-
The battery model (Model/Battery.lean) as the `Ops` of the `BalancedMarket` model, for any number
type, and the proof that it satisfies `SimLaw`: `load` / `unload` only ever write `soc`, so a copy of a
battery whose SoC is set back is the battery itself.  (This is the instance the driver runs on
`Float`: `Cmd.StratBalancedMarket.floatOpsX`.)
-/
import SpiceEv.Model.Battery
import SpiceEv.Proofs.StratBalancedMarketLimit
set_option linter.unusedSectionVars false
namespace SpiceEv.BalancedMarket
open SpiceEv
variable {α : Type} [Add α] [Sub α] [Mul α] [Div α] [Neg α] [LT α] [LE α]
  [DecidableLT α] [DecidableLE α] [OfNat α 0] [OfNat α 1] [BatNum α]

theorem adjustSoc_static (b : Battery α) (T : α) (cv : Curve α) (target : α) (r : Battery α × α)
    (h : b.adjustSoc T cv target = .ok r) : ∃ s, r.1 = { b with soc := s } := by
  unfold Battery.adjustSoc at h
  simp only [bind, Except.bind] at h
  split at h
  · cases h
  · split at h
    · cases h
    · simp only [Except.ok.injEq] at h
      subst h
      exact ⟨_, rfl⟩

theorem load_static (b : Battery α) (T : α) (mp ts tp : Option α) (r : Battery α × α × α)
    (h : b.load T mp ts tp = .ok r) : ∃ s, r.1 = { b with soc := s } := by
  unfold Battery.load at h
  simp only [bind, Except.bind] at h
  split at h
  · cases h
  · split at h
    · simp only [Except.ok.injEq] at h
      subst h
      exact ⟨b.soc, rfl⟩
    · split at h
      · cases h
      · split at h
        · cases h
        · rename_i r' hr'
          split at h
          · cases h
          · simp only [Except.ok.injEq] at h
            subst h
            exact adjustSoc_static b T _ _ r' hr'

theorem unload_static (b : Battery α) (T : α) (mp ts tp : Option α) (r : Battery α × α × α)
    (h : b.unload T mp ts tp = .ok r) : ∃ s, r.1 = { b with soc := s } := by
  unfold Battery.unload at h
  simp only [bind, Except.bind] at h
  split at h
  · cases h
  · split at h
    · simp only [Except.ok.injEq] at h
      subst h
      exact ⟨b.soc, rfl⟩
    · split at h
      · cases h
      · split at h
        · cases h
        · split at h
          · cases h
          · rename_i r' hr'
            simp only [Except.ok.injEq] at h
            subst h
            exact adjustSoc_static b T _ _ r' hr'

/-- "`s` is `b` up to its SoC" -/
def SameButSoc (b s : Battery α) : Prop := { s with soc := b.soc } = b

/-- **The battery model satisfies `SimLaw`.** -/
theorem modelOps_simLaw (T : α) : SimLaw (modelOps T) (SameButSoc (α := α)) where
  refl := fun b => rfl
  load := by
    intro b s mp ts tp s' a hR h
    simp only [modelOps, Except.map] at h
    split at h
    · cases h
    · rename_i r hr
      simp only [Except.ok.injEq, Prod.mk.injEq] at h
      obtain ⟨rfl, _⟩ := h
      obtain ⟨x, hx⟩ := load_static s T mp ts tp r hr
      unfold SameButSoc at hR ⊢
      rw [hx]
      exact hR
  unload := by
    intro b s mp ts tp s' a hR h
    simp only [modelOps, Except.map] at h
    split at h
    · cases h
    · rename_i r hr
      simp only [Except.ok.injEq, Prod.mk.injEq] at h
      obtain ⟨rfl, _⟩ := h
      obtain ⟨x, hx⟩ := unload_static s T mp ts tp r hr
      unfold SameButSoc at hR ⊢
      rw [hx]
      exact hR
  setSoc := fun b s x hR => hR
  restore := fun b s hR => hR

end SpiceEv.BalancedMarket
