/-
Lower side of the station bound, `−(maximum + E) ≤ power`, through the greedy / balanced step, the connector loop and
the final surplus pass of `Distributed.step` (uses "station entry = station power": a V2G discharge is only taken at a
station whose entry — hence whose power — is below `eps ≤ E` in absolute value, and moves at most the station maximum).
-/
import SpiceEv.Proofs.StratDistributedKeys
set_option linter.unusedSectionVars false
set_option linter.unusedSimpArgs false
set_option linter.unusedVariables false
namespace SpiceEv.Distrib
open SpiceEv SpiceEv.Frame
variable {α B : Type} [Field α] [LinearOrder α] [IsStrictOrderedRing α]

def LowerLe (E : α) (ss : List (StationS α)) : Prop := ∀ s ∈ ss, -(s.maxPower + E) ≤ s.currentPower

/-- invariant of the passes on the station side -/
def LInv (E : α) (w : SWorld α B) : Prop := (Booked w ∧ Disj w) ∧ MaxOK w.stations ∧ LowerLe E w.stations

theorem lowerLe_book (E : α) (w : SWorld α B) (v' : VehicleS α B) (g' : GcS α) (cs : StationS α) (d : α)
    (hcs : cs ∈ w.stations) (hd : 0 ≤ d ∨ (|cs.currentPower| < E ∧ -cs.maxPower ≤ d)) (h : LowerLe E w.stations) :
    LowerLe E (((w.setVehicle v').setGc g').setStation { cs with currentPower := cs.currentPower + d }).stations := by
  intro s hs
  rcases mem_setStation' _ _ s hs with rfl | ⟨hsm, _⟩
  · show -(cs.maxPower + E) ≤ cs.currentPower + d
    have h0 := h cs hcs
    rcases hd with hd | ⟨ha, hd⟩
    · linarith
    · have := (abs_lt.mp ha).1
      linarith
  · exact h s (by simpa using hsm)

theorem chargeCall_nonneg (rule : Rule) (ops : BatOps α B) (law : BatLaw ops) (env : StratEnv α) (cheap : Bool)
    (v : VehicleS α B) (power : α) (b' : B) (avg : α) (h : chargeCall rule ops env cheap v power = .ok (b', avg)) :
    0 ≤ avg := by
  unfold chargeCall at h
  cases rule with
  | greedy =>
    simp only at h
    split at h
    · exact (law.load_max _ _ _ _ h).1
    · split at h
      · exact (law.load_target _ _ _ _ h).1
      · simp only [Except.ok.injEq, Prod.mk.injEq] at h
        rw [← h.2]
  | balanced =>
    simp only at h
    exact (law.load_target _ _ _ _ h).1

theorem allocVehicle_linv (E : α) (rule : Rule) (ops : BatOps α B) (law : BatLaw ops) (env : StratEnv α)
    (st st' : SWorld α B × List (String × α) × List (String × α)) (vid : String)
    (hinv : LInv E st.1) (h : allocVehicle rule ops env st vid = .ok st') : LInv E st'.1 := by
  refine ⟨allocVehicle_booked rule ops env st st' vid hinv.1 h, allocVehicle_maxOK rule ops env st st' vid hinv.2.1 h, ?_⟩
  obtain ⟨v, hv, hc⟩ := allocVehicle_cases rule ops env st st' vid h
  rcases hc with ⟨_, he⟩ | ⟨csId, cs, gc, cheap, power, used, bat', avg, hcs, hst, hgc, _, _, hcc, he⟩
  · rw [he]; exact hinv.2.2
  · rw [he]
    exact lowerLe_book E _ _ _ cs avg (station?_some' _ _ _ hst).1
      (Or.inl (chargeCall_nonneg rule ops law env cheap v power bat' avg hcc)) hinv.2.2

theorem surplusVehicle_linv (E : α) (ops : BatOps α B) (law : BatLaw ops) (env : StratEnv α) (hE : env.eps ≤ E)
    (cheap : List (String × Bool)) (w w' : SWorld α B) (cmds cmds' : List (String × α)) (v : VehicleS α B)
    (hinv : LInv E w) (h : surplusVehicle ops env cheap w cmds v = .ok (w', cmds')) : LInv E w' := by
  obtain ⟨hb, hm, hl⟩ := hinv
  have hb' := surplusVehicle_booked ops law env cheap w w' cmds cmds' v hb h
  rcases surplusVehicle_shape ops law env cheap w w' cmds cmds' v h with ⟨rfl, _⟩ | ⟨csId, cs, gc, bat', d, _, hst, hgc, hloc, rfl, _⟩
  · exact ⟨hb, hm, hl⟩
  · obtain ⟨hcsm, hcsid⟩ := station?_some' _ _ _ hst
    obtain ⟨hgcm, hgcid⟩ := gc?_some' _ _ _ hgc
    refine ⟨hb', maxOK_book _ _ _ cs _ hcsm hm, ?_⟩
    apply lowerLe_book E _ _ _ cs d hcsm _ hl
    obtain ⟨_, hsh⟩ := surplusLocal_shape ops law env _ v csId cs gc bat' d _ hloc
    rcases hsh with ⟨p, _, d0, _, _⟩ | ⟨p, ts, avg, _, rfl, g0, g1, g2, g3, g4, _⟩
    · exact Or.inl d0
    · right
      have hent : (sdGet gc.loads csId).getD 0 = cs.currentPower := by
        rw [← hcsid]; exact hb.1 cs hcsm gc hgcm hgcid
      rw [hent] at g4
      have : avg ≤ cs.maxPower := le_trans g1 (max_le g2 (hm cs hcsm))
      exact ⟨lt_of_lt_of_le g4 hE, by linarith⟩

theorem surplusBody_linv (E : α) (ops : BatOps α B) (law : BatLaw ops) (env : StratEnv α) (hE : env.eps ≤ E)
    (cheap : List (String × Bool)) (st st' : SWorld α B × List (String × α)) (v0 : VehicleS α B)
    (hinv : LInv E st.1) (h : surplusBody ops env cheap st v0 = .ok st') : LInv E st'.1 := by
  unfold surplusBody at h
  split at h
  · simp only [Except.ok.injEq] at h; subst h; exact hinv
  · obtain ⟨w', c'⟩ := st'
    exact surplusVehicle_linv E ops law env hE cheap st.1 w' st.2 c' _ hinv h

theorem batBody_linv (E : α) (ops : BatOps α B) (env : StratEnv α) (cheap : List (String × Bool))
    (w w' : SWorld α B) (b0 : StatBatS α B) (hinv : LInv E w)
    (h : batBody ops env cheap w b0 = .ok w') : LInv E w' := by
  have hb := batBody_booked ops env cheap w w' b0 hinv.1 h
  rcases batBody_cases ops env cheap w w' b0 h with ⟨_, rfl⟩ | ⟨b, _, hc⟩
  · exact hinv
  · rcases hc with ⟨_, rfl⟩ | ⟨gc, isCheap, r, _, _, _, rfl⟩
    · exact hinv
    · exact ⟨hb, hinv.2.1, hinv.2.2⟩

/-- **two-sided station bound of the greedy / balanced step** (from a world without station entries) -/
theorem ruleStep_linv (E : α) (hE0 : 0 ≤ E) (rule : Rule) (ops : BatOps α B) (law : BatLaw ops) (env : StratEnv α)
    (hE : env.eps ≤ E) (w w' : SWorld α B) (cmds : List (String × α))
    (hno : ∀ s ∈ w.stations, ∀ g ∈ w.gcs, g.id = s.parent → (sdGet g.loads s.id).getD 0 = 0) (hd : Disj w)
    (hmax : MaxOK w.stations) (h : ruleStep rule ops env w = .ok (w', cmds)) : LInv E w' := by
  unfold ruleStep at h
  cases ha : availBatPower ops w with
  | error e => simp [ha, bind, Except.bind] at h
  | ok avail =>
    simp only [ha, bind, Except.bind] at h
    cases hf : (sortedVehicleIds (resetStations w)).foldlM (allocVehicle rule ops env)
        (resetStations w, [], avail) with
    | error e => simp [hf] at h
    | ok st1 =>
      obtain ⟨w1, c1, a1⟩ := st1
      simp only [hf] at h
      have h0 : LInv E (resetStations w) := by
        refine ⟨⟨?_, ?_⟩, ?_, ?_⟩
        · intro s hs g hg hid
          unfold resetStations at hs
          simp only [List.mem_map] at hs
          obtain ⟨x, hx, rfl⟩ := hs
          exact hno x hx g hg hid
        · intro s hs b hb
          unfold resetStations at hs
          simp only [List.mem_map] at hs
          obtain ⟨x, hx, rfl⟩ := hs
          exact hd x hx b hb
        · intro s hs
          unfold resetStations at hs
          simp only [List.mem_map] at hs
          obtain ⟨x, hx, rfl⟩ := hs
          exact hmax x hx
        · intro s hs
          unfold resetStations at hs
          simp only [List.mem_map] at hs
          obtain ⟨x, hx, rfl⟩ := hs
          show -(x.maxPower + E) ≤ 0
          have := hmax x hx
          linarith
      have h1 : LInv E w1 :=
        foldlM_inv (allocVehicle rule ops env) (fun s => LInv E s.1)
          (fun s x s' hi hs => allocVehicle_linv E rule ops law env s s' x hi hs) _ _ (w1, c1, a1) h0 hf
      cases hds : distributeSurplus ops env w1 with
      | error e => simp [hds] at h
      | ok r2 =>
        obtain ⟨w2, c2⟩ := r2
        simp only [hds] at h
        have h2 : LInv E w2 := by
          rw [distributeSurplus_unfold] at hds
          cases hc : w1.gcs.mapM (cheapEntry env) with
          | error e => simp [hc, bind, Except.bind] at hds
          | ok cheap =>
            simp only [hc, bind, Except.bind] at hds
            exact foldlM_inv (surplusBody ops env cheap) (fun s => LInv E s.1)
              (fun s x s' hi hs => surplusBody_linv E ops law env hE cheap s s' x hi hs)
              w1.vehicles (w1, []) (w2, c2) h1 hds
        cases hu : updateBatteries ops env w2 with
        | error e => simp [hu] at h
        | ok w3 =>
          simp only [hu, Except.ok.injEq, Prod.mk.injEq] at h
          obtain ⟨rfl, _⟩ := h
          rw [updateBatteries_unfold] at hu
          cases hc : w2.gcs.mapM (cheapEntry env) with
          | error e => simp [hc, bind, Except.bind] at hu
          | ok cheap =>
            simp only [hc, bind, Except.bind] at hu
            exact foldlM_inv (batBody ops env cheap) (fun s => LInv E s)
              (fun s x s' hi hs => batBody_linv E ops env cheap s s' x hi hs)
              w2.batteries w2 w3 h2 hu

/-- distributed's final surplus pass keeps the two-sided bound -/
theorem distributeSurplusOn_linv (E : α) (ops : BatOps α B) (law : BatLaw ops) (env : StratEnv α) (hE : env.eps ≤ E)
    (w w' : SWorld α B) (ids : List String) (cmds' : List (String × α)) (hinv : LInv E w)
    (h : distributeSurplusOn ops env w ids = .ok (w', cmds')) : LInv E w' := by
  unfold distributeSurplusOn at h
  simp only [bind, Except.bind] at h
  split at h
  · cases h
  · rename_i cheap _
    refine foldlM_inv _ (fun (st : SWorld α B × List (String × α)) => LInv E st.1) ?_ ids (w, []) (w', cmds') hinv h
    intro st id st' hi hs
    split at hs
    · simp only [Except.ok.injEq] at hs; subst hs; exact hi
    · rename_i v _
      obtain ⟨w1, c1⟩ := st'
      exact surplusVehicle_linv E ops law env hE cheap st.1 w1 st.2 c1 v hi hs

/-! ### third contract and the connector loop -/

/-- the lower side of the station bound after `strat.step()` on `⟨[g], ss, vs, bs⟩` followed by DIST2 (same premises
as `SubOK`) -/
def SubLow (E : α) (run : SWorld α B → Py (SWorld α B × List (String × α))) : Prop :=
  ∀ (g : GcS α) (ss : List (StationS α)) (vs : List (VehicleS α B)) (bs : List (StatBatS α B))
    (vw' : SWorld α B) (cmds : List (String × α)), run ⟨[g], ss, vs, bs⟩ = .ok (vw', cmds) →
    MaxOK ss → (∀ s ∈ ss, s.parent = g.id) → (∀ s ∈ ss, (sdGet g.loads s.id).getD 0 = 0) →
    (∀ s ∈ ss, ∀ b ∈ bs, s.id ≠ b.id) → LowerLe E (syncStations vw').stations

theorem ruleStep_subLow (E : α) (hE0 : 0 ≤ E) (rule : Rule) (ops : BatOps α B) (law : BatLaw ops) (env : StratEnv α)
    (hE : env.eps ≤ E) : SubLow E (ruleStep rule ops env) := by
  intro g ss vs bs vw' cmds h hmax hpar hno hd
  obtain ⟨g1, hg1, hid, _, _⟩ := ruleStep_single rule ops env g ss vs bs vw' cmds h
  have hl := ruleStep_linv E hE0 rule ops law env hE ⟨[g], ss, vs, bs⟩ vw' cmds
    (by
      intro s hs g' hg' _
      simp only [List.mem_cons, List.not_mem_nil, or_false] at hg'
      subst hg'; exact hno s hs) (fun s hs b hb => hd s hs b hb) hmax h
  have hp := ruleStep_static (fun s => s.parent = g.id) (fun s c hs => hs) rule ops env _ vw' cmds hpar h
  rw [syncStations_noop vw' g1 hg1 hl.1.1 (fun s hs => (hp s hs).trans hid.symm)]
  exact hl.2.2

def SideLow (E : α) (dops : DOps α B) (sub : SubStrat α) (de : DEnv α) : Prop :=
  match sub.ps with
  | some cfg => ∀ events future, SubLow E (psRun dops sub cfg de.env.now events future)
  | none =>
    match sub.plw with
    | some cfg => ∀ peaks extra, SubLow E (plwRun dops sub cfg de peaks extra)
    | none => True

theorem depsFinish3 (E : α) (w vw : SWorld α B) (stations : List (StationS α)) (cvs : List (VehicleS α B))
    (h0 : LowerLe E w.stations) (hv : LowerLe E vw.stations) :
    LowerLe E (mergeDeps w vw stations cvs).stations := by
  intro s hs
  unfold mergeDeps at hs
  simp only [foldl_setBattery_stations, foldl_setGc_stations] at hs
  rcases writeBack_stations_mem _ _ _ _ s hs with h | h
  · exact h0 s h
  · exact hv s h

theorem oppsFinish3 (E : α) (w vw : SWorld α B) (a b : List String) (pg : GcS α) (bats : List (StatBatS α B))
    (h0 : LowerLe E w.stations) (hv : LowerLe E vw.stations) :
    LowerLe E ({ ((writeBack w vw a b).setGc pg) with batteries := bats } : SWorld α B).stations := by
  intro s hs
  have hs' : s ∈ (writeBack w vw a b).stations := hs
  rcases writeBack_stations_mem _ _ _ _ s hs' with h | h
  · exact h0 s h
  · exact hv s h

/-- **one connector's treatment preserves the lower side of the station bound** (third part of the loop invariant) -/
theorem stepGc_loop3 (E : α) (hE0 : 0 ≤ E) (dops : DOps α B) (law : BatLaw dops.bat) (de : DEnv α)
    (hEd : de.deps.eps ≤ E) (hEo : de.opps.eps ≤ E)
    (hsd : SideOK dops de.deps de) (hso : SideOK dops de.opps de)
    (hld : SideLow E dops de.deps de) (hlo : SideLow E dops de.opps de)
    (ncs : List (String × Option Int)) (conn : List (String × List String)) (lk : Look α)
    (w0 : SWorld α B) (ini0 : DInit α) (K : List String) (hyp : LoopHyp w0 ini0 K)
    (gcId : String) (R : List String) (hnot : gcId ∉ R)
    (st st' : SWorld α B × DInit α × List (String × α)) (hinv : LoopInv w0 ini0 K (gcId :: R) st)
    (hinv3 : LowerLe E st.1.stations)
    (h : stepGc dops de ncs conn lk st gcId = .ok st') : LowerLe E st'.1.stations := by
  have hkeep : LowerLe E st.1.stations := hinv3
  unfold stepGc at h
  split at h
  · cases h
  · rename_i gc hgc
    obtain ⟨hgm, hgid⟩ := gc?_some _ _ gc hgc
    have hgc0 : gc ∈ w0.gcs := hinv.fresh gc hgm (by rw [hgid]; simp)
    simp only [bind, Except.bind] at h
    split at h
    · cases h
    · split at h
      · cases h
      · rename_i cands _ _ cvs hcv
        split at h
        · simp only [Except.ok.injEq] at h; subst h; exact hkeep
        · split at h
          · cases h
          · rename_i kind _
            split at h
            · cases h
            · rename_i stations hst
              have hss := subStations_local st.1 gcId cvs stations (connectedAt_local st.1 gcId cands cvs hcv) hst
              have hbat : (sdGet st.2.1.gcBattery gcId).getD [] = (sdGet ini0.gcBattery gcId).getD [] := by
                rw [hinv.gcb]
              obtain ⟨w', ini', acc'⟩ := st'
              have hmaxS : MaxOK stations := fun s hs => (hinv.ok s (hss s hs).1).1
              have hnoS : ∀ s ∈ stations, (sdGet gc.loads s.id).getD 0 = 0 :=
                fun s hs => hyp.noEntry gc hgc0 s.id (hinv.ids s (hss s hs).1)
              cases kind with
              | deps =>
                -- the virtual world of a depot meets the premises of the contract
                have hprem : (∀ s ∈ stations, s.parent = gc.id) ∧
                    (∀ s ∈ stations, ∀ b ∈ depotBatteries st.1 ((sdGet st.2.1.gcBattery gcId).getD []), s.id ≠ b.id) := by
                  refine ⟨fun s hs => (hss s hs).2.trans hgid.symm, ?_⟩
                  intro s hs b hb e
                  have hbi := (depotBatteries_mem st.1 _ b hb).1
                  rw [hbat] at hbi
                  exact hyp.disj gcId b.id hbi (e ▸ hinv.ids s (hss s hs).1)
                unfold stepDeps at h
                rcases subClass de.deps with ⟨hps, hpl⟩ | ⟨cfg, hps⟩ | ⟨hps, cfg, hpl⟩
                · simp only [hps, hpl] at h
                  unfold stepDepsRule at h
                  simp only [bind, Except.bind] at h
                  split at h
                  · cases h
                  · rename_i r hr
                    obtain ⟨vw', cmds⟩ := r
                    simp only [Except.ok.injEq, Prod.mk.injEq] at h
                    obtain ⟨rfl, rfl, rfl⟩ := h
                    obtain ⟨⟨g1, hg1, hid⟩, hrest⟩ := ruleStep_subOK _ dops.bat law _ gc stations cvs _ vw' cmds hr
                    obtain ⟨hv, hvid⟩ := hrest hmaxS hprem.1 hnoS hprem.2
                    have hlow := ruleStep_subLow E hE0 _ dops.bat law (de.deps.env de.env.now) hEd gc stations cvs _ vw'
                      cmds hr hmaxS hprem.1 hnoS hprem.2
                    exact depsFinish3 E st.1 (syncStations vw') stations cvs hinv3 hlow
                · simp only [hps] at h
                  unfold stepDepsPS at h
                  simp only [bind, Except.bind] at h
                  split at h
                  · cases h
                  · rename_i r hr
                    obtain ⟨vw', cmds, evs'⟩ := r
                    simp only [Except.ok.injEq, Prod.mk.injEq] at h
                    obtain ⟨rfl, rfl, rfl⟩ := h
                    have hsub : SubOK (psRun dops de.deps cfg de.env.now st.2.1.depsEvents
                        (subFuture de.future gc.id cvs)) := by
                      simp only [SideOK, hps] at hsd
                      exact hsd _ _
                    obtain ⟨⟨g1, hg1, hid⟩, hrest⟩ := hsub gc stations cvs _ vw' cmds
                      (by unfold psRun; rw [hr]; rfl)
                    obtain ⟨hv, hvid⟩ := hrest hmaxS hprem.1 hnoS hprem.2
                    have hsubl : SubLow E (psRun dops de.deps cfg de.env.now st.2.1.depsEvents
                        (subFuture de.future gc.id cvs)) := by
                      simp only [SideLow, hps] at hld
                      exact hld _ _
                    have hlow := hsubl gc stations cvs _ vw' cmds (by unfold psRun; rw [hr]; rfl) hmaxS hprem.1 hnoS
                      hprem.2
                    exact depsFinish3 E st.1 (syncStations vw') stations cvs hinv3 hlow
                · simp only [hps, hpl] at h
                  unfold stepDepsPLW at h
                  simp only [bind, Except.bind] at h
                  split at h
                  · cases h
                  · rename_i r hr
                    obtain ⟨vw', cmds, pk'⟩ := r
                    simp only [Except.ok.injEq, Prod.mk.injEq] at h
                    obtain ⟨rfl, rfl, rfl⟩ := h
                    have hsub : SubOK (plwRun dops de.deps cfg de st.2.1.depsPeaks []) := by
                      simp only [SideOK, hps, hpl] at hsd
                      exact hsd _ _
                    obtain ⟨⟨g1, hg1, hid⟩, hrest⟩ := hsub gc stations cvs _ vw' cmds
                      (by unfold plwRun; rw [hr]; rfl)
                    obtain ⟨hv, hvid⟩ := hrest hmaxS hprem.1 hnoS hprem.2
                    have hsubl : SubLow E (plwRun dops de.deps cfg de st.2.1.depsPeaks []) := by
                      simp only [SideLow, hps, hpl] at hld
                      exact hld _ _
                    have hlow := hsubl gc stations cvs _ vw' cmds (by unfold plwRun; rw [hr]; rfl) hmaxS hprem.1 hnoS
                      hprem.2
                    exact depsFinish3 E st.1 (syncStations vw') stations cvs hinv3 hlow
              | opps =>
                unfold stepOpps at h
                -- facts about the battery preparation, common to both classes of sub-strategy
                have prepFacts : ∀ prep : OppsPrep α B,
                    ((sdGet st.2.1.gcBattery gcId).getD []).foldlM
                      (oppsBattery dops de st.2.1 lk st.1 (!cvs.isEmpty) gcId) ⟨gc, [], [], []⟩ = .ok prep →
                    prep.gc.id = gcId ∧
                    (∀ s ∈ prep.vcs, s ∈ st.2.1.virtualCs ∧
                      ∃ b ∈ (sdGet st.2.1.gcBattery gcId).getD [], s.id = virtName b) ∧
                    MaxOK (stations ++ prep.vcs) ∧ (∀ s ∈ stations ++ prep.vcs, s.parent = prep.gc.id) ∧
                    (∀ s ∈ stations ++ prep.vcs, (sdGet prep.gc.loads s.id).getD 0 = 0) := by
                  intro prep hprep
                  obtain ⟨p1, p2, p3⟩ := oppsPrep_facts dops de st.2.1 lk st.1 _ gcId _ ⟨gc, [], [], []⟩ prep rfl hprep
                  have p2' : prep.gc.id = gcId := p2.trans hgid
                  refine ⟨p2', p3, ?_, ?_, ?_⟩
                  · intro s hs
                    rcases List.mem_append.mp hs with h' | h'
                    · exact hmaxS s h'
                    · exact (hinv.virt s (p3 s h').1).1
                  · intro s hs
                    rw [p2']
                    rcases List.mem_append.mp hs with h' | h'
                    · exact (hss s h').2
                    · obtain ⟨hm, b, hb, e⟩ := p3 s h'
                      obtain ⟨_, s0, hs0, e1, e2⟩ := hinv.virt s hm
                      rw [e2]
                      exact hyp.vpar gcId b (by rw [← hbat]; exact hb) s0 hs0 (e1.symm.trans e)
                  · intro s hs
                    rw [p1]
                    rcases List.mem_append.mp hs with h' | h'
                    · exact hnoS s h'
                    · obtain ⟨hm, _⟩ := p3 s h'
                      obtain ⟨_, s0, hs0, e1, _⟩ := hinv.virt s hm
                      rw [e1]; exact hyp.noVirt gc hgc0 s0 hs0
                rcases subClass de.opps with ⟨hps, hpl⟩ | ⟨cfg, hps⟩ | ⟨hps, cfg, hpl⟩
                · simp only [hps, hpl] at h
                  unfold stepOppsRule at h
                  simp only [bind, Except.bind] at h
                  split at h
                  · cases h
                  · rename_i prep hprep
                    obtain ⟨q1, q2, q3, q4, q5⟩ := prepFacts prep hprep
                    split at h
                    · cases h
                    · rename_i r hr
                      obtain ⟨vw', cmds⟩ := r
                      obtain ⟨⟨g1, hg1, hid⟩, hrest⟩ := ruleStep_subOK _ dops.bat law _ prep.gc _ _ _ vw' cmds hr
                      obtain ⟨hv, hvid⟩ := hrest q3 q4 q5 (by intro s _ b hb; simp at hb)
                      simp only [hg1] at h
                      split at h
                      · cases h
                      · rename_i post hpost
                        simp only [Except.ok.injEq, Prod.mk.injEq] at h
                        obtain ⟨rfl, rfl, rfl⟩ := h
                        have hlow := ruleStep_subLow E hE0 _ dops.bat law (de.opps.env de.env.now) hEo prep.gc _ _ _ vw'
                          cmds hr q3 q4 q5 (by intro s _ b hb; simp at hb)
                        exact oppsFinish3 E st.1 (syncStations vw') _ _ post.gc post.bats hinv3 hlow
                · simp only [hps] at h
                  unfold stepOppsPS at h
                  simp only [bind, Except.bind] at h
                  split at h
                  · cases h
                  · rename_i prep hprep
                    obtain ⟨q1, q2, q3, q4, q5⟩ := prepFacts prep hprep
                    split at h
                    · cases h
                    · rename_i r hr
                      obtain ⟨vw', cmds, evs'⟩ := r
                      have hsub : SubOK (psRun dops de.opps cfg de.env.now st.2.1.oppsEvents
                          (subFuture de.future gcId cvs)) := by
                        simp only [SideOK, hps] at hso
                        exact hso _ _
                      obtain ⟨⟨g1, hg1, hid⟩, hrest⟩ := hsub prep.gc _ _ _ vw' cmds
                        (by unfold psRun; rw [hr]; rfl)
                      obtain ⟨hv, hvid⟩ := hrest q3 q4 q5 (by intro s _ b hb; simp at hb)
                      simp only [hg1] at h
                      split at h
                      · cases h
                      · rename_i post hpost
                        simp only [Except.ok.injEq, Prod.mk.injEq] at h
                        obtain ⟨rfl, rfl, rfl⟩ := h
                        have hsubl : SubLow E (psRun dops de.opps cfg de.env.now st.2.1.oppsEvents
                            (subFuture de.future gcId cvs)) := by
                          simp only [SideLow, hps] at hlo
                          exact hlo _ _
                        have hlow := hsubl prep.gc _ _ _ vw' cmds (by unfold psRun; rw [hr]; rfl) q3 q4 q5
                          (by intro s _ b hb; simp at hb)
                        exact oppsFinish3 E st.1 (syncStations vw') _ _ post.gc post.bats hinv3 hlow

                · simp only [hps, hpl] at h
                  unfold stepOppsPLW at h
                  simp only [bind, Except.bind] at h
                  split at h
                  · cases h
                  · rename_i prep hprep
                    obtain ⟨q1, q2, q3, q4, q5⟩ := prepFacts prep hprep
                    split at h
                    · cases h
                    · rename_i r hr
                      obtain ⟨vw', cmds, pk'⟩ := r
                      have hsub : SubOK (plwRun dops de.opps cfg de st.2.1.oppsPeaks
                          (prep.vveh.filterMap (fun v => (sdGet st.2.1.virtualVt (virtName v.id)).map
                            (fun vt => (v.id, vt.chargingCurve.points.map (·.2), (none : Option α)))))) := by
                        simp only [SideOK, hps, hpl] at hso
                        exact hso _ _
                      obtain ⟨⟨g1, hg1, hid⟩, hrest⟩ := hsub prep.gc _ _ _ vw' cmds
                        (by unfold plwRun; rw [hr]; rfl)
                      obtain ⟨hv, hvid⟩ := hrest q3 q4 q5 (by intro s _ b hb; simp at hb)
                      simp only [hg1] at h
                      split at h
                      · cases h
                      · rename_i post hpost
                        simp only [Except.ok.injEq, Prod.mk.injEq] at h
                        obtain ⟨rfl, rfl, rfl⟩ := h
                        have hsubl : SubLow E (plwRun dops de.opps cfg de st.2.1.oppsPeaks
                            (prep.vveh.filterMap (fun v => (sdGet st.2.1.virtualVt (virtName v.id)).map
                              (fun vt => (v.id, vt.chargingCurve.points.map (·.2), (none : Option α)))))) := by
                          simp only [SideLow, hps, hpl] at hlo
                          exact hlo _ _
                        have hlow := hsubl prep.gc _ _ _ vw' cmds (by unfold plwRun; rw [hr]; rfl) q3 q4 q5
                          (by intro s _ b hb; simp at hb)
                        exact oppsFinish3 E st.1 (syncStations vw') _ _ post.gc post.bats hinv3 hlow


theorem stepGc_loop_fold3 (E : α) (hE0 : 0 ≤ E) (dops : DOps α B) (law : BatLaw dops.bat) (de : DEnv α)
    (hEd : de.deps.eps ≤ E) (hEo : de.opps.eps ≤ E)
    (hsd : SideOK dops de.deps de) (hso : SideOK dops de.opps de)
    (hkd : SideKF dops de.deps de) (hko : SideKF dops de.opps de)
    (hld : SideLow E dops de.deps de) (hlo : SideLow E dops de.opps de)
    (ncs : List (String × Option Int)) (conn : List (String × List String)) (lk : Look α)
    (w0 : SWorld α B) (ini0 : DInit α) (K KB : List String) (hyp : LoopHyp w0 ini0 K) (hyp2 : LoopHyp2 ini0 K KB)
    (ids : List String) (hnd : ids.Nodup)
    (st st' : SWorld α B × DInit α × List (String × α)) (hinv : LoopInv w0 ini0 K ids st) (hinv2 : LoopInv2 KB st)
    (hinv3 : LowerLe E st.1.stations)
    (h : ids.foldlM (stepGc dops de ncs conn lk) st = .ok st') :
    LoopInv w0 ini0 K [] st' ∧ LoopInv2 KB st' ∧ LowerLe E st'.1.stations := by
  induction ids generalizing st with
  | nil =>
    simp only [List.foldlM_nil, pure, Except.pure, Except.ok.injEq] at h
    subst h; exact ⟨hinv, hinv2, hinv3⟩
  | cons id rest ih =>
    simp only [List.nodup_cons] at hnd
    simp only [List.foldlM_cons, bind, Except.bind] at h
    split at h
    · cases h
    · rename_i st1 hst1
      exact ih hnd.2 st1
        (stepGc_loop dops law de hsd hso ncs conn lk w0 ini0 K hyp id rest hnd.1 st st1 hinv hst1)
        (stepGc_loop2 dops law de hsd hso hkd hko ncs conn lk w0 ini0 K KB hyp hyp2 id rest hnd.1 st st1 hinv hinv2
          hst1)
        (stepGc_loop3 E hE0 dops law de hEd hEo hsd hso hld hlo ncs conn lk w0 ini0 K hyp id rest hnd.1 st st1 hinv
          hinv3 hst1) h

/-- **two-sided station bound after the complete step** -/
theorem step_two_sided (E : α) (hE0 : 0 ≤ E) (dops : DOps α B) (law : BatLaw dops.bat) (de : DEnv α)
    (hEd : de.deps.eps ≤ E) (hEo : de.opps.eps ≤ E) (hEm : de.env.eps ≤ E)
    (hsd : SideOK dops de.deps de) (hso : SideOK dops de.opps de)
    (hkd : SideKF dops de.deps de) (hko : SideKF dops de.opps de)
    (hld : SideLow E dops de.deps de) (hlo : SideLow E dops de.opps de)
    (s s' : DState α B) (cmds : List (String × α))
    (hgnd : (s.world.gcs.map (·.id)).Nodup)
    (hmax : ∀ st ∈ s.world.stations, 0 ≤ st.maxPower) (hvirt : ∀ st ∈ s.init.virtualCs, 0 ≤ st.maxPower)
    (hyp : LoopHyp (resetStations s.world) s.init (s.world.stations.map (·.id)))
    (hyp2 : LoopHyp2 s.init (s.world.stations.map (·.id)) (s.world.batteries.map (·.id)))
    (h : step dops de s = .ok (s', cmds)) : LInv E s'.world := by
  unfold step at h
  simp only [bind, Except.bind] at h
  split at h
  · cases h
  · rename_i lk _
    split at h
    · cases h
    · rename_i connected _
      split at h
      · cases h
      · rename_i st1 hfold
        obtain ⟨w1, ini1, c1⟩ := st1
        simp only at h
        split at h
        · cases h
        · rename_i ids _
          split at h
          · cases h
          · rename_i r hsur
            obtain ⟨w2, c2⟩ := r
            simp only [Except.ok.injEq, Prod.mk.injEq] at h
            obtain ⟨rfl, _⟩ := h
            have hl0 : LowerLe E (resetStations s.world).stations := by
              intro st hst
              unfold resetStations at hst
              simp only [List.mem_map] at hst
              obtain ⟨x, hx, rfl⟩ := hst
              show -(x.maxPower + E) ≤ 0
              have := hmax x hx
              linarith
            obtain ⟨i1, i2, i3⟩ := stepGc_loop_fold3 E hE0 dops law de hEd hEo hsd hso hkd hko hld hlo s.numberCs
              connected lk (resetStations s.world) s.init (s.world.stations.map (·.id)) (s.world.batteries.map (·.id))
              hyp hyp2 _ hgnd _ (w1, ini1, c1) (loopInv_init s.world s.init [] hmax hvirt _)
              (loopInv2_init s.world s.init [] hyp) hl0 hfold
            have hdisj : Disj w1 := fun st hst b hb e =>
              hyp2.disjB st.id (i1.ids st hst) (e ▸ i2.batK b hb)
            exact distributeSurplusOn_linv E dops.bat law de.env hEm w1 w2 ids c2
              ⟨⟨i2.booked, hdisj⟩, fun st hst => (i1.ok st hst).1, i3⟩ hsur

end SpiceEv.Distrib
