/-
C04 — Grid-connector power limit, strategy flex_window (Model/StratFlexWindow.lean, tied to
spice_ev/strategies/flex_window.py step by step at the bit level by harness/s_flex_window.py).

What is proved here is about the whole `FlexWindow.step` with LOAD_STRAT = "balanced" (the default):
forecast, `distribute_balanced_vehicles`, `distribute_surplus_to_vehicles` / `distribute_balanced_v2g`,
`load_surplus_to_batteries` / `distribute_balanced_batteries`, for every world with one connector (the
class asserts that), any vehicles, stations, batteries, future events, and any battery obeying the
law `FwLaw` (0 ≤ average power ≤ offered power — C01/C02).

The unchanged code does break the limit in three situations (known findings, exhibited below as
witnesses): LOAD_STRAT greedy/needy (`distribute_power` offers every vehicle the whole budget; the
peak-shaving battery/V2G passes work against the *forecast* load), and LOAD_STRAT balanced outside a
window when a stationary battery discharges after V2G discharge made the connector load negative
(exactly the case excluded in `C04_flex_window_balanced_lower_partial`).
-/
import SpiceEv.Proofs.StratFlexWindow
set_option linter.unusedSectionVars false
namespace SpiceEv
open SpiceEv.FlexWindow
variable {α B : Type} [Field α] [LinearOrder α] [IsStrictOrderedRing α]

/-- **flex_window (balanced) never draws more than the limit.** If before the step the connector's
load (fixed load − generation) is at most its currently valid limit `cur_max ≥ 0`, it still is after
the whole step; the connector keeps its id and limit. No hypothesis on windows, events, batteries,
V2G, minimum powers; the bisection results are irrelevant (every applied power is re-checked against
the headroom of the step — which is exactly what the greedy/needy branch does not do). -/
theorem C04_flex_window_balanced_upper (ops : BatOps α B) (law : FwLaw ops) (env : FEnv α)
    (hstrat : env.strat = .balanced) (heps : 0 ≤ env.base.eps)
    (w w' : SWorld α B) (window win' : Option Bool) (events : List (FEvent α))
    (cmds : List (String × α)) (g : GcS α) (hg : w.gcs = [g]) (hM : 0 ≤ g.curMax)
    (h0 : g.currentLoad ≤ g.curMax)
    (h : FlexWindow.step ops env w window events = .ok (w', win', cmds)) :
    ∃ g', w'.gcs = [g'] ∧ g'.id = g.id ∧ g'.curMax = g.curMax ∧ g'.currentLoad ≤ g'.curMax := by
  obtain ⟨g', hg', h1, h2, h3, _, _⟩ :=
    step_balanced_rel ops law env hstrat heps false w w' window win' events cmds g hg hM (by simp) h
  exact ⟨g', hg', h2, h1, by rw [h1]; exact le_trans h3 (max_le h0 (le_refl _))⟩

/-- **In a window step nothing is discharged** (balanced): when the window in force for the step
(`gc.window` after the step) is open, the connector load never decreases — so the feed-in limit
`−cur_max ≤ load` is preserved as well. -/
theorem C04_flex_window_balanced_window_monotone (ops : BatOps α B) (law : FwLaw ops) (env : FEnv α)
    (hstrat : env.strat = .balanced) (heps : 0 ≤ env.base.eps)
    (w w' : SWorld α B) (window win' : Option Bool) (events : List (FEvent α))
    (cmds : List (String × α)) (g : GcS α) (hg : w.gcs = [g]) (hM : 0 ≤ g.curMax)
    (hwin : win' = some true)
    (h : FlexWindow.step ops env w window events = .ok (w', win', cmds)) :
    ∃ g', w'.gcs = [g'] ∧ g.currentLoad ≤ g'.currentLoad := by
  obtain ⟨g', hg', _, _, _, h4, _⟩ :=
    step_balanced_rel ops law env hstrat heps false w w' window win' events cmds g hg hM (by simp) h
  exact ⟨g', hg', h4 (by rw [hwin]; rfl)⟩

/-- **Feed-in limit, partial.** If the world has no stationary battery **or** no V2G-capable vehicle,
flex_window (balanced) never pushes the connector below `−cur_max`: V2G discharge outside a window is
bounded by `cur_max + load`, and a stationary battery that discharges while the load is non-negative
takes at most `cur_max − load` in total.
*Excluded* (and false in the code, see the witness below): a V2G-capable vehicle together with a
stationary battery, outside a window — `distribute_balanced_batteries` runs after
`distribute_balanced_v2g` has discharged (`loaded_v2g`) although the load is already negative, and
lets every battery discharge up to `(cur_max − load)/n` (finding
`C04:strategy_breaks_limit:flex_window:feedin:batteries`). In every window step the bound holds
without any side condition (`C04_flex_window_balanced_window_monotone`). -/
theorem C04_flex_window_balanced_lower_partial (ops : BatOps α B) (law : FwLaw ops) (env : FEnv α)
    (hstrat : env.strat = .balanced) (heps : 0 ≤ env.base.eps)
    (w w' : SWorld α B) (window win' : Option Bool) (events : List (FEvent α))
    (cmds : List (String × α)) (g : GcS α) (hg : w.gcs = [g]) (hM : 0 ≤ g.curMax)
    (hside : w.batteries = [] ∨ ∀ v ∈ w.vehicles, v.v2g = false) (h0 : -g.curMax ≤ g.currentLoad)
    (h : FlexWindow.step ops env w window events = .ok (w', win', cmds)) :
    ∃ g', w'.gcs = [g'] ∧ g'.curMax = g.curMax ∧ -g'.curMax ≤ g'.currentLoad := by
  obtain ⟨g', hg', h1, _, _, _, h5⟩ :=
    step_balanced_rel ops law env hstrat heps true w w' window win' events cmds g hg hM (fun _ => hside) h
  refine ⟨g', hg', h1, ?_⟩
  rw [h1]
  exact le_trans (le_min h0 (le_refl _)) (h5 rfl)

/-- **The fuel of every bisection suffices.** A bisection of the model (`while hi − lo > EPS`) started
with `hi − lo ≤ EPS · 2^fuel` never reports FUEL by itself (the driver runs with fuel 200, the
brackets of flex_window are at most `2 · cur_max`, so 200 halvings cover every connector below
`1e-5 · 2^199` kW). -/
theorem C04_flex_window_bisect_fuel {σ : Type} (eps : α) (body : α → σ → FPy (Bool × σ))
    (fuel : Nat) (lo hi : α) (st : σ) (hgap : hi - lo ≤ eps * 2 ^ fuel)
    (h : bisectM eps body fuel lo hi st = .error (.py .fuel)) :
    ∃ mid s, body mid s = .error (.py .fuel) :=
  bisectM_fuel eps body fuel lo hi st hgap h

/-- Non-vacuity: the ideal battery obeys the law; on a 10 kW connector with 3 kW load the balanced
step charges one vehicle and ends at ≈ 5 kW. -/
example : FwLaw idealOps := idealOps_law
example : resLoads (FlexWindow.step idealOps (exEnv .balanced) exWorld (some true) []) =
    some ([10485701 / 2097152], [4194245 / 2097152]) := by decide +kernel
/- two vehicles on a 3 kW connector, balanced: the second one gets what is left, the load is exactly 3
(`#guard`: evaluated, not kernel-checked — `List.mergeSort` on two elements does not reduce in the kernel) -/
#guard resLoads (FlexWindow.step idealOps (exEnv .balanced) exWorld2 (some true) []) ==
    some ([3], [4194245 / 2097152, 2097211 / 2097152])

/- **Witness (greedy):** the same two vehicles under LOAD_STRAT greedy: `distribute_power` offers each
vehicle the whole budget; the 3 kW connector ends at ≈ 4 kW. The model reproduces the code's
behaviour (finding `C04:strategy_breaks_limit:flex_window:draw:vehicles`). -/
#guard resLoads (FlexWindow.step idealOps (exEnv .greedy) exWorld2 (some true) []) ==
    some ([1048557 / 262144], [1048557 / 524288, 1048557 / 524288])

/-- **Witness (balanced, feed-in with a battery):** outside a window a full V2G vehicle discharges
≈ 5 kW (allowed: 4 + 1), then the stationary battery discharges another ≈ 3.3 kW: the 4 kW connector
ends at ≈ −7.3 kW (finding `C04:strategy_breaks_limit:flex_window:feedin:batteries`). -/
example : resLoads (FlexWindow.step idealOps (exEnv .balanced) exWorld3 (some false) []) =
    some ([-8063043909879 / 1099511627776], [-2621435 / 524288]) := by decide +kernel

/-- Non-vacuity of the side condition "battery but no V2G vehicle": outside a window the vehicle of
`exWorldBat` takes ≈ 2 kW, the battery discharges ≈ 3.3 kW, the connector ends at ≈ 1.7 kW (within ±10 kW). -/
def exWorldBat : SWorld ℚ ℚ :=
  ⟨[⟨"GC", 10, some (.fixed (3/10)), [("load", 3)]⟩], [⟨"CS", "GC", 11, 0, 0⟩],
   [⟨"v1", some "CS", 4/5, some (3 * hourUs), 0, false, 1/2, 1/5⟩], [⟨"BAT", "GC", 0, 1⟩]⟩
example : resLoads (FlexWindow.step idealOps (exEnv .balanced) exWorldBat (some false) []) =
    some ([7330098956539 / 4398046511104], [4194245 / 2097152]) := by decide +kernel

end SpiceEv
