/- driver commands for Model/GridFile.lean.  Text travels as two hex digits per (ASCII) character,
the empty text as `-`. -/
import SpiceEv.Wire
import SpiceEv.Model.GridFile
namespace SpiceEv.Cmd.GridFile
open SpiceEv SpiceEv.GridFile

def unhex (t : String) : Option (List Char) :=
  if t == "-" then some [] else
  let rec go : List Char → Option (List Char)
    | [] => some []
    | a :: b :: r => do
      let x ← hexVal a; let y ← hexVal b; let rest ← go r
      pure (Char.ofNat (x * 16 + y) :: rest)
    | _ => none
  go t.toList

def hex (s : List Char) : String :=
  if s.isEmpty then "-" else String.ofList (s.flatMap (fun c => [hexDigit (c.toNat / 16), hexDigit (c.toNat % 16)]))

def rVal : FVal → String
  | .num q => "q" ++ Wire.render q
  | .nan => "nan"
  | .inf neg => if neg then "-inf" else "inf"

/-- `gridfile <hex text>` → `R n v… | C n v… | T N` / `T S <µs>` or `!<exception>` -/
def cmdGridFile : P String := do
  let t ← P.tok
  match unhex t with
  | none => failure
  | some text =>
    match readGridFile text with
    | .error e => pure ("!" ++ e.name)
    | .ok r => pure (s!"R {renderList rVal r.residual} | C {renderList rVal r.curtailment} | T "
        ++ (match r.start with | none => "N" | some us => s!"S {us}"))

/-- `gridfloat <hex text>` → value or `!ValueError`;  `gridtime <hex text>` → µs or `!ValueError` -/
def cmdFloat : P String := do
  let t ← P.tok
  match unhex t with
  | none => failure
  | some text => pure (match parseFloat (String.ofList text) with | some v => rVal v | none => "!ValueError")

def cmdTime : P String := do
  let t ← P.tok
  match unhex t with
  | none => failure
  | some text => pure (match strptime (String.ofList text) with | some v => toString v | none => "!ValueError")

/-- `sanitize <hex s> <hex chars>` → hex of the result -/
def cmdSanitize : P String := do
  let a ← P.tok; let b ← P.tok
  match unhex a, unhex b with
  | some s, some cs => pure (hex (sanitize s cs))
  | _, _ => failure

def handlers : List (String × Handler) :=
  [("gridfile", runP cmdGridFile), ("gridfloat", runP cmdFloat), ("gridtime", runP cmdTime),
   ("grid_sanitize", runP cmdSanitize)]

end SpiceEv.Cmd.GridFile
