/-
C11 — signal-driven strategies follow their signal, for the strategy `peak_load_window`
(model: Model/StratPeakLoadWindow.lean, tied to the code at the bit level by `./check S_PEAK_LOAD_WINDOW`).

The property's sentence: "When the encouraged periods inside a vehicle's standing time (outside peak-load
windows) suffice to reach the desired SoC, no grid energy is charged into that vehicle during the discouraged
periods, and the desired SoC is still reached."  What is proved here is the statement about the plan the
strategy makes in ONE step for ONE vehicle (`planVehicle` = the body of the vehicle loop of `step_gc`), for all
prognoses, curves, stations and batteries; "suffice" is the code's own test: the simulated SoC at departure after
the outside-window stage is within EPS of the desired SoC.  The run-level sentence (over all steps of the
standing time, with the prognosis changing from step to step) stays with the oracle of `./check C11`
(findings P1a/P1b: an even plan does not make up for steps whose headroom binds).
-/
import SpiceEv.Proofs.StratPeakLoadWindow
set_option linter.unusedSectionVars false
namespace SpiceEv
open SpiceEv.PeakLoadWindow
variable {α B : Type} [Field α] [LinearOrder α] [IsStrictOrderedRing α]

/-- **Nothing is planned inside windows when the steps outside suffice.**  If the outside-window stage of the plan
(balanced charging over the steps of the standing time that lie outside peak-load windows) ends with the
simulated SoC within EPS of the desired SoC, then (1) the prognosis of every window step is left unchanged — no
power is planned for the vehicle in any window step of its standing time — and (2) if the current step lies
inside a window, the vehicle's planned power `vehicle.schedule` for this step is 0.  (The desired SoC is reached
by that plan: that is the hypothesis `hsuff`, the code's own test.) -/
theorem C11_peak_load_window_no_plan_inside_windows (ops : BatOps α B) (env : PEnv α) (cs : StationS α)
    (pv : PVeh α B) (timesteps : List (Ts α)) (peak sched : α) (ts' : List (Ts α)) (peak' : α)
    (pl1 : Plan α B)
    (h1 : planOutside ops env cs pv (timesteps.take (departIdx env pv.v)) (departIdx env pv.v) = .ok pl1)
    (hsuff : ¬ env.eps < pv.v.desiredSoc - ops.soc pl1.bat)
    (h : planVehicle ops env cs pv timesteps peak = .ok (sched, ts', peak')) :
    (∀ (k : Nat) (t : Ts α), timesteps[k]? = some t → t.window = true →
      ∃ t' : Ts α, ts'[k]? = some t' ∧ t'.power = t.power) ∧
    (∀ t : Ts α, timesteps.head? = some t → t.window = true → sched = 0) :=
  planVehicle_follows_windows ops env cs pv timesteps peak sched ts' peak' pl1 h1 hsuff h

/-- **No grid energy now.**  Vehicles whose planned power for the current step is not positive get no command
(and the connector's loads stay as they are) unless the connector has a generation surplus in this step
(`surplus = -min(timesteps[0]["power"], 0)`, the prognosis of the current step after all plans; a surplus is handed
to the vehicles, which is not grid energy). -/
theorem C11_peak_load_window_no_command_without_plan (ops : BatOps α B) (surplus : α) (hs : ¬ 0 < surplus)
    (plans : List (PVeh α B × α)) (w w' : PWorld α B) (gc gc' : GcS α) (cmds cmds' : List (String × α))
    (hq : ∀ q ∈ plans, q.2 ≤ 0)
    (h : chargeVehicles ops plans surplus (w, gc, cmds) = .ok (w', gc', cmds')) : gc' = gc ∧ cmds' = cmds :=
  chargeVehicles_no_cmd ops surplus hs plans _ _ hq h

/-- non-vacuity, end to end: at 02:00, inside the window 02:00–04:00, a vehicle that needs 5 kWh until 08:00: the
four steps outside the window suffice (1.25 kW each), the plan leaves the window steps alone, the planned power
for now is 0 and `step_gc` issues no command -/
example :
    let ts : List (Ts ℚ) := [⟨2, 20, true⟩, ⟨2, 20, true⟩, ⟨2, 20, false⟩, ⟨2, 20, false⟩, ⟨2, 20, false⟩,
      ⟨2, 20, false⟩, ⟨2, 20, false⟩]
    let pv : PVeh ℚ ℚ := ⟨⟨"v1", some "cs1", 1, some (8 * exHour), 0, false, 0, 1/2⟩, [11, 11], none⟩
    let cs : StationS ℚ := ⟨"cs1", "G", 11, 0, 0⟩
    departIdx (exEnvAt 2) pv.v = 6 ∧
    planOf (planOutside (toyOps 10 11) (exEnvAt 2) cs pv (ts.take 6) 6)
      = some (1, [0, 0, 5/4, 5/4, 5/4, 5/4], 0) ∧
    vehOf (planVehicle (toyOps 10 11) (exEnvAt 2) cs pv ts 0) = some (0, [2, 2, 13/4, 13/4, 13/4, 13/4, 2]) ∧
    cmdsOf (stepGc (toyOps 10 11) (exEnvAt 2) (exWorld [("load", 2)] 11 (1/2) 1 8) (exGc [("load", 2)]) "MV") = [] := by
  decide +kernel

end SpiceEv
