/-
C05 for the charging strategy `distributed` (model: Model/StratDistributed.lean, tied to the code step by step at
the bit level by harness/s_distributed.py).

* complete `Distributed.step`: no station ends above its (concurrency-scaled) maximum — through the delegation to
  greedy / balanced on the virtual worlds (inherits `C05_greedy_balanced_station`), the virtual stations of the
  stationary batteries, the write-back and the final surplus pass over the charging-point holders;
* every call of the final surplus pass body (one per holder): at most one booking, at the station the vehicle is
  connected to; a discharge needs a V2G-capable vehicle, is at most the station maximum, and — with the repaired
  guard (fix 64265e7) — is only taken while the station's entry at the connector is below `eps` in absolute value,
  so a station that already discharged noticeably in this step (in the sub-strategy's own V2G pass) is skipped.
-/
import SpiceEv.Proofs.StratDistributedBooked
set_option linter.unusedSectionVars false
set_option linter.unusedVariables false
namespace SpiceEv
open SpiceEv.Distrib SpiceEv.Frame
variable {α : Type} [Field α] [LinearOrder α] [IsStrictOrderedRing α]

/-- **No station above its maximum after the complete step.** For any battery obeying `BatLaw`, any connectors,
station types, sub-strategy choice, `number_cs`, stationary batteries (supporting or simulated as virtual vehicles at
virtual stations), V2G: if all station maxima (real and virtual) are non-negative, then after `Distributed.step`
every station's accumulated power is at most its maximum. -/
theorem C05_distributed_station_upper {B : Type} (dops : DOps α B) (law : BatLaw dops.bat) (de : DEnv α)
    (hd : de.deps.ps = none) (ho : de.opps.ps = none)
    (s s' : DState α B) (cmds : List (String × α))
    (hmax : ∀ st ∈ s.world.stations, 0 ≤ st.maxPower) (hvirt : ∀ st ∈ s.init.virtualCs, 0 ≤ st.maxPower)
    (h : step dops de s = .ok (s', cmds)) :
    ∀ st ∈ s'.world.stations, st.currentPower ≤ st.maxPower := by
  unfold step at h
  simp only [bind, Except.bind] at h
  split at h
  · cases h
  · rename_i lk _
    split at h
    · cases h
    · rename_i connected _
      split at h
      · cases h
      · rename_i st1 hfold
        obtain ⟨w1, ini1, c1⟩ := st1
        simp only at h
        split at h
        · cases h
        · rename_i ids _
          split at h
          · cases h
          · rename_i r hsur
            obtain ⟨w2, c2⟩ := r
            simp only [Except.ok.injEq, Prod.mk.injEq] at h
            obtain ⟨rfl, _⟩ := h
            have hinv0 : StInv (resetStations s.world, s.init, ([] : List (String × α))) := by
              refine ⟨?_, hvirt⟩
              intro st hst
              unfold resetStations at hst
              simp only [List.mem_map] at hst
              obtain ⟨x, hx, rfl⟩ := hst
              exact ⟨hmax x hx, hmax x hx⟩
            have hinv1 : StInv (w1, ini1, c1) :=
              foldlM_inv (stepGc dops de s.numberCs connected lk) StInv
                (fun st x st' hi hs => stepGc_st dops law de hd ho s.numberCs connected lk st st' x hi hs) _ _ _ hinv0 hfold
            exact distributeSurplusOn_station dops.bat law de.env w1 w2 ids c2
              (fun st hst => (hinv1.ok st hst).2) hsur

/-- **Every call of the final surplus pass** (`distribute_surplus_power(surplus_vehicles)`, one call of the body per
charging-point holder `v`): either nothing changes, or exactly one booking is made — at the station `csId` the
vehicle is connected to (only a station with a connected vehicle is touched), moving the vehicle's battery, the
connector entry, the station power and the command by the same `d`, where
* `d ≥ 0` unless the vehicle is V2G-capable (no discharge without V2G capability),
* a discharge (`d < 0`) happens only while the station's entry at its connector is below `eps` in absolute value,
  the connector draws more than `eps`, the price is not cheap and the vehicle is above its desired SoC,
* `d ≥ −max(station maximum, 0)`: one discharge never exceeds the station maximum. -/
theorem C05_distributed_final_pass_call {B : Type} (ops : BatOps α B) (law : BatLaw ops) (env : StratEnv α)
    (cheap : List (String × Bool)) (w w' : SWorld α B) (cmds cmds' : List (String × α)) (v : VehicleS α B)
    (h : surplusVehicle ops env cheap w cmds v = .ok (w', cmds')) :
    (w' = w ∧ cmds' = cmds) ∨
    ∃ csId cs gc bat' d, v.cs = some csId ∧ w.station? csId = some cs ∧ w.gc? cs.parent = some gc ∧
      w' = (((w.setVehicle { v with bat := bat' }).setGc (gc.addLoad csId d).1).setStation
              { cs with currentPower := cs.currentPower + d }) ∧
      (v.v2g = false → 0 ≤ d) ∧
      (d < 0 → v.v2g = true ∧ |(sdGet gc.loads csId).getD 0| < env.eps ∧ env.eps < gc.currentLoad ∧
        (sdGet cheap cs.parent).getD false = false ∧ v.desiredSoc - ops.soc v.bat < -env.eps) ∧
      -(max cs.maxPower 0) ≤ d := by
  rcases surplusVehicle_shape ops law env cheap w w' cmds cmds' v h with h0 | ⟨csId, cs, gc, bat', d, a1, a2, a3, hloc, a5, _⟩
  · exact Or.inl h0
  · right
    refine ⟨csId, cs, gc, bat', d, a1, a2, a3, a5, ?_⟩
    obtain ⟨_, hsh⟩ := surplusLocal_shape ops law env _ v csId cs gc bat' d _ hloc
    rcases hsh with ⟨p, _, d0, _, _⟩ | ⟨p, ts, avg, _, rfl, g0, g1, g2, g3, g4, g5, g6, g7⟩
    · refine ⟨fun _ => d0, fun hd => absurd d0 (not_le.mpr hd), ?_⟩
      have : 0 ≤ max cs.maxPower 0 := le_max_right _ _
      linarith
    · refine ⟨fun hv => absurd (hv.symm.trans g3) (by simp), fun _ => ⟨g3, g4, g5, g6, g7⟩, ?_⟩
      have : avg ≤ max cs.maxPower 0 := le_trans g1 (max_le_max g2 (le_refl _))
      linarith

/-- **At most one noticeable V2G discharge per station and step.** After a discharge booking the station's entry at
the connector is `entry − avg`; the guard of any later call in the same step reads that entry, so a second discharge
at the same station is possible only if the first one moved less than `2·eps`. -/
theorem C05_distributed_v2g_once (gc : GcS α) (csId : String) (d eps : α)
    (h1 : |(sdGet gc.loads csId).getD 0| < eps)
    (h2 : |(sdGet (gc.addLoad csId d).1.loads csId).getD 0| < eps) : -d < 2 * eps ∧ d < 2 * eps := by
  rw [(addLoad_entry gc csId d).1] at h2
  rw [abs_lt] at h1 h2
  constructor <;> linarith [h1.1, h1.2, h2.1, h2.2]

/-- **Two-sided station bound through the final surplus pass (partial).** If before distributed's final surplus
pass every station's entry at its connector equals the station's power (`Booked`, established by the greedy / balanced
sub-step: `C06_distributed_substep_booked`), no battery id is a station id, station maxima are non-negative and every
station's power is above `−(maximum + EPS)`, then the same holds after the pass: with the repaired guard a V2G discharge
is only taken at a station whose power is below `EPS` in absolute value and moves at most the station maximum.
Partial: the premise `Booked` for the complete world after the charging loop over all connectors (write-back of the
virtual worlds) is not proved; see notes/S_DISTRIBUTED.md. -/
theorem C05_distributed_final_pass_two_sided_partial {B : Type} (ops : BatOps α B) (law : BatLaw ops)
    (env : StratEnv α) (w w' : SWorld α B) (ids : List String) (cmds' : List (String × α))
    (hb : Booked w) (hd : Disj w) (hm : ∀ st ∈ w.stations, 0 ≤ st.maxPower)
    (hl : ∀ st ∈ w.stations, -(st.maxPower + env.eps) < st.currentPower)
    (h : distributeSurplusOn ops env w ids = .ok (w', cmds')) :
    (∀ st ∈ w'.stations, -(st.maxPower + env.eps) < st.currentPower) ∧ Booked w' := by
  obtain ⟨⟨b1, _⟩, _, l1⟩ := distributeSurplusOn_sinv ops law env w w' ids cmds' ⟨⟨hb, hd⟩, hm, hl⟩ h
  exact ⟨l1, b1⟩

/-- Non-vacuity of `C05_distributed_station_upper`: `toyState` (11 kW stations) satisfies the hypotheses, the step
returns, and station CS_v1_opps ends at exactly its 11 kW. -/
example : ∃ s' cmds, step (toyDOps 5) toyEnv toyState = .ok (s', cmds) ∧
    ∀ st ∈ s'.world.stations, st.currentPower ≤ st.maxPower := by
  have hok : (step (toyDOps 5) toyEnv toyState).toBool = true := by decide +kernel
  cases h : step (toyDOps 5) toyEnv toyState with
  | error e => rw [h] at hok; cases hok
  | ok r =>
    obtain ⟨s', cmds⟩ := r
    refine ⟨s', cmds, rfl, C05_distributed_station_upper (toyDOps 5) (toyOps_law 5 (by norm_num)) toyEnv rfl rfl toyState s'
      cmds ?_ ?_ h⟩
    · intro st hst
      simp only [toyState, List.mem_cons, List.not_mem_nil, or_false] at hst
      rcases hst with rfl | rfl <;> norm_num
    · intro st hst; simp [toyState] at hst

example : (match step (toyDOps 5) toyEnv toyState with
    | .ok (s', _) => s'.world.stations.map (fun (st : StationS ℚ) => (st.id, st.currentPower, st.maxPower))
    | .error _ => []) = [("CS_v1_opps", 11, 11), ("CS_v2_deps", 11, 11)] := by
  decide +kernel

/-- Non-vacuity of `C05_distributed_v2g_once`: entry 0, one discharge of 5 kW: the guard fails afterwards
(`|0 − 5| < eps` is false), so the premise of a second discharge is unsatisfiable for a noticeable first one; with a
first discharge of `eps/2` both premises hold. -/
example : |(sdGet (⟨"GC", 20, none, []⟩ : GcS ℚ).loads "CS").getD 0| < (1/100000 : ℚ) ∧
    |(sdGet ((⟨"GC", 20, none, []⟩ : GcS ℚ).addLoad "CS" (-(1/200000))).1.loads "CS").getD 0| < (1/100000 : ℚ) := by
  decide +kernel

end SpiceEv
