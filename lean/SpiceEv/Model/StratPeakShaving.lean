/-
Model of the charging strategy `peak_shaving` (spice_ev/strategies/peak_shaving.py, class PeakShaving):
`step`, `step_gc` (look-ahead over the visible events, vehicle ordering, power-curve adjustment, surplus
pass, stationary-battery bisections) and `fast_charge`, transliterated statement by statement.

* The events the strategy can see are an input of `step`: `self.events` (perfect foresight: every event of the
  scenario, sorted by start time in `__init__` — `initEvents` below —, past ones are popped at the beginning of
  `step_gc`) or `self.world_state.future_events` (no foresight).  The correspondence ties `initEvents` to the real
  `__init__` and renders the list the real object holds at every step.
* In-place simulations on copies (`deepcopy`) and on the real battery objects (`battery.soc = old_soc`) are
  pure functions on battery values here.
* The battery is a parameter (`Ops`: the `BatOps` of Model/Strategies.lean plus `loading_curve.max_power`,
  assignment to `battery.soc`, and the builtin `sum`).
* The model is the behaviour of the REPAIRED class (fixes/PS1.diff: the surplus left after planning is handed out
  vehicle by vehicle within `clamp_power`; fixes/PS2.diff: the battery charges within the limit valid now); the two
  places are marked REPAIRED below.
* Loops with a data-dependent number of iterations (`while idx < len(power_levels) …` in `fast_charge`, the
  two bisections per battery) take fuel; Proofs/StratPeakShaving.lean shows which fuel suffices.
-/
import SpiceEv.Py
import SpiceEv.Time
import SpiceEv.Model.StrategyUtil
import SpiceEv.Model.Strategies
import SpiceEv.Model.Battery
namespace SpiceEv.PeakShaving
open SpiceEv

/-- Python's `sorted` / `list.sort` (stable): insertion sort, structurally recursive so that concrete examples
evaluate in the kernel.  `le a b` = "`a` may stand before `b`". -/
def insertBy {β : Type} (le : β → β → Bool) (x : β) : List β → List β
  | [] => [x]
  | y :: ys => if le x y then x :: y :: ys else y :: insertBy le x ys

def isort {β : Type} (le : β → β → Bool) : List β → List β
  | [] => []
  | x :: xs => insertBy le x (isort le xs)

/-- what `peak_shaving` needs from a battery beyond `BatOps` -/
structure Ops (α B : Type) where
  bat : BatOps α B
  /-- `battery.loading_curve.max_power` -/
  loadMaxPower : B → α
  /-- `battery.soc = x` -/
  setSoc : B → α → B
  /-- builtin `sum(list)` (CPython 3.12: compensated for floats) -/
  sum : List α → α

/-- the events `step_gc` distinguishes (`type(event) is …`); times are µs -/
inductive Ev (α : Type) where
  | gen (start : Int) (gc name : String) (value : α)            -- LocalEnergyGeneration
  | load (start : Int) (gc name : String) (value : α)           -- FixedLoad
  | signal (start : Int) (gc : String) (maxPower : Option α)    -- GridOperatorSignal
  | departure (start : Int) (vid : String)                      -- VehicleEvent, event_type == "departure"
  /-- any other VehicleEvent: `update.get("connected_charging_station")`, `update["desired_soc"]`,
  `update["soc_delta"]`, `update["estimated_time_of_departure"]` (outer `none` = key missing) -/
  | arrival (start : Int) (vid : String) (cs : Option String) (desired socDelta : Option α)
      (etd : Option (Option Int))
  | other (start : Int)                                         -- any other class: skipped

def Ev.start {α : Type} : Ev α → Int
  | .gen s _ _ _ => s | .load s _ _ _ => s | .signal s _ _ => s | .departure s _ => s
  | .arrival s _ _ _ _ _ => s | .other s => s

/-- one entry of `timesteps` (a copy of `gc_info`; its `vehicles` dict is never read again) -/
structure TS (α : Type) where
  maxPower : α
  curPower : α
  fixedLoad : α

/-- one entry of `vehicle_arrivals` -/
structure VInfo (α B : Type) where
  vid : String
  veh : VehicleS α B               -- `deepcopy(vehicle)` (sim_vehicle)
  arrivalIdx : Int
  departIdx : Option Int
  schedule : α                     -- `sim_vehicle.schedule` (assigned before it is read)
  viaFast : Bool                   -- the schedule is a return value of `fast_charge` (for the step-level tie)
  energyNeeded : α                 -- `v_info["energy_needed"]`

/-- options / clock of the strategy -/
structure Env (α : Type) where
  eps : α                          -- self.EPS
  tsPerHour : α                    -- self.ts_per_hour
  now : Int                        -- self.current_time (µs)
  interval : Int                   -- self.interval (µs)
  horizon : Int                    -- self.HORIZON (µs)
  perfect : Bool                   -- self.perfect_foresight
  fuel : Nat                       -- bound on the iterations of each bisection

/-- look-ahead state of `step_gc` -/
structure Look (α B : Type) where
  simVehicles : List (VehicleS α B)       -- `sim_vehicles`
  present : List (String × Nat)           -- `gc_info["vehicles"]`: vid ↦ index in `arrivals`
  arrivals : List (VInfo α B)             -- `vehicle_arrivals`
  maxPower : α                            -- `gc_info["max_power"]`
  curLoads : List (String × α)            -- `cur_loads`

/-- an event together with its `signal_time` (µs) -/
structure Signalled (α : Type) where
  signal : Int
  ev : Ev α

/-- `PeakShaving.__init__` with `perfect_foresight`: all events of the scenario in the order
`vehicle_events + grid_operator_signals + fixed loads (per list, dict order) + local generation (per list)`, every
`signal_time` moved to `max(min(signal_time, start_time − HORIZON), start_time_of_the_scenario)`, then
`sorted(all_events, key=start_time)` (stable).  The result is `self.events`, the list `step_gc` walks through
(its `signal_time`s are never read again by this class); the second component is `changed`. -/
def initEvents {α : Type} (horizon scenarioStart : Int) (vehicleEvents signals : List (Signalled α))
    (loads gens : List (List (Signalled α))) : List (Signalled α) × Nat :=
  let all := vehicleEvents ++ signals ++ loads.flatten ++ gens.flatten
  let moved := all.map (fun e =>
    let s1 := pymin e.signal (e.ev.start - horizon)
    let s2 := pymax s1 scenarioStart
    ({ e with signal := s2 }, decide (s2 < e.signal)))
  (isort (fun a b => decide (a.ev.start ≤ b.ev.start)) (moved.map (·.1)), (moved.filter (·.2)).length)

section
variable {α B : Type} [Add α] [Sub α] [Mul α] [Div α] [Neg α] [LT α] [LE α]
  [DecidableLT α] [DecidableLE α] [OfNat α 0] [OfNat α 1] [NatCast α] [IntCast α]

/-- `x == 0`, false for a NaN -/
@[inline] def eqZero (x : α) : Bool := decide (x ≤ 0) && decide (0 ≤ x)
/-- Python `/` on numbers -/
@[inline] def pdiv (a b : α) : Py α := if eqZero b then .error .zeroDivision else .ok (a / b)

/-- `del d[k]` / `d.pop(k)` -/
def sdErase {β : Type} : List (String × β) → String → List (String × β)
  | [], _ => []
  | (k', v') :: rest, k => if k' == k then rest else (k', v') :: sdErase rest k

/-- `int(self.HORIZON / self.interval)` -/
def timestepsAhead (env : Env α) : Py Int :=
  if env.interval == 0 then .error .zeroDivision else .ok (Int.tdiv env.horizon env.interval)

/-- `depart_idx` from an estimated time of departure: `-(-(etd - current_time) // interval)` -/
def departIdxOf (env : Env α) (etd : Option Int) : Option Int :=
  etd.map (fun t => ceilDiv (t - env.now) env.interval)

/-- `for vid, v in sim_vehicles.items(): …` — the vehicles standing at this connector now -/
def initialArrivals (env : Env α) (w : SWorld α B) (gcId : String) :
    List (VehicleS α B) → List (String × Nat) → List (VInfo α B) →
    Py (List (String × Nat) × List (VInfo α B))
  | [], present, arr => .ok (present, arr)
  | v :: rest, present, arr =>
    match v.cs with
    | none => initialArrivals env w gcId rest present arr
    | some csId =>
      match w.station? csId with
      | none => .error .keyError
      | some cs =>
        if cs.parent == gcId then
          initialArrivals env w gcId rest (sdSet present v.id arr.length)
            (arr ++ [⟨v.id, v, 0, departIdxOf env v.etd, 0, false, 0⟩])
        else initialArrivals env w gcId rest present arr

/-- body of the `while True:` peek loop for one event that starts in this timestep -/
def applyEvent (ops : Ops α B) (env : Env α) (w : SWorld α B) (gcId : String) (tIdx : Int)
    (st : Look α B) : Ev α → Py (Look α B)
  | .gen _ gc name value =>
    if gc != gcId then .ok st else .ok { st with curLoads := sdSet st.curLoads name (-value) }
  | .load _ gc name value =>
    if gc != gcId then .ok st else .ok { st with curLoads := sdSet st.curLoads name value }
  | .signal _ gc mp =>
    match mp with
    | none => .ok st
    | some p => if gc != gcId then .ok st else .ok { st with maxPower := p }
  | .departure _ vid =>
    let st := match sdGet st.present vid with
      | some vIdx => { st with
          present := sdErase st.present vid
          arrivals := st.arrivals.modify vIdx (fun a => { a with departIdx := some tIdx }) }
      | none => st
    -- perfect charge (up to desired soc if below battery soc)
    .ok { st with simVehicles := st.simVehicles.map (fun v =>
      if v.id == vid then { v with bat := ops.setSoc v.bat (pymax (ops.bat.soc v.bat) v.desiredSoc) } else v) }
  | .arrival _ vid cs desired socDelta etd =>
    match cs with
    | none => .ok st
    | some csId =>
      match st.simVehicles.find? (·.id == vid) with
      | none => .ok st
      | some vehicle =>
        match desired, socDelta, etd with
        | some des, some sd, some etd =>
          let vehicle : VehicleS α B := { vehicle with
            desiredSoc := des, bat := ops.setSoc vehicle.bat (ops.bat.soc vehicle.bat + sd),
            etd := etd, cs := some csId }
          let st := { st with simVehicles := st.simVehicles.map (fun v => if v.id == vid then vehicle else v) }
          match w.station? csId with
          | none => .ok st
          | some station =>
            if station.parent == gcId then
              if (sdGet st.present vid).isSome then .error .assertion
              else .ok { st with
                present := sdSet st.present vid st.arrivals.length
                arrivals := st.arrivals ++ [⟨vid, vehicle, tIdx, departIdxOf env vehicle.etd, 0, false, 0⟩] }
            else .ok st
        | _, _, _ => .error .keyError
  | .other _ => .ok st

/-- the peek loop: consume the events with `start_time <= cur_time` -/
def peek (ops : Ops α B) (env : Env α) (w : SWorld α B) (gcId : String) (tIdx : Int) (curTime : Int) :
    List (Ev α) → Look α B → Py (List (Ev α) × Look α B)
  | [], st => .ok ([], st)
  | e :: rest, st =>
    if curTime < e.start then .ok (e :: rest, st)
    else
      match applyEvent ops env w gcId tIdx st e with
      | .error err => .error err
      | .ok st => peek ops env w gcId tIdx curTime rest st

/-- `for timestep_idx in range(timesteps_ahead): …` (`k` steps remain, the next index is `tIdx`) -/
def lookAhead (ops : Ops α B) (env : Env α) (w : SWorld α B) (gcId : String) :
    Nat → Int → List (Ev α) → Look α B → List (TS α) → Py (Look α B × List (TS α))
  | 0, _, _, st, acc => .ok (st, acc)
  | k + 1, tIdx, evs, st, acc =>
    match peek ops env w gcId tIdx (env.now + tIdx * env.interval) evs st with
    | .error err => .error err
    | .ok (evs, st) =>
      let s := ops.sum (st.curLoads.map (·.2))
      lookAhead ops env w gcId k (tIdx + 1) evs st (acc ++ [⟨st.maxPower, s, s⟩])

/-- lexicographic `<=` of the tuples `(power, index)` (Python `sorted` on a list of tuples) -/
def plLe (a b : α × Int) : Bool :=
  if decide (a.1 < b.1) then true else if decide (b.1 < a.1) then false else decide (a.2 ≤ b.2)

/-- energy that can be charged below level `power` over the standing time:
`for info in timesteps[arrival_idx:depart_idx]: …; energy += p` -/
def fillEnergy (power lcMax csMax : α) (window : List (TS α)) : α :=
  window.foldl (fun e info =>
    let p := pymin power info.maxPower
    let p := pymin (pymin p lcMax) csMax
    let p := pymax (p - info.curPower) 0
    e + p) 0

/-- result of the `while idx < len(power_levels) and …` loop of `fast_charge` -/
structure FcState (α : Type) where
  idx : Nat
  prevPower : α
  prevEnergy : α
  power : α

/-- the `while` loop of `fast_charge` -/
def fcLoop (eps energyNeeded tsph eff lcMax csMax : α) (pls : List (α × Int)) (window : List (TS α)) :
    Nat → FcState α → Py (FcState α)
  | 0, _ => .error .fuel
  | fuel + 1, s =>
    match pls[s.idx]? with
    | none => .ok s
    | some pl =>
      if eps < energyNeeded - s.prevEnergy then
        if pl.1 - s.prevPower < eps then
          fcLoop eps energyNeeded tsph eff lcMax csMax pls window fuel { s with idx := s.idx + 1 }
        else do
          let power := pl.1
          let energy := fillEnergy power lcMax csMax window
          let q ← pdiv tsph eff
          let energy ← pdiv energy q
          if eps < energy - energyNeeded then do
            let fr ← pdiv (energy - energyNeeded) (energy - s.prevEnergy)
            let frac := 1 - fr
            .ok { s with power := s.prevPower + frac * (power - s.prevPower), prevEnergy := energyNeeded }
          else
            fcLoop eps energyNeeded tsph eff lcMax csMax pls window fuel
              { s with prevPower := power, prevEnergy := energy, power := power }
      else .ok s

/-- `timesteps[i]["cur_power"] += x` -/
def tsAddCur (ts : List (TS α)) (i : Nat) (x : α) : List (TS α) :=
  ts.modify i (fun t => { t with curPower := t.curPower + x })

/-- the charging loop at the end of `fast_charge` (`for pl in sorted(power_levels[:idx], key=index)`) -/
def fcCharge (ops : Ops α B) (cs : StationS α) (vMin optPower : α) :
    List (α × Int) → B → List (TS α) → α → α → Py (List (TS α) × α × B)
  | [], b, ts, _, command => .ok (ts, command, b)
  | pl :: rest, b, ts, delta, command =>
    match pyIndex ts pl.2 with
    | .error e => .error e
    | .ok info =>
      let power := clampPower (pymin (optPower + delta) info.maxPower - pl.1)
        cs.currentPower cs.maxPower cs.minPower vMin
      match ops.bat.load b none none (some power) with
      | .error e => .error e
      | .ok (b', avg) =>
        fcCharge ops cs vMin optPower rest b' (tsAddCur ts pl.2.toNat avg) (delta + (power - avg))
          (if pl.2 == 0 then power else command)

/-- `if energy_needed - prev_energy > EPS: power = prev_power + … / idx / eff` (after the `while`) -/
def fcOptPower (eps energyNeeded tsph eff : α) (s : FcState α) : Py α :=
  if eps < energyNeeded - s.prevEnergy then
    -- energy need not satisfied yet: must exceed highest power peak
    match pdiv ((energyNeeded - s.prevEnergy) * tsph) ((s.idx : Nat) : α) with
    | .error e => .error e
    | .ok a =>
      match pdiv a eff with
      | .error e => .error e
      | .ok b => .ok (s.prevPower + b)
  else .ok s.power

/-- `power_levels = [(timesteps[i]["cur_power"], i) for i in range(arrival_idx, depart_idx)]` -/
def fcLevels (ts : List (TS α)) (arrivalIdx departIdx : Int) : Py (List (α × Int)) :=
  ((List.range (departIdx - arrivalIdx).toNat).map (fun (k : Nat) => arrivalIdx + (k : Int))).mapM
    (fun i => match pyIndex ts i with
      | .error e => .error e
      | .ok info => .ok (info.curPower, i))

/-- `PeakShaving.fast_charge(v_info, timesteps)` ↦ (timesteps', command) -/
def fastCharge (ops : Ops α B) (env : Env α) (w : SWorld α B) (vi : VInfo α B) (arrivalIdx departIdx : Int)
    (ts : List (TS α)) : Py (List (TS α) × α) :=
  if vi.energyNeeded ≤ env.eps then .ok (ts, 0)
  else
    match vi.veh.cs.bind w.station? with
    | none => .error .keyError
    | some cs =>
      match fcLevels ts arrivalIdx departIdx with
      | .error e => .error e
      | .ok pls0 =>
        let pls := isort plLe pls0
        match pyIndex pls 0 with
        | .error e => .error e
        | .ok first =>
          let eff := ops.bat.efficiency vi.veh.bat
          let window := (ts.drop arrivalIdx.toNat).take (departIdx.toNat - arrivalIdx.toNat)
          match fcLoop env.eps vi.energyNeeded env.tsPerHour eff (ops.loadMaxPower vi.veh.bat) cs.maxPower pls
              window (2 * pls.length + 2) ⟨0, first.1, 0, 0⟩ with
          | .error e => .error e
          | .ok s =>
            match fcOptPower env.eps vi.energyNeeded env.tsPerHour eff s with
            | .error e => .error e
            | .ok power =>
              let chosen := isort (fun a b => decide (a.2 ≤ b.2)) (pls.take s.idx)
              match fcCharge ops cs vi.veh.minChargingPower power chosen vi.veh.bat ts 0 0 with
              | .error e => .error e
              | .ok (ts', command, _) => .ok (ts', command)

/-- `# scale energy needed with remaining standing time` ↦ (v_info', depart_idx') -/
def scaleVehicle (ops : Ops α B) (nAhead : Int) (vi : VInfo α B) (energyNeeded : α) (departIdx : Int) :
    Py (VInfo α B × Int) :=
  if nAhead < departIdx then
    match pdiv ((nAhead - vi.arrivalIdx : Int) : α) ((departIdx - vi.arrivalIdx : Int) : α) with
    | .error e => .error e
    | .ok f =>
      let soc := ops.bat.soc vi.veh.bat
      let desired := soc + f * (vi.veh.desiredSoc - soc)
      .ok ({ vi with veh := { vi.veh with desiredSoc := desired }, departIdx := some nAhead,
                     energyNeeded := energyNeeded * f }, nAhead)
  else .ok ({ vi with energyNeeded := energyNeeded }, departIdx)

/-- body of the loop `for v_info in vehicles:` under `# --- ADJUST POWER CURVE --- #` -/
def adjustVehicle (ops : Ops α B) (env : Env α) (w : SWorld α B) (gcCurMax : α) (nAhead : Int)
    (ts : List (TS α)) (vi : VInfo α B) (departIdx : Int) : Py (List (TS α) × VInfo α B) :=
  let simV := vi.veh
  let energyNeeded := pymax (simV.desiredSoc - ops.bat.soc simV.bat) 0 * ops.bat.capacity simV.bat
  if departIdx ≤ vi.arrivalIdx then
    -- faulty arrival/departure: default power needed (instant departure)
    match simV.cs.bind w.station? with
    | none => .error .exception
    | some cs =>
      match pdiv (energyNeeded * env.tsPerHour) (ops.bat.efficiency simV.bat) with
      | .error e => .error e
      | .ok power =>
        match pyIndex ts 0 with
        | .error e => .error e
        | .ok t0 =>
          let power := clampPower (pymin power (gcCurMax - t0.curPower))
            cs.currentPower cs.maxPower cs.minPower simV.minChargingPower
          .ok (tsAddCur ts 0 power, { vi with schedule := power })
  else
    match scaleVehicle ops nAhead vi energyNeeded departIdx with
    | .error e => .error e
    | .ok (vi, departIdx) =>
      -- apply charging strategy
      match fastCharge ops env w vi vi.arrivalIdx departIdx ts with
      | .error e => .error e
      | .ok (ts, command) => .ok (ts, { vi with schedule := command, viaFast := true })

/-- the loop `for v_info in vehicles:` (adjust power curve) -/
def adjustAll (ops : Ops α B) (env : Env α) (w : SWorld α B) (gcCurMax : α) (nAhead : Int) :
    List (VInfo α B) → List (TS α) → List (VInfo α B) → Py (List (TS α) × List (VInfo α B))
  | [], ts, done => .ok (ts, done)
  | vi :: rest, ts, done =>
    match vi.departIdx with
    | none => adjustAll ops env w gcCurMax nAhead rest ts done      -- filtered out before the loop
    | some d =>
      match adjustVehicle ops env w gcCurMax nAhead ts vi d with
      | .error e => .error e
      | .ok (ts, vi) => adjustAll ops env w gcCurMax nAhead rest ts (done ++ [vi])

/-- state threaded through the surplus/apply pass and the battery pass -/
structure Acc (α B : Type) where
  world : SWorld α B
  gc : GcS α
  cmds : List (String × α)

/-- `sim_vehicle.schedule` after the surplus offer (REPAIRED behaviour, fixes/PS1.diff):
`if surplus > 0: schedule = max(clamp_power(planned + surplus, vehicle, cs), planned)`
(pinned commit: `schedule -= min(timesteps[0]["cur_power"], 0)` for every vehicle, finding D6) -/
def offerSurplus (w : SWorld α B) (vi : VInfo α B) (surplus : α) : Py α :=
  if 0 < surplus then
    match vi.veh.cs.bind w.station? with
    | none => .error .keyError
    | some cs =>
      .ok (pymax (clampPower (vi.schedule + surplus) cs.currentPower cs.maxPower cs.minPower
        vi.veh.minChargingPower) vi.schedule)
  else .ok vi.schedule

/-- `# use surplus for all vehicles currently at charging station, apply power` (REPAIRED, fixes/PS1.diff):
`s0 = -min(timesteps[0]["cur_power"], 0)`, `used` = surplus already taken by vehicles beyond their plan;
per vehicle `surplus = s0 - used`, after the real load `used += max(avg_power - max(planned, 0), 0)` -/
def applyVehicles (ops : Ops α B) (s0 : α) :
    List (VInfo α B) → α → Acc α B → Py (Acc α B)
  | [], _, acc => .ok acc
  | vi :: rest, used, acc =>
    if 0 < vi.arrivalIdx then applyVehicles ops s0 rest used acc
    else
      match offerSurplus acc.world vi (s0 - used) with
      | .error e => .error e
      | .ok schedule =>
        if 0 < schedule then
          match acc.world.vehicle? vi.vid with
          | none => .error .keyError
          | some v =>
            match ops.bat.load v.bat none none (some schedule) with
            | .error e => .error e
            | .ok (bat', avg) =>
              let csId := vi.veh.cs.getD "None"
              applyVehicles ops s0 rest (used + pymax (avg - pymax vi.schedule 0) 0)
                ⟨acc.world.setVehicle { v with bat := bat' }, (acc.gc.addLoad csId avg).1,
                  sdSet acc.cmds csId (acc.gc.addLoad csId avg).2⟩
        else applyVehicles ops s0 rest used acc

/-- `power_levels`: `f = min(1, 3*(1-i/timesteps_ahead)); f*cur_power + (1-f)*fixed_load` -/
def powerLevels (nAhead : Int) (ts : List (TS α)) : List α :=
  (ts.zipIdx).map (fun (t, i) =>
    let f := pymin (1 : α) (((3 : Nat) : α) * (1 - ((i : Nat) : α) / ((nAhead : Int) : α)))
    f * t.curPower + (1 - f) * t.fixedLoad)

/-- what the battery does in one simulated timestep of the first bisection
↦ (battery', battery power `p`, `cur_power`) -/
def act1 (ops : Ops α B) (minCh target pl : α) (i : Nat) (b : B) (cur : α) : Py (B × α × α) :=
  let delta := target - pl
  if minCh ≤ delta then
    -- below target: charge
    match ops.bat.load b none none (some delta) with
    | .error e => .error e
    | .ok (b', avg) => .ok (b', avg, if i == 0 then delta else cur)
  else if delta ≤ -minCh then
    -- above target: discharge
    match ops.bat.unload b none none (some (-delta)) with
    | .error e => .error e
    | .ok (b', avg) => .ok (b', -avg, if i == 0 then delta else cur)
  else .ok (b, 0, cur)

/-- the `for ts_idx, pl in enumerate(power_levels)` loop of the first bisection
↦ (left by `break`, `power`, `cur_power`) -/
def scan1 (ops : Ops α B) (eps minCh target : α) :
    List α → Nat → B → List α → α → Py (Bool × List α × α)
  | [], _, _, power, cur => .ok (false, power, cur)
  | pl :: rest, i, b, power, cur =>
    match act1 ops minCh target pl i b cur with
    | .error e => .error e
    | .ok (b', p, cur') =>
      if eps < pl + p - target then .ok (true, power.set i p, cur')
      else scan1 ops eps minCh target rest (i + 1) b' (power.set i p) cur'

/-- state of the first bisection -/
structure Bis1 (α : Type) where
  minP : α
  maxP : α
  power : List α
  cur : α
  target : α

/-- `while max_power - min_power > self.EPS:` (optimum power level) -/
def bisect1 (ops : Ops α B) (eps minCh : α) (levels : List α) (b : B) : Nat → Bis1 α → Py (Bis1 α)
  | 0, s => if eps < s.maxP - s.minP then .error .fuel else .ok s
  | fuel + 1, s =>
    if eps < s.maxP - s.minP then
      let target := (s.minP + s.maxP) / ((2 : Nat) : α)
      match scan1 ops eps minCh target levels 0 b s.power s.cur with
      | .error e => .error e
      | .ok (broke, power, cur) =>
        if broke then bisect1 ops eps minCh levels b fuel ⟨target, s.maxP, power, cur, target⟩
        else bisect1 ops eps minCh levels b fuel ⟨s.minP, target, power, cur, target⟩
    else .ok s

/-- what the battery does in one simulated timestep of the second bisection -/
def act2 (ops : Ops α B) (minCh limit pl : α) (power : List α) (i : Nat) (b : B) (cur : α) : Py (B × α × α) :=
  let delta := limit - pl
  if minCh ≤ delta then
    match ops.bat.load b none none (some delta) with
    | .error e => .error e
    | .ok (b', avg) => .ok (b', avg, if i == 0 then delta else cur)
  else
    match pyIndex power (i : Int) with
    | .error e => .error e
    | .ok pw =>
      if pw < 0 then
        match ops.bat.unload b none none (some (-pw)) with
        | .error e => .error e
        | .ok (b', avg) => .ok (b', -avg, if i == 0 then -avg else cur)
      else .ok (b, 0, cur)

/-- the `for` loop of the second bisection ↦ (left by `break`, `cur_power`) -/
def scan2 (ops : Ops α B) (eps minCh target limit : α) (power : List α) :
    List α → Nat → B → α → Py (Bool × α)
  | [], _, _, cur => .ok (false, cur)
  | pl :: rest, i, b, cur =>
    match act2 ops minCh limit pl power i b cur with
    | .error e => .error e
    | .ok (b', p, cur') =>
      if eps < pl + p - target then .ok (true, cur')
      else scan2 ops eps minCh target limit power rest (i + 1) b' cur'

/-- `while max_power - min_power > self.EPS:` (charge limit); state = (min, max, cur_power) -/
def bisect2 (ops : Ops α B) (eps minCh target : α) (power prefix_ : List α) (b : B) :
    Nat → α × α × α → Py (α × α × α)
  | 0, s => if eps < s.2.1 - s.1 then .error .fuel else .ok s
  | fuel + 1, s =>
    if eps < s.2.1 - s.1 then
      let limit := (s.1 + s.2.1) / ((2 : Nat) : α)
      match scan2 ops eps minCh target limit power prefix_ 0 b 0 with
      | .error e => .error e
      | .ok (broke, cur) =>
        if broke then bisect2 ops eps minCh target power prefix_ b fuel (limit, s.2.1, cur)
        else bisect2 ops eps minCh target power prefix_ b fuel (s.1, limit, cur)
    else .ok s

/-- `max(list)` / `min(list)` of a non-empty list given as head and tail -/
def pyMaxList (x : α) (l : List α) : α := l.foldl pymax x
def pyMinList (x : α) (l : List α) : α := l.foldl pymin x

/-- the power the battery is asked for in this step: both bisections (`cur_power` after them) -/
def batteryPlan (ops : Ops α B) (env : Env α) (nAhead : Int) (ts : List (TS α)) (b : StatBatS α B) : Py α := do
  let levels := powerLevels nAhead ts
  let maxP := match levels ++ [0] with
    | [] => (0 : α)
    | x :: l => pyMaxList x l
  let minP0 := ops.bat.unloadMaxPower b.bat * ops.bat.efficiency b.bat
  let minP := pymax (maxP - minP0) 0
  let power : List α := List.replicate nAhead.toNat 0
  let l0 ← pyIndex levels 0
  let cur := pymax (-l0) 0
  let s1 ← bisect1 ops env.eps b.minChargingPower levels b.bat env.fuel ⟨minP, maxP, power, cur, 0⟩
  -- last peak above target level
  let n := levels.length
  let i := levels.reverse.findIdx (fun pl => decide (s1.target < pl))
  let lastPeakIdx := n - i
  let prefix_ := levels.take (lastPeakIdx + 1)
  let minP2 := match prefix_ ++ [s1.target] with
    | [] => s1.target
    | x :: l => pyMinList x l
  let minP2 := pymax minP2 0
  let s2 ← bisect2 ops env.eps b.minChargingPower s1.target s1.power prefix_ b.bat env.fuel (minP2, s1.maxP, s1.cur)
  .ok s2.2.2

/-- `# converged -> apply power` ↦ (battery', the power `p` booked at the connector) -/
def applyBattery (ops : Ops α B) (b : B) (cur : α) : Py (B × α) :=
  if cur < 0 then
    match ops.bat.unload b none none (some (-cur)) with
    | .error e => .error e
    | .ok (b', avg) => .ok (b', -avg)
  else ops.bat.load b none none (some cur)

/-- body of `for b_id, battery in self.world_state.batteries.items():` -/
def batteryStep (ops : Ops α B) (env : Env α) (nAhead : Int) (gcId : String)
    (st : Acc α B × List (TS α)) (b0 : StatBatS α B) : Py (Acc α B × List (TS α)) :=
  if b0.parent != gcId then .ok st
  else
    match st.1.world.batteries.find? (·.id == b0.id) with
    | none => .ok st
    | some b =>
      match pyIndex st.2 0 with
      | .error e => .error e
      | .ok t0 =>
        let ts := st.2.set 0 { t0 with curPower := st.1.gc.currentLoad }
        match batteryPlan ops env nAhead ts b with
        | .error e => .error e
        | .ok cur =>
          -- REPAIRED (fixes/PS2.diff): `cur_power = min(cur_power, max(gc.cur_max_power - gc.get_current_load(), 0))`
          -- (pinned commit: the battery pass never reads the limit that is valid now)
          let cur := pymin cur (pymax (st.1.gc.curMax - st.1.gc.currentLoad) 0)
          match applyBattery ops b.bat cur with
          | .error e => .error e
          | .ok (bat', p) =>
            .ok (⟨st.1.world.setBattery { b with bat := bat' }, (st.1.gc.addLoad b.id p).1, st.1.cmds⟩, ts)

/-- the event list `step_gc` walks through: with perfect foresight `self.events` after the past events have been
popped, otherwise `world_state.future_events`; (re-)sorted by start time (stable) -/
def visibleEvents (env : Env α) (events : List (Ev α)) : List (Ev α) :=
  isort (fun a b => decide (a.start ≤ b.start))
    (if env.perfect then events.dropWhile (fun e => decide (e.start ≤ env.now)) else events)

/-- the part of `step_gc` before the vehicle ordering: visible events, look-ahead ↦ (arrivals, timesteps) -/
def forecast (ops : Ops α B) (env : Env α) (w : SWorld α B) (events : List (Ev α)) (gc : GcS α)
    (nAhead : Int) : Py (List (VInfo α B) × List (TS α)) :=
  match initialArrivals env w gc.id w.vehicles [] [] with
  | .error e => .error e
  | .ok (present, arr) =>
    match lookAhead ops env w gc.id nAhead.toNat 0 (visibleEvents env events)
        ⟨w.vehicles, present, arr, gc.curMax, gc.loads⟩ [] with
    | .error e => .error e
    | .ok (st, ts) => .ok (st.arrivals, ts)

/-- `vehicles`: no `depart_idx` → ignored; ordered by standing time within the horizon (stable) -/
def orderVehicles (nAhead : Int) (arr : List (VInfo α B)) : List (VInfo α B) :=
  let key (v : VInfo α B) : Int := pymin (v.departIdx.getD 0) nAhead - v.arrivalIdx
  isort (fun a b => decide (key a ≤ key b)) (arr.filter (fun v => v.departIdx.isSome))

/-- the surplus pass (`timesteps[0]` is read for every vehicle standing now) -/
def applyPass (ops : Ops α B) (w : SWorld α B) (gc : GcS α) (ts : List (TS α)) (vehicles : List (VInfo α B)) :
    Py (Acc α B) :=
  if vehicles.any (fun v => decide (v.arrivalIdx ≤ 0)) then
    match pyIndex ts 0 with
    | .error e => .error e
    | .ok t0 => applyVehicles ops (-(pymin t0.curPower 0)) vehicles 0 ⟨w, gc, []⟩
  else .ok ⟨w, gc, []⟩

/-- `PeakShaving.step_gc(gc_id, gc)` ↦ (world', commands of this connector, return values of `fast_charge`) -/
def stepGc (ops : Ops α B) (env : Env α) (events : List (Ev α)) (w : SWorld α B) (gc : GcS α) :
    Py (SWorld α B × List (String × α) × List α) :=
  match timestepsAhead env with
  | .error e => .error e
  | .ok nAhead =>
    match forecast ops env w events gc nAhead with
    | .error e => .error e
    | .ok (arr, ts) =>
      match adjustAll ops env w gc.curMax nAhead (orderVehicles nAhead arr) ts [] with
      | .error e => .error e
      | .ok (ts, vehicles) =>
        match applyPass ops w gc ts vehicles with
        | .error e => .error e
        | .ok acc =>
          match w.batteries.foldlM (batteryStep ops env nAhead gc.id) (acc, ts) with
          | .error e => .error e
          | .ok (acc, _) =>
            .ok (acc.world.setGc acc.gc, acc.cmds, (vehicles.filter (·.viaFast)).map (·.schedule))

/-- `PeakShaving.step()` ↦ (world', commands, all schedules assigned in connector order) -/
def step (ops : Ops α B) (env : Env α) (events : List (Ev α)) (w : SWorld α B) :
    Py (SWorld α B × List (String × α) × List α) :=
  w.gcs.foldlM (fun (st : SWorld α B × List (String × α) × List α) g0 =>
    match st.1.gc? g0.id with
    | none => .ok st
    | some gc => do
      let (w', cmds, sched) ← stepGc ops env events st.1 gc
      .ok (w', sdUpdate st.2.1 cmds, st.2.2 ++ sched)) (w, [], [])

end
end SpiceEv.PeakShaving
