"""C07 — events take effect at the right timestep and none is lost.

Correspondence (exact): real `events.Events(...)` built from JSON dicts, real `get_event_steps`, and a
bare `strategy.Strategy(components, start, interval=…, **options)` driven with `Strategy.step(bucket)`
step by step; buckets, popped events, queue, every connector attribute, every vehicle attribute,
counters and tracker are compared after every step with the Lean model (`evrun`, see evwire.py).
CSV readers (`get_energy_price_list_from_csv`, `get_schedule_from_csv` incl. individual mode) run on
generated temp files against `pricecsv` / `schedcsv`.

Oracle (Python, independent of both, states the property): an event takes effect at the first step
at/after its start time and not before it was signalled; the queue never holds an un-signalled event;
an attribute keeps the value of the chronologically last event that set it (ties in start time are
not decided by the property: any tied value is accepted); a series reads 0 from `start + len·d` on;
events signalled after the last step are the only ones dropped; with a set rating the limit in force is
`min(rating, limit)` and never above the rating; price-list and schedule events carry the time of
their own row.
"""
import datetime
import itertools
import os
import random
import tempfile
from fractions import Fraction as F

import engine
import evwire
from evwire import us, num, opt, lst, boolean

PID = "C07"
RULE = ("bounded-exhaustive: every single event (4 kinds) with start and signal time on the 1/3-step "
        "lattice from -2 to +7 steps over a 5-step horizon (784 time pairs; series: 28 starts x step in "
        "{1/3,1/2,1,3/2,2} intervals), and every pair of events writing the same attribute (two limit "
        "signals, two vehicle events, fixed load + generation under one name) over all 784 start pairs x "
        "signal in {on time, early, late}^2 — complete in both tiers; random histories of 3-4 events "
        "(quick 18k, thorough 600k) and random longer histories (quick 8k, thorough 250k; <= 14 events, intervals 900 s / 60 s / 10.5 s / 3 us, "
        "times off the lattice by +-1 us, mixed UTC offsets, add_load injections, options); price-list and "
        "schedule CSV files (collective and individual); a malformed stream (name collisions, "
        "zero interval, n = 0, cost {} without target, station = battery name) where only the "
        "error kind and state are compared. non-trivial = at least one event applied inside the horizon. "
        "Run-level part (concrete strategies): real Scenario.run of all eight strategies on scenarios of harness/scen.py and "
        "of the strategy builders' families (quick 8+4 per strategy, thorough 80+40); every strategy step is one model "
        "evaluation of that strategy's step model, its result line extended by the digest of the event-set connector "
        "attributes (limit, cost, target, window, fixed-load / generation entries) and of world_state.future_events "
        "(kinds, start / signal times, content hash) before and after the concrete step; oracle: unchanged")
EXHAUSTIVE = {"quick": True, "thorough": True}
CHUNK = 400
ASSUMPTIONS = [
    "interval > 0, n >= 1 (zero interval / n = 0 are in the malformed stream: error kinds only)",
    "all datetimes of one scenario are timezone-aware (compared by UTC instant) or all naive",
    "values on a dyadic lattice so that the float operations of the event loop are exact "
    "(value*factor, -value, min); the Lean run is on Rat",
    "the strategy's own action between two base steps does not touch clock, future_events and the "
    "connector attributes other than charging-station / battery loads (hypotheses KeepsQueue / "
    "KeepsConnectors of the theorems of Properties/C07.lean; the harness injects add_load calls under such names). "
    "Discharged for the eight strategy models in Properties/C07_Strategies.lean / C07_StrategiesWorlds.lean "
    "(C07_<strategy>_keeps, C07_strategy_keeps_connectors, C07_in_force_concrete ...); for the real classes by the "
    "digest in every step tie and the oracle runoracle.check_c07_keeps. Exception by design: peak_load_window "
    "overwrites gc.window every step (C07_peak_load_window_window_written), flex_window re-writes the value it read",
    "tie order of events with equal start time is the model's (stable sort: hand-over order); the "
    "property does not fix it, the oracle accepts any tied value",
]
UNPROVED = [
    "the pending queue itself is an input of the strategy models (they cannot edit it): that the real classes leave "
    "world_state.future_events alone is correspondence + oracle on real runs; distributed and peak_load_window have "
    "frame theorems on their own state types but no adapter to the Strat state of the run theorems",
    "C07_series_tail_run is stated for a series with positive step length and no second writer of the "
    "same load entry (two series under one name, or d = 0, are covered by the oracle only)",
    "the CSV readers have no theorem of their own (their events are ordinary GridOperatorSignal / "
    "VehicleEvent inputs of the theorems); row -> event time is correspondence + oracle; CSV text "
    "parsing (csv module, float(), fromisoformat) is correspondence only",
]

engine.use_repo()

START = "2020-01-01T00:00:00+02:00"
T0 = datetime.datetime.fromisoformat(START)
DELTA_S = 900
N = 5
LATTICE = [F(k, 3) for k in range(-6, 22)]          # -2 … +7 steps in thirds
SERIES_STEPS = [F(1, 3), F(1, 2), F(1), F(3, 2), F(2)]


def base_components():
    return {
        "vehicle_types": {"t": {"name": "t", "capacity": 8, "charging_curve": [[0, 11], [1, 11]]}},
        "vehicles": {
            "v1": {"vehicle_type": "t", "soc": 0.5, "desired_soc": 0.75,
                   "connected_charging_station": "cs1",
                   "estimated_time_of_departure": "2020-01-01T01:00:00+02:00"},
            "v2": {"vehicle_type": "t", "soc": 0.625, "desired_soc": 0.5}},
        "grid_connectors": {
            "g1": {"max_power": 100, "cost": {"type": "fixed", "value": 0.125}},
            "g2": {"max_power": 0, "target": 3}},
        "charging_stations": {"cs1": {"max_power": 11, "parent": "g1"}},
        "batteries": {"b1": {"parent": "g1", "capacity": 10, "charging_curve": [[0, 5], [1, 5]]}},
    }


def at(steps, delta_s=DELTA_S, t0=T0, tz=None, jitter_us=0):
    """ISO string of t0 + steps*delta (+ jitter), optionally re-expressed in another UTC offset"""
    t = t0 + datetime.timedelta(microseconds=int(F(steps) * F(delta_s) * 1000000) + jitter_us)
    if tz is not None:
        t = t.astimezone(datetime.timezone(datetime.timedelta(hours=tz)))
    return t.isoformat()


G_PAYLOADS = [{"max_power": 50.5}, {"max_power": 150.0}, {"cost": {"type": "fixed", "value": 2.0}},
              {"target": 2.0, "window": True}, {"max_power": None, "target": 1.5, "window": False},
              {"cost": {}, "target": 1.0}]
G2_PAYLOADS = [{"max_power": 40.0}, {"max_power": None, "cost": {"type": "polynomial", "value": [1.0, 0.5]}},
               {"cost": {}}, {"cost": {"type": "fixed", "value": 0.0}, "window": True}]


def mk_signal(sig, st, gc="g1", **payload):
    d = {"signal_time": sig, "start_time": st, "grid_connector_id": gc}
    d.update(payload)
    return d


def mk_vehicle(sig, st, vid, etype, **upd):
    return {"signal_time": sig, "start_time": st, "vehicle_id": vid, "event_type": etype, "update": upd}


def mk_series(st, step_frac, gc="g1", values=(1.0, 2.5), factor=None, delta_s=DELTA_S):
    d = {"start_time": st, "step_duration_s": float(F(step_frac) * delta_s), "grid_connector_id": gc,
         "values": list(values)}
    if factor is not None:
        d["factor"] = factor
    return d


def run_case(events, **kw):
    c = {"k": "run", "start": kw.pop("start", START), "interval_s": kw.pop("interval_s", DELTA_S),
         "n": kw.pop("n", N), "opts": kw.pop("opts", {}), "components": kw.pop("components", None) or base_components(),
         "events": events, "inj": kw.pop("inj", [])}
    c.update(kw)
    return c


SIG_MODES = ["on", "early", "late"]


def sig_of(mode, st):
    return {"on": st, "early": st - F(7, 3), "late": st + F(2, 3)}[mode]


def exhaustive_singles():
    for st in LATTICE:
        for sg in LATTICE:
            for p in G_PAYLOADS[:3]:
                yield run_case({"grid_operator_signals": [mk_signal(at(sg), at(st), **p)]})
            yield run_case({"vehicle_events": [mk_vehicle(at(sg), at(st), "v2", "arrival", soc_delta=-0.125,
                                                          connected_charging_station="cs1",
                                                          estimated_time_of_departure=at(6), desired_soc=1.0)]})
            yield run_case({"vehicle_events": [mk_vehicle(at(sg), at(st), "v1", "departure",
                                                          estimated_time_of_arrival=at(4))]})
        for sf in SERIES_STEPS:
            yield run_case({"fixed_load": {"fl": mk_series(at(st), sf)}})
            yield run_case({"local_generation": {"pv": mk_series(at(st), sf, factor=2.0)}})


def exhaustive_pairs():
    for s1 in LATTICE:
        for s2 in LATTICE:
            for m1 in SIG_MODES:
                for m2 in SIG_MODES:
                    g1, g2 = sig_of(m1, s1), sig_of(m2, s2)
                    yield run_case({"grid_operator_signals": [
                        mk_signal(at(g1), at(s1), max_power=50.5), mk_signal(at(g2), at(s2), max_power=70.0)]})
                    yield run_case({"vehicle_events": [
                        mk_vehicle(at(g1), at(s1), "v2", "arrival", soc_delta=-0.125,
                                   connected_charging_station="cs1", desired_soc=1.0),
                        mk_vehicle(at(g2), at(s2), "v2", "departure")]})
            for sf in SERIES_STEPS:
                yield run_case({"fixed_load": {"x": mk_series(at(s1), sf, values=(1.0,))},
                                "local_generation": {"x": mk_series(at(s2), F(1, 2), values=(4.0, 5.0))}})


def rnd_event(rnd, evs, lattice_time, delta_s, names):
    kind = rnd.choice("FLGGVV")
    st = lattice_time()
    mode = rnd.choice(SIG_MODES + ["rand"])
    sg = lattice_time() if mode == "rand" else None
    if kind in "FL":
        key = "fixed_load" if kind == "F" else "local_generation"
        nm = rnd.choice(names)
        if nm in evs.setdefault(key, {}):
            return
        vals = [rnd.choice([0.0, 1.0, 2.5, 0.125, 7.0]) for _ in range(rnd.randint(1, 3))]
        evs[key][nm] = mk_series(st(0), rnd.choice(SERIES_STEPS), gc=rnd.choice(["g1", "g1", "g2", "gX"]),
                                 values=vals, factor=rnd.choice([None, 2.0, 0.5, -1.0, 0.0]), delta_s=delta_s)
    elif kind == "G":
        gc = rnd.choice(["g1", "g1", "g1", "g2", "gX"])
        p = dict(rnd.choice(G_PAYLOADS if gc != "g2" else G2_PAYLOADS))
        if rnd.random() < 0.1:
            p["max_power"] = rnd.choice([0.0, 100.0, 99.875, 100.125])
        s0 = st
        evs.setdefault("grid_operator_signals", []).append(
            mk_signal(sg(1) if sg else s0(2, mode), s0(0), gc=gc, **p))
    else:
        vid = rnd.choice(["v1", "v2", "v2", "vX"])
        et = rnd.choice(["arrival", "departure", "schedule"])
        upd = {}
        if et == "arrival":
            upd = {"soc_delta": rnd.choice([-0.125, -0.25, 0.0]), "connected_charging_station": "cs1",
                   "estimated_time_of_departure": st(3), "desired_soc": rnd.choice([0.5, 1.0])}
        elif et == "departure":
            upd = {"estimated_time_of_arrival": st(3)}
        else:
            upd = {"schedule": rnd.choice([0.0, 3.5])}
        evs.setdefault("vehicle_events", []).append(
            mk_vehicle(sg(1) if sg else st(2, mode), st(0), vid, et, **upd))


def random_history(rnd, n_events, wild):
    delta_s = rnd.choice([900, 900, 60, 10.5, 0.000003]) if wild else DELTA_S
    tzs = [None, 1, 0, -5] if wild else [None]
    evs = {}

    def lattice_time():
        base = rnd.choice(LATTICE)
        jit = rnd.choice([0, 0, 0, 1, -1]) if wild and delta_s >= 1 else 0
        tz = rnd.choice(tzs)

        def f(which, mode=None):
            # which 0: the start time; 1: an independent time; 2: signal derived from mode; 3: some later time
            if which == 0:
                return at(base, delta_s, tz=tz, jitter_us=jit)
            if which == 1:
                return at(rnd.choice(LATTICE), delta_s, tz=tz)
            if which == 2:
                return at(sig_of(mode, base), delta_s, tz=tz, jitter_us=jit)
            return at(base + rnd.choice([1, 2, F(5, 3)]), delta_s, tz=tz)
        return f
    names = ["fl", "pv", "x", "y"]
    for _ in range(n_events):
        rnd_event(rnd, evs, lattice_time, delta_s, names)
    opts = {}
    inj = []
    if wild:
        if rnd.random() < 0.3:
            opts["CONCURRENCY"] = rnd.choice([0.5, 0.25, 1.0])
        if rnd.random() < 0.5:
            opts["ALLOW_NEGATIVE_SOC"] = True
        for _ in range(rnd.randint(0, 3)):
            inj.append([rnd.randint(0, N - 1), rnd.choice(["g1", "g2"]), rnd.choice(["cs1", "b1"]),
                        rnd.choice([3.5, -1.0, 0.125])])
    return run_case(evs, interval_s=delta_s, n=rnd.choice([N, N, 1, 8]) if wild else N, opts=opts, inj=inj)


def malformed(rnd):
    k = rnd.randint(0, 6)
    if k == 0:      # fixed load named like a charging station (known / unknown connector)
        return run_case({"fixed_load": {"cs1": mk_series(at(rnd.choice(LATTICE)), 1, gc=rnd.choice(["g1", "gX"]))}}, bad=1)
    if k == 1:      # generation named like a charging station: asserted before the connector lookup
        return run_case({"local_generation": {"cs1": mk_series(at(rnd.choice(LATTICE)), 1, gc=rnd.choice(["g1", "gX"]))}}, bad=1)
    if k == 2:      # zero interval
        return run_case({"grid_operator_signals": [mk_signal(at(0), at(1), max_power=5.0)]}, interval_s=0, bad=1)
    if k == 3:      # n = 0 with an early / a late event
        return run_case({"grid_operator_signals": [mk_signal(at(rnd.choice([-2, 0, 3])), at(1), max_power=5.0)]}, n=0, bad=1)
    if k == 4:      # empty cost dict without target -> Exception
        return run_case({"grid_operator_signals": [
            mk_signal(at(0), at(rnd.choice(LATTICE)), cost={}),
            mk_signal(at(0), at(rnd.choice(LATTICE)), target=1.0)]}, bad=1)
    if k == 5:      # a load under a name that is both a station and a battery
        c = base_components()
        c["batteries"]["cs1"] = {"parent": "g1", "capacity": 10, "charging_curve": [[0, 5], [1, 5]]}
        return run_case({}, components=c, inj=[[0, "g1", "cs1", 2.0]], bad=1)
    c = base_components()   # connector without cost and target from the start
    c["grid_connectors"]["g3"] = {"max_power": 10}
    return run_case({"fixed_load": {"fl": mk_series(at(0), 1)}}, components=c, bad=1)


def csv_cases(rnd, count):
    for _ in range(count):
        if rnd.random() < 0.35:
            yield {"k": "price", "start": at(rnd.choice([0, -3, F(1, 3)]), tz=rnd.choice([None, 0])),
                   "step_s": rnd.choice([900, 3600, 1350.5, 86400, 0.000001]), "gc": rnd.choice(["g1", "gX"]),
                   "vals": [rnd.choice([0.0, 1.5, -2.25, 30.0]) for _ in range(rnd.randint(0, 6))],
                   "with_run": rnd.random() < 0.5}
        else:
            nveh = rnd.choice([0, 0, 1, 2, 3])
            rows = []
            t = datetime.datetime.fromisoformat(rnd.choice(["2020-01-01T00:00:00", "2020-01-01T10:30:00",
                                                            "2020-01-02T11:45:00.000007", "2020-01-01T23:00:00"]))
            tzmode = rnd.choice(["naive", "aware", "aware1", "bad", "bad", "mixed"])
            step = datetime.timedelta(seconds=rnd.choice([900, 3600, 4 * 3600, 12 * 3600 + 1]))
            tgt, win = 0.0, False
            veh = [0.0] * nveh
            for i in range(rnd.randint(1, 9)):
                r = rnd.random()
                if r < 0.35:
                    tgt = rnd.choice([0.0, 5.0, 7.5, -3.0])
                elif r < 0.5:
                    win = not win
                for j in range(nveh):
                    if rnd.random() < 0.4:
                        veh[j] = rnd.choice([0.0, 1.5, 11.0])
                ti = t + i * step
                if tzmode == "naive":
                    ts = ti.isoformat()
                elif tzmode == "aware":
                    ts = ti.replace(tzinfo=datetime.timezone(datetime.timedelta(hours=2))).isoformat()
                elif tzmode == "aware1":
                    ts = ti.replace(tzinfo=datetime.timezone(datetime.timedelta(hours=1))).isoformat()
                elif tzmode == "mixed":
                    ts = ti.isoformat() if i % 2 else str(i)
                else:
                    ts = str(i)
                rows.append([ts, tgt, win, list(veh)])
            start = rnd.choice([None, "2020-01-01T00:00:00+02:00", "2020-01-01T00:00:00",
                                "2019-12-30T06:00:00+02:00", "2020-01-03T00:00:00+02:00"])
            yield {"k": "sched", "start": start, "step_s": rnd.choice([900, 3600, 1800.5]), "gc": "g1",
                   "window_col": rnd.choice([True, True, False]), "individual": nveh > 0 and rnd.random() < 0.85,
                   "nveh": nveh, "rows": rows}


def d8_cases():
    """individual schedule where only the per-vehicle split changes in a row (D8)"""
    rows = [["2020-01-01T00:00:00+02:00", 5.0, True, [2.0, 3.0]],
            ["2020-01-01T00:15:00+02:00", 5.0, True, [3.0, 2.0]],
            ["2020-01-01T00:30:00+02:00", 5.0, True, [3.0, 2.0]],
            ["2020-01-01T00:45:00+02:00", 6.0, True, [3.0, 3.0]]]
    yield {"k": "sched", "start": "2020-01-01T00:00:00+02:00", "step_s": 900, "gc": "g1", "window_col": True,
           "individual": True, "nveh": 2, "rows": rows}
    rows2 = [[str(i), 4.0, False, [float(i % 2)]] for i in range(4)]
    yield {"k": "sched", "start": "2020-01-01T00:00:00+02:00", "step_s": 900, "gc": "g1", "window_col": False,
           "individual": True, "nveh": 1, "rows": rows2}


KEEPS_STRATEGIES = ["greedy", "balanced", "balanced_market", "distributed", "flex_window", "peak_load_window",
                    "peak_shaving", "schedule"]


def keeps_cases(tier, seed):
    """run-level part (task c07keeps): real `Scenario.run` of every strategy on scenarios of harness/scen.py and of the
    strategy builders' own families; step tie with the digest of the event-set attributes and the pending queue, and
    the oracle `runoracle.check_c07_keeps`"""
    n, nb = (8, 4) if tier == "quick" else (80, 40)
    for i in range(n):
        for st in KEEPS_STRATEGIES:
            yield {"k": "keeps_run", "seed": seed, "i": i, "strategy": st, "pid": PID}
    for i in range(nb):
        for st in KEEPS_STRATEGIES[2:]:
            yield {"k": "keeps_run", "seed": seed, "i": i, "strategy": st, "pid": PID, "family": "builder"}


def eval_keeps(case):
    import runcheck
    import runoracle
    c = {k: v for k, v in case.items() if k != "k"}
    res = runcheck.eval_run(c, [runoracle.check_c07_keeps], timeout_s=90)
    rc = res.get("replay_case")
    if isinstance(rc, dict):
        rc = dict(rc)
        rc["k"] = "keeps_run"
        res["replay_case"] = rc
    res["stats"] = ["keeps_run"] + ["keeps_" + s for s in res.get("stats", [])[:1]]
    res.pop("sample", None)
    return res


def compare(case, impl, model):
    if isinstance(case, dict) and case.get("k") == "keeps_run":
        import runcheck
        return runcheck.compare(case, impl, model)
    return None if impl == model else "differs"


def gen_cases(tier, seed):
    rnd = random.Random(seed * 7919 + 3)
    quick = tier == "quick"
    yield from keeps_cases(tier, seed)
    yield from d8_cases()
    yield from csv_cases(rnd, 300 if quick else 20000)
    k = 0
    for c in exhaustive_singles():
        yield c
    for c in exhaustive_pairs():
        k += 1
        yield c
    for _ in range(18000 if quick else 600000):
        yield random_history(rnd, rnd.randint(3, 4), wild=False)
    for _ in range(8000 if quick else 250000):
        yield random_history(rnd, rnd.randint(1, 14), wild=True)
    for _ in range(400 if quick else 10000):
        yield malformed(rnd)


# ------------------------------------------------------------------------------------------
# oracle

def logical_events(case):
    """the events the scenario describes, from the case input only:
    (render, signal, start, setter) with setter = (attribute key, value) list"""
    e = case["events"]
    out = []
    fromiso = datetime.datetime.fromisoformat
    for x in e.get("vehicle_events", []):
        out.append((evwire.ev_vehicle_json(x), fromiso(x["signal_time"]), fromiso(x["start_time"]), []))
    for x in e.get("grid_operator_signals", []):
        g = x["grid_connector_id"]
        sets = []
        if x.get("cost") is not None:
            sets.append(((g, "cost"), evwire.cost(x["cost"])))
        if x.get("target") is not None:
            sets.append(((g, "target"), "S " + num(x["target"])))
        if x.get("window") is not None:
            sets.append(((g, "window"), "S " + boolean(x["window"])))
        sets.append(((g, "limit"), x.get("max_power")))
        out.append((evwire.ev_signal_json(x), fromiso(x["signal_time"]), fromiso(x["start_time"]), sets))
    for key, tag, sign, foresight in (("fixed_load", "F", 1, False), ("local_generation", "L", -1, True)):
        for nm, o in e.get(key, {}).items():
            s = fromiso(o["start_time"])
            d = datetime.timedelta(seconds=float(o["step_duration_s"]))
            fac = F(float(o.get("factor", 1)))
            vals = [F(float(v)) * fac for v in o.get("values", [])] + [F(0)]     # … and zero afterwards
            for j, v in enumerate(vals):
                t = s + j * d
                sg = s if foresight else t
                r = "%s %d %d %s %s %s" % (tag, us(sg), us(t), nm, o["grid_connector_id"], v)
                tail = j == len(vals) - 1
                out.append((r, sg, t, [((o["grid_connector_id"], "load", nm, tail), str(sign * v))]))
    return out


def oracle(case, obs):
    viol = []
    if case.get("bad"):
        return viol
    if obs.init_error is not None or obs.bucket_error is not None:
        # a well-formed scenario (interval > 0, n >= 1): setting up the run must not raise
        e = obs.init_error if obs.init_error is not None else obs.bucket_error
        return [("setup", "C07:setup_raises", "%s raised %s" % (
            "Strategy.__init__" if obs.init_error is not None else "get_event_steps", type(e).__name__))]
    comps = case["components"]
    times = evwire.sim_times(case)
    n = len(times)
    L = logical_events(case)
    eff = [evwire.effect_step(times, sg, st) for (_, sg, st, _) in L]
    stations = set(comps.get("charging_stations", {})) | set(comps.get("batteries", {}))
    # spec-level connector attributes: key -> set of admissible rendered values
    want = {}
    rating = {}
    for g, o in comps.get("grid_connectors", {}).items():
        rating[g] = F(float(o["max_power"]))
        want[(g, "limit")] = {"S " + str(rating[g])}
        want[(g, "cost")] = {evwire.cost(o.get("cost") or {})}
        want[(g, "target")] = {opt(o.get("target"), lambda v: num(float(v)))}
        want[(g, "window")] = {opt(o.get("window"), boolean)}
    tails = {}
    for i, rec in enumerate(obs.records):
        got = sorted(evwire.ev_impl(x) for x in rec["popped"])
        exp = sorted(r for (r, _, _, _), k in zip(L, eff) if k == i)
        if rec["err"] is None:
            if got != exp:
                viol.append(("effect_step", "C07:effect_step",
                             "step %d applied %s, due %s" % (i, got[:4], exp[:4])))
                break
        else:
            if [g for g in got if g not in exp]:
                viol.append(("effect_step", "C07:effect_step", "step %d applied %s not due" % (i, got[:4])))
            break
        for x in rec["queue"]:
            if x.signal_time > times[i]:
                viol.append(("not_before_signalled", "C07:queue_holds_unsignalled",
                             "step %d queue holds %s" % (i, evwire.ev_impl(x))))
                break
        # chronological replay of the events due in this step
        due = sorted([(st, j) for j, ((_, _, st, _), k) in enumerate(zip(L, eff)) if k == i], key=lambda p: p[0])
        for _, grp in itertools.groupby(due, key=lambda p: p[0]):
            grp = [j for _, j in grp]
            new = {}
            for j in grp:
                for key, val in L[j][3]:
                    g = key[0]
                    if g not in rating:
                        continue
                    if key[1] == "limit":
                        if rating[g] != 0:
                            if val is None:
                                continue
                            val = "S " + str(min(rating[g], F(float(val))))
                        else:
                            val = opt(val, lambda v: num(float(v)))
                    if key[1] == "load":
                        tails[(g, "load", key[2])] = key[3]
                        key = (g, "load", key[2])
                    new.setdefault(key, set()).add(val)
            want.update(new)
        for key, vals in want.items():
            g = key[0]
            c = rec["connectors"][g]
            if key[1] == "load":
                if key[2] in stations:
                    continue
                v = c["loads"].get(key[2])
                gotv = None if v is None else num(v)
                clause, vk = ("series_tail", "C07:series_tail") if tails.get(key) else ("in_force", "C07:in_force_load")
            elif key[1] == "limit":
                gotv = opt(c["cur_max_power"], num)
                clause, vk = "in_force", "C07:in_force_limit"
            elif key[1] == "cost":
                gotv = evwire.cost(c["cost"])
                clause, vk = "in_force", "C07:in_force_cost"
            elif key[1] == "target":
                gotv = opt(c["target"], num)
                clause, vk = "in_force", "C07:in_force_target"
            else:
                gotv = opt(c["window"], boolean)
                clause, vk = "in_force", "C07:in_force_window"
            if gotv not in vals:
                viol.append((clause, vk, "step %d %s: got %s, want %s" % (i, key, gotv, sorted(vals))))
        for g, c in rec["connectors"].items():
            if rating[g] != 0 and (c["cur_max_power"] is None or F(c["cur_max_power"]) > rating[g]):
                viol.append(("limit_lower_only", "C07:limit_raises_rating",
                             "step %d %s: limit %s > rating %s" % (i, g, c["cur_max_power"], rating[g])))
            if F(c["max_power"]) != rating[g]:
                viol.append(("limit_lower_only", "C07:rating_changed", "step %d %s" % (i, g)))
        # the documented abort: a connector with neither costs nor schedule
        bare = any((not c["cost"]) and c["target"] is None for c in rec["connectors"].values())
        if bare:
            viol.append(("unexpected_state", "C07:connector_without_cost_and_target_not_reported", "step %d" % i))
        if viol:
            break
    if obs.error is not None and not viol:
        # wf cases: the only admissible abort is the documented one (neither cost nor schedule) or a
        # negative SoC (C08's business); everything else is a lost run
        rec = obs.records[-1]
        bare = any((not c["cost"]) and c["target"] is None for c in rec["connectors"].values())
        neg = type(obs.error).__name__ == "RuntimeError"
        if not (bare and type(obs.error) is Exception) and not neg:
            viol.append(("unexpected_error", "C07:unexpected_error",
                         "step %d raised %s" % (len(obs.records) - 1, type(obs.error).__name__)))
    if obs.error is None and not viol:
        last = times[-1]
        if obs.ignored != sum(1 for (_, sg, _, _) in L if sg > last):
            viol.append(("ignored", "C07:ignored_count", "ignored %s" % obs.ignored))
        gotq = sorted(evwire.ev_impl(x) for x in obs.records[-1]["queue"]) if obs.records else []
        expq = sorted(r for (r, sg, _, _), k in zip(L, eff) if k is None and sg <= last)
        if gotq != expq:
            viol.append(("none_lost", "C07:event_lost", "final queue %s want %s" % (gotq[:4], expq[:4])))
    return viol


# ------------------------------------------------------------------------------------------
# CSV readers

def dt_tok(dt):
    if dt is None:
        return "N"
    naive = dt.replace(tzinfo=None)
    loc = (naive - evwire.EPOCH_NAIVE) // evwire.US
    off = "N" if dt.tzinfo is None else "S %d" % (dt.utcoffset() // evwire.US)
    return "S %d %s" % (loc, off)


def eval_price(case):
    from spice_ev import events
    viol = []
    with tempfile.TemporaryDirectory() as d:
        with open(os.path.join(d, "p.csv"), "w") as f:
            f.write("time,price\n")
            for i, v in enumerate(case["vals"]):
                f.write("%d,%r\n" % (i, v))
        obj = {"start_time": case["start"], "step_duration_s": case["step_s"], "csv_file": "p.csv",
               "column": "price", "grid_connector_id": case["gc"]}
        from pathlib import Path
        try:
            evs = events.get_energy_price_list_from_csv(obj, Path(d))
            impl = lst(evs, evwire.ev_impl)
        except Exception as e:
            evs, impl = None, evwire.err_name(e)
    step = datetime.timedelta(seconds=case["step_s"])
    line = "pricecsv q %d %d %s %s" % (evwire.iso_us(case["start"]), evwire.td_us(step), case["gc"],
                                       lst(case["vals"], num))
    if evs is not None:
        s = datetime.datetime.fromisoformat(case["start"])
        if len(evs) != len(case["vals"]):
            viol.append(("price_rows", "C07:price_row_lost", "%d events for %d rows" % (len(evs), len(case["vals"]))))
        for j, (ev, v) in enumerate(zip(evs, case["vals"])):
            t = s + j * step
            if ev.start_time != t or ev.cost != {"type": "fixed", "value": v} or \
                    ev.signal_time > ev.start_time or ev.signal_time < s or \
                    (ev.signal_time != s and ev.start_time - ev.signal_time != datetime.timedelta(days=1)):
                viol.append(("price_rows", "C07:price_event_time", "row %d: %s" % (j, evwire.ev_impl(ev))))
                break
    lines, impls = [line], [impl]
    if case.get("with_run") and evs is not None:
        # the price list inside a run: events appended after the JSON signals
        rc = run_case({"grid_operator_signals": [mk_signal(at(0), at(1), max_power=60.0)]})
        with tempfile.TemporaryDirectory() as d:
            with open(os.path.join(d, "p.csv"), "w") as f:
                f.write("time,price\n")
                for i, v in enumerate(case["vals"]):
                    f.write("%d,%r\n" % (i, v))
            rc["events"]["energy_price_from_csv"] = {
                "start_time": case["start"], "step_duration_s": case["step_s"], "csv_file": "p.csv",
                "column": "price", "grid_connector_id": case["gc"]}
            out, obs = evwire.run_impl(rc, d)
        extra = [evwire.ev_impl(x) for x in obs.events_obj.grid_operator_signals[1:]]
        if extra != [evwire.ev_impl(x) for x in evs]:
            viol.append(("price_rows", "C07:events_constructor_order", "price events not appended after JSON signals"))
        lines.append(evwire.run_line(rc, extra_signals=extra))
        impls.append(out)
    return {"lines": lines, "impl": impls, "violations": viol, "nontrivial": bool(case["vals"]),
            "stats": ["csv_price"]}


def eval_sched(case):
    from spice_ev import events
    from pathlib import Path
    viol = []
    nveh = case["nveh"]
    names = ["veh%d" % j for j in range(nveh)]
    header = ["timestamp", "schedule [kW]", "charge", "a", "b", "c", "d"] + names
    if not case["window_col"]:
        header[2] = "nocharge"
    with tempfile.TemporaryDirectory() as d:
        with open(os.path.join(d, "s.csv"), "w") as f:
            f.write(",".join(header) + "\n")
            for (ts, tgt, win, veh) in case["rows"]:
                f.write(",".join([ts, repr(tgt), "1" if win else "0", "0", "0", "0", "0"] + [repr(v) for v in veh]) + "\n")
        obj = {"column": "schedule [kW]", "start_time": case["start"], "step_duration_s": case["step_s"],
               "csv_file": "s.csv", "grid_connector_id": case["gc"], "individual": case["individual"]}
        if case["start"] is None:
            del obj["start_time"]
        try:
            evs = events.get_schedule_from_csv(obj, Path(d))
            impl = lst(evs, evwire.ev_impl)
        except Exception as e:
            evs, impl = None, evwire.err_name(e)
    ind = case["individual"]
    use = names if ind else []

    def parse(ts):
        try:
            return datetime.datetime.fromisoformat(ts)
        except ValueError:
            return None
    start = None if case["start"] is None else datetime.datetime.fromisoformat(case["start"])
    step = datetime.timedelta(seconds=case["step_s"])
    rows = []
    for (ts, tgt, win, veh) in case["rows"]:
        pv = veh[len(veh) - len(use):] if use else []
        rows.append("%s %s %s %s" % (dt_tok(parse(ts)), num(tgt), boolean(win), lst(pv, num)))
    line = "schedcsv q %s %d %s %s %s %s" % (dt_tok(start), evwire.td_us(step), case["gc"],
                                             boolean(case["window_col"]), lst(use, evwire.name),
                                             " ".join([str(len(rows))] + rows))
    # property: a per-vehicle schedule event carries the time of the row in which the value changed,
    # a connector event the time of the row in which target/window changed
    stats = ["csv_sched_individual" if ind else "csv_sched"]
    if evs is not None:
        row_time = []
        s_eff = start
        ok = True
        for i, (ts, _, _, _) in enumerate(case["rows"]):
            t = parse(ts)
            if t is not None:
                if (s_eff is None or s_eff.tzinfo) and not t.tzinfo:
                    t = t.replace(tzinfo=datetime.timezone(datetime.timedelta(hours=2)))
                s_eff = s_eff or t
            else:
                if s_eff is None:
                    ok = False
                    break
                t = i * step + s_eff
            row_time.append(t)
        if ok:
            exp = []
            lt, lw, lv = None, None, {}
            for i, (ts, tgt, win, veh) in enumerate(case["rows"]):
                w = win if case["window_col"] else None
                if tgt != lt or w != lw:
                    exp.append(("G", row_time[i], None))
                    lt, lw = tgt, w
                if ind:
                    for j in reversed(range(nveh)):
                        if lv.get(j) != veh[j]:
                            exp.append(("V", row_time[i], names[j]))
                            lv[j] = veh[j]
            got = [("G" if type(x) is events.GridOperatorSignal else "V", x.start_time, getattr(x, "vehicle_id", None))
                   for x in evs]
            if got != exp:
                bad_v = [g for g, e in zip(got, exp) if g != e and g[0] == "V" and e[0] == "V" and g[2] == e[2]]
                if len(got) == len(exp) and bad_v and all(g == e or (g[0] == "V" and e[0] == "V" and g[2] == e[2])
                                                         for g, e in zip(got, exp)):
                    viol.append(("schedule_rows", "C07:schedule_vehicle_event_time",
                                 "vehicle schedule event for %s at %s, its row is at %s"
                                 % (bad_v[0][2], bad_v[0][1].isoformat(),
                                    [e for g, e in zip(got, exp) if g != e][0][1].isoformat())))
                else:
                    viol.append(("schedule_rows", "C07:schedule_event_time", "got %s want %s" % (got[:3], exp[:3])))
            for x in evs:
                if x.signal_time > x.start_time and type(x) is events.GridOperatorSignal:
                    viol.append(("schedule_rows", "C07:schedule_signal_after_start", evwire.ev_impl(x)))
                    break
    return {"lines": [line], "impl": [impl], "violations": viol,
            "nontrivial": evs is not None and len(evs) > 0, "stats": stats}


def eval_case(case):
    if case.get("k") == "keeps_run" or ("k" not in case and "scenario" in case):
        return eval_keeps(case)
    if case["k"] == "price":
        return eval_price(case)
    if case["k"] == "sched":
        return eval_sched(case)
    line = evwire.run_line(case)
    impl, obs = evwire.run_impl(case)
    viol = oracle(case, obs)
    stats = []
    if case.get("bad"):
        stats.append("malformed")
    if obs.init_error is not None or obs.bucket_error is not None:
        stats.append("setup_error")
    else:
        if obs.moved:
            stats.append("moved")
        if obs.ignored:
            stats.append("ignored")
        if obs.error is not None:
            stats.append("abort_" + type(obs.error).__name__)
        if any(len(r["popped"]) > 1 for r in obs.records):
            stats.append("several_events_in_one_step")
        if obs.records and obs.records[-1]["queue"]:
            stats.append("queue_left_at_end")
        for r in obs.records:
            for x in r["popped"]:
                stats.append("applied_" + type(x).__name__)
                break
    nontrivial = any(r["popped"] for r in obs.records)
    return {"lines": [line], "impl": [impl], "violations": viol, "nontrivial": nontrivial, "stats": sorted(set(stats))}
