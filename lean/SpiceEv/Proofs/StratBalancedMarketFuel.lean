/-
Fuel of the loops of the `BalancedMarket` model: the fuel never runs out where the Python loop
terminates.
-/
import SpiceEv.Proofs.StratBalancedMarket
import SpiceEv.Proofs.StratBalancedMarketLimit
import Mathlib.Tactic.Ring
import Mathlib.Tactic.Positivity
set_option linter.unusedSectionVars false
set_option linter.unusedSimpArgs false
set_option linter.unusedVariables false
namespace SpiceEv.BalancedMarket
open SpiceEv
variable {α B : Type} [Field α] [LinearOrder α] [IsStrictOrderedRing α]

/-- the battery operations themselves never report exhausted fuel -/
def NoFuel (ops : Ops α B) : Prop :=
  (∀ b mp ts tp, ops.load b mp ts tp ≠ .error .fuel) ∧ (∀ b mp ts tp, ops.unload b mp ts tp ≠ .error .fuel)

theorem batPass_nofuel (ops : Ops α B) (hnf : NoFuel ops) (minCh power : α) :
    ∀ (l : List (TS α)) (i : Nat) (bat : B) (bp : α), batPass ops minCh power l i bat bp ≠ .error .fuel := by
  intro l
  induction l with
  | nil => intro i bat bp; simp [batPass]
  | cons t rest ih =>
    intro i bat bp
    unfold batPass
    simp only [bind, Except.bind]
    split
    · rename_i e he
      intro hc
      simp only [Except.error.injEq] at hc
      subst hc
      exact hnf.1 _ _ _ _ he
    · exact ih _ _ _

/-- **The battery bisection ends within its fuel**: the bracket `[min_power, max_power]` halves in
every pass, so `n + 1` units of fuel suffice as soon as `max_power − min_power ≤ EPS · 2ⁿ`
(`bisectFuel = 2200`: any bracket of doubles). -/
theorem batBisect_fuel (ops : Ops α B) (hnf : NoFuel ops) (eps minCh : α) (cheap : List (TS α))
    (oldSoc : α) (heps : 0 < eps) :
    ∀ (n : Nat) (minP maxP : α) (bat : B) (bp : α), maxP - minP ≤ eps * 2 ^ n →
      batBisect ops eps minCh cheap oldSoc (n + 1) minP maxP bat bp ≠ .error .fuel := by
  intro n
  induction n with
  | zero =>
    intro minP maxP bat bp hw
    unfold batBisect
    rw [if_neg (by simpa using hw)]
    simp
  | succ n ih =>
    intro minP maxP bat bp hw
    unfold batBisect
    split
    · simp only [bind, Except.bind]
      split
      · rename_i e he
        intro hc
        simp only [Except.error.injEq] at hc
        subst hc
        exact batPass_nofuel ops hnf _ _ _ _ _ _ he
      · rename_i r hr
        obtain ⟨bat', bp'⟩ := r
        simp only
        have h2 : ((2 : Nat) : α) = 2 := by norm_num
        split
        · apply ih
          rw [h2]
          have : (minP + maxP) / 2 - minP = (maxP - minP) / 2 := by ring
          rw [this]
          have : eps * 2 ^ (n + 1) = 2 * (eps * 2 ^ n) := by ring
          rw [this] at hw
          linarith
        · apply ih
          rw [h2]
          have : maxP - (minP + maxP) / 2 = (maxP - minP) / 2 := by ring
          rw [this]
          have : eps * 2 ^ (n + 1) = 2 * (eps * 2 ^ n) := by ring
          rw [this] at hw
          linarith
    · simp

theorem foldlM_nofuel {σ β : Type} (f : σ → β → Py σ) (hf : ∀ s b, f s b ≠ .error .fuel) :
    ∀ (l : List β) (s : σ), l.foldlM f s ≠ .error .fuel := by
  intro l
  induction l with
  | nil => intro s; simp [List.foldlM_nil, pure, Except.pure]
  | cons b rest ih =>
    intro s
    simp only [List.foldlM_cons, bind, Except.bind]
    split
    · rename_i e he
      intro hc
      simp only [Except.error.injEq] at hc
      subst hc
      exact hf _ _ he
    · exact ih _

theorem lget_nofuel {β : Type} (l : List β) (i : Nat) : lget l i ≠ .error .fuel := by
  unfold lget; split <;> simp

theorem naivePass_nofuel (ops : Ops α B) (hnf : NoFuel ops) (cs : StationS α) (vmin : α)
    (ts : List (TS α)) (same : List Nat) (power : List α) (sim : B) :
    naivePass ops cs vmin ts same power sim ≠ .error .fuel := by
  unfold naivePass
  apply foldlM_nofuel
  intro s i
  simp only [bind, Except.bind]
  split
  · rename_i e he
    intro hc
    simp only [Except.error.injEq] at hc
    subst hc
    exact lget_nofuel _ _ he
  · split
    · rename_i e he
      intro hc
      simp only [Except.error.injEq] at hc
      subst hc
      exact hnf.1 _ _ _ _ he
    · simp [pure, Except.pure]

theorem samePrice_le (env : Env α) (sorted : List (α × Nat)) (i : Nat) (cost : α) (s : Nat)
    (hi : i < sorted.length) : (samePrice env sorted i cost s).2 ≤ sorted.length := by
  unfold samePrice
  simp only
  have h1 := (List.takeWhile_sublist
    (fun (e : α × Nat) => decide (pyabs (e.1 - cost) < env.eps) || decide (e.1 ≤ env.priceThreshold))
    (l := sorted.drop (i + 1))).length_le
  have h2 : (sorted.drop (i + 1)).length = sorted.length - (i + 1) := List.length_drop
  omega

/-- **The planning loop ends within its fuel** (`len(sorted_ts) + 1`): `sorted_idx` grows in every
pass, so exhausted fuel can only be reported by the inner power bisection (whose Python original has no
bound: it does not end when the evaluation at the converged upper end stays unsafe). -/
theorem chargeLoop_fuel (ops : Ops α B) (hnf : NoFuel ops) (env : Env α) (v : VehicleS α B)
    (ts : List (TS α)) (sorted : List (α × Nat))
    (hb : ∀ (cs : StationS α) (same : List Nat) (oldSoc desired : α) (power : List α) (sim : B),
      bisect ops env.eps cs v.minChargingPower ts same oldSoc desired bisectFuel 0 (cs.maxPower - pymin cs.currentPower 0) false
        power sim ≠ .error .fuel) :
    ∀ (fuel : Nat) (st : VSt α B), st.sortedIdx ≤ sorted.length →
      sorted.length + 1 ≤ st.sortedIdx + fuel →
      chargeLoop ops env v ts sorted fuel st ≠ .error .fuel := by
  intro fuel
  induction fuel with
  | zero => intro st h1 h2; omega
  | succ n ih =>
    intro st h1 h2
    unfold chargeLoop
    split
    · simp
    · rename_i cost startIdx hsorted
      have hlt : st.sortedIdx < sorted.length := by
        by_contra hc
        rw [List.getElem?_eq_none (by omega)] at hsorted
        cases hsorted
      generalize ((if cost < env.priceThreshold then 1 else v.desiredSoc) - env.eps) = desired
      split
      rename_i same next hsp
      dsimp only
      split
      · simp
      · simp only [bind, Except.bind]
        split
        · rename_i e he
          intro hc
          simp only [Except.error.injEq] at hc
          subst hc
          exact naivePass_nofuel ops hnf _ _ _ _ _ _ he
        · rename_i r1 hr1
          obtain ⟨pw1, sm1⟩ := r1
          simp only
          split
          · rename_i e he
            intro hc
            simp only [Except.error.injEq] at hc
            subst hc
            split at he
            · exact hb _ _ _ _ _ _ he
            · simp [pure, Except.pure] at he
          · rename_i r2 hr2
            obtain ⟨pw2, sm2⟩ := r2
            simp only
            split
            · simp
            · split
              · split
                · rename_i e he
                  intro hc
                  simp only [Except.error.injEq] at hc
                  subst hc
                  exact hnf.1 _ _ _ _ he
                · simp
              · apply ih
                · have := samePrice_le env sorted st.sortedIdx cost startIdx hlt
                  rw [hsp] at this
                  exact this
                · have := samePrice_next env sorted st.sortedIdx cost startIdx
                  rw [hsp] at this
                  show sorted.length + 1 ≤ next + n
                  simp only at this
                  omega

/-! ### the power bisection of the planning loop -/

theorem bisectPass_nofuel (ops : Ops α B) (hnf : NoFuel ops) (cs : StationS α) (vmin : α)
    (ts : List (TS α)) (same : List Nat) (cur : α) (power : List α) (sim : B) :
    bisectPass ops cs vmin ts same cur power sim ≠ .error .fuel := by
  unfold bisectPass
  apply foldlM_nofuel
  intro s i
  simp only [bind, Except.bind]
  split
  · rename_i e he
    intro hc
    simp only [Except.error.injEq] at hc
    subst hc
    exact lget_nofuel _ _ he
  · split
    · rename_i e he
      intro hc
      simp only [Except.error.injEq] at hc
      subst hc
      exact hnf.1 _ _ _ _ he
    · simp [pure, Except.pure]

/-- the simulated battery after a bisection pass does not depend on the `power` list passed in -/
theorem bisectPass_sim_indep (ops : Ops α B) (cs : StationS α) (vmin : α) (ts : List (TS α)) (cur : α) :
    ∀ (same : List Nat) (pw pw' : List α) (sim : B),
      (bisectPass ops cs vmin ts same cur pw sim).map Prod.snd =
      (bisectPass ops cs vmin ts same cur pw' sim).map Prod.snd := by
  intro same
  induction same with
  | nil => intro pw pw' sim; simp [bisectPass, List.foldlM_nil, pure, Except.pure, Except.map]
  | cons i rest ih =>
    intro pw pw' sim
    unfold bisectPass at ih ⊢
    simp only [List.foldlM_cons, bind, Except.bind]
    cases hl : lget ts i with
    | error e => simp [Except.map]
    | ok t =>
      simp only
      cases hld : ops.load sim none none (some (clampV cs vmin (pymin t.power cur))) with
      | error e => simp [Except.map]
      | ok r =>
        simp only [pure, Except.pure]
        exact ih _ _ _

/-- **The power bisection of the planning loop ends within its fuel when its upper end is safe.**
With a simulated battery that is the real one up to its SoC (`SimLaw`), the evaluation of a candidate
power is a function of that power alone.  If the evaluation at the current upper end `max_power` reaches
the target (true at the start when charging with `cs.max_power` reaches it, and kept by the loop, which
only lowers `max_power` to powers it has seen to be safe), the bracket halves until it is at most `EPS`
wide and at most one more pass (at `max_power`, the repair H2) ends the loop: `n + 2` units of fuel suffice
as soon as `max_power − min_power ≤ EPS · 2ⁿ`.  If the upper end is *not* safe the Python loop does not
terminate (it evaluates `max_power` for ever); the model then reports `FUEL`. -/
theorem bisect_fuel (ops : Ops α B) (hnf : NoFuel ops) (R : B → B → Prop) (sl : SimLaw ops R)
    (eps : α) (cs : StationS α) (vmin : α) (ts : List (TS α)) (same : List Nat) (bOld : B) (desired : α)
    (heps : 0 < eps) :
    ∀ (n : Nat) (minP maxP : α) (safe : Bool) (power : List α) (sim : B), R bOld sim →
      (∀ pw pw' sm, bisectPass ops cs vmin ts same maxP pw bOld = .ok (pw', sm) → desired ≤ ops.soc sm) →
      maxP - minP ≤ eps * 2 ^ n →
      bisect ops eps cs vmin ts same (ops.soc bOld) desired (n + 2) minP maxP safe power sim ≠ .error .fuel := by
  -- one pass at the converged upper end, then the loop ends
  have hconv : ∀ (m : Nat) (minP maxP : α) (safe : Bool) (power : List α) (sim : B), R bOld sim →
      (∀ pw pw' sm, bisectPass ops cs vmin ts same maxP pw bOld = .ok (pw', sm) → desired ≤ ops.soc sm) →
      maxP - minP ≤ eps →
      bisect ops eps cs vmin ts same (ops.soc bOld) desired (m + 2) minP maxP safe power sim ≠ .error .fuel := by
    intro m minP maxP safe power sim hR hsafe hw
    unfold bisect
    split
    · rw [sl.restore bOld sim hR]
      simp only [bind, Except.bind, if_pos hw]
      split
      · rename_i e he
        intro hc
        simp only [Except.error.injEq] at hc
        subst hc
        exact bisectPass_nofuel ops hnf _ _ _ _ _ _ _ he
      · rename_i r hr
        obtain ⟨pw, sm⟩ := r
        have hs := hsafe _ _ _ hr
        simp only [hs, decide_true, Bool.not_true, Bool.false_eq_true, if_false]
        unfold bisect
        have : ¬ (eps < maxP - minP) := not_lt.mpr hw
        simp [this]
    · simp
  intro n
  induction n with
  | zero =>
    intro minP maxP safe power sim hR hsafe hw
    exact hconv 0 minP maxP safe power sim hR hsafe (by simpa using hw)
  | succ n ih =>
    intro minP maxP safe power sim hR hsafe hw
    rcases le_or_gt (maxP - minP) eps with hle | hgt
    · exact hconv (n + 1) minP maxP safe power sim hR hsafe hle
    · unfold bisect
      split
      · rw [sl.restore bOld sim hR]
        simp only [bind, Except.bind, if_neg (not_le.mpr hgt)]
        split
        · rename_i e he
          intro hc
          simp only [Except.error.injEq] at hc
          subst hc
          exact bisectPass_nofuel ops hnf _ _ _ _ _ _ _ he
        · rename_i r hr
          obtain ⟨pw, sm⟩ := r
          have hRs : R bOld sm := bisectPass_R ops R sl bOld cs vmin ts same _ power pw bOld sm (sl.refl _) hr
          have h2 : ((2 : Nat) : α) = 2 := by norm_num
          have hw' : eps * 2 ^ (n + 1) = 2 * (eps * 2 ^ n) := by ring
          simp only
          split
          · -- not safe: raise the lower end
            apply ih _ _ _ _ _ hRs hsafe
            rw [h2]
            have : maxP - (maxP + minP) / 2 = (maxP - minP) / 2 := by ring
            rw [this]; rw [hw'] at hw; linarith
          · -- safe: lower the upper end to the power just seen to be safe
            rename_i hsf
            apply ih _ _ _ _ _ hRs
            · intro pw1 pw1' sm1 h1
              have hind := bisectPass_sim_indep ops cs vmin ts ((maxP + minP) / ((2 : Nat) : α)) same pw1 power bOld
              rw [h1, hr] at hind
              simp only [Except.map, Except.ok.injEq] at hind
              subst hind
              simpa using hsf
            · rw [h2]
              have : (maxP + minP) / 2 - minP = (maxP - minP) / 2 := by ring
              rw [this]; rw [hw'] at hw; linarith
      · simp

end SpiceEv.BalancedMarket
