"""S_BALANCED_MARKET — step-level correspondence of the Lean model of `BalancedMarket`
(lean/SpiceEv/Model/StratBalancedMarket.lean) with the real class.

Real `Scenario.run('balanced_market')` on generated scenarios (harness/scen.py, all features, plus
HORIZON and polynomial prices); the class's `step()` is wrapped at run time: the complete world state
before every step — connectors with loads, stations, vehicles and batteries with their real Battery
objects, the queue `world_state.future_events` as the strategy sees it, the weekly average fixed-load
tables, clock, interval, HORIZON, EPS, PRICE_THRESHOLD — is rendered as one protocol line
(`step_balanced_market`), the real step runs, and commands / connector loads / station power / vehicle and
battery SoCs after the step are compared with the model's line bit for bit (by value).  `__init__`'s
signal-time adjustment is tied the same way (`init_balanced_market`).
"""
import contextlib
import datetime
import random

import engine
import scen
from wire import enc, dec
from c10 import us, f, r_battery, r_cost

engine.use_repo()

PID = "S_BALANCED_MARKET"
THEOREM_MODULES = sorted(p.stem for p in (engine.LEAN / "SpiceEv" / "Properties").glob("C??_BalancedMarket.lean"))
CHUNK = 1
RULE = ("scenarios from the grammar in harness/scen.py with strategy balanced_market (fixed load, generation, "
        "limit/price/window signals off and on the step grid, stationary batteries incl. unlimited and two per "
        "connector, V2G, CONCURRENCY, PRICE_THRESHOLD, station/vehicle minimum power, two connectors) plus HORIZON "
        "values and polynomial price dicts; every strategy step of every run is one model evaluation, the "
        "constructor's signal-time adjustment another; non-trivial = a run in which at least one command is "
        "non-zero; distinct = distinct (seed, index)")
ASSUMPTIONS = ["model vs implementation: floats compared by value (+0.0 == -0.0), no tolerance",
               "the battery is the model of battery.py tied by C01 (here it is exercised through the strategy's calls)"]
UNPROVED = ["run-level statements (C04 limit, C09 service, C11 signal following) are proved for the step model "
            "under the hypotheses stated in the theorems; sentences outside them are covered by the run oracles of "
            "C04/C05/C09/C11 on the real code"]


def us_td(td):
    return (td.days * 86400 + td.seconds) * 1000000 + td.microseconds


def r_event_cost(c):
    if c is None:
        return "U"
    return r_cost(c)


def render_events(strat):
    from spice_ev import events as ev_mod
    out = []
    fe = strat.world_state.future_events
    out.append(str(len(fe)))
    for e in fe:
        if type(e) is ev_mod.GridOperatorSignal:
            mp = e.max_power
            out += ["S", str(us(e.start_time)), e.grid_connector_id,
                    "N" if mp is None else "S " + f(mp), r_event_cost(e.cost)]
        elif type(e) is ev_mod.LocalEnergyGeneration:
            out += ["G", str(us(e.start_time)), e.grid_connector_id, e.name, f(e.value)]
        else:
            out += ["O", str(us(e.start_time))]
    return out


def render_world(strat):
    ws = strat.world_state
    interval_us = us_td(strat.interval)
    off = strat.current_time.utcoffset()
    parts = ["step_balanced_market", f(strat.EPS), f(strat.PRICE_THRESHOLD), str(us(strat.current_time)),
             str(interval_us), str(us_td(datetime.timedelta(hours=strat.HORIZON))),
             str(0 if off is None else us_td(off))]
    parts += render_events(strat)
    tables = [(gid, gc.avg_fixed_load) for gid, gc in ws.grid_connectors.items() if gc.avg_fixed_load is not None]
    parts.append(str(len(tables)))
    for gid, t in tables:
        parts += [gid, str(len(t))]
        for row in t:
            parts.append(str(len(row)))
            parts += [f(x) for x in row]
    parts.append(str(len(ws.grid_connectors)))
    for gid, gc in ws.grid_connectors.items():
        parts += [gid, f(gc.cur_max_power), r_cost(gc.cost), str(len(gc.current_loads))]
        for k, v in gc.current_loads.items():
            parts += [k, f(v)]
    parts.append(str(len(ws.charging_stations)))
    for cid, cs in ws.charging_stations.items():
        parts += [cid, cs.parent, f(cs.max_power), f(cs.min_power), f(cs.current_power)]
    parts.append(str(len(ws.vehicles)))
    for vid, v in ws.vehicles.items():
        etd = v.estimated_time_of_departure
        parts += [vid, "N" if v.connected_charging_station is None else "S " + v.connected_charging_station,
                  f(v.desired_soc), "N" if etd is None else "S %d" % us(etd),
                  f(v.vehicle_type.min_charging_power), "1" if v.vehicle_type.v2g else "0",
                  f(v.vehicle_type.discharge_limit), r_battery(v.battery)]
    parts.append(str(len(ws.batteries)))
    for bid, b in ws.batteries.items():
        parts += [bid, b.parent, f(b.min_charging_power), r_battery(b)]
    return " ".join(parts)


def render_result(strat, res):
    ws = strat.world_state
    cmds = res["commands"]
    kv = lambda d: " ".join([str(len(d))] + ["%s %s" % (k, f(v)) for k, v in d.items()])
    return (kv(cmds) + " | " + " ; ".join("%s %s" % (gid, kv(gc.current_loads)) for gid, gc in ws.grid_connectors.items())
            + " | " + " ".join(f(cs.current_power) for cs in ws.charging_stations.values())
            + " | " + " ".join(f(v.battery.soc) for v in ws.vehicles.values())
            + " | " + " ".join(f(b.soc) for b in ws.batteries.values()))


KINDS = {"AssertionError", "ZeroDivisionError", "ValueError", "KeyError", "IndexError", "TypeError",
         "OverflowError", "RuntimeError"}


def err_kind(e):
    """exception kinds the model distinguishes (SpiceEv.PyErr); any other kind (here: UnboundLocalError for
    `num_cheap_ts` when HORIZON is shorter than one interval) is its base class `Exception`, as in Model/Curve.lean"""
    n = type(e).__name__
    return n if n in KINDS else "Exception"


class Tie:
    def __init__(self):
        self.lines, self.impl, self.active = [], [], 0
        self.branches = set()


@contextlib.contextmanager
def tie(full):
    """wrap the real class's `step` and `__init__` for the duration of a `scen.run_real(full)`; collects the
    model request lines and the implementation's results per step"""
    from spice_ev import strategy as st_mod
    cls = st_mod.class_from_str("balanced_market")
    orig_step, orig_init = cls.step, cls.__init__
    t = Tie()

    def wrapped_step(self):
        line = render_world(self)
        try:
            res = orig_step(self)
        except Exception as e:
            t.lines.append(line)
            t.impl.append("!" + err_kind(e))
            raise
        t.lines.append(line)
        t.impl.append(render_result(self, res))
        if any(abs(x) > 1e-5 for x in res["commands"].values()):
            t.active += 1
        if any(x < -1e-5 for x in res["commands"].values()):
            t.branches.add("v2g_discharge")
        return res

    def wrapped_init(self, components, start_time, **kwargs):
        evs = kwargs.get("events")
        before = None
        if evs is not None:
            before = [(e.signal_time, e.start_time) for e in evs.grid_operator_signals]
        orig_init(self, components, start_time, **kwargs)
        if before is not None:
            after = [e.signal_time for e in evs.grid_operator_signals]
            line = " ".join(["init_balanced_market", str(us_td(datetime.timedelta(hours=self.HORIZON))),
                             str(us(start_time)), str(len(before))] + ["%d %d" % (us(a), us(b)) for a, b in before])
            t.lines.append(line)
            t.impl.append(" ".join([str(len(after))] + [str(us(a)) for a in after]) + " | "
                          + str(sum(1 for (o, _), n in zip(before, after) if n < o)))
    cls.step, cls.__init__ = wrapped_step, wrapped_init
    try:
        yield t
    finally:
        cls.step, cls.__init__ = orig_step, orig_init


def gen_full(seed, i):
    rng = random.Random("S_BM:%s:%s" % (seed, i))
    full = scen.gen_scenario(rng, strategy="balanced_market", feasible=rng.random() < 0.8,
                             max_steps=rng.choice([24, 36, 56]))
    # options of the class beyond the shared grammar: HORIZON; polynomial price dicts
    r = rng.random()
    if r < 0.35:
        full["options"]["HORIZON"] = rng.choice([1, 2, 6, 12, 0.5, 48, 30])
    if rng.random() < 0.25:
        def poly(c):
            if c and c.get("type") == "fixed" and rng.random() < 0.6:
                v = c["value"]
                return {"type": "polynomial", "value": rng.choice([[v], [0.0, v], [v / 2, v / 4, v / 4], [v, 0.1, -0.1]])}
            return c
        for gc in full["scenario"]["components"]["grid_connectors"].values():
            gc["cost"] = poly(gc["cost"])
        for s in full["scenario"]["events"]["grid_operator_signals"]:
            if "cost" in s:
                s["cost"] = poly(s["cost"])
    if rng.random() < 0.08:
        # boundary: connector loads far below EPS (the battery block's default power `max(-avail, 0)`, the surplus
        # pass's `avail < -EPS`, the battery's own `soc - target > EPS` skip)
        sc = full["scenario"]
        for g in sc["components"]["grid_connectors"]:
            tiny = [rng.choice([1e-6, 3e-5, 0.0, 2e-6, 9e-6]) for _ in range(12)]
            sc["events"]["fixed_load"]["load_" + g] = {
                "start_time": sc["scenario"]["start_time"], "step_duration_s": 60 * sc["scenario"]["interval"] * 3,
                "grid_connector_id": g, "values": tiny}
            if rng.random() < 0.5:
                sc["events"]["local_generation"].pop("pv_" + g, None)
    full["pid"] = PID
    return full


def gen_cases(tier, seed):
    n = 800 if tier == "quick" else 5000
    for i in range(n):
        yield {"seed": seed, "i": i, "pid": PID}


def eval_case(case):
    full = case if "scenario" in case else gen_full(case["seed"], case["i"])
    with tie(full) as t:
        res = scen.run_real(full, timeout_s=60, collect_ops=False)
    stats = ["runs"]
    if res.get("timeout"):
        stats.append("timeout")
    if any(x.startswith("!") for x in t.impl):
        stats.append("step_raised")
    stats += sorted(t.branches)
    if "HORIZON" in full["options"]:
        stats.append("horizon_option")
    return {"lines": t.lines, "impl": t.impl, "violations": [], "nontrivial": t.active > 0,
            "stats": stats, "replay_case": full, "num": {"steps_compared": len(t.lines)}}


def compare(case, impl, model, tol=0.0):
    a, b = impl.split(), model.split()
    if len(a) != len(b):
        return "different shape (%d vs %d tokens): %s  //  %s" % (len(a), len(b), impl[:200], model[:200])
    for i, (x, y) in enumerate(zip(a, b)):
        if x == y:
            continue
        if x.startswith("x") and y.startswith("x"):
            fx, fy = dec(x), dec(y)
            if fx == fy or abs(fx - fy) <= tol * max(1.0, abs(fx), abs(fy)):
                continue
            return "token %d: impl %r model %r" % (i, fx, fy)
        return "token %d: impl %s model %s" % (i, x, y)
    return None


# ---- recognisers for the mechanisms of the known findings (notes/S_BALANCED_MARKET.md, section 4) ----------------
# pure functions of recorded state, for the run-level oracles that want to key these findings narrowly

def c04_stale_forecast(L0, limit, load_after, station_loads, battery_loads, cheap_now, eps=1e-5):
    """C04:strategy_breaks_limit:balanced_market:draw:* — the battery block charges with `timesteps[0]["power"]`, which
    is not reduced by an earlier battery's charge nor by the surplus pass.  `L0`: connector load before the strategy
    step (fixed load - generation), `station_loads` / `battery_loads`: post-step loads of this connector's stations /
    stationary batteries, `cheap_now`: get_cost(1, gc.cost) <= PRICE_THRESHOLD."""
    bp = [x for x in battery_loads if x > 0]
    if not (load_after > 0 and cheap_now and bp):
        return False
    stale = (sum(bp) - max(bp)) + min(sum(max(x, 0) for x in station_loads), max(-L0, 0))
    return load_after - limit <= stale + eps * (len(bp) + len(station_loads) + 1)


def c05_second_call_needs_surplus(L0, eps=1e-5):
    """C05:above_charging_curve:balanced_market:several_battery_calls_in_one_step — the second call is the surplus
    pass's, which only acts on feed-in: the connector load before the strategy step is below -EPS."""
    return L0 < -eps


def c09_price_order_simulation(window_prices, curve_points, soc, desired, eps=1e-5):
    """C09:desired_soc_missed:balanced_market:varying_curve* — the plan is simulated in price order: needs a cheaper
    price later than a dearer one within the standing time and a curve that is not constant on [soc, desired]."""
    later_cheaper = any(window_prices[j] < window_prices[i] - eps
                        for i in range(len(window_prices)) for j in range(i + 1, len(window_prices)))
    pts = sorted((float(x), float(y)) for x, y in curve_points)

    def at(s):
        for (x0, y0), (x1, y1) in zip(pts, pts[1:]):
            if x0 <= s <= x1:
                return y0 if x1 == x0 else y0 + (y1 - y0) * (s - x0) / (x1 - x0)
        return pts[-1][1]
    lo, hi = max(0.0, min(soc, desired)), min(1.0, max(soc, desired))
    ys = [at(lo), at(hi)] + [y for x, y in pts if lo < x < hi]
    return later_cheaper and max(ys) - min(ys) > eps
