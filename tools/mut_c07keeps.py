#!/venv/bin/python
"""Mutation table of task c07keeps: hand-written realistic edits of the strategies' own steps that touch the state events
set (connector limit / cost / target / window / fixed-load entries) or the pending event queue.  Each is applied to the
scratch repository, the named checks are run, the repository is restored.

usage: tools/mut_c07keeps.py <verif dir> <repo dir> [mutation ids…]   (env VERIF_NPROC, CHECKS="C07 C14")
"""
import os
import subprocess
import sys

MUT = {
    "M1_distributed_no_restore": ("spice_ev/strategies/distributed.py",
                                  "                            gc.cur_max_power = power[1]\n",
                                  "                            pass\n"),
    "M2_balanced_market_peek_pops": ("spice_ev/strategies/balanced_market.py",
                                     """                if event.start_time > cur_time:
                    # not this timestep
                    break
                event_idx += 1
""", """                if event.start_time > cur_time:
                    # not this timestep
                    break
                self.world_state.future_events.remove(event)
"""),
    "M3_peak_shaving_moves_signal_time": ("spice_ev/strategies/peak_shaving.py",
                                          """                    break
                event_idx += 1
                if type(event) is events.LocalEnergyGeneration:
""", """                    break
                event_idx += 1
                event.signal_time = event.start_time          # 'normalise' the event once it has been looked at
                if type(event) is events.LocalEnergyGeneration:
"""),
    "M4_flex_window_writes_forecast_limit": ("spice_ev/strategies/flex_window.py",
                                             "                    cur_max_power = event.max_power or cur_max_power\n",
                                             "                    gc.cur_max_power = cur_max_power = event.max_power or cur_max_power\n"),
    "M5_schedule_writes_forecast_target": ("spice_ev/strategies/schedule.py",
                                           """                        event.target if event.target is not None else gc_info[-1]["target"]
""", """                        event.target if event.target is not None else gc_info[-1]["target"]
                    gc.target = gc_info[-1]["target"]
"""),
    "M6_greedy_decrements_limit": ("spice_ev/strategies/greedy.py",
                                   """                avg_power = vehicle.battery.load(self.interval, power)['avg_power']
""", """                avg_power = vehicle.battery.load(self.interval, power)['avg_power']
                gc.cur_max_power -= avg_power
"""),
    "M7_plw_writes_forecast_limit": ("spice_ev/strategies/peak_load_window.py",
                                     "                    cur_max_power = event.max_power\n",
                                     "                    gc.cur_max_power = cur_max_power = event.max_power\n"),
    "M8_peak_shaving_plans_on_real_vehicles": ("spice_ev/strategies/peak_shaving.py",
                                               "        sim_vehicles = deepcopy(self.world_state.vehicles)\n",
                                               "        sim_vehicles = dict(self.world_state.vehicles)\n"),
    "M9_peak_shaving_arrival_applied_to_real_vehicle": ("spice_ev/strategies/peak_shaving.py",
                                                        '                    "vehicle": deepcopy(v),\n',
                                                        '                    "vehicle": self.world_state.vehicles[vid],\n'),
    "R1_refactor_distributed_restore": ("spice_ev/strategies/distributed.py",
                                        "                            gc.cur_max_power = power[1]\n",
                                        "                            _saved_limit = power[1]\n"
                                        "                            gc.cur_max_power = _saved_limit\n"),
    "R2_refactor_balanced_market_peek": ("spice_ev/strategies/balanced_market.py",
                                         "                    event = self.world_state.future_events[event_idx]\n",
                                         "                    pending = self.world_state.future_events\n"
                                         "                    event = pending[event_idx]\n"),
}


def main():
    verif, repo = sys.argv[1], sys.argv[2]
    ids = sys.argv[3:] or [k for k in MUT if MUT[k][1] is not None]
    checks = os.environ.get("CHECKS", "C07").split()
    env = dict(os.environ, VERIF_REPO=repo, VERIF_NPROC=os.environ.get("VERIF_NPROC", "3"))
    for mid in ids:
        path, old, new = MUT[mid]
        f = os.path.join(repo, path)
        src = open(f).read()
        if src.count(old) < 1:
            print(mid, "PATTERN NOT FOUND")
            continue
        open(f, "w").write(src.replace(old, new, 1))
        try:
            for chk in checks:
                p = subprocess.run([os.path.join(verif, "check"), chk], env=env, capture_output=True, text=True)
                out = [l for l in (p.stdout + p.stderr).split("\n")
                       if l.startswith(("VIOLATION", "KNOWN", chk + " "))]
                print("%-40s %-4s exit=%d  %s" % (mid, chk, p.returncode, " // ".join(o[:230] for o in out[:3])), flush=True)
        finally:
            open(f, "w").write(src)          # restore (the scratch copy may be a plain copy without git metadata)


if __name__ == "__main__":
    main()
