"""C14 — the distributed strategy delegates per station type and honours the station count.

Implementation-vs-implementation stream on real runs: `distributed` at a depot connector against a
real `balanced` run, at an opportunity connector against a real `greedy` run, on the scenario
restricted to that connector; `distributed` on the full scenario against `distributed` on the
restricted one (independence); number of simultaneously charged vehicles against `number_cs`.
"""
import copy
import random

import engine
import scen
from c16 import first_diff

engine.use_repo()

PID = "C14"
CHUNK = 2
RULE = ("scenarios from the grammar in harness/scen.py with 1-3 connectors of either station type, 1-6 vehicles, no "
        "generation / V2G / stationary batteries, with and without number_cs, on- and off-grid events; real runs of "
        "distributed, balanced and greedy; non-trivial = the run reported at least one step with station power; "
        "distinct = distinct (seed, index)")
ASSUMPTIONS = ["equality of the float series is exact (same operations in the same order)",
               "the delegation sentence is judged only for connectors without number_cs (prioritisation changes who "
               "is charged, by design)",
               "iterated model (run_distributed, harness/c14run.py): compared over standing periods of the real run only "
               "(windows of 2-12 consecutive steps between which no vehicle event / battery loss changed a vehicle's station, "
               "departure time, desired SoC, SoC or a battery's SoC; at most 2 windows per run, charging windows first)"]
UNPROVED = ["the run-level theorems (C14_distributed_run_is_delegated, C14_distributed_run_independent: the distributed run "
            "projected to a connector IS the stand-alone balanced / greedy run, at every step) take what the base step hands to "
            "the strategy per step (connectors after event processing, per-vehicle effect of the vehicle events) as data under "
            "premises; that the real Scenario.run composes that way is decided by the iterated-model stream (run_distributed) on "
            "standing periods and by the implementation-vs-implementation stream for runs with arrivals / departures"]
EPS = 1e-5


def gen_cases(tier, seed):
    n = 600 if tier == "quick" else 6000
    for i in range(n):
        yield {"seed": seed, "i": i, "pid": PID}


def restrict(full, gid):
    c = copy.deepcopy(full)
    s = c["scenario"]
    comp, ev = s["components"], s["events"]
    comp["grid_connectors"] = {gid: comp["grid_connectors"][gid]}
    comp["charging_stations"] = {k: v for k, v in comp["charging_stations"].items() if v["parent"] == gid}
    keep_v = set()
    for vid, v in comp["vehicles"].items():
        cs = v.get("connected_charging_station")
        if cs in comp["charging_stations"]:
            keep_v.add(vid)
    for e in ev["vehicle_events"]:
        cs = e["update"].get("connected_charging_station")
        if cs in comp["charging_stations"]:
            keep_v.add(e["vehicle_id"])
    comp["vehicles"] = {k: v for k, v in comp["vehicles"].items() if k in keep_v}
    ev["vehicle_events"] = [e for e in ev["vehicle_events"] if e["vehicle_id"] in keep_v]
    ev["grid_operator_signals"] = [e for e in ev["grid_operator_signals"] if e["grid_connector_id"] == gid]
    for kind in ("fixed_load", "local_generation"):
        ev[kind] = {k: v for k, v in ev.get(kind, {}).items() if v["grid_connector_id"] == gid}
    return c, keep_v


def series(r, gid, vids, n):
    idx = [i for i, v in enumerate(r["vehicle_ids_sorted"]) if v in vids]
    return {"totalLoad": r["totalLoad"][gid][:n], "cs": r["connChargeByTS"][gid][:n],
            "socs": [[row[i] for i in idx] for row in r["socs"][:n]]}


def record_prioritisation(full):
    """run the real distributed strategy and record, for every step and connector with number_cs, the
    inputs and the result of the ranking block (the `sorted` the block calls is shadowed in the module's
    namespace by a recording one; `self.connected` is read before and after the step)"""
    import builtins
    from spice_ev.strategies import distributed as dmod
    from wire import enc
    lines, impl = [], []
    calls = []

    def rec_sorted(it, *a, **k):
        lst = list(it)
        if lst and isinstance(lst[0], dict) and "vehicle_id" in lst[0] and "soc" in lst[0] or lst == []:
            calls.append([(x["vehicle_id"], x["soc"]) for x in lst])
        return builtins.sorted(lst, *a, **k)
    orig_step = dmod.Distributed.step

    def step(self):
        del calls[:]
        before = {}
        for gid, gc in self.world_state.grid_connectors.items():
            if gc.number_cs is not None:
                before[gid] = [vid for vid, v in self.connected[gid].items()
                               if v.connected_charging_station is not None]
        try:
            return orig_step(self)
        finally:
            k = 0
            for gid, conn in before.items():
                ncs = self.world_state.grid_connectors[gid].number_cs
                if len(conn) >= ncs:
                    arr = []
                elif k < len(calls):
                    arr = calls[k]
                    k += 1
                else:
                    continue          # the step raised before reaching this connector
                lines.append("prioritise %d %d %s %d %s" % (
                    ncs, len(conn), " ".join(conn), len(arr), " ".join("%s %s" % (a, enc(float(b))) for a, b in arr)))
                now = list(self.connected[gid].keys())
                impl.append(" ".join([str(len(now))] + now))
    dmod.sorted = rec_sorted
    dmod.Distributed.step = step
    try:
        # the complete step (virtual worlds, delegation, battery support, surplus pass) is tied to its model as well
        import steptie
        # the delegated sub-strategy steps (real Greedy.step / Balanced.step called by Distributed.step on the virtual
        # world of one connector) against the Lean SPECIFICATION of the documented rule (`specstep`,
        # Model/RuleSpec.lean; C14_distributed_deps_is_spec / _opps_is_spec): world before and result after every
        # delegated step, compared by value like the C10 stream
        import contextlib
        import c10
        import tie_rule
        steptie._guard(c10)
        spec_ties = [tie_rule.tie({"strategy": s}) for s in ("greedy", "balanced")]
        import c14run
        with contextlib.ExitStack() as es:
            for t in spec_ties:
                es.enter_context(t)
            recs = es.enter_context(c14run.recording())
            r, tl, ti = steptie.run_with_tie(full, lambda: scen.run_real(full, timeout_s=90))
        lines += tl
        impl += ti
        # … and the ITERATED model (`run_distributed`: the state is carried by the model) over standing periods of the run
        wl, wi, r["iterated_stats"] = c14run.windows(recs, tl, ti, no_generation=not full.get("with_gen"))
        lines += wl
        impl += wi
        if not (isinstance(r, dict) and r.get("timeout")):
            for t in spec_ties:
                lines += [c10.spec_line(x) for x in t.lines]
                impl += ["@tie_rule " + x for x in t.impl]
    finally:
        dmod.Distributed.step = orig_step
        del dmod.sorted
    return r, lines, impl


def eval_case(case):
    if "scenario" in case:
        full = case
    else:
        rng = random.Random("C14:%s:%s" % (case["seed"], case["i"]))
        with_gen = case["i"] % 3 == 2     # station-count sentence also with local generation
        full = scen.gen_scenario(rng, strategy="distributed", n_gc=rng.choice([1, 2, 2, 3]), feasible=True,
                                 features={"generation": with_gen, "v2g": False, "battery": False, "window": False,
                                           "window_signal": False, "number_cs": True if with_gen else None,
                                           "sub_strategies": False},
                                 max_steps=40)
        if not with_gen:
            full["scenario"]["events"]["local_generation"] = {}
        full["with_gen"] = with_gen
        full["pid"] = PID
        if case["i"] % 4 == 3 and not with_gen:
            # options meant for one station type only: the other type's connectors must still give the plain
            # balanced / greedy result under the run's general options (own generator: the scenario draws stay as they were)
            r2 = random.Random("C14opt:%s:%s" % (case["seed"], case["i"]))
            side = r2.choice(["deps", "opps"])
            full["options"]["strategy_options_" + side] = {"PRICE_THRESHOLD": r2.choice([0.1, 0.3, 0.3, -1.0])}
        # the vehicles of the generator belong to exactly one station each; one station type per connector
    viol, stats = [], []
    r, lines, impl = record_prioritisation(full)
    if r.get("step_i") is None:
        return {"lines": [], "impl": [], "violations": [], "nontrivial": False, "stats": ["no_run"],
                "replay_case": full}
    comp = full["scenario"]["components"]
    charged = False
    for gid, gc in comp["grid_connectors"].items():
        stations = [k for k, v in comp["charging_stations"].items() if v["parent"] == gid]
        if not stations:
            continue
        stype = stations[0].split("_")[-1]
        ncs = gc.get("number_cs")
        # station count
        if ncs is not None:
            for t in range(r["step_i"]):
                loads = dict(r["trace"][t]["post_strategy"]["gcs"][gid]["loads"])
                active = [k for k in stations if abs(loads.get(k, 0)) > EPS]
                if len(active) > ncs and not (r["trace"][t].get("event_error") or r["trace"][t].get("strat_error")):
                    viol.append(("number_cs", "C14:more_vehicles_charged_than_number_cs",
                                 "step %d %s: %d stations carry power, number_cs=%d" % (t, gid, len(active), ncs)))
                    break
            stats.append("number_cs")
        sub, vids = restrict(full, gid)
        if len(comp["grid_connectors"]) > 1:
            r_alone = scen.run_real(sub, timeout_s=60)
            if r_alone.get("step_i") is not None:
                n = min(r["step_i"], r_alone["step_i"]) - 1
                d = first_diff(series(r, gid, vids, n), series(r_alone, gid, vids, n))
                if d:
                    viol.append(("independent", "C14:connector_result_depends_on_other_connectors", "%s %s" % (gid, d[:250])))
        if ncs is None and not full.get("with_gen"):
            ref = dict(sub, strategy="balanced" if stype == "deps" else "greedy")
            ref["options"] = dict({k: v for k, v in sub.get("options", {}).items() if not k.startswith("strategy_")},
                                  **sub.get("options", {}).get("strategy_options_" + stype, {}))
            r_ref = scen.run_real(ref, timeout_s=60)
            if r_ref.get("step_i") is not None:
                n = min(r["step_i"], r_ref["step_i"]) - 1
                a, b = series(r, gid, vids, n), series(r_ref, gid, vids, n)
                d = first_diff(a, b)
                if any(any(abs(x) > EPS for x in row.values()) for row in a["cs"]):
                    charged = True
                if d:
                    viol.append(("delegation", "C14:%s_connector_differs_from_%s" % (stype, ref["strategy"]),
                                 "%s %s" % (gid, d[:250])))
            stats.append(stype)
    it = r.get("iterated_stats", [])
    return {"lines": lines, "impl": impl, "violations": viol, "nontrivial": charged or bool(r.get("step_i")),
            "stats": stats + it, "replay_case": full,
            "num": {"rankings_compared": len(lines), "iterated_windows": it.count("iterated_window"),
                    "iterated_steps": it.count("iterated_step")}}


def compare(case, impl, model):
    import steptie
    handled, d = steptie.compare(impl, model)
    if handled:
        return d
    return None if impl == model else "differs"
