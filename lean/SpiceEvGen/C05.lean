/-
C05 on the GENERATED definition of `util.clamp_power` (SpiceEvGen/Src.lean, re-translated from the Python source on
every run by harness/py2lean.py).  Only `theorem C05_gen_…` + a non-vacuity example.
-/
import SpiceEvGen.Src
import SpiceEv.Properties.C05
set_option linter.unusedSectionVars false
namespace SpiceEv
variable {α : Type} [Field α] [LinearOrder α] [IsStrictOrderedRing α]

/-- **The translated source is the hand model.** The Lean term generated from the text of `util.clamp_power` equals the
hand-written `clampPower` (which every strategy model calls and which C05/C10's theorems are about), for all arguments. -/
theorem C05_gen_clamp_power_is_model (power cur mx mn vmin : α) :
    Gen.clamp_power power cur mx mn vmin = clampPower power cur mx mn vmin := by
  first
    | rfl                                   -- today: the translation is the hand model up to `let`
    | (simp only [Gen.clamp_power, clampPower, pymin, pymax]
       grind)                               -- a rewritten but equivalent source is still accepted

/-- **Clamp, stated about the translated source**: the returned power is non-negative, at most what was offered (or 0),
keeps the station within its maximum, is 0 whenever the resulting station power would be below the station's or the
vehicle's minimum, and is monotone in the offered power. -/
theorem C05_gen_clamp_power (power cur mx mn vmin : α) :
    0 ≤ Gen.clamp_power power cur mx mn vmin ∧
    Gen.clamp_power power cur mx mn vmin ≤ max 0 power ∧
    (cur ≤ mx → cur + Gen.clamp_power power cur mx mn vmin ≤ mx) ∧
    (min (cur + power) mx < mn ∨ min (cur + power) mx < vmin → Gen.clamp_power power cur mx mn vmin = 0) ∧
    (∀ p2, power ≤ p2 → Gen.clamp_power power cur mx mn vmin ≤ Gen.clamp_power p2 cur mx mn vmin) := by
  simp only [C05_gen_clamp_power_is_model]
  obtain ⟨h1, h2, h3, h4⟩ := C05_clamp power cur mx mn vmin
  exact ⟨h1, h2, h3, h4, fun p2 h => C05_clamp_mono power p2 cur mx mn vmin h⟩

/-- Non-vacuity: station at 3 of 11 kW, 10 kW offered → 8 kW; below the station minimum → 0. -/
example : Gen.clamp_power (10 : ℚ) 3 11 0 0 = 8 ∧ Gen.clamp_power (1 : ℚ) 0 11 2 0 = 0 := by decide +kernel

end SpiceEv
