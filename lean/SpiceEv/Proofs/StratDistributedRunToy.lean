/-
Concrete objects on ℚ for the non-vacuity examples of Properties/C14_DistributedRun.lean: two connectors (GC1
opportunity / greedy with a fixed load, GC2 depot / balanced), one vehicle each, no stationary battery, a battery whose SoC
moves, two 15-minute steps of a standing period; a second scenario that differs at GC1 only.
-/
import SpiceEv.Proofs.StratDistributedRun
set_option linter.unusedSectionVars false
set_option linter.unusedVariables false
set_option linter.unusedSimpArgs false
namespace SpiceEv.DistRun
open SpiceEv SpiceEv.Distrib SpiceEv.Frame

/-- an ideal 100 kWh battery (state = SoC): charging takes what it is offered for a quarter of an hour -/
def runOps : BatOps ℚ ℚ where
  soc b := b
  capacity _ := 100
  efficiency _ := 1
  unloadMaxPower _ := 5
  load b mp _ tp := .ok (b + max (mp.getD (tp.getD 0)) 0 / 400, max (mp.getD (tp.getD 0)) 0)
  unload b _ _ tp := .ok (b, min (max (tp.getD 0) 0) 5)
  available _ := .ok 5

def runDOps : DOps ℚ ℚ := ⟨runOps, fun _ soc => .ok soc, fun _ s => s, fun _ => 5, List.sum⟩

theorem runOps_law : BatLaw runOps where
  load_max := by
    intro b p b' avg h
    simp only [runOps, Option.getD_some, Except.ok.injEq, Prod.mk.injEq] at h
    obtain ⟨_, rfl⟩ := h
    exact ⟨le_max_right _ _, le_refl _⟩
  load_target := by
    intro b p b' avg h
    simp only [runOps, Option.getD_some, Option.getD_none, Except.ok.injEq, Prod.mk.injEq] at h
    obtain ⟨_, rfl⟩ := h
    exact ⟨le_max_right _ _, le_refl _⟩
  unload_max := by
    intro b p ts b' avg h
    simp only [runOps, Option.getD_none, Except.ok.injEq, Prod.mk.injEq] at h
    obtain ⟨_, rfl⟩ := h
    simp only [max_self]
    exact ⟨le_min (le_refl _) (by norm_num), le_trans (min_le_left _ _) (le_max_right _ _)⟩
  unload_target := by
    intro b x b' avg h
    simp only [runOps, Option.getD_some, Except.ok.injEq, Prod.mk.injEq] at h
    obtain ⟨_, rfl⟩ := h
    exact ⟨le_min (le_max_right _ _) (by norm_num), min_le_left _ _⟩
  available_nonneg := by
    intro b a h
    simp only [runOps, Except.ok.injEq] at h
    subst h; norm_num

/-- options and clock of step `k` (15-minute steps) -/
def runEnv (k : Int) : DEnv ℚ :=
  { env := ⟨1/100000, 0, 4, k * 900000000, 900000000⟩, hours := 1/4,
    opps := ⟨.greedy, 1/100000, 0, 4, 900000000, none, none⟩,
    deps := ⟨.balanced, 1/100000, 0, 4, 900000000, none, none⟩ }

/-- GC1: opportunity connector, 10 kW, fixed load `l` kW; GC2: depot connector, 20 kW (prices above the threshold) -/
def runGcs (l : ℚ) : List (GcS ℚ) :=
  [⟨"GC1", 10, some (.fixed (3/10)), [("load", l)]⟩, ⟨"GC2", 20, some (.fixed (3/10)), []⟩]

/-- one vehicle at each connector (SoC of v1: `soc1`), departure after one hour, no stationary battery -/
def runState (l soc1 : ℚ) : DState ℚ ℚ :=
  { world := ⟨runGcs l,
              [⟨"CS_v1_opps", "GC1", 11, 0, 0⟩, ⟨"CS_v2_deps", "GC2", 11, 0, 0⟩],
              [⟨"v1", some "CS_v1_opps", 4/5, some 3600000000, 0, false, 1/2, soc1⟩,
               ⟨"v2", some "CS_v2_deps", 4/5, some 3600000000, 0, false, 1/2, 1/5⟩],
              []⟩,
    numberCs := [("GC1", none), ("GC2", none)],
    connected := [("GC1", []), ("GC2", [])],
    init := { strategies := [("GC1", .opps), ("GC2", .deps)], gcBattery := [], virtualVt := [], virtualCs := [] },
    future := [] }

/-- two steps of a standing period: the base step hands over the connectors with their fixed load, no vehicle event -/
def runIns (l : ℚ) : List (StepIn ℚ ℚ) :=
  [⟨runEnv 0, runGcs l, id, []⟩, ⟨runEnv 1, runGcs l, id, []⟩]

/-- the depot connector GC2 with its station and vehicle -/
def selGC2 : Sel := ⟨"GC2", ["CS_v2_deps"], ["v2"], []⟩
/-- the opportunity connector GC1 with its station and vehicle -/
def selGC1 : Sel := ⟨"GC1", ["CS_v1_opps"], ["v1"], []⟩

theorem runState_veOK (σ : Sel) (hσ : σ = selGC1 ∨ σ = selGC2) (l soc1 : ℚ) :
    ∀ v ∈ (runState l soc1).world.vehicles, VeOK σ v := by
  intro v hv
  simp only [runState, List.mem_cons, List.not_mem_nil, or_false] at hv
  rcases hσ with rfl | rfl <;> rcases hv with rfl | rfl <;>
  · refine ⟨?_, rfl⟩
    intro c hc
    simp only [Option.some.injEq] at hc
    subst hc
    exact ⟨by decide, by simp [runState, runGcs, selGC1, selGC2, skipPrio, sdGet]⟩

theorem runState_ok2 (l soc1 : ℚ) : StateOK selGC2 .deps (runState l soc1) where
  stN := by simp [runState, runGcs, selGC1, selGC2, skipPrio, sdGet]
  veN := by simp [runState, runGcs, selGC1, selGC2, skipPrio, sdGet]
  st := by simp [runState, runGcs, selGC1, selGC2, skipPrio, sdGet]
  ve := runState_veOK selGC2 (Or.inr rfl) l soc1
  bats := rfl
  skip := by simp [runState, runGcs, selGC1, selGC2, skipPrio, sdGet]
  gcb := by intro k; rfl
  kind := by simp [runState, runGcs, selGC1, selGC2, skipPrio, sdGet]

theorem runState_ok1 (l soc1 : ℚ) : StateOK selGC1 .opps (runState l soc1) where
  stN := by simp [runState, runGcs, selGC1, selGC2, skipPrio, sdGet]
  veN := by simp [runState, runGcs, selGC1, selGC2, skipPrio, sdGet]
  st := by simp [runState, runGcs, selGC1, selGC2, skipPrio, sdGet]
  ve := runState_veOK selGC1 (Or.inl rfl) l soc1
  bats := rfl
  skip := by simp [runState, runGcs, selGC1, selGC2, skipPrio, sdGet]
  gcb := by intro k; rfl
  kind := by simp [runState, runGcs, selGC1, selGC2, skipPrio, sdGet]

theorem runIns_ok (σ : Sel) (hσ : σ = selGC1 ∨ σ = selGC2) (l : ℚ) (hl : 0 ≤ l) : ∀ i ∈ runIns l, InOK σ i := by
  intro i hi
  simp only [runIns, List.mem_cons, List.not_mem_nil, or_false] at hi
  have key : ∀ k : Int, InOK σ (⟨runEnv k, runGcs l, id, []⟩ : StepIn ℚ ℚ) := by
    intro k
    refine ⟨by simp [runGcs], ?_, ?_, ?_, ?_, ⟨rfl, rfl⟩, ⟨rfl, rfl⟩, by norm_num [runEnv], fun _ => rfl, fun _ h => h⟩
    · intro g hg kv hkv
      simp only [runGcs, List.mem_cons, List.not_mem_nil, or_false] at hg
      rcases hg with rfl | rfl
      · simp only [List.mem_cons, List.not_mem_nil, or_false] at hkv
        subst hkv; exact hl
      · simp at hkv
    · intro g hg hid k' hk'
      simp only [runGcs, List.mem_cons, List.not_mem_nil, or_false] at hg
      rcases hσ with rfl | rfl <;> rcases hg with rfl | rfl
      · simp only [selGC1, List.contains_cons, List.contains_nil, Bool.or_false, beq_iff_eq] at hk'
        subst hk'
        rfl
      · exact absurd hid (by simp [selGC1])
      · exact absurd hid (by simp [selGC2])
      · rfl
    · intro g hg _
      simp only [runGcs, List.mem_cons, List.not_mem_nil, or_false] at hg
      rcases hg with rfl | rfl <;> simp
    · rcases hσ with rfl | rfl <;> simp [runGcs, selGC1, selGC2]
  rcases hi with rfl | rfl
  · exact key 0
  · exact key 1

/-- the two steps get through (kernel-evaluated) -/
theorem runToy_returns : (runD runDOps (runState 4 (1/5)) (runIns 4)).toBool = true := by decide +kernel
theorem runToy2_returns : (runD runDOps (runState 6 (3/10)) (runIns 6)).toBool = true := by decide +kernel

theorem toBool_ok {ε β : Type} (x : Except ε β) (h : x.toBool = true) : ∃ y, x = .ok y := by
  cases x with
  | error e => simp [Except.toBool] at h
  | ok y => exact ⟨y, rfl⟩

end SpiceEv.DistRun
