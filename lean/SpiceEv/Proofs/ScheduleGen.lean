/-
Helper lemmas for C13 (Model/ScheduleGen.lean): array plumbing, the per-cell algebra of
distribute_energy_balanced, the three loops of one distribution, the run-length reader.
-/
import SpiceEv.Proofs.Basic
import SpiceEv.Model.ScheduleGen
import Mathlib.Tactic.Linarith
import Mathlib.Tactic.Ring
import Mathlib.Tactic.Positivity
set_option linter.unusedSectionVars false
set_option linter.unusedSimpArgs false
set_option linter.unusedVariables false
namespace SpiceEv.ScheduleGen
open SpiceEv

theorem getD_modify {β} (a : Array β) (j i : Nat) (f : β → β) (d : β) :
    (a.modify j f).getD i d = if j = i ∧ i < a.size then f (a.getD i d) else a.getD i d := by
  simp only [Array.getD_eq_getD_getElem?, Array.getElem?_modify]
  by_cases h : j = i
  · subst h
    by_cases h2 : j < a.size
    · simp [h2]
    · simp [h2]
  · simp [h]

theorem getD_modify_ne {β} (a : Array β) (j i : Nat) (f : β → β) (d : β) (h : j ≠ i) :
    (a.modify j f).getD i d = a.getD i d := by
  rw [getD_modify]; simp [h]

theorem getD_modify_self {β} (a : Array β) (i : Nat) (f : β → β) (d : β) (h : i < a.size) :
    (a.modify i f).getD i d = f (a.getD i d) := by
  rw [getD_modify]; simp [h]

variable {α : Type} [Field α] [LinearOrder α] [IsStrictOrderedRing α]

/-- what every write of distribute_energy_balanced preserves in a cell -/
def Cell.Rel (c c' : Cell α) : Prop :=
  c'.sched + c'.availMax = c.sched + c.availMax ∧ c'.sched - c'.availMin = c.sched - c.availMin ∧
  c'.flexMin = c.flexMin ∧ c'.flexMax = c.flexMax ∧ c'.oCurt = c.oCurt ∧ c'.oResid = c.oResid

theorem Cell.Rel.refl (c : Cell α) : Cell.Rel c c := ⟨rfl, rfl, rfl, rfl, rfl, rfl⟩

theorem Cell.Rel.trans {a b c : Cell α} (h1 : Cell.Rel a b) (h2 : Cell.Rel b c) : Cell.Rel a c := by
  obtain ⟨a1, a2, a3, a4, a5, a6⟩ := h1
  obtain ⟨b1, b2, b3, b4, b5, b6⟩ := h2
  exact ⟨b1.trans a1, b2.trans a2, b3.trans a3, b4.trans a4, b5.trans a5, b6.trans a6⟩

theorem Cell.curtBump_rel (c : Cell α) (vid : Option Nat) (p : α) : Cell.Rel c (c.curtBump vid p) := by
  refine ⟨?_, ?_, rfl, rfl, rfl, rfl⟩ <;> simp only [Cell.curtBump] <;> ring

theorem Cell.apply_rel (c : Cell α) (vid : Option Nat) (p : α) : Cell.Rel c (c.apply vid p) := by
  refine ⟨?_, ?_, rfl, rfl, rfl, rfl⟩ <;> simp only [Cell.apply] <;> ring

/-- state relation: same size, every cell related -/
def ARel (a a' : Array (Cell α)) : Prop :=
  a'.size = a.size ∧ ∀ i, Cell.Rel (a.getD i Cell.zero) (a'.getD i Cell.zero)

theorem ARel.refl (a : Array (Cell α)) : ARel a a := ⟨rfl, fun _ => Cell.Rel.refl _⟩

theorem ARel.trans {a b c : Array (Cell α)} (h1 : ARel a b) (h2 : ARel b c) : ARel a c :=
  ⟨h2.1.trans h1.1, fun i => (h1.2 i).trans (h2.2 i)⟩

theorem ARel.modify (a : Array (Cell α)) (j : Nat) (f : Cell α → Cell α)
    (hf : ∀ c, Cell.Rel c (f c)) : ARel a (a.modify j f) := by
  refine ⟨Array.size_modify, fun i => ?_⟩
  rw [getD_modify]
  split
  · exact hf _
  · exact Cell.Rel.refl _

/-! ### unconditional part: the three loops only ever write through `curtBump` / `apply` -/

theorem curtStep_rel (eps tsph : α) (vid : Option Nat) (a : CurtAcc α) (e : Entry α) :
    ARel a.cells (curtStep eps tsph vid a e).cells := by
  unfold curtStep
  simp only
  split
  · exact ARel.modify _ _ _ (fun c => Cell.curtBump_rel c vid _)
  · exact ARel.refl _

theorem curtFold_rel (eps tsph : α) (vid : Option Nat) (es : List (Entry α)) (a : CurtAcc α) :
    ARel a.cells (es.foldl (curtStep eps tsph vid) a).cells := by
  induction es generalizing a with
  | nil => exact ARel.refl _
  | cons e es ih => exact (curtStep_rel eps tsph vid a e).trans (ih _)

theorem applyPowers_rel (tsph : α) (vid : Option Nat) (cells : Array (Cell α)) (ed : α)
    (es : List (Entry α)) (ps : List α) :
    ARel cells (applyPowers tsph vid cells ed es ps).1 := by
  induction es generalizing cells ed ps with
  | nil => unfold applyPowers; exact ARel.refl _
  | cons e es ih =>
    cases ps with
    | nil => unfold applyPowers; exact ARel.refl _
    | cons p ps =>
      unfold applyPowers
      exact (ARel.modify _ _ _ (fun c => Cell.apply_rel c vid p)).trans (ih _ _ _)

theorem distribute_rel (eps tsph : α) (fuel : Nat) (cells : Array (Cell α)) (es : List (Entry α))
    (E : α) (v2g : Bool) (vid : Option Nat) (r : Array (Cell α) × α)
    (h : distribute eps tsph fuel cells es E v2g vid = .ok r) : ARel cells r.1 := by
  unfold distribute at h
  split at h
  · cases h
  split at h
  · cases h
  simp only at h
  split at h
  · cases h
    exact curtFold_rel eps tsph vid es _
  · simp only [bind, Except.bind] at h
    split at h
    · cases h
    · cases h
      exact (curtFold_rel eps tsph vid es _).trans (applyPowers_rel _ _ _ _ _ _)

/-! ### frame: cells outside the period are not touched -/

theorem curtStep_frame (eps tsph : α) (vid : Option Nat) (a : CurtAcc α) (e : Entry α) (j : Nat)
    (h : e.1 ≠ j) : (curtStep eps tsph vid a e).cells.getD j Cell.zero = a.cells.getD j Cell.zero := by
  unfold curtStep
  simp only
  split
  · exact getD_modify_ne _ _ _ _ _ h
  · rfl

theorem curtFold_frame (eps tsph : α) (vid : Option Nat) (es : List (Entry α)) (a : CurtAcc α) (j : Nat)
    (h : j ∉ es.map (·.1)) :
    (es.foldl (curtStep eps tsph vid) a).cells.getD j Cell.zero = a.cells.getD j Cell.zero := by
  induction es generalizing a with
  | nil => rfl
  | cons e es ih =>
    simp only [List.map_cons, List.mem_cons, not_or] at h
    simp only [List.foldl_cons]
    rw [ih _ h.2]
    exact curtStep_frame eps tsph vid a e j (fun hh => h.1 hh.symm)

theorem applyPowers_frame (tsph : α) (vid : Option Nat) (cells : Array (Cell α)) (ed : α)
    (es : List (Entry α)) (ps : List α) (j : Nat) (h : j ∉ es.map (·.1)) :
    (applyPowers tsph vid cells ed es ps).1.getD j Cell.zero = cells.getD j Cell.zero := by
  induction es generalizing cells ed ps with
  | nil => unfold applyPowers; rfl
  | cons e es ih =>
    cases ps with
    | nil => unfold applyPowers; rfl
    | cons p ps =>
      simp only [List.map_cons, List.mem_cons, not_or] at h
      unfold applyPowers
      rw [ih _ _ _ h.2]
      exact getD_modify_ne _ _ _ _ _ (fun hh => h.1 hh.symm)

theorem curtFold_out_map (eps tsph : α) (vid : Option Nat) (es : List (Entry α)) (a : CurtAcc α) :
    ((es.foldl (curtStep eps tsph vid) a).out).map (·.1) = a.out.map (·.1) ++ es.map (·.1) := by
  induction es generalizing a with
  | nil => simp
  | cons e es ih =>
    simp only [List.foldl_cons, List.map_cons]
    rw [ih]
    unfold curtStep
    simp only
    split <;> simp

theorem distribute_frame (eps tsph : α) (fuel : Nat) (cells : Array (Cell α)) (es : List (Entry α))
    (E : α) (v2g : Bool) (vid : Option Nat) (r : Array (Cell α) × α)
    (h : distribute eps tsph fuel cells es E v2g vid = .ok r) (j : Nat) (hj : j ∉ es.map (·.1)) :
    r.1.getD j Cell.zero = cells.getD j Cell.zero := by
  unfold distribute at h
  split at h
  · cases h
  split at h
  · cases h
  simp only at h
  split at h
  · cases h
    exact curtFold_frame eps tsph vid es _ j hj
  · simp only [bind, Except.bind] at h
    split at h
    · cases h
    · cases h
      rw [applyPowers_frame]
      · exact curtFold_frame eps tsph vid es _ j hj
      · rw [curtFold_out_map]; simpa using hj

/-! ### conditional part: bounds of one distribution -/

/-- entry hypotheses for one period entry `e = (i, lo, hi)` and its cell: the individual flex
straddles zero, avail is non-negative, the schedule is inside the band and — for a charging request —
the individual upper flex still fits into the band -/
structure Fits (E : α) (c : Cell α) (e : Entry α) : Prop where
  lo : e.2.1 ≤ 0
  hi : 0 ≤ e.2.2
  amin : 0 ≤ c.availMin
  amax : 0 ≤ c.availMax
  fmin : c.flexMin ≤ c.sched
  fmax : c.sched + (if 0 < E then e.2.2 else 0) ≤ c.flexMax

/-- result of the curtailment-first pass for one entry -/
def CurtGood (pn0 : α) (c : Cell α) (e : Entry α) (c' : Cell α) (e' : Entry α) : Prop :=
  ∃ p, 0 ≤ p ∧ (0 ≤ c.availMax → 0 ≤ e.2.2 → p ≤ c.availMax ∧ p ≤ e.2.2) ∧ (pn0 ≤ 0 → p = 0) ∧
    c'.sched = c.sched + p ∧ c'.availMin = c.availMin + p ∧ c'.availMax = c.availMax - p ∧
    c'.flexMin = c.flexMin ∧ c'.flexMax = c.flexMax ∧ e' = (e.1, e.2.1 - p, e.2.2 - p)

theorem curtPower_nonneg (c : Cell α) (pn hi : α) : 0 ≤ curtPower c pn hi := by
  unfold curtPower; simp only [pymin_eq, pymax_eq]; exact le_max_right _ _

theorem curtPower_le (c : Cell α) (pn hi : α) (h1 : 0 ≤ c.availMax) (h2 : 0 ≤ hi) :
    curtPower c pn hi ≤ c.availMax ∧ curtPower c pn hi ≤ hi := by
  unfold curtPower; simp only [pymin_eq, pymax_eq]
  constructor
  · apply max_le _ h1
    exact le_trans (min_le_left _ _) (le_trans (min_le_left _ _) (min_le_right _ _))
  · apply max_le _ h2
    exact min_le_right _ _

theorem curtPower_zero (c : Cell α) (pn hi : α) (h : pn ≤ 0) : curtPower c pn hi = 0 := by
  unfold curtPower; simp only [pymin_eq, pymax_eq]
  apply max_eq_right
  exact le_trans (min_le_left _ _) (le_trans (min_le_right _ _) h)

theorem curtStep_pos (eps tsph : α) (vid : Option Nat) (a : CurtAcc α) (e : Entry α)
    (h : eps < (a.cells.getD e.1 Cell.zero).curt) :
    curtStep eps tsph vid a e =
      { cells := a.cells.modify e.1 (fun c => c.curtBump vid (curtPower (a.cells.getD e.1 Cell.zero) a.pn e.2.2)),
        pn := a.pn - curtPower (a.cells.getD e.1 Cell.zero) a.pn e.2.2,
        ed := a.ed + curtPower (a.cells.getD e.1 Cell.zero) a.pn e.2.2 / tsph,
        pAvg := a.pAvg + (((a.cells.getD e.1 Cell.zero).curtBump vid
          (curtPower (a.cells.getD e.1 Cell.zero) a.pn e.2.2)).resid -
          ((a.cells.getD e.1 Cell.zero).curtBump vid (curtPower (a.cells.getD e.1 Cell.zero) a.pn e.2.2)).curt),
        out := a.out ++ [(e.1, e.2.1 - curtPower (a.cells.getD e.1 Cell.zero) a.pn e.2.2,
          e.2.2 - curtPower (a.cells.getD e.1 Cell.zero) a.pn e.2.2)] } := by
  unfold curtStep; simp only [h, if_true]

theorem curtStep_neg (eps tsph : α) (vid : Option Nat) (a : CurtAcc α) (e : Entry α)
    (h : ¬ eps < (a.cells.getD e.1 Cell.zero).curt) :
    curtStep eps tsph vid a e =
      { a with pAvg := a.pAvg + ((a.cells.getD e.1 Cell.zero).resid - (a.cells.getD e.1 Cell.zero).curt),
               out := a.out ++ [e] } := by
  unfold curtStep; simp only [h, if_false]

theorem curtStep_good (eps tsph : α) (vid : Option Nat) (a : CurtAcc α) (e : Entry α)
    (hin : e.1 < a.cells.size) :
    (a.pn ≤ 0 → (curtStep eps tsph vid a e).pn = a.pn) ∧
    ∃ e', (curtStep eps tsph vid a e).out = a.out ++ [e'] ∧
      CurtGood a.pn (a.cells.getD e.1 Cell.zero) e ((curtStep eps tsph vid a e).cells.getD e.1 Cell.zero) e' := by
  by_cases hc : eps < (a.cells.getD e.1 Cell.zero).curt
  · rw [curtStep_pos eps tsph vid a e hc]
    refine ⟨fun h => ?_, _, rfl, curtPower (a.cells.getD e.1 Cell.zero) a.pn e.2.2, curtPower_nonneg _ _ _,
      fun h1 h2 => curtPower_le _ _ _ h1 h2, fun h => curtPower_zero _ _ _ h, ?_⟩
    · simp only; rw [curtPower_zero _ _ _ h]; simp
    · simp only
      rw [getD_modify_self _ _ _ _ hin]
      simp [Cell.curtBump]
  · rw [curtStep_neg eps tsph vid a e hc]
    refine ⟨fun _ => rfl, e, rfl, 0, le_refl _, fun h1 h2 => ⟨h1, h2⟩, fun _ => rfl, ?_⟩
    simp

theorem curtStep_size (eps tsph : α) (vid : Option Nat) (a : CurtAcc α) (e : Entry α) :
    (curtStep eps tsph vid a e).cells.size = a.cells.size := (curtStep_rel eps tsph vid a e).1

/-- the curtailment-first loop, entry by entry, relative to a reference state `cells0`, `pn0` -/
theorem curtFold_spec (eps tsph : α) (vid : Option Nat) (cells0 : Array (Cell α)) (pn0 : α)
    (es : List (Entry α)) (a : CurtAcc α)
    (hnd : (es.map (·.1)).Nodup) (hin : ∀ e ∈ es, e.1 < a.cells.size)
    (hc : ∀ e ∈ es, a.cells.getD e.1 Cell.zero = cells0.getD e.1 Cell.zero)
    (hp : pn0 ≤ 0 → a.pn = pn0) :
    ∃ es', (es.foldl (curtStep eps tsph vid) a).out = a.out ++ es' ∧
      List.Forall₂ (fun e e' => CurtGood pn0 (cells0.getD e.1 Cell.zero) e
        ((es.foldl (curtStep eps tsph vid) a).cells.getD e.1 Cell.zero) e') es es' := by
  induction es generalizing a with
  | nil => exact ⟨[], by simp, List.Forall₂.nil⟩
  | cons e es ih =>
    simp only [List.map_cons, List.nodup_cons] at hnd
    obtain ⟨hpn, e', hout, hgood⟩ := curtStep_good eps tsph vid a e (hin e List.mem_cons_self)
    have hne : ∀ x ∈ es, e.1 ≠ x.1 := by
      intro x hx hh
      exact hnd.1 (hh ▸ List.mem_map_of_mem hx)
    obtain ⟨es', hout', hall⟩ := ih (curtStep eps tsph vid a e) hnd.2
      (fun x hx => by rw [curtStep_size]; exact hin x (List.mem_cons_of_mem _ hx))
      (fun x hx => by
        rw [curtStep_frame eps tsph vid a e x.1 (hne x hx)]
        exact hc x (List.mem_cons_of_mem _ hx))
      (fun h => by rw [hpn (by rw [hp h]; exact h), hp h])
    refine ⟨e' :: es', ?_, ?_⟩
    · simp only [List.foldl_cons]; rw [hout', hout]; simp
    · simp only [List.foldl_cons]
      refine List.Forall₂.cons ?_ hall
      rw [curtFold_frame eps tsph vid es _ e.1 hnd.1]
      rw [hc e List.mem_cons_self] at hgood
      obtain ⟨p, h1, h2, h3, h4⟩ := hgood
      exact ⟨p, h1, h2, fun h => h3 (by rw [hp h]; exact h), h4⟩

theorem sweep_fst_aux (eps : α) (v2g : Bool) (cells : Array (Cell α)) (es : List (Entry α)) (avg : α)
    (acc : List α × α) :
    (es.foldl (fun (acc : List α × α) e =>
      let p := sweepPower eps v2g avg (cells.getD e.1 Cell.zero) e.2.1 e.2.2
      (acc.1 ++ [p], acc.2 - p)) acc).1 =
    acc.1 ++ es.map (fun e => sweepPower eps v2g avg (cells.getD e.1 Cell.zero) e.2.1 e.2.2) := by
  induction es generalizing acc with
  | nil => simp
  | cons e es ih => simp only [List.foldl_cons, List.map_cons]; rw [ih]; simp

theorem sweep_fst (eps : α) (v2g : Bool) (cells : Array (Cell α)) (es : List (Entry α)) (avg pn : α) :
    (sweep eps v2g cells es avg pn).1 =
      es.map (fun e => sweepPower eps v2g avg (cells.getD e.1 Cell.zero) e.2.1 e.2.2) := by
  unfold sweep; rw [sweep_fst_aux]; simp

/-- what is known about every applied power -/
def PowerOK (eps : α) (v2g : Bool) (cells : Array (Cell α)) (e : Entry α) (x : α) : Prop :=
  x = 0 ∨ ∃ avg, x = sweepPower eps v2g avg (cells.getD e.1 Cell.zero) e.2.1 e.2.2

theorem forall₂_map_right {A B : Type} (R : A → B → Prop) (f : A → B) (l : List A)
    (h : ∀ a ∈ l, R a (f a)) : List.Forall₂ R l (l.map f) := by
  induction l with
  | nil => exact List.Forall₂.nil
  | cons a l ih =>
    exact List.Forall₂.cons (h a List.mem_cons_self) (ih (fun x hx => h x (List.mem_cons_of_mem _ hx)))

theorem bisect_ok (eps : α) (v2g : Bool) (cells : Array (Cell α)) (es : List (Entry α)) (pAvg pn0 : α)
    (fuel : Nat) (pLow pHigh p : α) (power r : List α)
    (hpow : List.Forall₂ (PowerOK eps v2g cells) es power)
    (h : bisect eps v2g cells es pAvg pn0 fuel pLow pHigh p power = .ok r) :
    List.Forall₂ (PowerOK eps v2g cells) es r := by
  induction fuel generalizing pLow pHigh p power with
  | zero =>
    unfold bisect at h
    split at h
    · cases h
    · cases h; exact hpow
  | succ n ih =>
    unfold bisect at h
    split at h
    · simp only at h
      have hs : List.Forall₂ (PowerOK eps v2g cells) es (sweep eps v2g cells es (pAvg + p) pn0).1 := by
        rw [sweep_fst]
        exact forall₂_map_right _ _ _ (fun e _ => Or.inr ⟨_, rfl⟩)
      split at h
      · exact ih _ _ _ _ hs h
      · split at h
        · exact ih _ _ _ _ hs h
        · cases h; exact hs
    · cases h; exact hpow

theorem applyPowers_size (tsph : α) (vid : Option Nat) (cells : Array (Cell α)) (ed : α)
    (es : List (Entry α)) (ps : List α) :
    (applyPowers tsph vid cells ed es ps).1.size = cells.size := (applyPowers_rel tsph vid cells ed es ps).1

/-- the apply loop, entry by entry -/
theorem applyPowers_spec (tsph : α) (vid : Option Nat) (cells0 cells : Array (Cell α)) (ed : α)
    (es : List (Entry α)) (ps : List α) (hlen : es.length = ps.length)
    (hnd : (es.map (·.1)).Nodup) (hin : ∀ e ∈ es, e.1 < cells.size)
    (hc : ∀ e ∈ es, cells.getD e.1 Cell.zero = cells0.getD e.1 Cell.zero) :
    List.Forall₂ (fun e x => (applyPowers tsph vid cells ed es ps).1.getD e.1 Cell.zero =
      (cells0.getD e.1 Cell.zero).apply vid x) es ps := by
  induction es generalizing cells ed ps with
  | nil =>
    cases ps with
    | nil => exact List.Forall₂.nil
    | cons _ _ => simp at hlen
  | cons e es ih =>
    cases ps with
    | nil => simp at hlen
    | cons x ps =>
      simp only [List.map_cons, List.nodup_cons] at hnd
      have hne : ∀ y ∈ es, e.1 ≠ y.1 := by
        intro y hy hh
        exact hnd.1 (hh ▸ List.mem_map_of_mem hy)
      unfold applyPowers
      refine List.Forall₂.cons ?_ ?_
      · rw [applyPowers_frame _ _ _ _ _ _ _ hnd.1, getD_modify_self _ _ _ _ (hin e List.mem_cons_self),
          hc e List.mem_cons_self]
      · apply ih
        · simpa using hlen
        · exact hnd.2
        · intro y hy; rw [Array.size_modify]; exact hin y (List.mem_cons_of_mem _ hy)
        · intro y hy
          rw [getD_modify_ne _ _ _ _ _ (hne y hy)]
          exact hc y (List.mem_cons_of_mem _ hy)

/-- bounds of a sweep power on a cell that is inside its band -/
theorem sweepPower_bounds (eps : α) (v2g : Bool) (avg : α) (c : Cell α) (lo hi : α)
    (hlo : lo ≤ 0) (hhi : 0 ≤ hi) (hmin : 0 ≤ c.availMin) (hmax : 0 ≤ c.availMax)
    (hfmin : c.flexMin ≤ c.sched) (hfmax : c.sched ≤ c.flexMax) :
    -c.availMin ≤ sweepPower eps v2g avg c lo hi ∧ sweepPower eps v2g avg c lo hi ≤ c.availMax ∧
    lo ≤ sweepPower eps v2g avg c lo hi ∧ sweepPower eps v2g avg c lo hi ≤ hi ∧
    c.flexMin - c.sched ≤ sweepPower eps v2g avg c lo hi ∧
    sweepPower eps v2g avg c lo hi ≤ c.flexMax - c.sched := by
  unfold sweepPower
  simp only [pymin_eq, pymax_eq]
  split
  · rename_i hd
    have h0 : 0 ≤ min (min (min (avg - (c.resid - c.curt)) c.availMax) hi) (c.flexMax - c.sched) :=
      le_min (le_min (le_min hd.le hmax) hhi) (by linarith)
    refine ⟨by linarith, ?_, by linarith, ?_, by linarith, min_le_right _ _⟩
    · exact le_trans (min_le_left _ _) (le_trans (min_le_left _ _) (min_le_right _ _))
    · exact le_trans (min_le_left _ _) (min_le_right _ _)
  · rename_i hd
    split
    · have h0 : max (max (max (avg - (c.resid - c.curt)) (-c.availMin)) lo) (c.flexMin - c.sched) ≤ 0 :=
        max_le (max_le (max_le (not_lt.mp hd) (by linarith)) hlo) (by linarith)
      refine ⟨?_, by linarith, ?_, by linarith, le_max_right _ _, by linarith⟩
      · exact le_trans (le_max_right _ _) (le_trans (le_max_left _ _) (le_max_left _ _))
      · exact le_trans (le_max_right _ _) (le_max_left _ _)
    · refine ⟨by linarith, hmax, hlo, hhi, by linarith, by linarith⟩

/-- what one distribution guarantees for a cell of the period -/
structure Post (c : Cell α) (e : Entry α) (c' : Cell α) : Prop where
  amin : 0 ≤ c'.availMin
  amax : 0 ≤ c'.availMax
  fmin : c'.flexMin ≤ c'.sched
  fmax : c'.sched ≤ c'.flexMax
  lo : e.2.1 ≤ c'.sched - c.sched
  hi : c'.sched - c.sched ≤ e.2.2
  bandMin : c'.flexMin = c.flexMin
  bandMax : c'.flexMax = c.flexMax

/-- per-cell algebra: curtailment power, then a sweep power (or none) -/
theorem cell_post (eps E pn0 : α) (v2g : Bool) (vid : Option Nat) (c c1 : Cell α) (e e' : Entry α)
    (hE : E ≤ 0 → pn0 ≤ 0) (hf : Fits E c e) (hg : CurtGood pn0 c e c1 e') :
    Post c e c1 ∧ ∀ x, (x = 0 ∨ ∃ avg, x = sweepPower eps v2g avg c1 e'.2.1 e'.2.2) →
      Post c e (c1.apply vid x) := by
  obtain ⟨p, hp0, hple, hpz, hs, hami, hama, hfm, hfM, he'⟩ := hg
  obtain ⟨hpa, hph⟩ := hple hf.amax hf.hi
  have hpfit : c.sched + p ≤ c.flexMax := by
    by_cases h : 0 < E
    · have := hf.fmax; simp only [h, if_true] at this; linarith
    · have := hf.fmax; simp only [h, if_false] at this
      have : p = 0 := hpz (hE (not_lt.mp h))
      linarith
  have hmid : Post c e c1 := by
    refine ⟨by rw [hami]; linarith [hf.amin], by rw [hama]; linarith, by rw [hfm, hs]; linarith [hf.fmin],
      by rw [hfM, hs]; exact hpfit, by rw [hs]; linarith [hf.lo], by rw [hs]; linarith, hfm, hfM⟩
  refine ⟨hmid, ?_⟩
  intro x hx
  have hb : -c1.availMin ≤ x ∧ x ≤ c1.availMax ∧ e'.2.1 ≤ x ∧ x ≤ e'.2.2 ∧
      c1.flexMin - c1.sched ≤ x ∧ x ≤ c1.flexMax - c1.sched := by
    have hlo' : e'.2.1 ≤ 0 := by rw [he']; simp only; linarith [hf.lo]
    have hhi' : 0 ≤ e'.2.2 := by rw [he']; simp only; linarith
    rcases hx with rfl | ⟨avg, rfl⟩
    · refine ⟨by linarith [hmid.amin], hmid.amax, hlo', hhi', by linarith [hmid.fmin], by linarith [hmid.fmax]⟩
    · exact sweepPower_bounds eps v2g avg c1 _ _ hlo' hhi' hmid.amin hmid.amax hmid.fmin hmid.fmax
  obtain ⟨b1, b2, b3, b4, b5, b6⟩ := hb
  rw [he'] at b3 b4
  simp only at b3 b4
  refine ⟨?_, ?_, ?_, ?_, ?_, ?_, ?_, ?_⟩ <;> simp only [Cell.apply]
  · linarith
  · linarith
  · linarith
  · linarith
  · rw [hs]; linarith
  · rw [hs]; linarith
  · exact hfm
  · exact hfM

theorem forall₂_and {A B : Type} {R S : A → B → Prop} {l1 : List A} {l2 : List B}
    (h1 : List.Forall₂ R l1 l2) (h2 : List.Forall₂ S l1 l2) :
    List.Forall₂ (fun a b => R a b ∧ S a b) l1 l2 := by
  induction h1 with
  | nil => exact List.Forall₂.nil
  | cons h _ ih =>
    cases h2 with
    | cons h' t' => exact List.Forall₂.cons ⟨h, h'⟩ (ih t')

theorem forall₂_chain {A B C : Type} {R1 : A → B → Prop} {R2 : B → C → Prop} {P : A → Prop}
    {l1 : List A} {l2 : List B} {l3 : List C}
    (h1 : List.Forall₂ R1 l1 l2) (h2 : List.Forall₂ R2 l2 l3)
    (h : ∀ a b c, a ∈ l1 → R1 a b → R2 b c → P a) : ∀ a ∈ l1, P a := by
  induction h1 generalizing l3 with
  | nil => intro a ha; cases ha
  | cons hab _ ih =>
    cases h2 with
    | cons hbc t =>
      intro a ha
      rcases List.mem_cons.mp ha with rfl | ha
      · exact h _ _ _ List.mem_cons_self hab hbc
      · exact ih t (fun a b c ha => h a b c (List.mem_cons_of_mem _ ha)) a ha

theorem forall₂_left {A B : Type} {R : A → B → Prop} {P : A → Prop} {l1 : List A} {l2 : List B}
    (h1 : List.Forall₂ R l1 l2) (h : ∀ a b, a ∈ l1 → R a b → P a) : ∀ a ∈ l1, P a := by
  induction h1 with
  | nil => intro a ha; cases ha
  | cons hab _ ih =>
    intro a ha
    rcases List.mem_cons.mp ha with rfl | ha
    · exact h _ _ List.mem_cons_self hab
    · exact ih (fun a b ha => h a b (List.mem_cons_of_mem _ ha)) a ha

theorem forall₂_fst_eq {R : Entry α → Entry α → Prop} {l1 l2 : List (Entry α)}
    (h : List.Forall₂ R l1 l2) (hR : ∀ a b, R a b → b.1 = a.1) : l2.map (·.1) = l1.map (·.1) := by
  induction h with
  | nil => rfl
  | cons hab _ ih => simp only [List.map_cons, ih, hR _ _ hab]

/-- **one distribution, conditional part**: under `Fits` for every entry of a duplicate-free period,
every cell of the period satisfies `Post` afterwards -/
theorem distribute_post (eps tsph : α) (fuel : Nat) (cells : Array (Cell α)) (es : List (Entry α))
    (E : α) (v2g : Bool) (vid : Option Nat) (r : Array (Cell α) × α)
    (htsph : 0 < tsph) (hnd : (es.map (·.1)).Nodup)
    (hfit : ∀ e ∈ es, Fits E (cells.getD e.1 Cell.zero) e)
    (h : distribute eps tsph fuel cells es E v2g vid = .ok r) :
    ∀ e ∈ es, Post (cells.getD e.1 Cell.zero) e (r.1.getD e.1 Cell.zero) := by
  have hE : E ≤ 0 → E * tsph ≤ 0 := fun h => mul_nonpos_of_nonpos_of_nonneg h htsph.le
  unfold distribute at h
  split at h
  · cases h
  split at h
  · cases h
  rename_i hall
  have hall' : ∀ (a : ℕ) (a_1 b : α), (a, a_1, b) ∈ es → a < cells.size := by simpa using hall
  have hin : ∀ e ∈ es, e.1 < cells.size := fun e he => hall' e.1 e.2.1 e.2.2 he
  simp only at h
  obtain ⟨es', hout, hgood⟩ := curtFold_spec eps tsph vid cells (E * tsph) es
    ⟨cells, E * tsph, 0, 0, []⟩ hnd hin (fun _ _ => rfl) (fun _ => rfl)
  simp only [List.nil_append] at hout
  have hfst : es'.map (·.1) = es.map (·.1) :=
    forall₂_fst_eq hgood (fun a b hg => by obtain ⟨p, _, _, _, _, _, _, _, _, he'⟩ := hg; rw [he'])
  split at h
  · cases h
    exact forall₂_left hgood (fun e e' he hg =>
      (cell_post eps E (E * tsph) v2g vid _ _ e e' hE (hfit e he) hg).1)
  · simp only [bind, Except.bind] at h
    split at h
    · cases h
    · rename_i power hb
      cases h
      rw [hout] at hb ⊢
      set a := es.foldl (curtStep eps tsph vid) ⟨cells, E * tsph, 0, 0, []⟩ with ha
      have hlen : es'.length = es.length := by
        have := congrArg List.length hfst; simpa using this
      have hpow0 : List.Forall₂ (PowerOK eps v2g a.cells) es' (es.map (fun _ => (0 : α))) := by
        have : es.map (fun _ => (0 : α)) = es'.map (fun _ => (0 : α)) := by
          apply List.ext_getElem
          · simp [hlen]
          · intro i h1 h2; simp
        rw [this]
        exact forall₂_map_right _ _ _ (fun _ _ => Or.inl rfl)
      have hpow := bisect_ok eps v2g a.cells es' _ _ fuel _ _ _ _ power hpow0 hb
      have hsize : a.cells.size = cells.size := (curtFold_rel eps tsph vid es _).1
      have happ := applyPowers_spec tsph vid a.cells a.cells a.ed es' power hpow.length_eq
        (by rw [hfst]; exact hnd)
        (fun e' he' => by
          rw [hsize]
          have : e'.1 ∈ es.map (·.1) := hfst ▸ List.mem_map_of_mem he'
          obtain ⟨e, he, hee⟩ := List.mem_map.mp this
          rw [← hee]; exact hin e he)
        (fun _ _ => rfl)
      refine forall₂_chain hgood (forall₂_and hpow happ) (fun e e' x he hg hx => ?_)
      obtain ⟨hx1, hx2⟩ := hx
      have he1 : e'.1 = e.1 := by obtain ⟨p, _, _, _, _, _, _, _, _, he'⟩ := hg; rw [he']
      rw [← he1, hx2, he1]
      exact (cell_post eps E (E * tsph) v2g vid _ _ e e' hE (hfit e he) hg).2 x (by
        rcases hx1 with h0 | ⟨avg, h1⟩
        · exact Or.inl h0
        · exact Or.inr ⟨avg, by rw [h1, he1]⟩)

/-! ### the bisection terminates: fuel bound -/

/-- once `p` is the midpoint, an interval of width `≤ eps * 2^n` needs at most `n` iterations -/
theorem bisect_mid_fuel (eps : α) (v2g : Bool) (cells : Array (Cell α)) (es : List (Entry α)) (pAvg pn0 : α)
    (n : Nat) : ∀ (fuel : Nat) (pLow pHigh p : α) (power : List α), n ≤ fuel →
      p = (pLow + pHigh) / 2 → pHigh - pLow ≤ eps * 2 ^ n →
      ∃ r, bisect eps v2g cells es pAvg pn0 fuel pLow pHigh p power = .ok r := by
  induction n with
  | zero =>
    intro fuel pLow pHigh p power _ _ hw
    simp only [pow_zero, mul_one] at hw
    unfold bisect
    simp only [not_lt.mpr hw, if_false]
    exact ⟨_, rfl⟩
  | succ n ih =>
    intro fuel pLow pHigh p power hf hmid hw
    obtain ⟨f, rfl⟩ : ∃ f, fuel = f + 1 := ⟨fuel - 1, by omega⟩
    have hf' : n ≤ f := by omega
    unfold bisect
    split
    · simp only
      have hw' : pHigh - pLow ≤ eps * 2 ^ n * 2 := by rw [pow_succ] at hw; linarith
      split
      · exact ih f _ _ _ _ hf' rfl (by rw [hmid]; linarith)
      · split
        · exact ih f _ _ _ _ hf' rfl (by rw [hmid]; linarith)
        · exact ⟨_, rfl⟩
    · exact ⟨_, rfl⟩

/-- **fuel suffices**: from an arbitrary first cutoff `p`, `n + 1` iterations are enough when both
`p_high - p` and `p - p_low` are at most `eps * 2^n` -/
theorem bisect_fuel (eps : α) (v2g : Bool) (cells : Array (Cell α)) (es : List (Entry α)) (pAvg pn0 : α)
    (n fuel : Nat) (pLow pHigh p : α) (power : List α) (hf : n + 1 ≤ fuel)
    (h1 : pHigh - p ≤ eps * 2 ^ n) (h2 : p - pLow ≤ eps * 2 ^ n) :
    ∃ r, bisect eps v2g cells es pAvg pn0 fuel pLow pHigh p power = .ok r := by
  obtain ⟨f, rfl⟩ : ∃ f, fuel = f + 1 := ⟨fuel - 1, by omega⟩
  have hf' : n ≤ f := by omega
  unfold bisect
  split
  · simp only
    split
    · exact bisect_mid_fuel eps v2g cells es pAvg pn0 n f _ _ _ _ hf' rfl h1
    · split
      · exact bisect_mid_fuel eps v2g cells es pAvg pn0 n f _ _ _ _ hf' rfl h2
      · exact ⟨_, rfl⟩
  · exact ⟨_, rfl⟩

/-! ### clamp_to_gc, final assertion, rows -/

theorem clampToGc_bounds (R x : α) (hR : 0 ≤ R) : -R ≤ clampToGc R x ∧ clampToGc R x ≤ R := by
  unfold clampToGc
  simp only [pymin_eq, pymax_eq]
  exact ⟨le_min (le_max_right _ _) (by linarith), min_le_right _ _⟩

theorem checkBand_ok (eps : α) (cells : Array (Cell α)) (h : checkBand eps cells = .ok ()) :
    ∀ c ∈ cells.toList, c.flexMin - eps < c.sched ∧ c.sched < c.flexMax + eps := by
  unfold checkBand pyassert at h
  split at h
  · rename_i hall
    intro c hc
    have := List.all_eq_true.mp hall c hc
    simpa using this
  · cases h

theorem generateCells_ok (eps tsph : α) (fuel : Nat) (inp : GenInput α) (cells : Array (Cell α))
    (h : generateCells eps tsph fuel inp = .ok cells) :
    generateCore eps tsph fuel inp = .ok cells ∧ checkBand eps cells = .ok () := by
  unfold generateCells at h
  simp only [bind, Except.bind] at h
  cases h1 : generateCore eps tsph fuel inp with
  | error e => rw [h1] at h; cases h
  | ok c =>
    rw [h1] at h
    simp only at h
    cases h2 : checkBand eps c with
    | error e => rw [h2] at h; cases h
    | ok u =>
      rw [h2] at h
      simp only at h
      cases h
      exact ⟨rfl, h2⟩

/-! ### invariants of the whole generator (individual mode) -/

/-- avail is non-negative and the schedule is inside the band -/
def CellInv (c : Cell α) : Prop :=
  0 ≤ c.availMin ∧ 0 ≤ c.availMax ∧ c.flexMin ≤ c.sched ∧ c.sched ≤ c.flexMax

def Inv (cells : Array (Cell α)) : Prop := ∀ i, i < cells.size → CellInv (cells.getD i Cell.zero)

/-- `schedule + avail.max` and `schedule - avail.min` are unchanged -/
def Cell.SumRel (c c' : Cell α) : Prop :=
  c'.sched + c'.availMax = c.sched + c.availMax ∧ c'.sched - c'.availMin = c.sched - c.availMin

def ASum (a a' : Array (Cell α)) : Prop :=
  a'.size = a.size ∧ ∀ i, Cell.SumRel (a.getD i Cell.zero) (a'.getD i Cell.zero)

theorem ASum.refl (a : Array (Cell α)) : ASum a a := ⟨rfl, fun _ => ⟨rfl, rfl⟩⟩

theorem ASum.trans {a b c : Array (Cell α)} (h1 : ASum a b) (h2 : ASum b c) : ASum a c :=
  ⟨h2.1.trans h1.1, fun i => ⟨(h2.2 i).1.trans (h1.2 i).1, (h2.2 i).2.trans (h1.2 i).2⟩⟩

theorem ARel.toSum {a b : Array (Cell α)} (h : ARel a b) : ASum a b :=
  ⟨h.1, fun i => ⟨(h.2 i).1, (h.2 i).2.1⟩⟩

/-- widening the band of some timesteps: schedule and avail untouched, band only grows, and grows by
at least `(v2g, pMax)` on the listed timesteps -/
theorem widen_spec (v2g pMax : α) (hv : 0 ≤ v2g) (hp : 0 ≤ pMax) (js : List Nat) (cells : Array (Cell α)) :
    (widen cells v2g pMax js).size = cells.size ∧
    ∀ i, ((widen cells v2g pMax js).getD i Cell.zero).sched = (cells.getD i Cell.zero).sched ∧
      ((widen cells v2g pMax js).getD i Cell.zero).availMin = (cells.getD i Cell.zero).availMin ∧
      ((widen cells v2g pMax js).getD i Cell.zero).availMax = (cells.getD i Cell.zero).availMax ∧
      ((widen cells v2g pMax js).getD i Cell.zero).flexMin ≤ (cells.getD i Cell.zero).flexMin ∧
      (cells.getD i Cell.zero).flexMax ≤ ((widen cells v2g pMax js).getD i Cell.zero).flexMax ∧
      (i ∈ js → i < cells.size →
        ((widen cells v2g pMax js).getD i Cell.zero).flexMin ≤ (cells.getD i Cell.zero).flexMin - v2g ∧
        (cells.getD i Cell.zero).flexMax + pMax ≤ ((widen cells v2g pMax js).getD i Cell.zero).flexMax) := by
  induction js generalizing cells with
  | nil =>
    unfold widen
    exact ⟨rfl, fun i => ⟨rfl, rfl, rfl, le_refl _, le_refl _, fun h => by cases h⟩⟩
  | cons j js ih =>
    unfold widen
    obtain ⟨hsz, hall⟩ := ih (cells.modify j (fun c =>
      { c with flexMin := c.flexMin - v2g, flexMax := c.flexMax + pMax }))
    refine ⟨by rw [hsz, Array.size_modify], fun i => ?_⟩
    obtain ⟨h1, h2, h3, h4, h5, h6⟩ := hall i
    rw [getD_modify] at h1 h2 h3 h4 h5 h6
    by_cases hji : j = i ∧ i < cells.size
    · obtain ⟨rfl, hlt⟩ := hji
      rw [if_pos ⟨rfl, hlt⟩] at h1 h2 h3 h4 h5 h6
      simp only at h1 h2 h3 h4 h5 h6
      refine ⟨h1, h2, h3, by linarith, by linarith, fun _ _ => ⟨by linarith, by linarith⟩⟩
    · rw [if_neg hji] at h1 h2 h3 h4 h5 h6
      refine ⟨h1, h2, h3, h4, h5, fun hmem hlt => ?_⟩
      rcases List.mem_cons.mp hmem with rfl | hmem
      · exact absurd ⟨rfl, hlt⟩ hji
      · exact h6 hmem (by rw [Array.size_modify]; exact hlt)

theorem intRange_nodup (a b : Int) : (intRange a b).Nodup := by
  unfold intRange
  exact List.Nodup.map (fun x y h => by simpa using h) List.nodup_range

theorem Post.cellInv {c c' : Cell α} {e : Entry α} (h : Post c e c') : CellInv c' :=
  ⟨h.amin, h.amax, h.fmin, h.fmax⟩

/-- one vehicle of the individual branch keeps the invariant -/
theorem individualVehicle_inv (eps tsph : α) (fuel : Nat) (cells cells' : Array (Cell α)) (v : VInfo α)
    (htsph : 0 < tsph) (hv : 0 ≤ v.v2g) (hp : 0 ≤ v.pMax) (hinv : Inv cells)
    (h : individualVehicle eps tsph fuel cells v = .ok cells') : Inv cells' ∧ ASum cells cells' := by
  unfold individualVehicle at h
  split at h
  · cases h; exact ⟨hinv, ASum.refl _⟩
  split at h
  · cases h
  simp only [bind, Except.bind] at h
  split at h
  · cases h
  rename_i hrange
  have hrange' : ∀ j ∈ intRange v.idxStart v.idxEnd, j < cells.size := by
    intro j hj
    have : (intRange v.idxStart v.idxEnd).all (fun j => decide (j < cells.size)) = true := by
      simpa using hrange
    simpa using List.all_eq_true.mp this j hj
  obtain ⟨hwsz, hw⟩ := widen_spec v.v2g v.pMax hv hp (intRange v.idxStart v.idxEnd) cells
  split at h
  · cases h
  rename_i r hd
  cases h
  set rng := intRange v.idxStart v.idxEnd with hrng
  set W := widen cells v.v2g v.pMax rng with hW
  have hmap : (rng.map (fun j => ((j, -v.v2g, v.pMax) : Entry α))).map (·.1) = rng := by
    rw [List.map_map]; simp [Function.comp_def]
  have hrel := distribute_rel eps tsph fuel W _ _ _ _ r hd
  have hpost := distribute_post eps tsph fuel W _ v.energy _ _ r htsph
    (by rw [hmap]; exact intRange_nodup _ _)
    (fun e he => by
      obtain ⟨j, hj, rfl⟩ := List.mem_map.mp he
      obtain ⟨h1, h2, h3, h4, h5, h6⟩ := hw j
      obtain ⟨g1, g2, g3, g4⟩ := hinv j (hrange' j hj)
      obtain ⟨h6a, h6b⟩ := h6 hj (hrange' j hj)
      refine ⟨by simp only; linarith, hp, by rw [h2]; exact g1, by rw [h3]; exact g2,
        by rw [h1]; linarith, ?_⟩
      rw [h1]
      simp only
      split <;> linarith) hd
  have hframe := distribute_frame eps tsph fuel W _ v.energy _ _ r hd
  refine ⟨?_, ?_⟩
  · intro i hi
    have hi' : i < cells.size := by rw [hrel.1, hwsz] at hi; exact hi
    by_cases hmem : i ∈ rng
    · have := hpost (i, -v.v2g, v.pMax) (List.mem_map_of_mem hmem)
      exact this.cellInv
    · rw [hframe i (by rw [hmap]; exact hmem)]
      obtain ⟨h1, h2, h3, h4, h5, _⟩ := hw i
      obtain ⟨g1, g2, g3, g4⟩ := hinv i hi'
      exact ⟨by rw [h2]; exact g1, by rw [h3]; exact g2, by rw [h1]; linarith, by rw [h1]; linarith⟩
  · refine ASum.trans ⟨hwsz, fun i => ?_⟩ hrel.toSum
    obtain ⟨h1, h2, h3, _⟩ := hw i
    exact ⟨by rw [h1, h3], by rw [h1, h2]⟩

theorem foldlM_inv {σ β : Type} (f : σ → β → Py σ) (P : σ → Prop) (Q : σ → σ → Prop)
    (hQr : ∀ s, Q s s) (hQt : ∀ a b c, Q a b → Q b c → Q a c) (l : List β)
    (hstep : ∀ s b s', b ∈ l → P s → f s b = .ok s' → P s' ∧ Q s s') (s s' : σ) (hs : P s)
    (h : l.foldlM f s = .ok s') : P s' ∧ Q s s' := by
  induction l generalizing s with
  | nil => simp only [List.foldlM_nil, pure, Except.pure] at h; cases h; exact ⟨hs, hQr _⟩
  | cons b l ih =>
    simp only [List.foldlM_cons, bind, Except.bind] at h
    cases hb : f s b with
    | error e => rw [hb] at h; cases h
    | ok s1 =>
      rw [hb] at h
      simp only at h
      obtain ⟨h1, h2⟩ := hstep s b s1 List.mem_cons_self hs hb
      obtain ⟨h3, h4⟩ := ih (fun s b s' hb => hstep s b s' (List.mem_cons_of_mem _ hb)) s1 h1 h
      exact ⟨h3, hQt _ _ _ h2 h4⟩

theorem sortKeys_mem (vs : List (VInfo α)) (keyed : List (α × VInfo α)) (h : sortKeys vs = .ok keyed) :
    ∀ kv ∈ keyed, kv.2 ∈ vs := by
  unfold sortKeys at h
  induction vs generalizing keyed with
  | nil => simp only [List.mapM_nil, pure, Except.pure] at h; cases h; intro kv hkv; cases hkv
  | cons v vs ih =>
    simp only [List.mapM_cons, bind, Except.bind, pure, Except.pure] at h
    cases hk : pydiv (-v.energy) v.seconds with
    | error e => rw [hk] at h; cases h
    | ok k =>
      rw [hk] at h
      simp only at h
      cases hr : List.mapM (fun v => do let k ← pydiv (-v.energy) v.seconds; pure (k, v)) vs with
      | error e =>
        simp only [bind, Except.bind, pure, Except.pure] at hr
        rw [hr] at h; cases h
      | ok r =>
        simp only [bind, Except.bind, pure, Except.pure] at hr
        rw [hr] at h
        simp only at h
        cases h
        intro kv hkv
        rcases List.mem_cons.mp hkv with rfl | hkv
        · exact List.mem_cons_self
        · exact List.mem_cons_of_mem _ (ih r (by simpa [bind, Except.bind, pure, Except.pure] using hr) kv hkv)

theorem modify_band_inv (cells : Array (Cell α)) (i : Nat) (d u : α) (hd : 0 ≤ d) (hu : 0 ≤ u)
    (hinv : Inv cells) :
    Inv (cells.modify i (fun c => { c with flexMin := c.flexMin - d, flexMax := c.flexMax + u })) ∧
    ASum cells (cells.modify i (fun c => { c with flexMin := c.flexMin - d, flexMax := c.flexMax + u })) := by
  refine ⟨fun j hj => ?_, Array.size_modify, fun j => ?_⟩
  · rw [Array.size_modify] at hj
    obtain ⟨g1, g2, g3, g4⟩ := hinv j hj
    rw [getD_modify]
    by_cases hc : i = j ∧ j < cells.size
    · rw [if_pos hc]; exact ⟨g1, g2, by simp only; linarith, by simp only; linarith⟩
    · rw [if_neg hc]; exact ⟨g1, g2, g3, g4⟩
  · rw [getD_modify]
    by_cases hc : i = j ∧ j < cells.size
    · rw [if_pos hc]; exact ⟨rfl, rfl⟩
    · rw [if_neg hc]; exact ⟨rfl, rfl⟩

/-- non-negativity of the parameters the flex-band functions deliver -/
structure BatOK (b : Batteries α) : Prop where
  stored : 0 ≤ b.stored
  power : 0 ≤ b.power
  eff : 0 ≤ b.efficiency
  init : 0 ≤ b.initDischarge
  full : 0 ≤ b.fullDischarge

theorem individualStep_inv (eps tsph : α) (fuel : Nat) (bat : Batteries α) (cells cells' : Array (Cell α))
    (i : Nat) (arriving : List (VInfo α)) (htsph : 0 < tsph) (hbat : BatOK bat)
    (hv : ∀ v ∈ arriving, 0 ≤ v.v2g ∧ 0 ≤ v.pMax) (hinv : Inv cells)
    (h : individualStep eps tsph fuel bat cells i arriving = .ok cells') : Inv cells' ∧ ASum cells cells' := by
  unfold individualStep at h
  simp only [bind, Except.bind] at h
  cases hk : sortKeys arriving with
  | error e => rw [hk] at h; cases h
  | ok keyed =>
    rw [hk] at h
    simp only at h
    cases hf : List.foldlM (fun cs (kv : α × VInfo α) => individualVehicle eps tsph fuel cs kv.2) cells
        (keyed.mergeSort (fun a b => decide (a.1 ≤ b.1))) with
    | error e => rw [hf] at h; cases h
    | ok c1 =>
      rw [hf] at h
      simp only at h
      cases h
      obtain ⟨h1, h2⟩ := foldlM_inv _ Inv ASum ASum.refl (fun _ _ _ => ASum.trans) _
        (fun s kv s' hkv hs hs' => by
          have hm := sortKeys_mem arriving keyed hk kv (List.mem_mergeSort.mp hkv)
          exact individualVehicle_inv eps tsph fuel s s' kv.2 htsph (hv _ hm).1 (hv _ hm).2 hs hs')
        cells c1 hinv hf
      have hd : 0 ≤ (if i = 0 then bat.initDischarge else bat.fullDischarge) := by
        split
        · exact hbat.init
        · exact hbat.full
      have hu : 0 ≤ bat.power * bat.efficiency / tsph :=
        div_nonneg (mul_nonneg hbat.power hbat.eff) htsph.le
      obtain ⟨h3, h4⟩ := modify_band_inv c1 i _ _ hd hu h1
      exact ⟨h3, h2.trans h4⟩

theorem individualLoop_inv (eps tsph : α) (fuel : Nat) (bat : Batteries α) (htsph : 0 < tsph)
    (hbat : BatOK bat) (arr : List (List (VInfo α)))
    (hv : ∀ step ∈ arr, ∀ v ∈ step, 0 ≤ v.v2g ∧ 0 ≤ v.pMax) (cells cells' : Array (Cell α)) (i : Nat)
    (hinv : Inv cells) (h : individualLoop eps tsph fuel bat cells i arr = .ok cells') :
    Inv cells' ∧ ASum cells cells' := by
  induction arr generalizing cells i with
  | nil => unfold individualLoop at h; cases h; exact ⟨hinv, ASum.refl _⟩
  | cons a arr ih =>
    unfold individualLoop at h
    simp only [bind, Except.bind] at h
    cases hs : individualStep eps tsph fuel bat cells i a with
    | error e => rw [hs] at h; cases h
    | ok c1 =>
      rw [hs] at h
      simp only at h
      obtain ⟨h1, h2⟩ := individualStep_inv eps tsph fuel bat cells c1 i a htsph hbat
        (hv a List.mem_cons_self) hinv hs
      obtain ⟨h3, h4⟩ := ih (fun st hst => hv st (List.mem_cons_of_mem _ hst)) c1 (i + 1) h1 h
      exact ⟨h3, h2.trans h4⟩

theorem batteryPass_inv (eps tsph : α) (fuel : Nat) (bat : Batteries α) (htsph : 0 < tsph)
    (hbat : BatOK bat) (cells cells' : Array (Cell α)) (hinv : Inv cells)
    (h : batteryPass eps tsph fuel bat cells = .ok cells') : Inv cells' ∧ ASum cells cells' := by
  unfold batteryPass at h
  split at h
  · cases h; exact ⟨hinv, ASum.refl _⟩
  simp only [bind, Except.bind] at h
  split at h
  · cases h
  rename_i r hd
  cases h
  have hE : ¬ 0 < -bat.stored * bat.efficiency / tsph := by
    apply not_lt.mpr
    apply div_nonpos_of_nonpos_of_nonneg _ htsph.le
    have := mul_nonneg hbat.stored hbat.eff
    linarith
  have hmap : ((List.range cells.size).map (fun i => ((i, -bat.power, bat.power) : Entry α))).map (·.1)
      = List.range cells.size := by
    rw [List.map_map]; simp [Function.comp_def]
  have hrel := distribute_rel eps tsph fuel cells _ _ _ _ r hd
  have hpost := distribute_post eps tsph fuel cells _ _ _ _ r htsph
    (by rw [hmap]; exact List.nodup_range)
    (fun e he => by
      obtain ⟨j, hj, rfl⟩ := List.mem_map.mp he
      obtain ⟨g1, g2, g3, g4⟩ := hinv j (List.mem_range.mp hj)
      refine ⟨by simp only; linarith [hbat.power], hbat.power, g1, g2, g3, ?_⟩
      simp only [hE, if_false]; linarith) hd
  refine ⟨fun i hi => ?_, hrel.toSum⟩
  rw [hrel.1] at hi
  exact (hpost (i, -bat.power, bat.power) (List.mem_map_of_mem (List.mem_range.mpr hi))).cellInv

/-! ### the initial cells -/

theorem zip5_getElem? (a b c d e : List α) (i : Nat) (hi : i < a.length)
    (hb : a.length ≤ b.length) (hc : a.length ≤ c.length) (hd : a.length ≤ d.length)
    (he : a.length ≤ e.length) :
    (zip5 a b c d e)[i]? = some (a.getD i 0, b.getD i 0, c.getD i 0, d.getD i 0, e.getD i 0) := by
  induction a generalizing b c d e i with
  | nil => simp at hi
  | cons x a ih =>
    cases b with
    | nil => simp at hb
    | cons y b =>
    cases c with
    | nil => simp at hc
    | cons z c =>
    cases d with
    | nil => simp at hd
    | cons w d =>
    cases e with
    | nil => simp at he
    | cons u e =>
      simp only [zip5]
      cases i with
      | zero => simp
      | succ i =>
        simp only [List.getElem?_cons_succ, List.getD_cons_succ]
        exact ih b c d e i (by simpa using hi) (by simpa using hb) (by simpa using hc)
          (by simpa using hd) (by simpa using he)

theorem zip5_length (a b c d e : List α)
    (hb : a.length ≤ b.length) (hc : a.length ≤ c.length) (hd : a.length ≤ d.length)
    (he : a.length ≤ e.length) : (zip5 a b c d e).length = a.length := by
  induction a generalizing b c d e with
  | nil => simp [zip5]
  | cons x a ih =>
    cases b with
    | nil => simp at hb
    | cons y b =>
    cases c with
    | nil => simp at hc
    | cons z c =>
    cases d with
    | nil => simp at hd
    | cons w d =>
    cases e with
    | nil => simp at he
    | cons u e =>
      simp only [zip5, List.length_cons]
      rw [ih b c d e (by simpa using hb) (by simpa using hc) (by simpa using hd) (by simpa using he)]

/-- lengths the generator needs (otherwise Python raises IndexError) -/
structure LensOK (inp : GenInput α) : Prop where
  fmin : inp.base.length ≤ inp.fmin.length
  fmax : inp.base.length ≤ inp.fmax.length
  resid : inp.base.length ≤ inp.resid.length
  curt : inp.base.length ≤ inp.curt.length

/-- the default-schedule cell of timestep `i` -/
def initCellAt (inp : GenInput α) (i : Nat) : Cell α :=
  initCell inp.nVeh (inp.base.getD i 0) (inp.fmin.getD i 0) (inp.fmax.getD i 0) (inp.resid.getD i 0)
    (inp.curt.getD i 0)

theorem init_getD (inp : GenInput α) (hl : LensOK inp) (f : Cell α → Cell α) :
    ((initCells inp).map f).toArray.size = inp.base.length ∧
    ∀ i, i < inp.base.length →
      ((initCells inp).map f).toArray.getD i Cell.zero = f (initCellAt inp i) := by
  have hlen : (initCells inp).length = inp.base.length := by
    unfold initCells; rw [List.length_map, zip5_length _ _ _ _ _ hl.fmin hl.fmax hl.resid hl.curt]
  refine ⟨by simp [hlen], fun i hi => ?_⟩
  simp only [Array.getD_eq_getD_getElem?, List.getElem?_toArray, List.getElem?_map]
  unfold initCells
  rw [List.getElem?_map, zip5_getElem? _ _ _ _ _ i hi hl.fmin hl.fmax hl.resid hl.curt]
  rfl

theorem generateCore_lens (eps tsph : α) (fuel : Nat) (inp : GenInput α) (cells : Array (Cell α))
    (h : generateCore eps tsph fuel inp = .ok cells) :
    LensOK inp ∧ ∃ c1, runMode eps tsph fuel inp (initCells inp) = .ok c1 ∧
      batteryPass eps tsph fuel inp.bat c1 = .ok cells := by
  unfold generateCore at h
  by_cases hg : lensBad inp = true
  · rw [if_pos hg] at h; cases h
  rw [if_neg hg] at h
  unfold lensBad at hg
  simp only [Bool.or_eq_true, decide_eq_true_eq, not_or, not_lt] at hg
  refine ⟨⟨hg.1.1.1.1, hg.1.1.1.2, hg.1.1.2, hg.1.2⟩, ?_⟩
  simp only [bind, Except.bind] at h
  cases hr : runMode eps tsph fuel inp (initCells inp) with
  | error e => rw [hr] at h; cases h
  | ok c1 => rw [hr] at h; exact ⟨c1, rfl, h⟩

/-- **individual mode, whole generator**: avail stays non-negative, the schedule stays inside the band
the generator builds, and inside the connector band `[fmin, fmax]` (= `∓ cur_max_power`) it started
from -/
theorem generateCore_individual (eps tsph : α) (fuel : Nat) (inp : GenInput α)
    (vehicles : List (List (VInfo α))) (hmode : inp.mode = .individual vehicles)
    (htsph : 0 < tsph) (hbat : BatOK inp.bat)
    (hv : ∀ step ∈ vehicles, ∀ v ∈ step, 0 ≤ v.v2g ∧ 0 ≤ v.pMax)
    (hband : ∀ i, inp.fmin.getD i 0 ≤ inp.fmax.getD i 0)
    (cells : Array (Cell α)) (h : generateCore eps tsph fuel inp = .ok cells) :
    cells.size = inp.base.length ∧ ∀ i, i < inp.base.length →
      0 ≤ (cells.getD i Cell.zero).availMin ∧ 0 ≤ (cells.getD i Cell.zero).availMax ∧
      inp.fmin.getD i 0 ≤ (cells.getD i Cell.zero).sched ∧
      (cells.getD i Cell.zero).sched ≤ inp.fmax.getD i 0 ∧
      (cells.getD i Cell.zero).flexMin ≤ (cells.getD i Cell.zero).sched ∧
      (cells.getD i Cell.zero).sched ≤ (cells.getD i Cell.zero).flexMax := by
  obtain ⟨hl, c1, hr, hb⟩ := generateCore_lens eps tsph fuel inp cells h
  unfold runMode at hr
  rw [hmode] at hr
  simp only at hr
  obtain ⟨hsz, hget⟩ := init_getD inp hl Cell.availIndividual
  have hinv0 : Inv ((initCells inp).map Cell.availIndividual).toArray := by
    intro i hi
    rw [hsz] at hi
    rw [hget i hi]
    simp only [Cell.availIndividual, pymax_eq]
    exact ⟨le_max_right _ _, le_max_right _ _, le_refl _, le_refl _⟩
  obtain ⟨h1, h2⟩ := individualLoop_inv eps tsph fuel inp.bat htsph hbat _
    (fun st hst => hv st (List.mem_of_mem_take hst)) _ c1 0 hinv0 hr
  obtain ⟨h3, h4⟩ := batteryPass_inv eps tsph fuel inp.bat htsph hbat c1 cells h1 hb
  have hsum := h2.trans h4
  refine ⟨by rw [hsum.1, hsz], fun i hi => ?_⟩
  obtain ⟨g1, g2, g3, g4⟩ := h3 i (by rw [hsum.1, hsz]; exact hi)
  obtain ⟨s1, s2⟩ := hsum.2 i
  rw [hget i hi] at s1 s2
  simp only [Cell.availIndividual, initCellAt, initCell, pymax_eq, pymin_eq] at s1 s2
  have hb := hband i
  set B := inp.base.getD i 0
  set lo := inp.fmin.getD i 0
  set hi' := inp.fmax.getD i 0
  have hs0 : min (max B lo) hi' ≤ hi' := min_le_right _ _
  have hs1 : lo ≤ min (max B lo) hi' := le_min (le_max_right _ _) hb
  have m1 : max (hi' - min (max B lo) hi') 0 = hi' - min (max B lo) hi' := max_eq_left (by linarith)
  have m2 : max (min (max B lo) hi' - lo) 0 = min (max B lo) hi' - lo := max_eq_left (by linarith)
  rw [m1] at s1
  rw [m2] at s2
  exact ⟨g1, g2, by linarith, by linarith, g3, g4⟩

theorem collectiveInterval_rel (eps tsph : α) (fuel : Nat) (v2g : Bool) (vmin vmax : Array α)
    (cells cells' : Array (Cell α)) (iv : α × List Nat)
    (h : collectiveInterval eps tsph fuel v2g vmin vmax cells iv = .ok cells') : ARel cells cells' := by
  unfold collectiveInterval at h
  split at h
  · cases h; exact ARel.refl _
  split at h
  · cases h
  simp only [bind, Except.bind] at h
  split at h
  · cases h
  rename_i r hd
  cases h
  exact distribute_rel _ _ _ _ _ _ _ _ r hd

theorem batteryPass_rel (eps tsph : α) (fuel : Nat) (bat : Batteries α) (cells cells' : Array (Cell α))
    (h : batteryPass eps tsph fuel bat cells = .ok cells') : ARel cells cells' := by
  unfold batteryPass at h
  split at h
  · cases h; exact ARel.refl _
  simp only [bind, Except.bind] at h
  split at h
  · cases h
  rename_i r hd
  cases h
  exact distribute_rel _ _ _ _ _ _ _ _ r hd

/-- **collective mode, whole generator**: the band is the input band, and the sum invariants hold
relative to the default schedule -/
theorem generateCore_collective (eps tsph : α) (fuel : Nat) (inp : GenInput α)
    (gcMax : α) (v2g : Bool) (vmin vmax : Array α) (ivs : List (α × List Nat))
    (hmode : inp.mode = .collective gcMax v2g vmin vmax ivs)
    (cells : Array (Cell α)) (h : generateCore eps tsph fuel inp = .ok cells) :
    cells.size = inp.base.length ∧ ∀ i, i < inp.base.length →
      Cell.Rel (Cell.availCollective gcMax (initCellAt inp i)) (cells.getD i Cell.zero) := by
  obtain ⟨hl, c1, hr, hb⟩ := generateCore_lens eps tsph fuel inp cells h
  unfold runMode at hr
  rw [hmode] at hr
  simp only at hr
  obtain ⟨hsz, hget⟩ := init_getD inp hl (Cell.availCollective gcMax)
  obtain ⟨_, h2⟩ := foldlM_inv (collectiveInterval eps tsph fuel v2g vmin vmax) (fun _ => True) ARel
    ARel.refl (fun _ _ _ => ARel.trans) ivs
    (fun s b s' _ _ hs => ⟨trivial, collectiveInterval_rel eps tsph fuel v2g vmin vmax s s' b hs⟩)
    _ c1 trivial hr
  have hrel := h2.trans (batteryPass_rel eps tsph fuel inp.bat c1 cells hb)
  refine ⟨by rw [hrel.1, hsz], fun i hi => ?_⟩
  have := hrel.2 i
  rw [hget i hi] at this
  exact this

end SpiceEv.ScheduleGen
