"""mutation trial on the scratch repo copy ($VERIF_REPO must be a scratch copy, it is edited and restored)"""
import subprocess, re
import os, sys
HERE = os.path.dirname(os.path.abspath(__file__))
VERIF = os.path.abspath(os.path.join(HERE, "..", ".."))
REPO = os.environ.get("VERIF_REPO", "/repo")
assert REPO not in ("/repo",), "point VERIF_REPO at a scratch copy"
P = os.path.join(REPO, "spice_ev/strategies/schedule.py")
orig = open(P).read()
MUTS = [
 ("M1 individual: standing > len -> >=", "standing > len(schedule)", "standing >= len(schedule)"),
 ("M2 individual: drop min(power, gc_power_left)", "            power = min(power, gc_power_left)\n", ""),
 ("M3 batteries: power < min_charging_power -> <=", "if power < battery.min_charging_power:", "if power <= battery.min_charging_power:"),
 ("M4 sim_balanced: max(min powers) -> min", "min_power = max(vehicle.vehicle_type.min_charging_power, cs.min_power)", "min_power = min(vehicle.vehicle_type.min_charging_power, cs.min_power)"),
 ("M5 during cst: i >= n_vehicles -> >", "if i >= n_vehicles and extra_power < self.EPS:", "if i > n_vehicles and extra_power < self.EPS:"),
 ("M6 charge_vehicles: surplus -> target headroom", "power = max(-gc.get_current_load(), 0)", "power = max(gc.target - gc.get_current_load(), 0)"),
 ("M7 v2g: window_change >= 1 -> > 1", "if not charge_now and window_change >= 1:", "if not charge_now and window_change > 1:"),
 ("M8 individual look-ahead: start_time > cur_time -> >= (second occurrence)", None, None),
 ("M9 evaluate: energy available counts power > 0 instead of > EPS", "for power in self.power_for_vehicles_per_TS if power > self.EPS\n", "for power in self.power_for_vehicles_per_TS if power > 0\n"),
 ("M10 batteries: discharge bound avail_neg -> avail_pos", "power = min(power, avail_neg_power)", "power = min(power, avail_pos_power)"),
 ("M11 after cst: clamp dropped", "            power = clamp_power(power, vehicle, cs)\n            avg_power = vehicle.battery.load(\n                self.interval, max_power=power, target_soc=vehicle.desired_soc)[\"avg_power\"]\n            cs_id = vehicle.connected_charging_station\n            charging_stations[cs_id] = cs.current_power = gc.add_load(cs_id, avg_power)\n\n        return charging_stations\n\n    def charge_vehicles(self):", None),
 ("M12 individual bisection: upper bracket cs.max_power -> gc_power_left", "                max_power = cs.max_power\n", "                max_power = gc_power_left\n"),
 ("R1 refactor (behaviour-preserving)", None, None),
]
which = sys.argv[1:]
for name, a, b in MUTS:
    tag = name.split()[0]
    if which and tag not in which: continue
    src = orig
    if tag == "M8":
        i = src.index("def charge_individually"); j = src.index("if event.start_time > cur_time:", i)
        src = src[:j] + "if event.start_time >= cur_time:" + src[j+len("if event.start_time > cur_time:"):]
    elif tag == "M11":
        a2 = a.replace("            power = clamp_power(power, vehicle, cs)\n", "", 1)
        assert a in src; src = src.replace(a, a2)
    elif tag == "R1":
        # 1. bisection midpoint with swapped (commutative) operands; 2. current load read once per battery already ->
        # needed_power computed from the two headrooms' common term; 3. try/except IndexError -> explicit bound check
        src = src.replace("                    add_power = (max_power + min_power) / 2\n", "                    add_power = (min_power + max_power) / 2\n")
        old = ("                    try:\n                        event = self.world_state.future_events[event_idx]\n"
               "                    except IndexError:\n                        # no more events\n                        charging = False\n                        break\n"
               "                    if event.start_time > cur_time:\n                        # not this timestep\n                        break\n"
               "                    # event handled: don't handle again, so increase index\n                    event_idx += 1\n"
               "                    if type(event) is events.VehicleEvent and event.vehicle_id == vid:")
        assert old in src
        new = ("                    if event_idx >= len(self.world_state.future_events):\n                        charging = False\n                        break\n"
               "                    event = self.world_state.future_events[event_idx]\n"
               "                    if not (event.start_time <= cur_time):\n                        break\n"
               "                    event_idx = event_idx + 1\n"
               "                    if isinstance(event, events.VehicleEvent) and vid == event.vehicle_id:")
        src = src.replace(old, new)
        src = src.replace("            if needed_power < -self.EPS:\n                # too much power drawn: support with battery\n                power = -needed_power\n",
                          "            if -self.EPS > needed_power:\n                power = 0 - needed_power\n                power = -needed_power\n")
        src = src.replace("        for cs in self.world_state.charging_stations.values():\n            cs.current_power = 0\n\n        charging_stations = {}\n",
                          "        charging_stations = dict()\n        for station in list(self.world_state.charging_stations.values()):\n            station.current_power = 0\n")
        assert src != orig
    else:
        assert a in src, name
        src = src.replace(a, b)
    open(P, "w").write(src)
    try:
        out = subprocess.run(["/venv/bin/python", os.path.join(HERE, "dev.py"), "0", "60"], capture_output=True, text=True).stdout
    finally:
        open(P, "w").write(orig)
    first = [l for l in out.splitlines() if l.startswith("DISAGREE")][:1]
    summ = [l for l in out.splitlines() if l.startswith("steps")]
    print(name, "=>", summ, first[0][:200] if first else "")
    sys.stdout.flush()
