/-
Helper lemmas for C13, third sentence: the run-length reader (events.get_schedule_from_csv) and the
read-back of Model/ScheduleGen.lean.
-/
import SpiceEv.Model.ScheduleGen
import Mathlib.Order.Basic
import Mathlib.Tactic.Linarith
import Mathlib.Data.List.Perm.Basic
set_option linter.unusedSectionVars false
set_option linter.unusedSimpArgs false
set_option linter.unusedVariables false
namespace SpiceEv.ScheduleGen
open SpiceEv

/-- the signal time is never before the file's start and never after the row's own time -/
theorem signalTime_bounds (S T : Int) (h : S ≤ T) : S ≤ signalTime S T ∧ signalTime S T ≤ T := by
  unfold signalTime atNine hourOf DAY HOUR
  simp only
  split <;> split <;> constructor <;> omega

variable {α : Type} [LinearOrder α]

theorem numNe'_false {a b : α} (h : numNe' a b = false) : a = b := by
  unfold numNe' at h
  simp only [Bool.or_eq_false_iff, decide_eq_false_iff_not, not_lt] at h
  exact le_antisymm h.2 h.1

/-- what a strategy must see while row `row` is in force -/
def rowSeen (row : FileRow α) : Seen α := ⟨some row.target, row.window, row.vs.map some⟩

theorem set_length_append {β} (pre : List β) (l x : β) (rest : List β) :
    (pre ++ l :: rest).set pre.length x = pre ++ x :: rest := by
  induction pre with
  | nil => rfl
  | cons a pre ih => simp [ih]

theorem vehEvents_spec (st sg : Int) (vs : List α) (ls pre : List (Option α)) (s : Seen α)
    (hlen : vs.length = ls.length) (hs : s.vsched = pre ++ ls) :
    (vehEvents st sg pre.length vs ls).2 = vs.map some ∧
    (vehEvents st sg pre.length vs ls).1.foldl applyEv s = { s with vsched := pre ++ vs.map some } ∧
    ∀ e ∈ (vehEvents st sg pre.length vs ls).1, e.start = st ∧ e.signal = sg := by
  induction vs generalizing ls pre s with
  | nil =>
    cases ls with
    | nil =>
      refine ⟨rfl, ?_, ?_⟩
      · simp only [vehEvents, List.foldl_nil, List.map_nil]; rw [← hs]
      · intro e he; simp [vehEvents] at he
    | cons _ _ => simp at hlen
  | cons v vs ih =>
    cases ls with
    | nil => simp at hlen
    | cons l ls =>
      have hlen' : vs.length = ls.length := by simpa using hlen
      have hs' : s.vsched = (pre ++ [l]) ++ ls := by rw [hs]; simp
      obtain ⟨h1, h2, h3⟩ := ih ls (pre ++ [l]) s hlen' hs'
      have hl : (pre ++ [l]).length = pre.length + 1 := by simp
      rw [hl] at h1 h2 h3
      have hyes : (vehEvents st sg pre.length (v :: vs) (l :: ls)).2 = (v :: vs).map some ∧
          (vehEvents st sg (pre.length + 1) vs ls).1 ++ [⟨st, sg, .veh pre.length v⟩] =
            (vehEvents st sg pre.length (v :: vs) (l :: ls)).1 ∨
          (l = some v ∧ (vehEvents st sg pre.length (v :: vs) (l :: ls)).2 = (v :: vs).map some ∧
            (vehEvents st sg (pre.length + 1) vs ls).1 = (vehEvents st sg pre.length (v :: vs) (l :: ls)).1) := by
        cases l with
        | none => left; simp [vehEvents, h1]
        | some x =>
          by_cases hc : numNe' v x = true
          · left; simp [vehEvents, hc, h1]
          · right
            simp only [Bool.not_eq_true] at hc
            have := numNe'_false hc
            subst this
            simp [vehEvents, hc, h1]
      rcases hyes with ⟨e2, e1⟩ | ⟨hlv, e2, e1⟩
      · refine ⟨e2, ?_, ?_⟩
        · rw [← e1, List.foldl_append, h2]
          simp only [List.foldl_cons, List.foldl_nil, applyEv, List.append_assoc, List.singleton_append,
            set_length_append, List.map_cons]
        · intro e he
          rw [← e1] at he
          rcases List.mem_append.mp he with he | he
          · exact h3 e he
          · simp at he; subst he; exact ⟨rfl, rfl⟩
      · refine ⟨e2, ?_, by rw [← e1]; exact h3⟩
        rw [← e1, h2, hlv]; simp

/-- reader memory and the state a strategy sees agree -/
def Agree (rs : ReaderState α) (s : Seen α) : Prop :=
  rs.lastTarget = s.target ∧ rs.lastWindow = s.window ∧ rs.vlast = s.vsched

theorem readRow_spec (interval S : Int) (hΔ : 0 < interval) (rs : ReaderState α) (s : Seen α)
    (idx : Nat) (row : FileRow α) (hstart : rs.start = some S)
    (htime : row.time = none ∨ row.time = some (S + (idx : Int) * interval))
    (hag : Agree rs s) (hlen : row.vs.length = rs.vlast.length) (hwin : row.window ≠ none) :
    ∃ evs rs', readRow interval rs idx row = .ok (evs, rs') ∧ rs'.start = some S ∧
      Agree rs' (rowSeen row) ∧ evs.foldl applyEv s = rowSeen row ∧
      ∀ e ∈ evs, e.start = S + (idx : Int) * interval ∧ S ≤ e.signal ∧ e.signal ≤ e.start := by
  obtain ⟨ht, hw, hv⟩ := hag
  have hT : S ≤ S + (idx : Int) * interval := by
    have : 0 ≤ (idx : Int) * interval := mul_nonneg (Int.natCast_nonneg _) hΔ.le
    omega
  obtain ⟨hsg1, hsg2⟩ := signalTime_bounds S (S + (idx : Int) * interval) hT
  have htm : rowTimes interval rs.start idx row.time = .ok (S + (idx : Int) * interval, S) := by
    unfold rowTimes
    rcases htime with h | h
    · rw [h, hstart]; simp only; congr 2; omega
    · rw [h, hstart]; rfl
  obtain ⟨hv2, hvf, hve⟩ := vehEvents_spec (S + (idx : Int) * interval)
    (signalTime S (S + (idx : Int) * interval)) row.vs rs.vlast [] s (by rw [hlen]) (by rw [← hv]; rfl)
  simp only [List.length_nil, List.nil_append] at hv2 hvf hve
  unfold readRow
  rw [htm]
  unfold readRowAt
  simp only [hsg2, if_true, hlen, ne_eq, not_true_eq_false, if_false]
  -- the change test
  have hch : rowChanged rs row = false → s.target = some row.target ∧ s.window = row.window := by
    intro h
    unfold rowChanged at h
    simp only [Bool.or_eq_false_iff, bne_eq_false_iff_eq] at h
    obtain ⟨h1, h2⟩ := h
    refine ⟨?_, by rw [← hw, ← h2]⟩
    rw [← ht]
    cases hlt : rs.lastTarget with
    | none => rw [hlt] at h1; simp at h1
    | some t => rw [hlt] at h1; simp only at h1; rw [numNe'_false h1]
  by_cases hc : rowChanged rs row = true
  · simp only [hc, if_true]
    refine ⟨_, _, rfl, rfl, ⟨rfl, rfl, hv2⟩, ?_, ?_⟩
    · rw [List.foldl_append]
      simp only [List.foldl_cons, List.foldl_nil]
      obtain ⟨hv2', hvf', _⟩ := vehEvents_spec (S + (idx : Int) * interval)
        (signalTime S (S + (idx : Int) * interval)) row.vs rs.vlast []
        (applyEv s ⟨S + (idx : Int) * interval, signalTime S (S + (idx : Int) * interval),
          .gc row.target row.window⟩) (by rw [hlen]) (by simp only [applyEv]; rw [← hv]; rfl)
      simp only [List.length_nil, List.nil_append] at hvf'
      rw [hvf']
      simp only [applyEv, rowSeen]
      cases hrw : row.window with
      | none => exact absurd hrw hwin
      | some b => rfl
    · intro e he
      rcases List.mem_append.mp he with he | he
      · simp only [List.mem_singleton] at he
        subst he
        exact ⟨rfl, hsg1, hsg2⟩
      · obtain ⟨h1, h2⟩ := hve e he
        rw [h1, h2]; exact ⟨rfl, hsg1, hsg2⟩
  · have hc' : rowChanged rs row = false := by simpa using hc
    simp only [hc', Bool.false_eq_true, if_false, List.nil_append]
    refine ⟨_, _, rfl, rfl, ⟨?_, ?_, hv2⟩, ?_, ?_⟩
    · rw [ht]; exact (hch hc').1
    · rw [hw]; exact (hch hc').2
    · rw [hvf, (hch hc').1, (hch hc').2]; rfl
    · intro e he
      obtain ⟨h1, h2⟩ := hve e he
      rw [h1, h2]; exact ⟨rfl, hsg1, hsg2⟩

theorem tmono (S interval : Int) (hΔ : 0 < interval) (a b : Nat) (h : a ≤ b) :
    S + (a : Int) * interval ≤ S + (b : Int) * interval := by
  have := Int.mul_le_mul_of_nonneg_right (Int.ofNat_le.mpr h) hΔ.le
  omega

theorem tstrict (S interval : Int) (hΔ : 0 < interval) (a b : Nat) (h : a < b) :
    S + (a : Int) * interval < S + (b : Int) * interval := by
  have := Int.mul_lt_mul_of_pos_right (Int.ofNat_lt.mpr h) hΔ
  omega

theorem pairwise_const_start {l : List (Ev α)} {T : Int} (h : ∀ e ∈ l, e.start = T) :
    l.Pairwise (fun a b => a.start ≤ b.start) := by
  induction l with
  | nil => exact List.Pairwise.nil
  | cons a l ih =>
    refine List.Pairwise.cons (fun b hb => ?_) (ih (fun e he => h e (List.mem_cons_of_mem _ he)))
    rw [h a List.mem_cons_self, h b (List.mem_cons_of_mem _ hb)]

/-- the reader over all rows: the events are sorted by start time, carry sound signal times, and
applying those that have started by row `t` yields exactly row `t` -/
theorem readRows_spec (interval S : Int) (hΔ : 0 < interval) (nVeh : Nat) (rows : List (FileRow α))
    (rs : ReaderState α) (s : Seen α) (idx : Nat)
    (hstart : rs.start = some S) (hag : Agree rs s) (hvl : rs.vlast.length = nVeh)
    (hrows : ∀ k (hk : k < rows.length),
      (rows[k].time = none ∨ rows[k].time = some (S + ((idx + k : Nat) : Int) * interval)) ∧
      rows[k].vs.length = nVeh ∧ rows[k].window ≠ none) :
    ∃ evs, readRows interval rs idx rows = .ok evs ∧
      (∀ e ∈ evs, S + (idx : Int) * interval ≤ e.start ∧ S ≤ e.signal ∧ e.signal ≤ e.start) ∧
      evs.Pairwise (fun a b => a.start ≤ b.start) ∧
      ∀ t (ht : t < rows.length),
        (evs.filter (fun e => decide (e.start ≤ S + ((idx + t : Nat) : Int) * interval))).foldl applyEv s
          = rowSeen rows[t] := by
  induction rows generalizing rs s idx with
  | nil =>
    refine ⟨[], rfl, ?_, List.Pairwise.nil, ?_⟩
    · intro e he; simp at he
    · intro t ht; exact absurd ht (by simp)
  | cons row rest ih =>
    obtain ⟨h0t, h0l, h0w⟩ := hrows 0 (by simp)
    simp only [List.getElem_cons_zero, Nat.add_zero] at h0t h0l h0w
    obtain ⟨evs0, rs', hr, hst', hag', hfold, hev0⟩ :=
      readRow_spec interval S hΔ rs s idx row hstart h0t hag (by rw [h0l, hvl]) h0w
    have hvl' : rs'.vlast.length = nVeh := by rw [hag'.2.2]; simp [rowSeen, h0l]
    obtain ⟨tl, htl, hbt, hpt, hft⟩ := ih rs' (rowSeen row) (idx + 1) hst' hag' hvl' (fun k hk => by
      have := hrows (k + 1) (by simpa using hk)
      simp only [List.getElem_cons_succ] at this
      have e : idx + (k + 1) = idx + 1 + k := by omega
      rw [e] at this; exact this)
    have hlt : ∀ e ∈ tl, S + (idx : Int) * interval < e.start := fun e he =>
      lt_of_lt_of_le (tstrict S interval hΔ idx (idx + 1) (by omega)) (hbt e he).1
    refine ⟨evs0 ++ tl, ?_, ?_, ?_, ?_⟩
    · unfold readRows; rw [hr]; simp only [bind, Except.bind]; rw [htl]
    · intro e he
      rcases List.mem_append.mp he with he | he
      · obtain ⟨h1, h2, h3⟩ := hev0 e he
        exact ⟨by rw [h1], h2, h3⟩
      · exact ⟨(hlt e he).le, (hbt e he).2⟩
    · rw [List.pairwise_append]
      refine ⟨pairwise_const_start (fun e he => (hev0 e he).1), hpt, fun a ha b hb => ?_⟩
      rw [(hev0 a ha).1]; exact (hlt b hb).le
    · intro t ht
      rw [List.filter_append, List.foldl_append]
      have hkeep : evs0.filter (fun e => decide (e.start ≤ S + ((idx + t : Nat) : Int) * interval)) = evs0 := by
        rw [List.filter_eq_self]
        intro e he
        rw [(hev0 e he).1]
        simpa using tmono S interval hΔ idx (idx + t) (by omega)
      rw [hkeep, hfold]
      cases t with
      | zero =>
        have : tl.filter (fun e => decide (e.start ≤ S + ((idx + 0 : Nat) : Int) * interval)) = [] := by
          rw [List.filter_eq_nil_iff]
          intro e he
          have := hlt e he
          simp only [Nat.add_zero, decide_eq_true_eq, not_le]; exact this
        rw [this]; rfl
      | succ t' =>
        have e : idx + (t' + 1) = idx + 1 + t' := by omega
        rw [e]
        simpa using hft t' (by simpa using ht)

/-- an event that was signalled at or after the scenario start and has started by step `t < n` has
been placed in a step `≤ t` by `get_event_steps` -/
theorem stepIndex_le (S interval : Int) (hΔ : 0 < interval) (n t : Nat) (ht : t < n) (e : Ev α)
    (h1 : S ≤ e.signal) (h2 : e.signal ≤ S + (t : Int) * interval) :
    ∃ k, stepIndex S interval n e = some k ∧ k ≤ t := by
  unfold stepIndex
  have hq1 : (S - e.signal) / interval < 1 := by
    rw [Int.ediv_lt_iff_lt_mul hΔ]; omega
  have hq2 : -(t : Int) ≤ (S - e.signal) / interval := by
    rw [Int.le_ediv_iff_mul_le hΔ]
    have : -(t : Int) * interval = -((t : Int) * interval) := Int.neg_mul _ _
    omega
  by_cases h3 : -((S - e.signal) / interval) < 0
  · simp only [h3, if_true]; exact ⟨0, rfl, Nat.zero_le _⟩
  · by_cases h4 : -((S - e.signal) / interval) ≥ (n : Int)
    · omega
    · simp only [h3, h4, if_false]
      refine ⟨_, rfl, ?_⟩; omega

theorem inForce_eq_filter (S interval : Int) (hΔ : 0 < interval) (n : Nat) (evs : List (Ev α))
    (init : Seen α) (t : Nat) (ht : t < n)
    (hb : ∀ e ∈ evs, S ≤ e.signal ∧ e.signal ≤ e.start)
    (hp : evs.Pairwise (fun a b => a.start ≤ b.start)) :
    inForce S interval n evs init t =
      (evs.filter (fun e => decide (e.start ≤ S + (t : Int) * interval))).foldl applyEv init := by
  unfold inForce
  simp only
  have hf : evs.filter (fun e =>
      arrivedBy S interval n t e && decide (e.start ≤ S + (t : Int) * interval)) =
      evs.filter (fun e => decide (e.start ≤ S + (t : Int) * interval)) := by
    apply List.filter_congr
    intro e he
    by_cases hs : e.start ≤ S + (t : Int) * interval
    · obtain ⟨k, hk, hkt⟩ := stepIndex_le S interval hΔ n t ht e (hb e he).1 (le_trans (hb e he).2 hs)
      simp [arrivedBy, hk, hkt, hs]
    · simp [hs]
  rw [hf, List.mergeSort_of_pairwise]
  have := List.Pairwise.filter (fun e => decide (e.start ≤ S + (t : Int) * interval)) hp
  exact this.imp (fun h => by simpa using h)

end SpiceEv.ScheduleGen

/-! ## the operational event queue of `Strategy.step` -/

namespace SpiceEv.ScheduleGen
open SpiceEv
variable {α : Type} [LinearOrder α]

/-! ### generic list lemmas for the queue -/

theorem pairwise_forall_ne {β : Type} {R : β → β → Prop} (hsym : ∀ a b, R a b → R b a) {l : List β}
    (h : l.Pairwise R) : ∀ x ∈ l, ∀ y ∈ l, x ≠ y → R x y := by
  induction h with
  | nil => intro x hx; cases hx
  | cons hab _ ih =>
    intro x hx y hy hne
    rcases List.mem_cons.mp hx with hx | hx <;> rcases List.mem_cons.mp hy with hy | hy
    · exact absurd (hx.trans hy.symm) hne
    · rw [hx]; exact hab y hy
    · rw [hy]; exact hsym _ _ (hab x hx)
    · exact ih x hx y hy hne

theorem takeWhile_sorted (l : List (Ev α)) (c : Int) (h : l.Pairwise (fun a b => a.start ≤ b.start)) :
    l.takeWhile (fun e => decide (e.start ≤ c)) = l.filter (fun e => decide (e.start ≤ c)) ∧
    l.dropWhile (fun e => decide (e.start ≤ c)) = l.filter (fun e => !decide (e.start ≤ c)) := by
  induction l with
  | nil => exact ⟨rfl, rfl⟩
  | cons a l ih =>
    obtain ⟨ha, hl⟩ := List.pairwise_cons.mp h
    obtain ⟨ih1, ih2⟩ := ih hl
    by_cases hc : a.start ≤ c
    · simp only [List.takeWhile_cons, List.dropWhile_cons, List.filter_cons, hc, decide_true, if_true,
        Bool.not_true, Bool.false_eq_true, if_false]
      exact ⟨by rw [ih1], ih2⟩
    · have hall : ∀ b ∈ l, ¬ b.start ≤ c := fun b hb hbc => hc (le_trans (ha b hb) hbc)
      simp only [List.takeWhile_cons, List.dropWhile_cons, List.filter_cons, hc, decide_false,
        Bool.false_eq_true, if_false, Bool.not_false, if_true]
      refine ⟨?_, ?_⟩
      · symm; rw [List.filter_eq_nil_iff]; intro b hb; simpa using hall b hb
      · congr 1; symm; rw [List.filter_eq_self]; intro b hb; simpa using hall b hb

theorem filter_or_perm {β : Type} (l : List β) (p q r : β → Bool)
    (h : ∀ x ∈ l, r x = (p x || q x)) (hd : ∀ x ∈ l, ¬ (p x = true ∧ q x = true)) :
    (l.filter p ++ l.filter q).Perm (l.filter r) := by
  induction l with
  | nil => simp
  | cons x l ih =>
    have ih' := ih (fun y hy => h y (List.mem_cons_of_mem _ hy)) (fun y hy => hd y (List.mem_cons_of_mem _ hy))
    have hx := h x List.mem_cons_self
    have hdx := hd x List.mem_cons_self
    cases hp : p x <;> cases hq : q x <;> simp only [hp, hq, Bool.or_false, Bool.or_true, Bool.false_or] at hx
    · simp only [List.filter_cons, hp, hq, hx, Bool.false_eq_true, if_false]; exact ih'
    · simp only [List.filter_cons, hp, hq, hx, Bool.false_eq_true, if_false, if_true]
      exact List.perm_middle.trans (List.Perm.cons _ ih')
    · simp only [List.filter_cons, hp, hq, hx, Bool.false_eq_true, if_false, if_true, List.cons_append]
      exact List.Perm.cons _ ih'
    · exact absurd ⟨hp, hq⟩ hdx

theorem sorted_split (l : List (Ev α)) (a : Int) (h : l.Pairwise (fun x y => x.start ≤ y.start)) :
    l.filter (fun e => decide (e.start < a)) ++ l.filter (fun e => decide (e.start = a)) =
      l.filter (fun e => decide (e.start ≤ a)) := by
  induction l with
  | nil => rfl
  | cons x l ih =>
    obtain ⟨hx, hl⟩ := List.pairwise_cons.mp h
    have ih' := ih hl
    rcases lt_trichotomy x.start a with hlt | heq | hgt
    · have h1 : ¬ x.start = a := ne_of_lt hlt
      simp only [List.filter_cons, hlt, h1, hlt.le, decide_true, decide_false, if_true, if_false,
        Bool.false_eq_true, List.cons_append]
      rw [ih']
    · have h1 : ¬ x.start < a := by rw [heq]; exact lt_irrefl _
      have hnil : l.filter (fun e => decide (e.start < a)) = [] := by
        rw [List.filter_eq_nil_iff]; intro b hb
        have := hx b hb
        simp only [decide_eq_true_eq, not_lt]; rw [← heq]; exact this
      simp only [List.filter_cons, h1, heq, le_refl, decide_true, decide_false, if_true, if_false,
        Bool.false_eq_true]
      rw [hnil] at ih' ⊢
      simp only [List.nil_append, lt_irrefl, decide_false, Bool.false_eq_true, if_false] at ih' ⊢
      rw [ih']
    · have h1 : ¬ x.start < a := not_lt.mpr hgt.le
      have h2 : ¬ x.start = a := ne_of_gt hgt
      have h3 : ¬ x.start ≤ a := not_le.mpr hgt
      simp only [List.filter_cons, h1, h2, h3, decide_false, if_false, Bool.false_eq_true]
      exact ih'

end SpiceEv.ScheduleGen

namespace SpiceEv.ScheduleGen
open SpiceEv
variable {α : Type} [LinearOrder α]

/-- which piece of strategy state an event writes: `none` = connector, `some k` = vehicle `k` -/
def slot (e : Ev α) : Option Nat :=
  match e.payload with
  | .gc _ _ => none
  | .veh k _ => some k

theorem applyEv_comm (z : Seen α) (x y : Ev α) (h : slot x ≠ slot y) :
    applyEv (applyEv z x) y = applyEv (applyEv z y) x := by
  obtain ⟨xs, xg, xp⟩ := x
  obtain ⟨ys, yg, yp⟩ := y
  cases xp with
  | gc t w =>
    cases yp with
    | gc t' w' => simp [slot] at h
    | veh k v => simp [applyEv]
  | veh k v =>
    cases yp with
    | gc t' w' => simp [applyEv]
    | veh k' v' =>
      have hk : k ≠ k' := by simpa [slot] using h
      simp only [applyEv]
      rw [List.set_comm _ _ hk]

theorem vehEvents_slots (st sg : Int) (vs : List α) (ls : List (Option α)) (k : Nat) :
    (∀ e ∈ (vehEvents st sg k vs ls).1, ∃ j, slot e = some j ∧ k ≤ j) ∧
    (vehEvents st sg k vs ls).1.Pairwise (fun a b => slot a ≠ slot b) := by
  induction vs generalizing ls k with
  | nil => simp [vehEvents]
  | cons v vs ih =>
    cases ls with
    | nil => simp [vehEvents]
    | cons l ls =>
      obtain ⟨h1, h2⟩ := ih ls (k + 1)
      have hsub : (vehEvents st sg k (v :: vs) (l :: ls)).1 = (vehEvents st sg (k + 1) vs ls).1 ∨
          (vehEvents st sg k (v :: vs) (l :: ls)).1 =
            (vehEvents st sg (k + 1) vs ls).1 ++ [⟨st, sg, .veh k v⟩] := by
        cases l with
        | none => right; simp [vehEvents]
        | some x =>
          by_cases hc : numNe' v x = true
          · right; simp [vehEvents, hc]
          · left; simp [vehEvents, hc]
      rcases hsub with e | e
      · rw [e]
        exact ⟨fun x hx => by obtain ⟨j, hj, hk⟩ := h1 x hx; exact ⟨j, hj, by omega⟩, h2⟩
      · rw [e]
        refine ⟨fun x hx => ?_, ?_⟩
        · rcases List.mem_append.mp hx with hx | hx
          · obtain ⟨j, hj, hk⟩ := h1 x hx; exact ⟨j, hj, by omega⟩
          · simp only [List.mem_singleton] at hx; subst hx; exact ⟨k, rfl, le_refl _⟩
        · rw [List.pairwise_append]
          refine ⟨h2, List.pairwise_singleton _ _, fun a ha b hb => ?_⟩
          simp only [List.mem_singleton] at hb; subst hb
          obtain ⟨j, hj, hk⟩ := h1 a ha
          rw [hj]; simp only [slot]; intro hh; injection hh with hh; omega

theorem readRow_slots (interval : Int) (rs rs' : ReaderState α) (idx : Nat) (row : FileRow α)
    (evs : List (Ev α)) (h : readRow interval rs idx row = .ok (evs, rs')) :
    evs.Pairwise (fun a b => slot a ≠ slot b) := by
  unfold readRow at h
  split at h
  · cases h
  · unfold readRowAt at h
    simp only at h
    split at h
    · split at h
      · cases h
      · cases h
        obtain ⟨h1, h2⟩ := vehEvents_slots (‹ℤ × ℤ›).1 (signalTime (‹ℤ × ℤ›).2 (‹ℤ × ℤ›).1) row.vs rs.vlast 0
        rw [List.pairwise_append]
        refine ⟨?_, h2, fun a ha b hb => ?_⟩
        · split
          · exact List.pairwise_singleton _ _
          · exact List.Pairwise.nil
        · obtain ⟨j, hj, _⟩ := h1 b hb
          split at ha
          · simp only [List.mem_singleton] at ha; subst ha; rw [hj]; simp [slot]
          · cases ha
    · cases h

end SpiceEv.ScheduleGen

namespace SpiceEv.ScheduleGen
open SpiceEv
variable {α : Type} [LinearOrder α]

/-- two events of the reader never write the same piece of state at the same start time -/
def Distinct (a b : Ev α) : Prop := a.start ≠ b.start ∨ slot a ≠ slot b

theorem readRows_grid (interval S : Int) (hΔ : 0 < interval) (nVeh : Nat) (rows : List (FileRow α))
    (rs : ReaderState α) (s : Seen α) (idx : Nat)
    (hstart : rs.start = some S) (hag : Agree rs s) (hvl : rs.vlast.length = nVeh)
    (hrows : ∀ k (hk : k < rows.length),
      (rows[k].time = none ∨ rows[k].time = some (S + ((idx + k : Nat) : Int) * interval)) ∧
      rows[k].vs.length = nVeh ∧ rows[k].window ≠ none)
    (evs : List (Ev α)) (h : readRows interval rs idx rows = .ok evs) :
    (∀ e ∈ evs, ∃ r, idx ≤ r ∧ r < idx + rows.length ∧ e.start = S + (r : Int) * interval) ∧
    evs.Pairwise Distinct := by
  induction rows generalizing rs s idx evs with
  | nil =>
    unfold readRows at h; cases h
    refine ⟨?_, List.Pairwise.nil⟩
    intro e he; simp at he
  | cons row rest ih =>
    obtain ⟨h0t, h0l, h0w⟩ := hrows 0 (by simp)
    simp only [List.getElem_cons_zero, Nat.add_zero] at h0t h0l h0w
    obtain ⟨evs0, rs', hr, hst', hag', hfold, hev0⟩ :=
      readRow_spec interval S hΔ rs s idx row hstart h0t hag (by rw [h0l, hvl]) h0w
    have hvl' : rs'.vlast.length = nVeh := by rw [hag'.2.2]; simp [rowSeen, h0l]
    unfold readRows at h
    rw [hr] at h
    simp only [bind, Except.bind] at h
    cases htl : readRows interval rs' (idx + 1) rest with
    | error e => rw [htl] at h; cases h
    | ok tl =>
      rw [htl] at h
      simp only at h
      cases h
      obtain ⟨hg, hd⟩ := ih rs' (rowSeen row) (idx + 1) hst' hag' hvl' (fun k hk => by
        have := hrows (k + 1) (by simpa using hk)
        simp only [List.getElem_cons_succ] at this
        have e : idx + (k + 1) = idx + 1 + k := by omega
        rw [e] at this; exact this) tl htl
      refine ⟨fun e he => ?_, ?_⟩
      · rcases List.mem_append.mp he with he | he
        · exact ⟨idx, le_refl _, by simp, (hev0 e he).1⟩
        · obtain ⟨r, h1, h2, h3⟩ := hg e he
          exact ⟨r, by omega, by simp only [List.length_cons]; omega, h3⟩
      · rw [List.pairwise_append]
        refine ⟨(readRow_slots interval rs rs' idx row evs0 hr).imp (fun h => Or.inr h), hd, ?_⟩
        intro a ha b hb
        left
        obtain ⟨r, h1, _, h3⟩ := hg b hb
        rw [(hev0 a ha).1, h3]
        exact ne_of_lt (tstrict S interval hΔ idx r (by omega))

/-- everything the queue proof needs to know about the reader's event list -/
structure EvOK (S interval : Int) (n : Nat) (E : List (Ev α)) : Prop where
  sig : ∀ e ∈ E, S ≤ e.signal ∧ e.signal ≤ e.start
  sorted : E.Pairwise (fun a b => a.start ≤ b.start)
  grid : ∀ e ∈ E, ∃ r, r < n ∧ e.start = S + (r : Int) * interval
  distinct : E.Pairwise Distinct

def arrLt (S interval : Int) (n t : Nat) (e : Ev α) : Bool :=
  match stepIndex S interval n e with
  | some k => decide (k < t)
  | none => false

theorem comm_of_ok (S interval : Int) (n : Nat) (E : List (Ev α)) (hok : EvOK S interval n E)
    (x y : Ev α) (hx : x ∈ E) (hy : y ∈ E) (hst : x.start = y.start) (z : Seen α) :
    applyEv (applyEv z x) y = applyEv (applyEv z y) x := by
  by_cases hxy : x = y
  · rw [hxy]
  · have := pairwise_forall_ne (R := Distinct) (fun a b h => by
      rcases h with h | h
      · exact Or.inl (fun hh => h hh.symm)
      · exact Or.inr (fun hh => h hh.symm)) hok.distinct x hx y hy hxy
    rcases this with h | h
    · exact absurd hst h
    · exact applyEv_comm z x y h

theorem go_spec (S interval : Int) (hΔ : 0 < interval) (n : Nat) (E : List (Ev α))
    (hok : EvOK S interval n E) (init : Seen α) :
    ∀ (fuel t : Nat) (queue : List (Ev α)) (s : Seen α), t + fuel = n →
      queue.Perm (E.filter (fun e => arrLt S interval n t e && decide (S + (t : Int) * interval ≤ e.start))) →
      s = (E.filter (fun e => decide (e.start < S + (t : Int) * interval))).foldl applyEv init →
      runQueue.go S interval n E t fuel queue s =
        (List.range' t fuel).map (fun (u : Nat) =>
          (E.filter (fun e => decide (e.start ≤ S + (u : Int) * interval))).foldl applyEv init) := by
  intro fuel
  induction fuel with
  | zero => intro t queue s _ _ _; unfold runQueue.go; rfl
  | succ fuel ih =>
    intro t queue s htn hq hs
    have htlt : t < n := by omega
    -- facts about single events
    have hidx : ∀ e ∈ E, ∀ r, r < n → e.start = S + (r : Int) * interval →
        ∃ k, stepIndex S interval n e = some k ∧ k ≤ r := fun e he r hr hst =>
      stepIndex_le S interval hΔ n r hr e (hok.sig e he).1 (hst ▸ (hok.sig e he).2)
    have hTle : ∀ a b : Nat, S + (a : Int) * interval ≤ S + (b : Int) * interval ↔ a ≤ b := by
      intro a b
      constructor
      · intro h; by_contra hc
        have := tstrict S interval hΔ b a (by omega); omega
      · exact tmono S interval hΔ a b
    unfold runQueue.go
    simp only
    set cur := S + (t : Int) * interval with hcur
    set arriving := E.filter (fun e => stepIndex S interval n e == some t) with harr
    set q := (queue ++ arriving).mergeSort (fun a b => decide (a.start ≤ b.start)) with hqdef
    have hqs : q.Pairwise (fun a b => a.start ≤ b.start) := by
      have := List.pairwise_mergeSort (le := fun (a b : Ev α) => decide (a.start ≤ b.start))
        (fun a b c h1 h2 => by simp only [decide_eq_true_eq] at *; exact le_trans h1 h2)
        (fun a b => by simp only [Bool.or_eq_true, decide_eq_true_eq]; exact le_total _ _) (queue ++ arriving)
      exact this.imp (fun h => by simpa using h)
    have hqp : q.Perm (E.filter (fun e => (match stepIndex S interval n e with
        | some k => decide (k ≤ t) | none => false) && decide (cur ≤ e.start))) := by
      refine (List.mergeSort_perm _ _).trans ((List.Perm.append_right _ hq).trans ?_)
      apply filter_or_perm
      · intro e he
        obtain ⟨r, hr, hst⟩ := hok.grid e he
        obtain ⟨k, hk, hkr⟩ := hidx e he r hr hst
        simp only [arrLt, hk, hst]
        by_cases hkt : k = t
        · subst hkt
          have : cur ≤ S + (r : Int) * interval := (hTle k r).mpr hkr
          simp [this]
        · have : ¬ (some k == some t) = true := by simpa using hkt
          simp only [this, Bool.or_false]
          congr 1
          simp only [decide_eq_decide]; omega
      · intro e he hboth
        obtain ⟨h1, h2⟩ := hboth
        simp only [arrLt, Bool.and_eq_true, beq_iff_eq] at h1 h2
        rw [h2] at h1
        simp at h1
    obtain ⟨htw, hdw⟩ := takeWhile_sorted q cur hqs
    rw [htw, hdw]
    -- the events due at this step are the ones starting now
    have hdue : (q.filter (fun e => decide (e.start ≤ cur))).Perm (E.filter (fun e => decide (e.start = cur))) := by
      refine (List.Perm.filter _ hqp).trans ?_
      rw [List.filter_filter]
      apply List.Perm.of_eq
      apply List.filter_congr
      intro e he
      obtain ⟨r, hr, hst⟩ := hok.grid e he
      obtain ⟨k, hk, hkr⟩ := hidx e he r hr hst
      simp only [hk]
      by_cases heq : e.start = cur
      · have hrt : r = t := by
          have h1 := (hTle r t).mp (by rw [← hst, heq])
          have h2 := (hTle t r).mp (by rw [← hst, heq])
          omega
        have : k ≤ t := by omega
        simp [heq, this]
      · simp only [heq, decide_false]
        by_cases h1 : e.start ≤ cur
        · have : ¬ cur ≤ e.start := fun h2 => heq (le_antisymm h1 h2)
          simp [this]
        · simp [h1]
    have hrest : (q.filter (fun e => !decide (e.start ≤ cur))).Perm
        (E.filter (fun e => arrLt S interval n (t + 1) e &&
          decide (S + ((t + 1 : Nat) : Int) * interval ≤ e.start))) := by
      refine (List.Perm.filter _ hqp).trans ?_
      rw [List.filter_filter]
      apply List.Perm.of_eq
      apply List.filter_congr
      intro e he
      obtain ⟨r, hr, hst⟩ := hok.grid e he
      obtain ⟨k, hk, hkr⟩ := hidx e he r hr hst
      simp only [hk, arrLt, hst]
      have e1 : (S + (r : Int) * interval ≤ cur) ↔ r ≤ t := hTle r t
      have e2 : (cur ≤ S + (r : Int) * interval) ↔ t ≤ r := hTle t r
      have e3 : (S + ((t + 1 : Nat) : Int) * interval ≤ S + (r : Int) * interval) ↔ t + 1 ≤ r := hTle (t + 1) r
      simp only [e1, e2, e3]
      by_cases h1 : r ≤ t <;> by_cases h2 : t ≤ r <;> by_cases h3 : k ≤ t <;> by_cases h4 : k < t + 1 <;>
        by_cases h5 : t + 1 ≤ r <;> simp [h1, h2, h3, h4, h5] <;> omega
    -- new state
    have hs' : (q.filter (fun e => decide (e.start ≤ cur))).foldl applyEv s =
        (E.filter (fun e => decide (e.start ≤ cur))).foldl applyEv init := by
      rw [List.Perm.foldl_eq' hdue (fun x hx y hy z => by
        have hx' := (hdue.mem_iff.mp hx)
        have hy' := (hdue.mem_iff.mp hy)
        simp only [List.mem_filter, decide_eq_true_eq] at hx' hy'
        exact comm_of_ok S interval n E hok x y hx'.1 hy'.1 (hx'.2.trans hy'.2.symm) z) s]
      rw [hs, ← List.foldl_append, sorted_split E cur hok.sorted]
    rw [List.range'_succ, List.map_cons, hs']
    congr 1
    apply ih (t + 1) _ _ (by omega) hrest
    congr 1
    apply List.filter_congr
    intro e he
    obtain ⟨r, hr, hst⟩ := hok.grid e he
    rw [hst]
    have e1 : (S + (r : Int) * interval ≤ cur) ↔ r ≤ t := hTle r t
    have e3 : (S + (r : Int) * interval < S + ((t + 1 : Nat) : Int) * interval) ↔ r < t + 1 := by
      rw [← not_le, hTle]; omega
    simp only [e1, e3, decide_eq_decide]; omega

end SpiceEv.ScheduleGen

namespace SpiceEv.ScheduleGen
open SpiceEv
variable {α : Type} [LinearOrder α]

/-- **the operational event queue equals the declarative read-back** on event lists as the reader
produces them -/
theorem runQueue_eq (S interval : Int) (hΔ : 0 < interval) (n : Nat) (E : List (Ev α))
    (hok : EvOK S interval n E) (init : Seen α) :
    runQueue S interval n E init =
      (List.range n).map (fun (t : Nat) =>
        (E.filter (fun e => decide (e.start ≤ S + (t : Int) * interval))).foldl applyEv init) := by
  unfold runQueue
  rw [go_spec S interval hΔ n E hok init n 0 [] init (by omega), List.range_eq_range']
  · have : E.filter (fun e => arrLt S interval n 0 e && decide (S + ((0 : Nat) : Int) * interval ≤ e.start)) = [] := by
      rw [List.filter_eq_nil_iff]
      intro e _
      unfold arrLt
      split <;> simp
    rw [this]
  · have : E.filter (fun e => decide (e.start < S + ((0 : Nat) : Int) * interval)) = [] := by
      rw [List.filter_eq_nil_iff]
      intro e he
      obtain ⟨r, _, hst⟩ := hok.grid e he
      have := tmono S interval hΔ 0 r (Nat.zero_le _)
      simp only [decide_eq_true_eq, not_lt]
      rw [hst]; exact this
    rw [this]; rfl

end SpiceEv.ScheduleGen
