"""Scenario generator for C18 (reports are faithful): small, mostly valid scenario JSONs with every
component kind the report's column logic depends on.  Pure function of the `random.Random` passed in.
"""
import datetime

UC_KEYS = ["work", "business", "school", "shopping", "private/ridesharing", "leisure", "home", "hub"]

STRATS_QUICK = ["greedy", "balanced", "peak_load_window", "schedule"]
STRATS_ALL = ["greedy", "balanced", "peak_load_window", "schedule", "balanced_market", "distributed",
              "peak_shaving", "flex_window"]


def iso(dt):
    return dt.isoformat()


def gen_scenario(rnd, strategy, want_abort_trip=False, force=None):
    """returns (scenario_json, extra) ; extra = {"time_windows": {...}} for peak_load_window"""
    force = force or {}
    tz = datetime.timezone(datetime.timedelta(hours=rnd.choice([1, 2, 2, 0])))
    interval = force.get("interval", rnd.choice([15, 15, 30, 60, 60, 10, 45]))
    n = force.get("n", rnd.randint(6, 40))
    # start: mostly on the hour, sometimes just before a report-window boundary or with seconds
    day = rnd.randint(1, 7)
    hour = rnd.choice([0, 3, 4, 9, 10, 15, 16, 21, 22, rnd.randint(0, 23)])
    minute = rnd.choice([0, 0, 0, 59, 30, 45, 1])
    second = rnd.choice([0, 0, 0, 0, 30])
    start = datetime.datetime(2020, 1, day, hour, minute, second, tzinfo=tz)
    dt = datetime.timedelta(minutes=interval)
    stop = start + dt * n
    n_gc = force.get("n_gc", rnd.choice([1, 1, 2]))
    if strategy == "schedule" and force.get("load_strat", None) == "collective":
        n_gc = 1
    if strategy == "flex_window":
        n_gc = 1                        # the strategy asserts a single connector
    gcs = ["GC1", "G:C2"][:n_gc]        # second id has a character util.sanitize removes
    comp = {"grid_connectors": {}, "charging_stations": {}, "vehicle_types": {}, "vehicles": {},
            "batteries": {}, "photovoltaics": {}}
    ev = {"grid_operator_signals": [], "fixed_load": {}, "local_generation": {}, "vehicle_events": []}
    needs_target = strategy == "schedule"
    for g in gcs:
        gc = {"max_power": rnd.choice([40, 100, 200]), "voltage_level": rnd.choice(["MV", "MV", "LV", "HV"])}
        price_kind = rnd.choice(["fixed", "fixed", "zero", "none", "poly"])
        if price_kind == "none" and strategy != "schedule":
            price_kind = "fixed"        # only schedule accepts a connector without costs
        if price_kind == "fixed":
            gc["cost"] = {"type": "fixed", "value": rnd.choice([0.3, 0.15384, 1, 0.07161])}
        elif price_kind == "zero":
            gc["cost"] = {"type": "fixed", "value": 0}
        elif price_kind == "poly":
            gc["cost"] = {"type": "polynomial", "value": [0, rnd.choice([0.1, 0.25]), 0.0]}
        if needs_target or price_kind == "none" or rnd.random() < 0.15:
            if rnd.random() < 0.8 or price_kind == "none":
                gc["target"] = rnd.choice([0, 5, 12.5, 30, -4])
        if rnd.random() < 0.2 or strategy == "flex_window":
            gc["window"] = rnd.choice([True, False])
        comp["grid_connectors"][g] = gc
        # signals during the run
        for _ in range(rnd.choice([0, 0, 1, 2, 3])):
            k = rnd.randint(0, n - 1)
            t = start + dt * k + datetime.timedelta(minutes=rnd.choice([0, 0, -1, 1]))
            sig = {"signal_time": iso(min(t, start + dt * rnd.randint(0, k))), "start_time": iso(t),
                   "grid_connector_id": g}
            what = rnd.choice(["cost", "cost", "window", "window", "target", "max_power", "cost0"])
            if what == "cost":
                sig["cost"] = {"type": "fixed", "value": rnd.choice([0.05, 0.2, 0.4444, 2])}
            elif what == "cost0":
                sig["cost"] = {"type": "fixed", "value": 0}
            elif what == "window":
                sig["window"] = rnd.choice([True, False])
            elif what == "target":
                sig["target"] = rnd.choice([0, 3.3333, 20, 50, -2.5])
            else:
                sig["max_power"] = rnd.choice([10, 25, 500])
            ev["grid_operator_signals"].append(sig)
        if rnd.random() < 0.45:
            vals = [rnd.choice([0, 0, 1.5, 3.25, 7.0004, 7.0005, 11, 0.0625]) for _ in range(rnd.randint(1, n))]
            ev["fixed_load"]["building" if g == "GC1" else "shop"] = {
                "start_time": iso(start), "step_duration_s": interval * 60 * rnd.choice([1, 1, 2]),
                "grid_connector_id": g, "values": vals, "factor": rnd.choice([1, 1, 0.5])}
        if rnd.random() < 0.45:
            vals = [rnd.choice([0, 0, 2, 4.75, 9.1235, 15, 60]) for _ in range(rnd.randint(1, n))]
            name = "pv" if g == "GC1" else "wind"
            ev["local_generation"][name] = {
                "start_time": iso(start), "step_duration_s": interval * 60 * rnd.choice([1, 1, 2]),
                "grid_connector_id": g, "values": vals}
            comp["photovoltaics"]["PV_" + name] = {"parent": g, "nominal_power": rnd.choice([5, 10, 30])}
        if rnd.random() < 0.4:
            p = rnd.choice([5, 10, 50])
            comp["batteries"]["BAT" + ("1" if g == "GC1" else "2")] = {
                "parent": g, "capacity": rnd.choice([10, 25, 100]),
                "charging_curve": [[0, p], [1, p]], "soc": rnd.choice([0, 0.5, 1, 0.25])}
            if rnd.random() < 0.2:
                comp["batteries"]["BAT" + ("1b" if g == "GC1" else "2b")] = {
                    "parent": g, "capacity": 20, "charging_curve": [[0, 5], [1, 5]], "soc": 0.5}
    # vehicle types
    v2g_any = rnd.random() < 0.35
    for tn in ["car", "van"][:rnd.choice([1, 2])]:
        p = rnd.choice([11, 22, 50])
        curve = rnd.choice([[[0, p], [1, p]], [[0, p], [0.8, p], [1, p / 5]]])
        comp["vehicle_types"][tn] = {"name": tn, "capacity": rnd.choice([30, 50, 76]),
                                     "charging_curve": curve, "min_charging_power": rnd.choice([0, 0.2]),
                                     "v2g": bool(v2g_any and rnd.random() < 0.7)}
        if rnd.random() < 0.3:
            comp["vehicle_types"][tn]["battery_efficiency"] = rnd.choice([0.9, 1.0])
    n_veh = force.get("n_veh", rnd.choice([0, 1, 1, 2, 2, 3]))
    cs_names = []
    for i in range(n_veh):
        vid = "%s_%d" % (rnd.choice(list(comp["vehicle_types"])), i)
        vt = vid.rsplit("_", 1)[0]
        g = rnd.choice(gcs)
        style = rnd.choice(["plain", "plain", "uc", "uc2"])
        if style == "plain":
            cs = "CS_" + vid
        elif style == "uc":
            cs = "%s_%d" % (rnd.choice(UC_KEYS), i)
        else:
            cs = "%s_%s_%d" % (rnd.choice(["home", "work"]), rnd.choice(["hub", "leisure"]), i)
        cs_names.append(cs)
        comp["charging_stations"][cs] = {"max_power": rnd.choice([11, 22, 50]), "min_power": rnd.choice([0, 0, 1]),
                                         "parent": g}
        soc0 = rnd.choice([0.0, 0.0, 0.2, 0.5, 0.8, 1.0])
        connected = rnd.random() < 0.75
        veh = {"vehicle_type": vt, "soc": soc0, "desired_soc": rnd.choice([0.8, 1.0, 0.5, 0.0])}
        t = start
        if connected:
            veh["connected_charging_station"] = cs
            dep = start + dt * rnd.randint(1, max(1, n)) + datetime.timedelta(minutes=rnd.choice([0, 0, 7]))
            veh["estimated_time_of_departure"] = iso(dep)
            t = dep
        else:
            arr = start + dt * rnd.randint(0, max(1, n // 2))
            veh["estimated_time_of_arrival"] = iso(arr)
            t = arr
        if strategy == "schedule":
            veh["schedule"] = rnd.choice([0, 3, 11])
        comp["vehicles"][vid] = veh
        # trips
        here = connected
        for _ in range(rnd.choice([0, 1, 2, 3, 4])):
            if t >= stop + dt * 3:
                break
            if here:
                back = t + dt * rnd.randint(1, 6) + datetime.timedelta(minutes=rnd.choice([0, 0, 5]))
                ev["vehicle_events"].append({
                    "signal_time": iso(t), "start_time": iso(t), "vehicle_id": vid, "event_type": "departure",
                    "update": {"estimated_time_of_arrival": iso(back)}})
                t = back
                here = False
            else:
                dep = t + dt * rnd.randint(1, 10)
                delta = rnd.choice([-0.05, -0.1, -0.2, -0.3, 0.0])
                if want_abort_trip and rnd.random() < 0.7:
                    delta = -1.5
                ev["vehicle_events"].append({
                    "signal_time": iso(t), "start_time": iso(t), "vehicle_id": vid, "event_type": "arrival",
                    "update": {"connected_charging_station": cs,      # one vehicle per station
                               "estimated_time_of_departure": iso(dep),
                               "desired_soc": rnd.choice([0.8, 1.0, 0.3]), "soc_delta": delta}})
                t = dep
                here = True
    if want_abort_trip and n_veh and not any(e["event_type"] == "arrival" and e["update"]["soc_delta"] < -1
                                              for e in ev["vehicle_events"]):
        vid = list(comp["vehicles"])[0]
        evs = [e for e in ev["vehicle_events"] if e["vehicle_id"] == vid]
        k = rnd.randint(1, max(1, n - 1))
        # replace this vehicle's events by one infeasible trip
        ev["vehicle_events"] = [e for e in ev["vehicle_events"] if e["vehicle_id"] != vid]
        veh = comp["vehicles"][vid]
        veh.pop("estimated_time_of_arrival", None)
        veh["connected_charging_station"] = cs_names[0]
        veh["estimated_time_of_departure"] = iso(start + dt * max(0, k - 1))
        ev["vehicle_events"] += [
            {"signal_time": iso(start), "start_time": iso(start + dt * max(0, k - 1)), "vehicle_id": vid,
             "event_type": "departure", "update": {"estimated_time_of_arrival": iso(start + dt * k)}},
            {"signal_time": iso(start), "start_time": iso(start + dt * k), "vehicle_id": vid,
             "event_type": "arrival", "update": {
                 "connected_charging_station": cs_names[0], "estimated_time_of_departure": iso(stop + dt),
                 "desired_soc": 0.8, "soc_delta": -1.5}}]
    # an unused charging station (column of zeros) now and then
    if rnd.random() < 0.25:
        comp["charging_stations"]["CS_spare"] = {"max_power": 11, "parent": rnd.choice(gcs)}
    scen = {"start_time": iso(start), "interval": interval}
    if rnd.random() < 0.5:
        scen["n_intervals"] = n
    else:
        scen["stop_time"] = iso(stop)
    extra = {}
    opts = {}
    if strategy == "schedule":
        ls = force.get("load_strat") or ("individual" if n_gc > 1 else rnd.choice(["individual", "collective"]))
        opts["LOAD_STRAT"] = ls
        if ls == "collective":
            scen["core_standing_time"] = {"times": [{"start": [22, 0], "end": [5, 0]}],
                                          "no_drive_days": [rnd.choice([5, 6])]}
    if strategy == "peak_load_window":
        y = "2020"
        lv = {"HV": [["11:15", "12:00"]], "MV": [["08:15", "09:30"], ["16:30", "20:00"]],
              "LV": [["00:30", "03:00"], ["17:45", "19:00"]]}
        extra["time_windows"] = {"default_grid_operator": {
            "winter": {"start": y + "-01-01", "end": y + "-02-28", "windows": lv},
            "rest": {"start": y + "-03-01", "end": y + "-12-31", "windows": {}}}}
    if rnd.random() < 0.3:
        opts["margin"] = rnd.choice([0.05, 0.5, 1])
    if rnd.random() < 0.25:
        opts["ALLOW_NEGATIVE_SOC"] = True
        if rnd.random() < 0.6:
            opts["RESET_NEGATIVE_SOC"] = True
    j = {"scenario": scen, "components": {k: v for k, v in comp.items() if v or k == "grid_connectors"},
         "events": {k: v for k, v in ev.items() if v}}
    return j, extra, opts
