/-
C17 — "every strategy step finishes in bounded time", for the model of the charging strategy `distributed`
(Model/StratDistributed.lean, `Distrib.step`).  `Distributed.step` has no data-dependent loop of its own (look-ahead,
ranking, per-connector treatment, surplus pass: `for` loops over finite collections; the `while free_spots > 0 and
arr_gc` of the ranking consumes a list).  It delegates every connector to a sub-strategy object: greedy / balanced
(no loop: Properties/C17_RuleTotal.lean), peak_shaving or peak_load_window (fuel-guarded loops of their own).
Lemmas: Proofs/StratDistributedTotal.lean.  `DNoFuel dops` = the battery's own loops terminate (C01), including the
construction of the virtual vehicle's battery.  The statements need no order or field laws of the number type.
-/
import SpiceEv.Proofs.StratDistributedTotal
set_option linter.unusedSectionVars false
set_option linter.unusedVariables false
namespace SpiceEv
open SpiceEv.Distrib SpiceEv.DistribTotal SpiceEv.RuleTotal
variable {α B : Type} [Add α] [Sub α] [Mul α] [Div α] [Neg α] [LT α] [LE α]
  [DecidableLT α] [DecidableLE α] [OfNat α 0] [OfNat α 1] [NatCast α] [IntCast α]

/-- **The whole step of `distributed` is total, given that the delegated sub-strategy steps are** — PARTIAL:
`Distributed.step` returns a result or a Python exception value, never the model's `FUEL` marker, when
* the battery operations never answer `FUEL` (`DNoFuel`: `load` / `unload` / `get_available_power` and the battery
  built for the virtual vehicle of a vacant opportunity station), and
* ASSUMED, not proved here (`SubTotal` for `strat_deps`, `SubTotalNoBat` for `strat_opps`): if the sub-strategy object
  is a `PeakShaving`, its `PeakShaving.step` — in the environment `psStep` builds (`psEnvOf`: the object's `EPS`,
  `ts_per_hour`, `interval`, `HORIZON`, `perfect_foresight`, bisection fuel; `current_time` of this step), on every
  event list and every virtual world with exactly one connector — does not answer `FUEL`; if it is a
  `PeakLoadWindow`, its `PeakLoadWindow.step` — in the environment `plwStep` builds (`plwEnvOf`), on every virtual
  world with exactly one connector — does not answer `FUEL`.  For the opportunity stations' object only worlds WITHOUT
  stationary batteries are quantified over (proved: its virtual world never holds one).
  These are the conclusions of the step-totality theorems of the two sub-strategies, required here for all
  single-connector worlds instead of being derived from bounds on the initial world: the missing part is the
  invariant that the virtual worlds `Distributed` builds (real stations and vehicles of the connector, virtual
  stations / vehicles for vacant opportunity stations, the raised `cur_max_power` of a supported connector) keep
  satisfying the bracket bounds of those theorems through the connector loop.
Nothing is assumed for a greedy / balanced object (`C17_distributed_rule_step_total`). -/
theorem C17_distributed_step_total_partial (dops : DOps α B) (hnf : DNoFuel dops) (de : DEnv α)
    (hdeps : SubTotal dops de de.deps) (hopps : SubTotalNoBat dops de de.opps) (s : DState α B) :
    Distrib.step dops de s ≠ .error .fuel :=
  step_ne_fuel dops hnf de hdeps hopps s

/-- … and when no depot connector has a stationary battery (`NoDepotBattery s.init`: `self.gc_battery` is empty for
every connector with "deps" stations — proved to stay so through the connector loop) the depots' object, too, is only
ever run on worlds without stationary batteries — PARTIAL in the same way: ASSUMED is `SubTotalNoBat` for both
sub-strategy objects (their `step` does not answer `FUEL` on any single-connector world WITHOUT stationary batteries;
for `PeakShaving` this is the case in which no bisection runs). -/
theorem C17_distributed_no_depot_battery_step_total_partial (dops : DOps α B) (hnf : DNoFuel dops) (de : DEnv α)
    (hdeps : SubTotalNoBat dops de de.deps) (hopps : SubTotalNoBat dops de de.opps) (s : DState α B)
    (hnb : NoDepotBattery s.init) :
    Distrib.step dops de s ≠ .error .fuel :=
  step_ne_fuel_P dops hnf de _ hdeps hopps s (depotBats_of_noDepotBattery s.init hnb)

/-- **The whole step of `distributed` with greedy / balanced sub-strategies is total** (unconditional): when both
sub-strategy objects are `Greedy` / `Balanced` (`isRule`: neither a `PeakShaving` nor a `PeakLoadWindow`),
`Distributed.step` never answers `FUEL` as soon as the battery operations do not — the class has no data-dependent
loop. -/
theorem C17_distributed_rule_step_total (dops : DOps α B) (hnf : DNoFuel dops) (de : DEnv α)
    (hd : de.deps.isRule) (ho : de.opps.isRule) (s : DState α B) :
    Distrib.step dops de s ≠ .error .fuel :=
  step_ne_fuel dops hnf de (subTotal_of_isRule dops de _ _ hd) (subTotal_of_isRule dops de _ _ ho) s

/-! ### non-vacuity -/

/-- the toy battery operations never answer `FUEL`; the toy environment is rule-only (greedy at the opportunity
stations, balanced at the depots) -/
example : DNoFuel (toyDOps 5) ∧ Distrib.toyEnv.deps.isRule ∧ Distrib.toyEnv.opps.isRule :=
  ⟨toyDNoFuel 5, ⟨rfl, rfl⟩, ⟨rfl, rfl⟩⟩

/-- the step of the toy state (an occupied opportunity station supported by a stationary battery, a depot) returns a
result -/
example : (match Distrib.step (toyDOps 5) Distrib.toyEnv toyState with | .ok _ => true | .error _ => false) = true := by
  decide +kernel

/-- `DNoFuel` is needed: with a battery whose `load` answers `FUEL` the step passes the marker on -/
example : (match Distrib.step fuelDOps Distrib.toyEnv toyState with | .error .fuel => true | _ => false) = true := by
  decide +kernel

/-- `SubTotal` is needed and satisfiable on the example: a `PeakShaving` object at a depot with a stationary battery
answers `FUEL` when its bisections get no pass, and a result when they get 60 -/
example :
    (match Distrib.step (toyDOps 5) (toyEnvPS 0) toyStateBat with | .error .fuel => true | _ => false) = true ∧
    (match Distrib.step (toyDOps 5) (toyEnvPS 60) toyStateBat with | .ok _ => true | .error _ => false) = true := by
  constructor <;> decide +kernel

/-- a `PeakShaving` object at the opportunity stations never gets a stationary battery: even without any bisection
pass (fuel 0) the step of the toy state (battery-supported opportunity station) returns a result -/
example : (match Distrib.step (toyDOps 5) (toyEnvPSOpps 0) toyState with | .ok _ => true | .error _ => false) = true := by
  decide +kernel

/-- for a greedy / balanced object `SubTotal` / `SubTotalNoBat` hold outright; the toy state has no depot battery -/
example : SubTotal (toyDOps 5) Distrib.toyEnv Distrib.toyEnv.deps ∧
    SubTotalNoBat (toyDOps 5) Distrib.toyEnv Distrib.toyEnv.opps ∧ NoDepotBattery toyState.init := by
  refine ⟨subTotal_of_isRule _ _ _ _ ⟨rfl, rfl⟩, subTotal_of_isRule _ _ _ _ ⟨rfl, rfl⟩, ?_⟩
  intro gcId h
  simp only [toyState, sdGet] at h ⊢
  split at h
  · cases h
  · split
    · rename_i h1 h2; exact absurd h2 h1
    · rfl

end SpiceEv
