/-
C17 — termination, for the loops of the `balanced_market` model (Model/StratBalancedMarket.lean):
the fuel given to the three data-dependent loops suffices wherever the Python loop terminates.
-/
import SpiceEv.Proofs.StratBalancedMarketFuel
import SpiceEv.Proofs.StratBalancedMarketToy
set_option linter.unusedSectionVars false
namespace SpiceEv
open SpiceEv.BalancedMarket
variable {α B : Type} [Field α] [LinearOrder α] [IsStrictOrderedRing α]

/-- **The planning loop ends** within `len(sorted_ts) + 1` passes: `sorted_idx` grows in every pass.
Exhausted fuel can therefore only be reported by the inner power bisection (next theorem). -/
theorem C17_balanced_market_plan_loop_ends (ops : Ops α B) (hnf : NoFuel ops) (env : Env α)
    (v : VehicleS α B) (ts : List (TS α)) (sorted : List (α × Nat))
    (hb : ∀ (cs : StationS α) (same : List Nat) (oldSoc desired : α) (power : List α) (sim : B),
      bisect ops env.eps cs v.minChargingPower ts same oldSoc desired bisectFuel 0 (cs.maxPower - pymin cs.currentPower 0) false
        power sim ≠ .error .fuel)
    (st : VSt α B) (h0 : st.sortedIdx = 0) :
    chargeLoop ops env v ts sorted (sorted.length + 1) st ≠ .error .fuel :=
  chargeLoop_fuel ops hnf env v ts sorted hb (sorted.length + 1) st (by omega) (by omega)

/-- **The power bisection of the planning loop ends when its upper end is safe** (repair H2): `n + 2`
passes suffice as soon as `max_power − min_power ≤ EPS · 2ⁿ`, provided the evaluation at the upper end
reaches the target.  Without that premise the Python loop evaluates `max_power` for ever. -/
theorem C17_balanced_market_power_bisection_ends (ops : Ops α B) (hnf : NoFuel ops) (R : B → B → Prop)
    (sl : SimLaw ops R) (eps : α) (cs : StationS α) (vmin : α) (ts : List (TS α)) (same : List Nat)
    (bOld : B) (desired : α) (heps : 0 < eps) (n : Nat) (minP maxP : α) (safe : Bool) (power : List α)
    (sim : B) (hR : R bOld sim)
    (hsafe : ∀ pw pw' sm, bisectPass ops cs vmin ts same maxP pw bOld = .ok (pw', sm) → desired ≤ ops.soc sm)
    (hw : maxP - minP ≤ eps * 2 ^ n) :
    bisect ops eps cs vmin ts same (ops.soc bOld) desired (n + 2) minP maxP safe power sim ≠ .error .fuel :=
  bisect_fuel ops hnf R sl eps cs vmin ts same bOld desired heps n minP maxP safe power sim hR hsafe hw

/-- **The battery bisection ends**: the bracket halves in every pass; `n + 1` passes suffice as soon as
`cur_max_power ≤ EPS · 2ⁿ`. -/
theorem C17_balanced_market_battery_bisection_ends (ops : Ops α B) (hnf : NoFuel ops) (eps minCh : α)
    (cheap : List (TS α)) (oldSoc : α) (heps : 0 < eps) (n : Nat) (minP maxP : α) (bat : B) (bp : α)
    (hw : maxP - minP ≤ eps * 2 ^ n) :
    batBisect ops eps minCh cheap oldSoc (n + 1) minP maxP bat bp ≠ .error .fuel :=
  batBisect_fuel ops hnf eps minCh cheap oldSoc heps n minP maxP bat bp hw

/-- Non-vacuity: the toy battery never reports fuel; a bracket of 11 kW needs 21 halvings at EPS = 1e-5. -/
example : NoFuel toyOps := ⟨fun _ _ _ _ => by simp [toyOps, toyLoad], fun _ _ _ _ => by simp [toyOps, toyUnload]⟩
example : (11 : ℚ) - 0 ≤ 1/100000 * 2 ^ 21 := by norm_num
/-- … and the planning loop of the flat-price world ends with a result, not with `FUEL`. -/
example :
    let ts : List (TS ℚ) := [⟨16, 20, some (.fixed (3/10))⟩, ⟨20, 20, some (.fixed (3/10))⟩]
    let st : VSt ℚ ℚ := ⟨toyGc, toyCs, 1/2, 1/2, [0, 0], 0, [], []⟩
    (chargeLoop toyOps (toyEnv none) (toyVeh false (1/2)) ts [(3/10, 0), (3/10, 1)] 3 st).toOption.isSome = true := by
  decide +kernel

end SpiceEv
