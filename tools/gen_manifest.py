#!/usr/bin/env python3
"""Regenerates MANIFEST.json from the table below (keeps it valid at all times)."""
import json
import os

HERE = os.path.dirname(os.path.dirname(os.path.abspath(__file__)))

LEVEL_NOTE = ("Trusted: Lean 4.33 kernel; axioms propext/Classical.choice/Quot.sound only (audited per run); "
              "the hand-written Lean model is tied to /repo only by the correspondence run (harness, "
              "generators, diff); theorems are over ordered fields / reals, IEEE rounding is outside them.")

# property id -> (claim text, technique, design ref)
CLAIMED = {
    "C01": ("All sentences are Lean theorems over the reals about the executable battery model (load/unload/"
            "get_available_power/_adjust_soc transliterated branch by branch, arbitrary EPS > 0): every request returns "
            "without exception (incl. zero power at the current SoC), SoC bounds in both directions, 0 <= avg <= limit "
            "(+ the code's own EPS slack), avg*T = dSoC*c/eta resp. *eta, reported delta = actual change, "
            "get_available_power leaves the state unchanged. The same definitions run on IEEE doubles in the driver and "
            "are bit-identical with the real Battery (built through components.Vehicle/StationaryBattery) on 43 k calls per "
            "quick run; a tolerance-aware oracle states the clauses on the implementation's outputs. Float rounding is "
            "outside the theorems (findings B13/B14 document where it bites).",
            "Lean 4 proof over the reals (induction over curve sections, exp inequalities) + bit-level Float differential correspondence",
            "DESIGN.md §4 C01"),
    "C02": ("Per-section closed form satisfies the ODE (HasDerivAt), reaches the section boundary at the computed time, "
            "more time never transfers less (whole calls), target power: avg <= P and >= P - EPS*c/(eta*T) when the target "
            "is reached. Semigroup, eps-closeness and limit-monotonicity are proved per section only (named ..._partial: "
            "whole-call versions hold only up to O(EPS)). Decided on the implementation by the bit-level Float "
            "correspondence of C01 plus an independent fine-step integrator, split-vs-single calls, time/limit "
            "monotonicity pairs and target-power delivery on real Battery objects.",
            "Lean 4 proof (HasDerivAt, exp/log identities; partial where stated) + Float correspondence + independent ODE integrator oracle",
            "DESIGN.md §4 C02"),
    "C12": ("The model of costs.py (find_prices, commodity, capacity, feed-in, flexible load, calculate_costs for all seven "
            "schemes, per-year scaling, VAT, round-half-even to cents) refines an independent reference composition "
            "(C12_refines); tariff class and utilisation bracket, energy-linear parts, which peak each scheme charges, "
            "VAT/feed-in, annual scaling, invariance under repeating the profile and under halving every timestep, and "
            "date-freeness are Lean theorems over ordered fields. The real calculate_costs runs on exact rationals (price "
            "sheet parsed exactly, duck-typed interval) and must equal the model field by field for all schemes x voltage "
            "levels x fee types x PV brackets incl. exactly constructed boundary inputs; float, CSV and simulate.py streams "
            "are compared with tolerance; metamorphic oracles re-run the real code on repeated/halved/re-dated profiles.",
            "Lean 4 proof (refinement to reference spec, invariance theorems) + exact (Fraction vs Rat) differential correspondence",
            "DESIGN.md §4 C12"),
    "C13": ("Array invariants of distribute_energy_balanced (schedule+avail.max and schedule-avail.min invariant, avail >= "
            "0, applied power within the individual flex bounds, hence |schedule| <= limit), the final in-band assertion, "
            "the charge flag, the written value, and the run-length round trip of the schedule CSV through "
            "get_schedule_from_csv and the event queue (target, window and every vehicle schedule in force at step t = row "
            "t, signal <= start) are Lean theorems for all sizes. The flex band itself (generate_flex_band / "
            "generate_individual_flex_band: a Strategy.step loop with per-vehicle bookkeeping) is modelled too: its content "
            "is base -/+ the battery figure and the sums over the vehicles present in that step, a departed vehicle "
            "contributes nothing, every value lies within the rating, the individual band follows limit events "
            "(C13_flexband_*; the energy-need theorem is _partial, finding FB1). Real generate_schedule runs on generated scenarios and "
            "grid files (both sign conventions, collective and individual) are compared bit-for-bit per distribute call and "
            "read back through the real Scenario/Events machinery.",
            "Lean 4 proof (array invariants, flex-band content, run-length round trip) + Float bit-level correspondence on captured calls and on both flex-band functions + read-back oracle",
            "DESIGN.md §4 C13"),
    "C18": ("Feed-in split (three parts >= 0, priority generation -> V2G -> battery, sum = total feed-in; rounded parts "
            "within half a unit in the last place), one row per reported step with every column the rounding of the named "
            "series (grid supply = -connector power, station columns and their sum, fixed load, generation, battery power "
            "and energy, occupied stations), header/row alignment for every component-presence combination, the SoC series "
            "and the window-column round trip are Lean theorems about the model of report.py; of the aggregates the energy "
            "sums, window energies, averages, peaks and battery cycles are proved (C18_aggregates: standing-time "
            "aggregates and flex averages only by correspondence). Real generate_reports output for all 128 output-option "
            "combinations, completed and aborted runs, is parsed back and compared cell by cell with the model (exact "
            "rounding on the floats' binary values); post-hoc cost calculation from the written files is compared with the "
            "in-run result. Findings: price column name mismatch (D12), vehicle cycles (N3).",
            "Lean 4 proof (split, row/header construction, aggregates partial) + exact cell-level correspondence on written files",
            "DESIGN.md §4 C18"),
    "C19": ("Statistics and trip-table generators are modelled as functions of the recorded random draws / rows; "
            "alternation of departure/arrival in strictly increasing time, consistency of announced times, consumption "
            "range, desired SoC >= min_soc and >= buffered consumption until the next connection, purity and the while-loop "
            "fuel are Lean theorems over ordered fields; SimBEV is modelled coarser (one theorem partial). The harness "
            "records the draws inside the real generators, feeds them to the model and compares the whole scenario; "
            "reproducibility is a paired real run; 'greedy never negative' is exploration on real generator + real run "
            "(finding G2).",
            "Lean 4 proof (induction over draws/rows) + exact differential correspondence on recorded draws + real-run exploration",
            "DESIGN.md §4 C19"),
    "C03": ("All sentences are Lean theorems about the executable curve model over any linearly ordered field "
            "(lookup = lerp, clamped = post*min(pre*curve,L) with well-formedness and no exception, max_power, "
            "order-independence of the constructor, default discharge curve); the model is run on Rat against the "
            "real LoadingCurve/VehicleType on exact rationals over an exhaustive grid plus random curves, with an "
            "independent exact oracle on the implementation's outputs.",
            "Lean 4 proof over ordered fields + exact (Fraction vs Rat) differential correspondence, exhaustive grid",
            "DESIGN.md §4 C03"),
    "C04": ("Lean theorems: (1) run-loop monitor with the strategy's effect as an arbitrary input - a step over the limit is "
            "never reported as valid, the run stops there and is flagged - for all eight strategies; (2) on the "
            "statement-by-statement models of all eight strategy classes, the whole step keeps every connector within its "
            "currently valid limit: greedy/balanced (both sides, with battery support), distributed (limits restored), "
            "schedule, flex_window (balanced unconditional; greedy; needy in exact arithmetic), peak_shaving, "
            "peak_load_window, balanced_market; theorems named _partial state exactly what they exclude (two vehicles at one "
            "station for balanced_market, exact-delivery battery contracts, float rounding of needy shares, "
            "sub-strategies other than greedy/balanced under distributed). The loop model and every strategy model are compared bit-for-bit with the "
            "real code on every step of generated real runs inside this check. Limit = min(rating, latest signal) and "
            "the run-level sentence are additionally decided by an independent oracle on the real outputs; one narrow "
            "finding is left (peak_load_window at negative SoC). 21 genuine strategy defects were repaired in /repo.",
            "Lean 4 proof (run-loop monitor + whole-step limit theorems on 8 strategy models) + bit-level Float correspondence of loop and strategy steps on real runs + oracle on real runs",
            "DESIGN.md I.4, §4 C04"),
    "C05": ("Lean theorems: station monitor for every strategy; clamp_power laws (non-negative, <= offered, keeps the "
            "station within its maximum, minimum-power cut-off, monotone); on the strategy models the whole step keeps "
            "every station within its (concurrency-scaled) maximum in both directions, only stations with a connected "
            "vehicle carry power and nothing is discharged without V2G (greedy/balanced, flex_window all sub-strategies, "
            "peak_shaving, peak_load_window, balanced_market, schedule individual and collective, distributed upper "
            "bound). clamp_power "
            "is compared exactly (exhaustive rational grid), loop and strategy steps bit-for-bit on real runs. The "
            "vehicle-curve sentence is decided by the oracle from the battery-operation trace: six strategies load a "
            "battery several times per step (known findings keyed by that mechanism; proved impossible for "
            "peak_load_window and schedule-individual).",
            "Lean 4 proof (monitor, clamp laws, whole-step station theorems on the strategy models) + exact/bit-level correspondence + operation-trace oracle on real runs",
            "DESIGN.md I.4, §4 C05"),
    "C06": ("Reported connector power = curtailed sum of its loads (every strategy) and the self-discharge step (formula, "
            "only lowers, never below zero) are Lean theorems; on six strategy models the step changes the world only through "
            "booked battery calls - look-ahead simulations leave no trace, connector load / station entry / command move "
            "by the signed average power of the real call (schedule incl. the energy identity per vehicle, peak_shaving, "
            "peak_load_window, balanced_market, flex_window, distributed). apply_battery_losses is compared exactly on a rational grid, loop and strategy steps "
            "bit-for-bit on real runs. For the other strategies the per-step energy bookkeeping of vehicles and batteries "
            "is decided by an oracle that reconstructs the chain of battery operations of the step from the run-time "
            "trace (every operation: dSoC = P*dt*eta/c resp. /eta; booked station power = signed sum; commands name every "
            "station that carries power); the battery-level identity it rests on is C01.",
            "Lean 4 proof (sum identity, losses, booking theorems on six strategy models) + exact/bit-level correspondence + operation-chain oracle on real runs",
            "DESIGN.md I.4, §4 C06"),
    "C07": ("Bucket index = max 0 ceil((signal-start)/dt) with 'kept iff < n', the step at which each event takes "
            "effect (first step at/after its start and not before it was signalled; exactly once), the value in force = "
            "last applied event in (start, arrival) order, series tail = 0, chronological application of past events at "
            "step 0, only events with bucket >= n are ignored, and cur_max = min(rating, latest limit) (falsy rating stated "
            "separately) are Lean theorems by induction over steps with a queue invariant, for the model of events.py and "
            "Strategy.step. The model runs exactly (Int microseconds, rational values) against the real Events / "
            "get_event_steps / Strategy.step, world state compared after every step, bounded-exhaustive on a 1/3-step time "
            "lattice plus random histories and the CSV readers on generated files.",
            "Lean 4 proof (induction over steps, queue invariant) + exact differential correspondence, bounded-exhaustive",
            "DESIGN.md §4 C07"),
    "C08": ("Arrival (SoC + soc_delta once, station/ETD/desired as announced, negative-SoC tracker and ALLOW/RESET "
            "policy, RuntimeError otherwise), departure (disconnect, ETD cleared, counters with EPS and margin), counters = "
            "number of such departures over arbitrary histories, event processing never changes the SoC of another "
            "vehicle (past-departure rule stated as the one exception), and an error in event processing is latched: Lean "
            "theorems by induction over arbitrary event sequences. Exact correspondence with the real Strategy.step and "
            "Scenario.run on bounded-exhaustive vehicle-event sequences x option combinations x margins.",
            "Lean 4 proof (induction over event histories) + exact differential correspondence, bounded-exhaustive",
            "DESIGN.md §4 C08"),
    "C09": ("Lean theorems on the strategy models: balanced's plan is a constant power that reaches the desired SoC exactly "
            "at the announced departure (remaining steps = ceiling of the remaining time); greedy offers min(needed, "
            "available) clamped; balanced_market plans every step before departure, uses a planned present step "
            "(regression of repaired defect BM1) and plans in time order when prices never fall; peak_load_window's even "
            "plan reaches the desired SoC on a constant curve; flex_window offers the whole headroom in a window that does "
            "not suffice. The run-level guarantee for all six listed strategies is decided on real runs (standing time f x "
            "full-power time, varying headroom, shared binding connector, V2G vehicle above its desired SoC; SoC read at "
            "the departure step), with the step models tied bit-for-bit on the same runs. Known findings with their "
            "mechanism: F2 (varying curves: constant-power plans / price-order simulation), P2 (even plan, no front-loading).",
            "Lean 4 proof (plan theorems on five strategy models) + bit-level step correspondence + oracle on real runs of six strategies",
            "DESIGN.md I.4, §4 C09"),
    "C10": ("The greedy/balanced step (allocation pass in id order, surplus/V2G pass, stationary-battery pass, "
            "clamp_power, add_load bookkeeping) is transliterated into Lean on top of the battery model and is bit-identical "
            "(by value) with the real Greedy.step/Balanced.step on every step of generated scenarios (commands, connector "
            "loads, station power, vehicle and battery SoCs, exception kind). On that model the documented rule is proved "
            "clause by clause: offered power per case (greedy / balanced / cheap price), no overcharge without surplus or "
            "cheap price, id order independent of dict order, remaining steps = ceiling of remaining time, battery policy. "
            "An independent executable specification of the documented rule (Python, on copies of the real Battery) is run "
            "on the same world states as oracle.",
            "Lean 4 proof on a transliterated strategy model + bit-level Float correspondence per step + independent reference spec",
            "DESIGN.md §4 C10"),
    "C14": ("The complete Distributed class (constructor, look-ahead, ranking, virtual world per connector, delegation, "
            "battery support with restored limits, surplus pass) is a Lean model compared bit-for-bit with the real class "
            "on every step. Theorems: at most number_cs holders, holders keep their point, the closing assertion cannot "
            "fire; at a depot (opportunity) connector the step IS the balanced (greedy) step model on the virtual world of "
            "that connector, which contains only that connector's candidates; treating one connector leaves every other "
            "connector identical. That the result equals a stand-alone balanced / greedy RUN over many steps is decided "
            "by the implementation-vs-implementation stream (real distributed vs real balanced/greedy on the scenario "
            "restricted to the connector).",
            "Lean 4 proof (station count, delegation = sub-strategy step, frame) + bit-level correspondence of the whole class + implementation-vs-implementation runs",
            "DESIGN.md I.4, §4 C14"),
    "C15": ("All sentences are Lean theorems about the executable model of the three util.py functions on an integer "
            "datetime model: window membership <=> first season containing the date has a half-open (midnight-wrapping) "
            "window of the level; core standing time exact iff-characterisation with error branch, and equality with the "
            "property's half-open reading except at t = end of a non-wrapping window (decide-checked witness, finding F1); "
            "series = predicate at start+i*dt with ceil((stop-start)/dt) entries, fuel sufficiency and the non-terminating "
            "dt <= 0 case; end-of-window scan termination characterised. The model runs against the real functions (incl. "
            "the JSON reader on generated files and real peak_load_window runs) on ~5 M instants per quick run with an "
            "independent half-open oracle.",
            "Lean 4 proof (iff characterisations, induction over the series) + exact differential correspondence, exhaustive per minute",
            "DESIGN.md §4 C15"),
    "C16": ("Model side (Lean theorems): the greedy/balanced step is isolated per connector - two worlds that agree on a "
            "connector's part (its stations, their vehicles, its batteries) give the same loads, station powers, SoCs and "
            "commands there, hence appending an unrelated connector changes nothing (C16_ruleStep_isolation, "
            "C16_added_connector; the step model is tied to the real step bit-for-bit inside this check); the event "
            "buckets, the window predicate (within one season) and the core-standing-time predicate are invariant "
            "under relabelling by whole weeks (tied by running the model on the relabelled inputs); the loop's "
            "bookkeeping treats connectors independently. Implementation side: determinism, absence of hidden state and "
            "the same invariances for ALL eight strategies are decided by paired real runs (fresh/fresh, second run on "
            "one Scenario object, another strategy first, all timestamps shifted by whole weeks incl. multi-week load "
            "series, an added unrelated connector) with exact comparison of every output series and of the scenario "
            "definition. A pure model cannot exhibit hidden Python state, so that part is partial by nature.",
            "Lean 4 proof (connector isolation of the step model, relabelling invariance, loop frame) + bit-level step tie + paired real runs (exact comparison)",
            "DESIGN.md §4 C16"),
    "C17": ("Run shape for every strategy (at most n steps, one record per step, errors in event processing / strategy / "
            "safety checks end the run with that step and flag it, no error means exactly n steps) is a Lean theorem about "
            "the loop model (structural recursion, hence terminating); the inner loops of the strategy models carry fuel and "
            "are proved to end within it (bisections, searches, look-ahead scans of balanced_market, peak_load_window, "
            "peak_shaving; schedule's under C11_schedule_*; flex_window's bisection under C04_flex_window_bisect_fuel). "
            "Compared with real runs incl. injected faults; every run ends with report generation (aggregates always, "
            "result/time-series/SoC files in a quarter of the runs, row counts = reported steps). The wall-clock sentence "
            "itself is observed by a watchdog (four hangs and one escaping report exception were found and repaired).",
            "Lean 4 proof (run-loop shape, error latch, fuel theorems for strategy loops) + differential correspondence with fault injection + watchdog",
            "DESIGN.md I.4, §4 C17"),
    "C18": ("Feed-in split (three parts >= 0, priority generation -> V2G -> battery, sum = total feed-in; rounded parts "
            "within half a unit in the last place), one row per reported step with every column the rounding of the named "
            "series (grid supply = -connector power, station columns and their sum, fixed load, generation, battery power "
            "and energy, occupied stations), header/row alignment for every component-presence combination, the SoC series "
            "and the window-column round trip are Lean theorems about the model of report.py; of the aggregates the energy "
            "sums, window energies, averages, peaks and battery cycles are proved (C18_aggregates: standing-time "
            "aggregates and flex averages only by correspondence). Real generate_reports output for all 128 output-option "
            "combinations, completed and aborted runs, is parsed back and compared cell by cell with the model (exact "
            "rounding on the floats' binary values); post-hoc cost calculation from the written files is compared with the "
            "in-run result. Findings: price column name mismatch (D12), vehicle cycles (N3).",
            "Lean 4 proof (split, row/header construction, aggregates partial) + exact cell-level correspondence on written files",
            "DESIGN.md §4 C18"),
    "C19": ("Statistics and trip-table generators are modelled as functions of the recorded random draws / rows; "
            "alternation of departure/arrival in strictly increasing time, consistency of announced times, consumption "
            "range, desired SoC >= min_soc and >= buffered consumption until the next connection, purity and the while-loop "
            "fuel are Lean theorems over ordered fields; SimBEV is modelled coarser (one theorem partial). The harness "
            "records the draws inside the real generators, feeds them to the model and compares the whole scenario; "
            "reproducibility is a paired real run; 'greedy never negative' is exploration on real generator + real run "
            "(finding G2).",
            "Lean 4 proof (induction over draws/rows) + exact differential correspondence on recorded draws + real-run exploration",
            "DESIGN.md §4 C19"),
    "C03": ("All sentences are Lean theorems about the executable curve model over any linearly ordered field "
            "(lookup = lerp, clamped = post*min(pre*curve,L) with well-formedness and no exception, max_power, "
            "order-independence of the constructor, default discharge curve); the model is run on Rat against the "
            "real LoadingCurve/VehicleType on exact rationals over an exhaustive grid plus random curves, with an "
            "independent exact oracle on the implementation's outputs.",
            "Lean 4 proof over ordered fields + exact (Fraction vs Rat) differential correspondence, exhaustive grid",
            "DESIGN.md §4 C03"),
    "C04": ("Lean theorems: (1) run-loop monitor with the strategy's effect as an arbitrary input - a step over the limit is "
            "never reported as valid, the run stops there and is flagged - for all eight strategies; (2) on the "
            "statement-by-statement models of all eight strategy classes, the whole step keeps every connector within its "
            "currently valid limit: greedy/balanced (both sides, with battery support), distributed (limits restored), "
            "schedule, flex_window (balanced unconditional; greedy; needy in exact arithmetic), peak_shaving, "
            "peak_load_window, balanced_market; theorems named _partial state exactly what they exclude (two vehicles at one "
            "station for balanced_market, exact-delivery battery contracts, float rounding of needy shares, "
            "sub-strategies other than greedy/balanced under distributed). The loop model and every strategy model are compared bit-for-bit with the "
            "real code on every step of generated real runs inside this check. Limit = min(rating, latest signal) and "
            "the run-level sentence are additionally decided by an independent oracle on the real outputs; one narrow "
            "finding is left (peak_load_window at negative SoC). 21 genuine strategy defects were repaired in /repo.",
            "Lean 4 proof (run-loop monitor + whole-step limit theorems on 8 strategy models) + bit-level Float correspondence of loop and strategy steps on real runs + oracle on real runs",
            "DESIGN.md I.4, §4 C04"),
    "C05": ("Lean theorems: station monitor for every strategy; clamp_power laws (non-negative, <= offered, keeps the "
            "station within its maximum, minimum-power cut-off, monotone); on the strategy models the whole step keeps "
            "every station within its (concurrency-scaled) maximum in both directions, only stations with a connected "
            "vehicle carry power and nothing is discharged without V2G (greedy/balanced, flex_window all sub-strategies, "
            "peak_shaving, peak_load_window, balanced_market, schedule individual and collective, distributed upper "
            "bound). clamp_power "
            "is compared exactly (exhaustive rational grid), loop and strategy steps bit-for-bit on real runs. The "
            "vehicle-curve sentence is decided by the oracle from the battery-operation trace: six strategies load a "
            "battery several times per step (known findings keyed by that mechanism; proved impossible for "
            "peak_load_window and schedule-individual).",
            "Lean 4 proof (monitor, clamp laws, whole-step station theorems on the strategy models) + exact/bit-level correspondence + operation-trace oracle on real runs",
            "DESIGN.md I.4, §4 C05"),
    "C06": ("Reported connector power = curtailed sum of its loads (every strategy) and the self-discharge step (formula, "
            "only lowers, never below zero) are Lean theorems; on six strategy models the step changes the world only through "
            "booked battery calls - look-ahead simulations leave no trace, connector load / station entry / command move "
            "by the signed average power of the real call (schedule incl. the energy identity per vehicle, peak_shaving, "
            "peak_load_window, balanced_market, flex_window, distributed). apply_battery_losses is compared exactly on a rational grid, loop and strategy steps "
            "bit-for-bit on real runs. For the other strategies the per-step energy bookkeeping of vehicles and batteries "
            "is decided by an oracle that reconstructs the chain of battery operations of the step from the run-time "
            "trace (every operation: dSoC = P*dt*eta/c resp. /eta; booked station power = signed sum; commands name every "
            "station that carries power); the battery-level identity it rests on is C01.",
            "Lean 4 proof (sum identity, losses, booking theorems on six strategy models) + exact/bit-level correspondence + operation-chain oracle on real runs",
            "DESIGN.md I.4, §4 C06"),
    "C07": ("Bucket index = max 0 ceil((signal-start)/dt) with 'kept iff < n', the step at which each event takes "
            "effect (first step at/after its start and not before it was signalled; exactly once), the value in force = "
            "last applied event in (start, arrival) order, series tail = 0, chronological application of past events at "
            "step 0, only events with bucket >= n are ignored, and cur_max = min(rating, latest limit) (falsy rating stated "
            "separately) are Lean theorems by induction over steps with a queue invariant, for the model of events.py and "
            "Strategy.step. The model runs exactly (Int microseconds, rational values) against the real Events / "
            "get_event_steps / Strategy.step, world state compared after every step, bounded-exhaustive on a 1/3-step time "
            "lattice plus random histories and the CSV readers on generated files.",
            "Lean 4 proof (induction over steps, queue invariant) + exact differential correspondence, bounded-exhaustive",
            "DESIGN.md §4 C07"),
    "C08": ("Arrival (SoC + soc_delta once, station/ETD/desired as announced, negative-SoC tracker and ALLOW/RESET "
            "policy, RuntimeError otherwise), departure (disconnect, ETD cleared, counters with EPS and margin), counters = "
            "number of such departures over arbitrary histories, event processing never changes the SoC of another "
            "vehicle (past-departure rule stated as the one exception), and an error in event processing is latched: Lean "
            "theorems by induction over arbitrary event sequences. Exact correspondence with the real Strategy.step and "
            "Scenario.run on bounded-exhaustive vehicle-event sequences x option combinations x margins.",
            "Lean 4 proof (induction over event histories) + exact differential correspondence, bounded-exhaustive",
            "DESIGN.md §4 C08"),
    "C09": ("Lean theorems on the strategy models: balanced's plan is a constant power that reaches the desired SoC exactly "
            "at the announced departure (remaining steps = ceiling of the remaining time); greedy offers min(needed, "
            "available) clamped; balanced_market plans every step before departure, uses a planned present step "
            "(regression of repaired defect BM1) and plans in time order when prices never fall; peak_load_window's even "
            "plan reaches the desired SoC on a constant curve; flex_window offers the whole headroom in a window that does "
            "not suffice. The run-level guarantee for all six listed strategies is decided on real runs (standing time f x "
            "full-power time, varying headroom, shared binding connector, V2G vehicle above its desired SoC; SoC read at "
            "the departure step), with the step models tied bit-for-bit on the same runs. Known findings with their "
            "mechanism: F2 (varying curves: constant-power plans / price-order simulation), P2 (even plan, no front-loading).",
            "Lean 4 proof (plan theorems on five strategy models) + bit-level step correspondence + oracle on real runs of six strategies",
            "DESIGN.md I.4, §4 C09"),
    "C10": ("The greedy/balanced step (allocation pass in id order, surplus/V2G pass, stationary-battery pass, "
            "clamp_power, add_load bookkeeping) is transliterated into Lean on top of the battery model and is bit-identical "
            "(by value) with the real Greedy.step/Balanced.step on every step of generated scenarios (commands, connector "
            "loads, station power, vehicle and battery SoCs, exception kind). On that model the documented rule is proved "
            "clause by clause: offered power per case (greedy / balanced / cheap price), no overcharge without surplus or "
            "cheap price, id order independent of dict order, remaining steps = ceiling of remaining time, battery policy. "
            "An independent executable specification of the documented rule (Python, on copies of the real Battery) is run "
            "on the same world states as oracle.",
            "Lean 4 proof on a transliterated strategy model + bit-level Float correspondence per step + independent reference spec",
            "DESIGN.md §4 C10"),
    "C14": ("The complete Distributed class (constructor, look-ahead, ranking, virtual world per connector, delegation, "
            "battery support with restored limits, surplus pass) is a Lean model compared bit-for-bit with the real class "
            "on every step. Theorems: at most number_cs holders, holders keep their point, the closing assertion cannot "
            "fire; at a depot (opportunity) connector the step IS the balanced (greedy) step model on the virtual world of "
            "that connector, which contains only that connector's candidates; treating one connector leaves every other "
            "connector identical. That the result equals a stand-alone balanced / greedy RUN over many steps is decided "
            "by the implementation-vs-implementation stream (real distributed vs real balanced/greedy on the scenario "
            "restricted to the connector).",
            "Lean 4 proof (station count, delegation = sub-strategy step, frame) + bit-level correspondence of the whole class + implementation-vs-implementation runs",
            "DESIGN.md I.4, §4 C14"),
    "C15": ("All sentences are Lean theorems about the executable model of the three util.py functions on an integer "
            "datetime model: window membership <=> first season containing the date has a half-open (midnight-wrapping) "
            "window of the level; core standing time exact iff-characterisation with error branch, and equality with the "
            "property's half-open reading except at t = end of a non-wrapping window (decide-checked witness, finding F1); "
            "series = predicate at start+i*dt with ceil((stop-start)/dt) entries, fuel sufficiency and the non-terminating "
            "dt <= 0 case; end-of-window scan termination characterised. The model runs against the real functions (incl. "
            "the JSON reader on generated files and real peak_load_window runs) on ~5 M instants per quick run with an "
            "independent half-open oracle.",
            "Lean 4 proof (iff characterisations, induction over the series) + exact differential correspondence, exhaustive per minute",
            "DESIGN.md §4 C15"),
    "C16": ("Model side (Lean theorems): the greedy/balanced step is isolated per connector - two worlds that agree on a "
            "connector's part (its stations, their vehicles, its batteries) give the same loads, station powers, SoCs and "
            "commands there, hence appending an unrelated connector changes nothing (C16_ruleStep_isolation, "
            "C16_added_connector; the step model is tied to the real step bit-for-bit inside this check); the event "
            "buckets, the window predicate (within one season) and the core-standing-time predicate are invariant "
            "under relabelling by whole weeks (tied by running the model on the relabelled inputs); the loop's "
            "bookkeeping treats connectors independently. Implementation side: determinism, absence of hidden state and "
            "the same invariances for ALL eight strategies are decided by paired real runs (fresh/fresh, second run on "
            "one Scenario object, another strategy first, all timestamps shifted by whole weeks incl. multi-week load "
            "series, an added unrelated connector) with exact comparison of every output series and of the scenario "
            "definition. A pure model cannot exhibit hidden Python state, so that part is partial by nature.",
            "Lean 4 proof (connector isolation of the step model, relabelling invariance, loop frame) + bit-level step tie + paired real runs (exact comparison)",
            "DESIGN.md §4 C16"),
    "C17": ("Run shape for every strategy (at most n steps, one record per step, errors in event processing / strategy / "
            "safety checks end the run with that step and flag it, no error means exactly n steps) is a Lean theorem about "
            "the loop model (structural recursion, hence terminating); compared with real runs incl. injected faults. "
            "Termination of the strategies' internal loops and of report generation is observed (watchdog, escaped "
            "exceptions), not proved.",
            "Lean 4 proof (run-loop shape, error latch) + differential correspondence with fault injection + watchdog",
            "DESIGN.md §4 C17"),
    "C11": ("Lean theorems on the strategy models: schedule-individual requests min(clamp(schedule + add), headroom) with "
            "add >= 0 (whole loop body), its look-ahead, bisection and search end within their fuel; balanced_market sorts "
            "cheapest-first, does not charge a covered vehicle and charges only in the price group that contains the "
            "present step; peak_load_window plans nothing inside windows when the outside stage suffices and issues no "
            "command without plan; flex_window gives exactly 0 kW outside a window when the windows suffice. The run-level "
            "sentences (no grid energy in discouraged periods, desired SoC still reached, balanced_market never dearer "
            "than greedy at equal energy) are decided by oracles on real runs (window / price patterns, signals without "
            "window information, windows from a schedule CSV, 48 h horizon with late price publication, binding "
            "headroom, late or unannounced departures) with the step models tied bit-for-bit on the same runs.",
            "Lean 4 proof (plan/floor theorems on four strategy models) + bit-level step correspondence + oracles on real runs",
            "DESIGN.md I.4, §4 C11"),
    "C12": ("The model of costs.py (find_prices, commodity, capacity, feed-in, flexible load, calculate_costs for all seven "
            "schemes, per-year scaling, VAT, round-half-even to cents) refines an independent reference composition "
            "(C12_refines); tariff class and utilisation bracket, energy-linear parts, which peak each scheme charges, "
            "VAT/feed-in, annual scaling, invariance under repeating the profile and under halving every timestep, and "
            "date-freeness are Lean theorems over ordered fields. The real calculate_costs runs on exact rationals (price "
            "sheet parsed exactly, duck-typed interval) and must equal the model field by field for all schemes x voltage "
            "levels x fee types x PV brackets incl. exactly constructed boundary inputs; float, CSV and simulate.py streams "
            "are compared with tolerance; metamorphic oracles re-run the real code on repeated/halved/re-dated profiles.",
            "Lean 4 proof (refinement to reference spec, invariance theorems) + exact (Fraction vs Rat) differential correspondence",
            "DESIGN.md §4 C12"),
    "C13": ("Array invariants of distribute_energy_balanced (schedule+avail.max and schedule-avail.min invariant, avail >= "
            "0, applied power within the individual flex bounds, hence |schedule| <= limit), the final in-band assertion, "
            "the charge flag, the written value, and the run-length round trip of the schedule CSV through "
            "get_schedule_from_csv and the event queue (target, window and every vehicle schedule in force at step t = row "
            "t, signal <= start) are Lean theorems for all sizes. The flex band itself (generate_flex_band / "
            "generate_individual_flex_band: a Strategy.step loop with per-vehicle bookkeeping) is modelled too: its content "
            "is base -/+ the battery figure and the sums over the vehicles present in that step, a departed vehicle "
            "contributes nothing, every value lies within the rating, the individual band follows limit events "
            "(C13_flexband_*; the energy-need theorem is _partial, finding FB1). Real generate_schedule runs on generated scenarios and "
            "grid files (both sign conventions, collective and individual) are compared bit-for-bit per distribute call and "
            "read back through the real Scenario/Events machinery.",
            "Lean 4 proof (array invariants, flex-band content, run-length round trip) + Float bit-level correspondence on captured calls and on both flex-band functions + read-back oracle",
            "DESIGN.md §4 C13"),
    "C18": ("Feed-in split (three parts >= 0, priority generation -> V2G -> battery, sum = total feed-in; rounded parts "
            "within half a unit in the last place), one row per reported step with every column the rounding of the named "
            "series (grid supply = -connector power, station columns and their sum, fixed load, generation, battery power "
            "and energy, occupied stations), header/row alignment for every component-presence combination, the SoC series "
            "and the window-column round trip are Lean theorems about the model of report.py; of the aggregates the energy "
            "sums, window energies, averages, peaks and battery cycles are proved (C18_aggregates: standing-time "
            "aggregates and flex averages only by correspondence). Real generate_reports output for all 128 output-option "
            "combinations, completed and aborted runs, is parsed back and compared cell by cell with the model (exact "
            "rounding on the floats' binary values); post-hoc cost calculation from the written files is compared with the "
            "in-run result. Findings: price column name mismatch (D12), vehicle cycles (N3).",
            "Lean 4 proof (split, row/header construction, aggregates partial) + exact cell-level correspondence on written files",
            "DESIGN.md §4 C18"),
    "C19": ("Statistics and trip-table generators are modelled as functions of the recorded random draws / rows; "
            "alternation of departure/arrival in strictly increasing time, consistency of announced times, consumption "
            "range, desired SoC >= min_soc and >= buffered consumption until the next connection, purity and the while-loop "
            "fuel are Lean theorems over ordered fields; SimBEV is modelled coarser (one theorem partial). The harness "
            "records the draws inside the real generators, feeds them to the model and compares the whole scenario; "
            "reproducibility is a paired real run; 'greedy never negative' is exploration on real generator + real run "
            "(finding G2).",
            "Lean 4 proof (induction over draws/rows) + exact differential correspondence on recorded draws + real-run exploration",
            "DESIGN.md §4 C19"),
    "C03": ("All sentences are Lean theorems about the executable curve model over any linearly ordered field "
            "(lookup = lerp, clamped = post*min(pre*curve,L) with well-formedness and no exception, max_power, "
            "order-independence of the constructor, default discharge curve); the model is run on Rat against the "
            "real LoadingCurve/VehicleType on exact rationals over an exhaustive grid plus random curves, with an "
            "independent exact oracle on the implementation's outputs.",
            "Lean 4 proof over ordered fields + exact (Fraction vs Rat) differential correspondence, exhaustive grid",
            "DESIGN.md §4 C03"),
    "C04": ("Lean theorems: (1) run-loop monitor with the strategy's effect as an arbitrary input - a step over the limit is "
            "never reported as valid, the run stops there and is flagged - for all eight strategies; (2) on the "
            "statement-by-statement models of all eight strategy classes, the whole step keeps every connector within its "
            "currently valid limit: greedy/balanced (both sides, with battery support), distributed (limits restored), "
            "schedule, flex_window (balanced unconditional; greedy; needy in exact arithmetic), peak_shaving, "
            "peak_load_window, balanced_market; theorems named _partial state exactly what they exclude (two vehicles at one "
            "station for balanced_market, exact-delivery battery contracts, float rounding of needy shares, "
            "sub-strategies other than greedy/balanced under distributed). The loop model and every strategy model are compared bit-for-bit with the "
            "real code on every step of generated real runs inside this check. Limit = min(rating, latest signal) and "
            "the run-level sentence are additionally decided by an independent oracle on the real outputs; one narrow "
            "finding is left (peak_load_window at negative SoC). 21 genuine strategy defects were repaired in /repo.",
            "Lean 4 proof (run-loop monitor + whole-step limit theorems on 8 strategy models) + bit-level Float correspondence of loop and strategy steps on real runs + oracle on real runs",
            "DESIGN.md I.4, §4 C04"),
    "C05": ("Lean theorems: station monitor for every strategy; clamp_power laws (non-negative, <= offered, keeps the "
            "station within its maximum, minimum-power cut-off, monotone); on the strategy models the whole step keeps "
            "every station within its (concurrency-scaled) maximum in both directions, only stations with a connected "
            "vehicle carry power and nothing is discharged without V2G (greedy/balanced, flex_window all sub-strategies, "
            "peak_shaving, peak_load_window, balanced_market, schedule individual and collective, distributed upper "
            "bound). clamp_power "
            "is compared exactly (exhaustive rational grid), loop and strategy steps bit-for-bit on real runs. The "
            "vehicle-curve sentence is decided by the oracle from the battery-operation trace: six strategies load a "
            "battery several times per step (known findings keyed by that mechanism; proved impossible for "
            "peak_load_window and schedule-individual).",
            "Lean 4 proof (monitor, clamp laws, whole-step station theorems on the strategy models) + exact/bit-level correspondence + operation-trace oracle on real runs",
            "DESIGN.md I.4, §4 C05"),
    "C06": ("Reported connector power = curtailed sum of its loads (every strategy) and the self-discharge step (formula, "
            "only lowers, never below zero) are Lean theorems; on six strategy models the step changes the world only through "
            "booked battery calls - look-ahead simulations leave no trace, connector load / station entry / command move "
            "by the signed average power of the real call (schedule incl. the energy identity per vehicle, peak_shaving, "
            "peak_load_window, balanced_market, flex_window, distributed). apply_battery_losses is compared exactly on a rational grid, loop and strategy steps "
            "bit-for-bit on real runs. For the other strategies the per-step energy bookkeeping of vehicles and batteries "
            "is decided by an oracle that reconstructs the chain of battery operations of the step from the run-time "
            "trace (every operation: dSoC = P*dt*eta/c resp. /eta; booked station power = signed sum; commands name every "
            "station that carries power); the battery-level identity it rests on is C01.",
            "Lean 4 proof (sum identity, losses, booking theorems on six strategy models) + exact/bit-level correspondence + operation-chain oracle on real runs",
            "DESIGN.md I.4, §4 C06"),
    "C07": ("Bucket index = max 0 ceil((signal-start)/dt) with 'kept iff < n', the step at which each event takes "
            "effect (first step at/after its start and not before it was signalled; exactly once), the value in force = "
            "last applied event in (start, arrival) order, series tail = 0, chronological application of past events at "
            "step 0, only events with bucket >= n are ignored, and cur_max = min(rating, latest limit) (falsy rating stated "
            "separately) are Lean theorems by induction over steps with a queue invariant, for the model of events.py and "
            "Strategy.step. The model runs exactly (Int microseconds, rational values) against the real Events / "
            "get_event_steps / Strategy.step, world state compared after every step, bounded-exhaustive on a 1/3-step time "
            "lattice plus random histories and the CSV readers on generated files.",
            "Lean 4 proof (induction over steps, queue invariant) + exact differential correspondence, bounded-exhaustive",
            "DESIGN.md §4 C07"),
    "C08": ("Arrival (SoC + soc_delta once, station/ETD/desired as announced, negative-SoC tracker and ALLOW/RESET "
            "policy, RuntimeError otherwise), departure (disconnect, ETD cleared, counters with EPS and margin), counters = "
            "number of such departures over arbitrary histories, event processing never changes the SoC of another "
            "vehicle (past-departure rule stated as the one exception), and an error in event processing is latched: Lean "
            "theorems by induction over arbitrary event sequences. Exact correspondence with the real Strategy.step and "
            "Scenario.run on bounded-exhaustive vehicle-event sequences x option combinations x margins.",
            "Lean 4 proof (induction over event histories) + exact differential correspondence, bounded-exhaustive",
            "DESIGN.md §4 C08"),
    "C09": ("Lean theorems on the strategy models: balanced's plan is a constant power that reaches the desired SoC exactly "
            "at the announced departure (remaining steps = ceiling of the remaining time); greedy offers min(needed, "
            "available) clamped; balanced_market plans every step before departure, uses a planned present step "
            "(regression of repaired defect BM1) and plans in time order when prices never fall; peak_load_window's even "
            "plan reaches the desired SoC on a constant curve; flex_window offers the whole headroom in a window that does "
            "not suffice. The run-level guarantee for all six listed strategies is decided on real runs (standing time f x "
            "full-power time, varying headroom, shared binding connector, V2G vehicle above its desired SoC; SoC read at "
            "the departure step), with the step models tied bit-for-bit on the same runs. Known findings with their "
            "mechanism: F2 (varying curves: constant-power plans / price-order simulation), P2 (even plan, no front-loading).",
            "Lean 4 proof (plan theorems on five strategy models) + bit-level step correspondence + oracle on real runs of six strategies",
            "DESIGN.md I.4, §4 C09"),
    "C10": ("The greedy/balanced step (allocation pass in id order, surplus/V2G pass, stationary-battery pass, "
            "clamp_power, add_load bookkeeping) is transliterated into Lean on top of the battery model and is bit-identical "
            "(by value) with the real Greedy.step/Balanced.step on every step of generated scenarios (commands, connector "
            "loads, station power, vehicle and battery SoCs, exception kind). On that model the documented rule is proved "
            "clause by clause: offered power per case (greedy / balanced / cheap price), no overcharge without surplus or "
            "cheap price, id order independent of dict order, remaining steps = ceiling of remaining time, battery policy. "
            "An independent executable specification of the documented rule (Python, on copies of the real Battery) is run "
            "on the same world states as oracle.",
            "Lean 4 proof on a transliterated strategy model + bit-level Float correspondence per step + independent reference spec",
            "DESIGN.md §4 C10"),
    "C14": ("The station-count logic of Distributed.step is modelled and proved (at most number_cs holders, previous "
            "holders keep their point, new holders are non-holders among the candidates, the closing assertion cannot "
            "fire); it is compared with the real ranking block on its recorded inputs at every step. The delegation "
            "sentences (depot = balanced, opportunity = greedy, connectors independent) are decided by an implementation-vs-"
            "implementation stream: real distributed vs real balanced/greedy runs on the scenario restricted to the "
            "connector, exact comparison; the delegated strategies themselves are the model of C10.",
            "Lean 4 proof (station-count invariant) + correspondence on recorded ranking inputs + impl-vs-impl differential runs",
            "DESIGN.md §4 C14"),
    "C15": ("All sentences are Lean theorems about the executable model of the three util.py functions on an integer "
            "datetime model: window membership <=> first season containing the date has a half-open (midnight-wrapping) "
            "window of the level; core standing time exact iff-characterisation with error branch, and equality with the "
            "property's half-open reading except at t = end of a non-wrapping window (decide-checked witness, finding F1); "
            "series = predicate at start+i*dt with ceil((stop-start)/dt) entries, fuel sufficiency and the non-terminating "
            "dt <= 0 case; end-of-window scan termination characterised. The model runs against the real functions (incl. "
            "the JSON reader on generated files and real peak_load_window runs) on ~5 M instants per quick run with an "
            "independent half-open oracle.",
            "Lean 4 proof (iff characterisations, induction over the series) + exact differential correspondence, exhaustive per minute",
            "DESIGN.md §4 C15"),
    "C16": ("Model side (Lean theorems): the greedy/balanced step is isolated per connector - two worlds that agree on a "
            "connector's part (its stations, their vehicles, its batteries) give the same loads, station powers, SoCs and "
            "commands there, hence appending an unrelated connector changes nothing (C16_ruleStep_isolation, "
            "C16_added_connector; the step model is tied to the real step bit-for-bit inside this check); the event "
            "buckets, the window predicate (within one season) and the core-standing-time predicate are invariant "
            "under relabelling by whole weeks (tied by running the model on the relabelled inputs); the loop's "
            "bookkeeping treats connectors independently. Implementation side: determinism, absence of hidden state and "
            "the same invariances for ALL eight strategies are decided by paired real runs (fresh/fresh, second run on "
            "one Scenario object, another strategy first, all timestamps shifted by whole weeks incl. multi-week load "
            "series, an added unrelated connector) with exact comparison of every output series and of the scenario "
            "definition. A pure model cannot exhibit hidden Python state, so that part is partial by nature.",
            "Lean 4 proof (connector isolation of the step model, relabelling invariance, loop frame) + bit-level step tie + paired real runs (exact comparison)",
            "DESIGN.md §4 C16"),
    "C17": ("Run shape for every strategy (at most n steps, one record per step, errors in event processing / strategy / "
            "safety checks end the run with that step and flag it, no error means exactly n steps) is a Lean theorem about "
            "the loop model (structural recursion, hence terminating); compared with real runs incl. injected faults. "
            "Termination of the strategies' internal loops and of report generation is observed (watchdog, escaped "
            "exceptions), not proved.",
            "Lean 4 proof (run-loop shape, error latch) + differential correspondence with fault injection + watchdog",
            "DESIGN.md §4 C17"),
    "C11": ("Proved in Lean: the individual-schedule floor (offered power = min(clamp(schedule+add), headroom) >= "
            "min(clamp(schedule), headroom) because the bisection for add only returns points of its bracket [0, station "
            "max] and clamp_power is monotone) and the termination bound of the bisection loop. The floor is tied to the "
            "code by an oracle on real schedule(individual) runs (station power >= what the real battery accepts from the "
            "floor offer, headroom taken at allocation time). Window/price following of peak_load_window, flex_window and "
            "balanced_market and 'balanced_market never pays more than greedy' are decided on real runs of dedicated "
            "scenarios (encouraged steps >= 1.3 x needed); no model of these strategies exists (partial).",
            "Lean 4 proof (floor formula, bisection bracket/termination) + oracles on real runs incl. paired market/greedy runs",
            "DESIGN.md §4 C11"),
    "C20": ("All sentences are Lean theorems about the executable model of assign_vehicle_id (repaired code): the "
            "in-progress queue stays sorted, no two trips of a vehicle overlap, consecutive trips are separated by more than "
            "the minimum standing time, a vehicle serves only its own type, a new vehicle is created only when none of the "
            "type is idle and the idle vehicle chosen is the one idle longest — by induction over the sorted trip list with "
            "a loop invariant, for every table and any type names. The model runs on exact integers/rationals against the "
            "real function on exhaustive small tables (<= 5 trips, 6-slot lattice) and random tables up to 40 trips with "
            "nested type names; an independent oracle states the four sentences on the implementation's output.",
            "Lean 4 proof (loop invariant, induction over trips) + exact differential correspondence, bounded-exhaustive + random",
            "DESIGN.md §4 C20"),
}

PENDING_REASON = ("not claimed yet: model, theorems and correspondence for this property are still being built "
                  "(order of work in DESIGN.md §7); the technique applies, nothing is registered until its check "
                  "is quiet on the unchanged tree")


# second round: what was added per property (appended to the claim text; DESIGN.md I.9 and the I.4 rows)
ROUND2 = {
    "C05": "Round 2: clamp_power's Lean definition is additionally GENERATED from the Python source on every run "
           "(harness/py2lean.py) and proved equal to the hand model, with the clamp laws restated on it (C05_gen_*); "
           "distributed, complete step: only stations with a connected vehicle carry power, no discharge without V2G "
           "(C05_distributed_only_connected / _no_v2g_discharge).",
    "C07": "Round 2: the hypotheses Keeps* on the strategy's own action are discharged for the concrete strategy models "
           "(C07_*_keeps, C07_strategy_keeps_connectors; distributed restores the raised limit; peak_load_window rewrites "
           "gc.window by design - stated with a witness), so C07_effect_step / _in_force / _limit_lower_only hold for five "
           "concrete strategies without hypotheses; every step tie carries a digest of the event-set state and the queue.",
    "C08": "Round 2: the reported SoC of an absent vehicle (disconnect back-fill of Scenario.run) is modelled and tied "
           "(C18_disconnect_*).",
    "C09": "Round 2: run-level theorems on the ITERATED step model (induction over the step list, no bound): greedy leaves "
           "with at least min(desired - EPS, SoC reachable at full available power) for the first vehicle / with ample or "
           "shared headroom, SoC monotone, balanced reaches the desired SoC at departure (C09_*_run_*), distributed "
           "corollaries; iterated model tied over whole standing periods (rulerun); demand functions generated from the "
           "source (C09_gen_*). Finding GRD1: greedy with a vehicle minimum charging power stalls within one "
           "minimum-power step below the desired SoC (bound proved, keyed by mechanism).",
    "C10": "Round 2: Model/RuleSpec.lean states the documented rule as a readable executable spec and "
           "C10_ruleStep_refines_spec proves the transliterated step EQUAL to it (all outputs, every exception) on every "
           "world with unique ids and priced connectors; the property's sentences are corollaries read off the spec; the "
           "spec runs as a third party in the stream (bit level).",
    "C11": "Round 2: the strategy constructors (PeakLoadWindow complete, Schedule, FlexWindow, BalancedMarket, PeakShaving) are "
           "modelled and tied at the start of every real run; C11_init_* (signal shift = min(signal, start), PLW event table, "
           "initial peak, LOAD_STRAT validation).",
    "C13": "Round 2: aggressive_round generated from the source and proved equal to the hand model (C13_gen_*); "
           "read_grid_file's text handling and sanitize modelled with an exact stream (C13_gridfile_*).",
    "C15": "Round 2: peak_load_window's window-table conversion and year replacement (C15_init_*): the converted table "
           "denotes the same instants as the file's first-season / half-open reading.",
    "C14": "Round 2: over a whole run (induction over the step list, arrivals/departures between steps) the projection of "
           "the distributed run to a connector equals the stand-alone balanced/greedy run of the restricted world, and is "
           "independent of the other connectors (C14_distributed_run_*); at most number_cs stations carry power after the "
           "complete step; delegation stated against the C10 spec; iterated model tied over standing periods.",
    "C17": "Round 2: Scenario/Components/Strategy constructors, class_from_str and simulate's option handling are in the "
           "model with exact streams; C17_ctor_* (n_intervals / stop_time arithmetic, exactly-one-key assertion) and with "
           "C17_run_shape: a run without error reports exactly the configured number of steps. Every fuel-guarded loop of "
           "flex_window and schedule ends within an explicit bound (incl. the collective retry loop), C17_<strategy>_step_total "
           "for all eight strategy models, iteration counts of the real loops <= the proved bounds as an oracle; genuine hangs "
           "H4, PLW4, BM3 found from the missing bounds and repaired (fix commits 328b0df, e499e3b, 7e25c32).",
    "C18": "Round 2: split_feedin generated from the source and proved equal to the hand model (C18_gen_*); disconnect "
           "back-fill = linear interpolation between the SoC at departure and at arrival, connected rows never rewritten "
           "(C18_disconnect_*); aggregates complete (C18_aggregates, C18_agg_ok), flex-band columns (C18_flexcols_*), "
           "results-JSON entries and order (C18_json_*).",
}


def main():
    props = [json.loads(l) for l in open(os.path.join(HERE, "properties.jsonl"))]
    checks, na = [], []
    for p in props:
        pid = p["id"]
        if pid in CLAIMED:
            text, tech, ref = CLAIMED[pid]
            if pid in ROUND2:
                text = text + " " + ROUND2[pid]
            checks.append({
                "property_id": pid,
                "quick_cmd": "./check %s --tier quick" % pid,
                "thorough_cmd": "./check %s --tier thorough" % pid,
                "evidence_file": "evidence/%s.json" % pid,
                "replay_cmd_template": "./check %s --replay {path}" % pid,
                "engine": "lean-proof+correspondence",
                "level_claimed": {"category": "proof", "text": text, "design_ref": ref},
                "level_note": LEVEL_NOTE,
                "technique": tech,
            })
        else:
            na.append({"property_id": pid, "reason": PENDING_REASON})
    m = {
        "version": 1,
        "setup_cmd": "cd lean && lake build && lake build SpiceEvGen",
        "hooks": {
            "guard": "SPICE_EV_VERIF",
            "enable": "no in-source hooks: the harness wraps the real classes at run time in-process "
                      "(SPICE_EV_VERIF is reserved and set by the harness; nothing in /repo reads it)",
            "baseline_off_cmd": "cd /repo && /venv/bin/python -m pytest -ra -q -p no:cacheprovider --timeout=900",
            "source_commits": [],
            "add_only": True,
        },
        "engines": [{
            "name": "lean-proof+correspondence", "path": "check",
            "serves_properties": sorted(CLAIMED),
            "kind_free_text": "Lean 4 theorems about an executable model (lean/SpiceEv), audited with #print axioms; "
                              "the compiled model (lean/Driver.lean) is diffed against the real Python code on generated "
                              "inputs; a property oracle on the implementation's outputs turns a broken proof or "
                              "correspondence into a replayable failing input",
        }],
        "checks": checks,
        "not_applicable": na,
        "notes": "See DESIGN.md. known_findings.json lists genuine defects (finding/fixed). fix: commits in /repo are "
                 "listed there with their hashes.",
    }
    json.dump(m, open(os.path.join(HERE, "MANIFEST.json"), "w"), indent=1)
    print("MANIFEST.json: %d checks, %d not claimed" % (len(checks), len(na)))


if __name__ == "__main__":
    main()
