/-
Model of spice_ev/generate/generate_from_simbev.py: `generate_from_simbev`, vehicle part, as a
function of the parsed vehicle files.  Coarser than the statistics and csv models:

Modelled: vehicle renaming, the capacity-mismatch rule, the per-row sanity assertions, both SoC
modes (SimBEV SoC columns / `--ignore-simbev-soc` with tolerance), station naming, the order
assertion, the emitted events with the back-patches of `desired_soc` (previous arrival) and
`estimated_time_of_arrival` (previous departure), `n_intervals`, the final `len(vehicles) > 0`.
Parsed by the harness (trusted adapter, plain string slicing): vehicle id, type name and capacity
from the file name; the csv cells as numbers.
Not modelled: the feasibility simulation with `Battery.load` and the `possible_soc` estimate (they
only feed warnings), price signals, external csv options, region selection (a directory walk).
-/
import SpiceEv.Model.GenEvent
namespace SpiceEv.Gen

structure SimRow (α : Type) where
  eventStart : Int
  eventTime : Int
  location : String
  socStart : α
  socEnd : α
  energy : α
  stationPower : α
  deriving Repr

structure SimFile (α : Type) where
  /-- `csv_path.stem[:-7]` -/
  vid : String
  /-- first two `_`-separated parts of the id -/
  vtype : String
  /-- `int(v_info[-1][:-3])` -/
  fileCapacity : α
  rows : List (SimRow α)
  deriving Repr

structure SimParams (α : Type) where
  /-- `start` (midnight of `start_date`, µs) -/
  start : Int
  /-- `interval` in µs -/
  interval : Int
  ignoreSoc : Bool
  minSoc : α
  /-- `args.verbose > 0` -/
  verbose : Bool
  /-- the literal `1e-5` -/
  tolerance : α
  /-- `vehicle_types` after the `car_sum` filter: name ↦ capacity -/
  types : List (String × α)
  deriving Repr

/-- global state across files -/
structure SimState (α : Type) where
  types : List (String × α)
  vehicles : List (VInit α)
  stations : List (Station α)
  events : List (VEvent α)
  nIntervals : Int
  deriving Repr

/-- per-file loop state.  `events` are the events of this vehicle file; the Python code appends
them directly to the global list and keeps `last_arrival_idx` as a global index — the file's events
are a contiguous block of that list and every index used points into the block, so the model keeps
the block locally (index relative to the block) and appends it to the global list after the last
row (an exception in the middle of a file aborts the whole generator either way). -/
structure SimLocal (α : Type) where
  events : List (VEvent α)
  lastArrivalIdx : Option Nat
  socNeeded : α
  vehicleSoc : α
  departure : Int
  deriving Repr

section
variable {α : Type} [Add α] [Sub α] [Mul α] [Div α] [Neg α] [LT α] [LE α]
  [DecidableLT α] [DecidableLE α] [OfNat α 0] [OfNat α 1]

/-- `a == b` on numbers -/
@[inline] def numEq' (a b : α) : Bool := !(decide (a < b)) && !(decide (b < a))

/-- station naming and registration -/
def simStation (stations : List (Station α)) (vid location : String) (idx : Nat) (csPower : α) :
    String × List (Station α) :=
  let cs0 := vid ++ "_" ++ location
  let cs :=
    match stations.find? (fun s => s.id == cs0) with
    | some s => if numEq' s.maxPower csPower then cs0 else cs0 ++ "_" ++ toString idx
    | none => cs0
  if stations.any (fun s => s.id == cs) then (cs, stations)
  else (cs, stations ++ [{ id := cs, maxPower := csPower }])

/-- `idx == 0`: save initial vehicle data -/
def simInit (vid vtype : String) (G : SimState α) (L : SimLocal α) (idx : Nat) (row : SimRow α) :
    SimState α × SimLocal α :=
  let v0 : VInit α := {
    id := vid, cs := none, etd := none, desired := none, soc := row.socStart, vtype := vtype }
  if idx == 0 then
    ({ G with vehicles :=
        (if G.vehicles.any (fun v => v.id == vid) then
           G.vehicles.map (fun v => if v.id == vid then v0 else v)
         else G.vehicles ++ [v0]) },
     { L with vehicleSoc := row.socStart })
  else (G, L)

/-- the general sanity checks of a row -/
def simChecks (row : SimRow α) : Py Unit := do
  let consumption := pyabs (pymin row.energy 0)
  -- SoC must not be negative
  pyassert (decide (0 ≤ row.socStart) && decide (0 ≤ row.socEnd))
  let demand := pymax row.energy 0
  pyassert (decide (0 < row.stationPower) || isZero demand)
  let csPresent := decide (0 < row.stationPower)
  pyassert (!csPresent || isZero consumption)

def setDesired' (x : α) (e : VEvent α) : VEvent α := { e with desired := x }
def setEta (t : Int) (e : VEvent α) : VEvent α := { e with eta := some t }

/-- "actual driving and charging behavior": `some (desired_soc, delta_soc)` for a charge event -/
def simDecide (P : SimParams α) (capacity : α) (L : SimLocal α) (row : SimRow α) :
    Py (Option (α × α) × SimLocal α) :=
  let csPresent := decide (0 < row.stationPower)
  let consumption := pyabs (pymin row.energy 0)
  if !P.ignoreSoc then
    if csPresent && decide (0 < row.energy) then
      -- arrival at new CS: use info from SimBEV directly
      .ok (some (row.socEnd, L.vehicleSoc - row.socStart), { L with vehicleSoc := row.socEnd })
    else .ok (none, L)
  else
    if !csPresent then do
      -- no charging station: just increase charging demand based on consumption
      let inc ← pydiv consumption capacity
      let need := L.socNeeded + inc
      pyassert (decide (need ≤ 1 + L.vehicleSoc + P.tolerance))
      .ok (none, { L with socNeeded := need })
    else
      match L.lastArrivalIdx with
      | none => do
        -- first charge: initial must be enough
        pyassert (decide (L.socNeeded - P.tolerance ≤ L.vehicleSoc))
        .ok (some (0, L.socNeeded), { L with vehicleSoc := L.vehicleSoc - L.socNeeded })
      | some i =>
        -- update desired SoC from last charging event
        let desired := pymax P.minSoc L.socNeeded
        .ok (some (0, L.socNeeded),
             { L with events := patchAt (setDesired' desired) i L.events,
                      vehicleSoc := pymax L.vehicleSoc desired - L.socNeeded })

def simArrEvent (vid csId : String) (arrival departure : Int) (desired delta : α) : VEvent α := {
  kind := .arrival, time := arrival, vehicle := vid, eta := none,
  cs := some csId, etd := some departure, desired := desired, socDelta := -delta }

def simDepEvent (vid : String) (departure : Int) : VEvent α := {
  kind := .departure, time := departure, vehicle := vid, eta := none,
  cs := none, etd := none, desired := 0, socDelta := 0 }

/-- `if is_charge_event:` — station, order assertion, the two events, back-patch of the previous
departure's announced arrival -/
def simCharge (P : SimParams α) (vid : String) (G : SimState α) (L : SimLocal α) (idx : Nat)
    (row : SimRow α) (desired delta : α) : Py (SimState α × SimLocal α) := do
  let cs := simStation G.stations vid row.location idx row.stationPower
  let arrival := P.start + P.interval * row.eventStart
  pyassert (decide (L.departure ≤ arrival))
  let departure := P.start + P.interval * (row.eventStart + row.eventTime)
  let evs := L.events ++ [simArrEvent vid cs.1 arrival departure desired delta]
  -- update last departure
  let evs := match L.lastArrivalIdx with
    | some i => patchAt (setEta arrival) (i + 1) evs
    | none => evs
  .ok ({ G with stations := cs.2 },
       { L with events := evs ++ [simDepEvent vid departure], lastArrivalIdx := some (evs.length - 1),
                socNeeded := 0, departure := departure })

/-- body of `for idx, row in enumerate(reader)` -/
def simRowStep (P : SimParams α) (vid vtype : String) (capacity : α)
    (G : SimState α) (L : SimLocal α) (idx : Nat) (row : SimRow α) :
    Py (SimState α × SimLocal α) := do
  let GL := simInit vid vtype G L idx row
  simChecks row
  -- get maximum length of timesteps
  let departureIdx := row.eventStart + row.eventTime
  let G := { GL.1 with nIntervals := if GL.1.nIntervals < departureIdx + 1 then departureIdx + 1 else GL.1.nIntervals }
  let r ← simDecide P capacity GL.2 row
  match r.1 with
  | none => .ok (G, r.2)
  | some (desired, delta) => simCharge P vid G r.2 idx row desired delta

def simRows (P : SimParams α) (vid vtype : String) (capacity : α) :
    SimState α → SimLocal α → Nat → List (SimRow α) → Py (SimState α × SimLocal α)
  | G, L, _, [] => .ok (G, L)
  | G, L, idx, row :: rest => do
    let GL ← simRowStep P vid vtype capacity G L idx row
    simRows P vid vtype capacity GL.1 GL.2 (idx + 1) rest

/-- the id a vehicle file gets: a repeated name is renamed `"{}_{}".format(v_id, n + 1)` with
`n` = number of known vehicles whose name starts with it -/
def simVid (G : SimState α) (f : SimFile α) : String :=
  if G.vehicles.any (fun v => v.id == f.vid) then
    f.vid ++ "_" ++ toString ((G.vehicles.filter (fun v => v.id.startsWith f.vid)).length + 1)
  else f.vid

/-- body of `for csv_path in pathlist` -/
def simFile (P : SimParams α) (G : SimState α) (f : SimFile α) : Py (SimState α) :=
  match G.types.find? (fun t => t.1 == f.vtype) with
  | none => .error .assertion              -- vehicle type must be known
  | some (_, typeCap) => do
    let vid := simVid G f
    -- capacities must match (only acted upon when verbose)
    let ct :=
      if !(numEq' typeCap f.fileCapacity) && P.verbose then
        (f.fileCapacity, G.types.map (fun t => if t.1 == f.vtype then (t.1, f.fileCapacity) else t))
      else (typeCap, G.types)
    let GL ← simRows P vid f.vtype ct.1 { G with types := ct.2 }
      { events := [], lastArrivalIdx := none, socNeeded := 0, vehicleSoc := 0, departure := P.start } 0 f.rows
    .ok { GL.1 with events := GL.1.events ++ GL.2.events }

structure SimOut (α : Type) where
  vehicles : List (VInit α)
  events : List (VEvent α)
  stations : List (Station α)
  nIntervals : Int
  types : List (String × α)

/-- `generate_from_simbev` (vehicle part) -/
def generateFromSimbev (P : SimParams α) (files : List (SimFile α)) : Py (SimOut α) := do
  let G ← files.foldlM (simFile P)
    { types := P.types, vehicles := [], stations := [], events := [], nIntervals := 0 }
  pyassert (!G.vehicles.isEmpty)
  .ok {
      vehicles := G.vehicles, events := G.events, stations := G.stations,
      nIntervals := G.nIntervals, types := G.types }

end
end SpiceEv.Gen
