/-
Helper lemmas for C07 / C08 (part 2): frame properties of `applyEvent`, the `while` loop over the
sorted queue, one `Strategy.step`, and the queue invariant of a whole run.
-/
import SpiceEv.Proofs.EventsBasic
set_option linter.unusedSectionVars false
set_option linter.unusedSimpArgs false
set_option linter.unusedVariables false
namespace SpiceEv
variable {α : Type} [Field α] [LinearOrder α] [IsStrictOrderedRing α]

/-! ### association lists -/

theorem alGet?_alSet {β : Type} (k k' : String) (v : β) (l : List (String × β)) :
    alGet? k (alSet k' v l) = if k' = k then some v else alGet? k l := by
  induction l with
  | nil => simp [alSet, alGet?]
  | cons p rest ih =>
    obtain ⟨k0, v0⟩ := p
    unfold alSet
    by_cases h : k0 = k'
    · subst h
      by_cases h2 : k0 = k <;> simp [alGet?, h2]
    · simp only [h, if_false]
      by_cases h2 : k0 = k
      · subst h2
        simp [alGet?, Ne.symm h]
      · simp [alGet?, h2, ih]

theorem alSet_keys {β : Type} (k : String) (v : β) (l : List (String × β)) (h : (alGet? k l).isSome) :
    (alSet k v l).map Prod.fst = l.map Prod.fst := by
  induction l with
  | nil => simp [alGet?] at h
  | cons p rest ih =>
    obtain ⟨k0, v0⟩ := p
    unfold alSet
    by_cases h0 : k0 = k
    · subst h0; simp
    · simp only [h0, if_false, List.map_cons]
      rw [ih (by simpa [alGet?, h0] using h)]

/-! ### what `applyEvent` leaves alone -/

/-- clock, queue, charging stations and battery names are not touched -/
structure SameFrame (s s' : Strat α) : Prop where
  now : s'.now = s.now
  queue : s'.world.queue = s.world.queue
  stations : s'.world.stations = s.world.stations
  batteries : s'.world.batteries = s.world.batteries

theorem SameFrame.refl (s : Strat α) : SameFrame s s := ⟨rfl, rfl, rfl, rfl⟩

theorem SameFrame.trans {s s' s'' : Strat α} (h1 : SameFrame s s') (h2 : SameFrame s' s'') :
    SameFrame s s'' :=
  ⟨h2.now.trans h1.now, h2.queue.trans h1.queue, h2.stations.trans h1.stations,
   h2.batteries.trans h1.batteries⟩

@[simp] theorem setConnector_now (s : Strat α) (g : String) (c : Connector α) :
    (s.setConnector g c).now = s.now := rfl
@[simp] theorem setConnector_queue (s : Strat α) (g : String) (c : Connector α) :
    (s.setConnector g c).world.queue = s.world.queue := rfl
@[simp] theorem setConnector_stations (s : Strat α) (g : String) (c : Connector α) :
    (s.setConnector g c).world.stations = s.world.stations := rfl
@[simp] theorem setConnector_batteries (s : Strat α) (g : String) (c : Connector α) :
    (s.setConnector g c).world.batteries = s.world.batteries := rfl
@[simp] theorem setConnector_vehicles (s : Strat α) (g : String) (c : Connector α) :
    (s.setConnector g c).world.vehicles = s.world.vehicles := rfl
@[simp] theorem setConnector_connectors (s : Strat α) (g : String) (c : Connector α) :
    (s.setConnector g c).world.connectors = alSet g c s.world.connectors := rfl
@[simp] theorem setConnector_tracker (s : Strat α) (g : String) (c : Connector α) :
    (s.setConnector g c).tracker = s.tracker := rfl
@[simp] theorem setConnector_dc (s : Strat α) (g : String) (c : Connector α) :
    (s.setConnector g c).desiredCounter = s.desiredCounter := rfl
@[simp] theorem setConnector_mc (s : Strat α) (g : String) (c : Connector α) :
    (s.setConnector g c).marginCounter = s.marginCounter := rfl
@[simp] theorem setVehicle_now (s : Strat α) (g : String) (c : Vehicle α) :
    (s.setVehicle g c).now = s.now := rfl
@[simp] theorem setVehicle_queue (s : Strat α) (g : String) (c : Vehicle α) :
    (s.setVehicle g c).world.queue = s.world.queue := rfl
@[simp] theorem setVehicle_stations (s : Strat α) (g : String) (c : Vehicle α) :
    (s.setVehicle g c).world.stations = s.world.stations := rfl
@[simp] theorem setVehicle_batteries (s : Strat α) (g : String) (c : Vehicle α) :
    (s.setVehicle g c).world.batteries = s.world.batteries := rfl
@[simp] theorem setVehicle_connectors (s : Strat α) (g : String) (c : Vehicle α) :
    (s.setVehicle g c).world.connectors = s.world.connectors := rfl
@[simp] theorem setVehicle_vehicles (s : Strat α) (g : String) (c : Vehicle α) :
    (s.setVehicle g c).world.vehicles = alSet g c s.world.vehicles := rfl
@[simp] theorem setVehicle_tracker (s : Strat α) (g : String) (c : Vehicle α) :
    (s.setVehicle g c).tracker = s.tracker := rfl
@[simp] theorem setVehicle_dc (s : Strat α) (g : String) (c : Vehicle α) :
    (s.setVehicle g c).desiredCounter = s.desiredCounter := rfl
@[simp] theorem setVehicle_mc (s : Strat α) (g : String) (c : Vehicle α) :
    (s.setVehicle g c).marginCounter = s.marginCounter := rfl

theorem applyFixedLoad_frame (s : Strat α) (name gc : String) (v : α) :
    SameFrame s (applyFixedLoad s name gc v).1 := by
  unfold applyFixedLoad
  split
  · exact SameFrame.refl s
  · split
    · exact SameFrame.refl s
    · constructor <;> simp

theorem applyLocalGen_frame (s : Strat α) (name gc : String) (v : α) :
    SameFrame s (applyLocalGen s name gc v).1 := by
  unfold applyLocalGen
  split
  · exact SameFrame.refl s
  · split
    · exact SameFrame.refl s
    · constructor <;> simp

theorem applyGridSignal_frame (s : Strat α) (gc : String) (mp : Option α) (cost : Option (Cost α))
    (target : Option α) (window : Option Bool) :
    SameFrame s (applyGridSignal s gc mp cost target window).1 := by
  unfold applyGridSignal
  split
  · exact SameFrame.refl s
  · constructor <;> simp

theorem arriveVehicle_frame (cfg : Cfg α) (s : Strat α) (vid : String) (v : Vehicle α) :
    SameFrame s (arriveVehicle cfg s vid v).1 := by
  unfold arriveVehicle
  split
  · constructor <;> simp
  · dsimp only
    split
    · split
      · constructor <;> simp
      · constructor <;> simp
    · constructor <;> simp

theorem applyVehicleEvent_frame (cfg : Cfg α) (s : Strat α) (t : Int) (vid : String) (k : VehKind)
    (u : VehUpdate α) : SameFrame s (applyVehicleEvent cfg s t vid k u).1 := by
  unfold applyVehicleEvent
  split
  · exact SameFrame.refl s
  · dsimp only
    split
    · constructor <;> simp
    · exact arriveVehicle_frame cfg s vid _
    · constructor <;> simp

theorem applyEvent_frame (cfg : Cfg α) (s : Strat α) (ev : Event α) :
    SameFrame s (applyEvent cfg s ev).1 := by
  unfold applyEvent
  split
  · exact applyFixedLoad_frame ..
  · exact applyLocalGen_frame ..
  · exact applyGridSignal_frame ..
  · exact applyVehicleEvent_frame ..

/-- events applied one after the other until one raises -/
def applyAll (cfg : Cfg α) : Strat α → List (Event α) → Strat α × Option PyErr
  | s, [] => (s, none)
  | s, ev :: l =>
    match applyEvent cfg s ev with
    | (s', some e) => (s', some e)
    | (s', none) => applyAll cfg s' l

theorem applyAll_frame (cfg : Cfg α) (s : Strat α) (l : List (Event α)) :
    SameFrame s (applyAll cfg s l).1 := by
  induction l generalizing s with
  | nil => exact SameFrame.refl s
  | cons ev l ih =>
    unfold applyAll
    have h := applyEvent_frame cfg s ev
    split
    · rename_i s' e heq; rw [heq] at h; exact h
    · rename_i s' heq; rw [heq] at h; exact h.trans (ih s')

/-! ### the `while` loop -/

theorem processQueue_spec (cfg : Cfg α) (s : Strat α) (q : List (Event α)) :
    (processQueue cfg s q).popped ++ (processQueue cfg s q).rest = q ∧
    (∀ e ∈ (processQueue cfg s q).popped, e.start ≤ s.now) ∧
    ((processQueue cfg s q).strat, (processQueue cfg s q).err)
      = applyAll cfg s (processQueue cfg s q).popped ∧
    ((processQueue cfg s q).err = none →
      (processQueue cfg s q).popped = q.takeWhile (fun e => decide (e.start ≤ s.now)) ∧
      (processQueue cfg s q).rest = q.dropWhile (fun e => decide (e.start ≤ s.now))) := by
  induction q generalizing s with
  | nil => simp [processQueue, applyAll]
  | cons ev rest ih =>
    unfold processQueue
    by_cases h : s.now < ev.start
    · simp [h, applyAll, not_le.mpr h]
    · simp only [h, if_false]
      have hle : ev.start ≤ s.now := not_lt.mp h
      have hf := applyEvent_frame cfg s ev
      cases hap : applyEvent cfg s ev with
      | mk s' oe =>
        rw [hap] at hf
        cases oe with
        | some e => simp [applyAll, hap, hle]
        | none =>
          obtain ⟨i1, i2, i3, i4⟩ := ih s'
          have hnow : s'.now = s.now := hf.now
          refine ⟨by simp [i1], ?_, ?_, ?_⟩
          · intro e he
            rcases List.mem_cons.mp he with rfl | he'
            · exact hle
            · rw [← hnow]; exact i2 e he'
          · show _ = applyAll cfg s (ev :: _)
            simp only [applyAll, hap]; exact i3
          · intro herr
            obtain ⟨j1, j2⟩ := i4 herr
            simp [List.takeWhile_cons, List.dropWhile_cons, hle, j1, j2, hnow]


theorem processQueue_frame (cfg : Cfg α) (s : Strat α) (q : List (Event α)) :
    SameFrame s (processQueue cfg s q).strat := by
  have h := (processQueue_spec cfg s q).2.2.1
  have h2 := applyAll_frame cfg s (processQueue cfg s q).popped
  rw [← h] at h2
  exact h2

/-! ### one `Strategy.step` -/

theorem sortByStart_eq (l : List (Event α)) : sortByStart l = l.mergeSort (keyLe Event.start) := rfl

theorem finishStep_proj (r : QResult α) :
    (finishStep r).popped = r.popped ∧ (finishStep r).strat.world.queue = r.rest ∧
    (finishStep r).strat.now = r.strat.now ∧
    (finishStep r).strat.world.stations = r.strat.world.stations ∧
    (finishStep r).strat.world.batteries = r.strat.world.batteries ∧
    (finishStep r).strat.world.vehicles = r.strat.world.vehicles ∧
    (finishStep r).strat.tracker = r.strat.tracker ∧
    (finishStep r).strat.desiredCounter = r.strat.desiredCounter ∧
    (finishStep r).strat.marginCounter = r.strat.marginCounter ∧
    ((finishStep r).err = none → r.err = none) ∧
    (r.err ≠ none → (finishStep r).err = r.err ∧
      (finishStep r).strat.world.connectors = r.strat.world.connectors) := by
  unfold finishStep
  cases h : r.err with
  | some e => simp
  | none => simp

theorem step_proj (cfg : Cfg α) (s : Strat α) (b : List (Event α)) :
    (s.step cfg b).popped = (processQueue cfg (s.tick cfg) (sortByStart (s.world.queue ++ b))).popped ∧
    (s.step cfg b).strat.world.queue
      = (processQueue cfg (s.tick cfg) (sortByStart (s.world.queue ++ b))).rest ∧
    (s.step cfg b).strat.now = s.now + cfg.interval ∧
    ((s.step cfg b).err = none →
      (processQueue cfg (s.tick cfg) (sortByStart (s.world.queue ++ b))).err = none) := by
  have hf := processQueue_frame cfg (s.tick cfg) (sortByStart (s.world.queue ++ b))
  obtain ⟨f1, f2, f3, -, -, -, -, -, -, f4, -⟩ :=
    finishStep_proj (processQueue cfg (s.tick cfg) (sortByStart (s.world.queue ++ b)))
  unfold Strat.step
  exact ⟨f1, f2, f3.trans hf.now, f4⟩

theorem step_spec (cfg : Cfg α) (s : Strat α) (b : List (Event α)) :
    (s.step cfg b).strat.now = s.now + cfg.interval ∧
    (s.step cfg b).popped ++ (s.step cfg b).strat.world.queue = sortByStart (s.world.queue ++ b) ∧
    (∀ e ∈ (s.step cfg b).popped, e.start ≤ s.now + cfg.interval) ∧
    ((s.step cfg b).err = none →
      (s.step cfg b).popped = (sortByStart (s.world.queue ++ b)).filter
          (fun e => decide (e.start ≤ s.now + cfg.interval)) ∧
      (s.step cfg b).strat.world.queue = (sortByStart (s.world.queue ++ b)).filter
          (fun e => decide (s.now + cfg.interval < e.start))) := by
  obtain ⟨p1, p2, p3, p4⟩ := step_proj cfg s b
  obtain ⟨q1, q2, q3, q4⟩ := processQueue_spec cfg (s.tick cfg) (sortByStart (s.world.queue ++ b))
  refine ⟨p3, ?_, ?_, ?_⟩
  · rw [p1, p2, q1]
  · rw [p1]; exact q2
  · intro h
    obtain ⟨r1, r2⟩ := q4 (p4 h)
    have hs : KeySorted Event.start (sortByStart (s.world.queue ++ b)) :=
      keySorted_mergeSort Event.start _
    obtain ⟨t1, t2⟩ := takeWhile_eq_filter_of_sorted Event.start (s.now + cfg.interval) _ hs
    rw [p1, p2, r1, r2]
    exact ⟨t1, t2⟩

/-! ### queue invariant of a run -/

/-- The events that are due in the step whose clock reads `now`: of those handed over in earlier
steps (`A`) the ones starting in `(now − Δ, now]`, of those handed over in this step (`b`) the ones
starting at or before `now`; sorted by start time, ties in hand-over order. -/
def dueList (Δ now : Int) (A b : List (Event α)) : List (Event α) :=
  sortByStart (A.filter (fun e => decide (now - Δ < e.start) && decide (e.start ≤ now))
    ++ b.filter (fun e => decide (e.start ≤ now)))

/-- The signalled, not yet started events, sorted by start time (stable). -/
def pendingList (now : Int) (A : List (Event α)) : List (Event α) :=
  sortByStart (A.filter (fun e => decide (now < e.start)))

theorem step_due (cfg : Cfg α) (hΔ : 0 < cfg.interval) (s : Strat α) (A b : List (Event α))
    (hq : s.world.queue = pendingList s.now A) :
    (s.step cfg b).popped <+: dueList cfg.interval (s.now + cfg.interval) A b ∧
    ((s.step cfg b).err = none →
      (s.step cfg b).popped = dueList cfg.interval (s.now + cfg.interval) A b ∧
      (s.step cfg b).strat.world.queue = pendingList (s.now + cfg.interval) (A ++ b)) := by
  obtain ⟨h1, h2, h3, h4⟩ := step_spec cfg s b
  have hsort : sortByStart (s.world.queue ++ b)
      = sortByStart (A.filter (fun e => decide (s.now < e.start)) ++ b) := by
    rw [hq]; unfold pendingList; simp only [sortByStart_eq]
    exact mergeSort_mergeSort_append Event.start _ b
  have hdue : (sortByStart (s.world.queue ++ b)).filter
        (fun e => decide (e.start ≤ s.now + cfg.interval))
      = dueList cfg.interval (s.now + cfg.interval) A b := by
    rw [hsort]; unfold dueList; simp only [sortByStart_eq]
    rw [filter_mergeSort, List.filter_append, List.filter_filter]
    congr 2
    apply List.filter_congr
    intro e _
    have : s.now + cfg.interval - cfg.interval = s.now := by ring
    rw [this, Bool.and_comm]
  have hpend : (sortByStart (s.world.queue ++ b)).filter
        (fun e => decide (s.now + cfg.interval < e.start))
      = pendingList (s.now + cfg.interval) (A ++ b) := by
    rw [hsort]; unfold pendingList; simp only [sortByStart_eq]
    rw [filter_mergeSort, List.filter_append, List.filter_append, List.filter_filter]
    congr 2
    apply List.filter_congr
    intro e _
    by_cases h : s.now + cfg.interval < e.start
    · have : s.now < e.start := by linarith
      simp [h, this]
    · simp [h]
  constructor
  · rw [← hdue]
    have hs : KeySorted Event.start (sortByStart (s.world.queue ++ b)) :=
      keySorted_mergeSort Event.start _
    rw [← (takeWhile_eq_filter_of_sorted Event.start (s.now + cfg.interval) _ hs).1, ← h2]
    rw [List.takeWhile_append_of_pos (by intro e he; simpa using h3 e he)]
    exact List.prefix_append _ _
  · intro herr
    obtain ⟨g1, g2⟩ := h4 herr
    exact ⟨g1.trans hdue, g2.trans hpend⟩

/-- a strategy action that does not touch the clock or the event queue -/
def KeepsQueue (rest : Strat α → Strat α × Option PyErr) : Prop :=
  ∀ s, (rest s).1.now = s.now ∧ (rest s).1.world.queue = s.world.queue

/-- **Queue invariant of a run.**  Started from a state whose queue is `pendingList now A`, the
`j`-th executed base step pops (a prefix of, and without an exception exactly) the due list of its
step, and leaves the pending list. -/
theorem run_due (cfg : Cfg α) (hΔ : 0 < cfg.interval)
    (rest : Strat α → Strat α × Option PyErr) (roe : Strat α → Strat α) (hrest : KeepsQueue rest) :
    ∀ (B : List (List (Event α))) (A : List (Event α)) (s : Strat α),
      s.world.queue = pendingList s.now A →
      ∀ (j : Nat) (r : StepResult α), (runLoop cfg rest roe s B).trace[j]? = some r →
        r.strat.now = s.now + ((j : Int) + 1) * cfg.interval ∧
        r.popped <+: dueList cfg.interval (s.now + ((j : Int) + 1) * cfg.interval)
            (A ++ (B.take j).flatten) (B[j]?.getD []) ∧
        (r.err = none →
          r.popped = dueList cfg.interval (s.now + ((j : Int) + 1) * cfg.interval)
            (A ++ (B.take j).flatten) (B[j]?.getD []) ∧
          r.strat.world.queue = pendingList (s.now + ((j : Int) + 1) * cfg.interval)
            (A ++ (B.take (j + 1)).flatten)) := by
  intro B
  induction B with
  | nil => intro A s _ j r h; simp [runLoop] at h
  | cons b B ih =>
    intro A s hq j r h
    obtain ⟨d1, d2⟩ := step_due cfg hΔ s A b hq
    have hnow := (step_spec cfg s b).1
    unfold runLoop at h
    cases j with
    | zero =>
      have hr : r = s.step cfg b := by
        dsimp only at h
        split at h
        · simpa using h.symm
        · split at h <;> simpa using h.symm
      subst hr
      simp only [Nat.cast_zero, zero_add, one_mul, List.take_zero, List.flatten_nil,
        List.append_nil, List.getElem?_cons_zero, Option.getD_some, List.take_succ_cons,
        List.flatten_cons]
      exact ⟨hnow, d1, d2⟩
    | succ j =>
      dsimp only at h
      split at h
      · simp at h
      · rename_i herr
        split at h
        · simp at h
        · rename_i s' hrs
          simp only [List.getElem?_cons_succ] at h
          obtain ⟨e1, e2⟩ := d2 herr
          have hk := hrest (s.step cfg b).strat
          rw [hrs] at hk
          have hq' : s'.world.queue = pendingList s'.now (A ++ b) := by
            rw [hk.2, hk.1, e2, hnow]
          have := ih (A ++ b) s' hq' j r h
          have hnow' : s'.now + ((j : Int) + 1) * cfg.interval
              = s.now + (((j + 1 : Nat) : Int) + 1) * cfg.interval := by
            rw [hk.1, hnow]; push_cast; ring
          rw [hnow'] at this
          simpa [List.take_succ_cons, List.flatten_cons, List.append_assoc] using this

/-! ### from buckets to the effect step -/

/-- `⌈(e.start − start)/Δ⌉`: index of the first simulation step at or after the event's start -/
def startIndex (start Δ : Int) (e : Event α) : Int := bucketIndex start e.start Δ

/-- the step in which an event takes effect, `max (bucket e) ⌈(e.start − start)/Δ⌉`
(`none`: the event is dropped by `get_event_steps`) -/
def effectStep (start : Int) (n : Nat) (Δ : Int) (e : Event α) : Option Nat :=
  (bucketOf start n Δ e).map (fun b => max b (startIndex start Δ e).toNat)

theorem bucketOf_lt (start : Int) (n : Nat) (Δ : Int) (hn : 0 < n) (e : Event α) (k : Nat)
    (h : bucketOf start n Δ e = some k) : k < n := by
  unfold bucketOf at h
  dsimp only at h
  split at h
  · simp at h; omega
  · split at h
    · simp at h
    · simp at h; omega

theorem bucketsOf_getElem? (start : Int) (n : Nat) (Δ : Int) (all : List (Event α)) (k : Nat)
    (hk : k < n) :
    (bucketsOf start n Δ all)[k]? = some (all.filter (fun e => bucketOf start n Δ e == some k)) := by
  unfold bucketsOf
  simp [hk]

theorem mem_take_flatten_bucketsOf (start : Int) (n : Nat) (Δ : Int) (hn : 0 < n)
    (all : List (Event α)) (j : Nat) (e : Event α) :
    e ∈ ((bucketsOf start n Δ all).take j).flatten ↔
      e ∈ all ∧ ∃ k, k < j ∧ bucketOf start n Δ e = some k := by
  unfold bucketsOf
  rw [← List.map_take, List.mem_flatten]
  constructor
  · rintro ⟨l, hl, hel⟩
    obtain ⟨k, hk, rfl⟩ := List.mem_map.mp hl
    have hk' := List.mem_take_iff_getElem.mp hk
    obtain ⟨i, hi, hik⟩ := hk'
    simp at hik hi
    rw [List.mem_filter] at hel
    refine ⟨hel.1, k, ?_, by simpa using hel.2⟩
    omega
  · rintro ⟨hall, k, hkj, hb⟩
    have hkn := bucketOf_lt start n Δ hn e k hb
    refine ⟨all.filter (fun e => bucketOf start n Δ e == some k), ?_, ?_⟩
    · apply List.mem_map.mpr
      refine ⟨k, ?_, rfl⟩
      rw [List.mem_take_iff_getElem]
      exact ⟨k, by simp; omega, by simp⟩
    · rw [List.mem_filter]; exact ⟨hall, by simp [hb]⟩

theorem start_le_iff (start Δ : Int) (hΔ : 0 < Δ) (e : Event α) (j : Int) :
    e.start ≤ start + j * Δ ↔ startIndex start Δ e ≤ j :=
  (le_bucketIndex_iff start e.start Δ j hΔ).symm

/-- membership in the due list of step `j` of a run fed by `get_event_steps` -/
theorem mem_dueList_iff (start : Int) (n : Nat) (Δ : Int) (hΔ : 0 < Δ) (hn : 0 < n)
    (all : List (Event α)) (j : Nat) (hj : j < n) (e : Event α) :
    e ∈ dueList Δ (start + (j : Int) * Δ) (((bucketsOf start n Δ all).take j).flatten)
        ((bucketsOf start n Δ all)[j]?.getD []) ↔
      e ∈ all ∧ effectStep start n Δ e = some j := by
  unfold dueList
  rw [sortByStart_eq, (List.mergeSort_perm _ _).mem_iff, List.mem_append, List.mem_filter,
    List.mem_filter, mem_take_flatten_bucketsOf start n Δ hn, bucketsOf_getElem? start n Δ all j hj]
  simp only [Option.getD_some, List.mem_filter, Bool.and_eq_true, decide_eq_true_eq, beq_iff_eq]
  have h1 : start + (j : Int) * Δ - Δ = start + ((j : Int) - 1) * Δ := by ring
  rw [h1, start_le_iff start Δ hΔ e j]
  have h2 : start + ((j : Int) - 1) * Δ < e.start ↔ (j : Int) ≤ startIndex start Δ e := by
    rw [← not_le, start_le_iff start Δ hΔ e]; omega
  rw [h2]
  unfold effectStep
  constructor
  · rintro (⟨⟨hall, k, hk, hb⟩, hc1, hc2⟩ | ⟨⟨hall, hb⟩, hc⟩)
    · refine ⟨hall, ?_⟩
      rw [hb]; simp only [Option.map_some, Option.some.injEq]
      have : startIndex start Δ e = j := le_antisymm hc2 hc1
      rw [this]; simp; omega
    · refine ⟨hall, ?_⟩
      rw [hb]; simp only [Option.map_some, Option.some.injEq]
      omega
  · rintro ⟨hall, h⟩
    cases hb : bucketOf start n Δ e with
    | none => rw [hb] at h; simp at h
    | some b =>
      rw [hb] at h; simp only [Option.map_some, Option.some.injEq] at h
      by_cases hbj : b = j
      · right; subst hbj; exact ⟨⟨hall, rfl⟩, by omega⟩
      · left
        have hbl : b < j := by omega
        refine ⟨⟨hall, b, hbl, rfl⟩, by omega, by omega⟩

/-- the events applied up to and including the `j`-th executed step, in application order -/
def appliedLog (trace : List (StepResult α)) (j : Nat) : List (Event α) :=
  (trace.take (j + 1)).flatMap (·.popped)

end SpiceEv
