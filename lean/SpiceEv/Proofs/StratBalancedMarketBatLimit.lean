/-
The battery block of `step_gc` after repair BM2: every stationary battery charges within what is left
at the connector right now, and supports the connector only down to `−limit`.
-/
import SpiceEv.Proofs.StratBalancedMarketLimit
set_option linter.unusedSectionVars false
set_option linter.unusedSimpArgs false
set_option linter.unusedVariables false
namespace SpiceEv.BalancedMarket
open SpiceEv
variable {α B : Type} [Field α] [LinearOrder α] [IsStrictOrderedRing α]

/-- `p = 0 if p < battery.min_charging_power else p` -/
theorem minCut_bounds (x minCh : α) (hm : 0 ≤ minCh) :
    0 ≤ (if x < minCh then 0 else x) ∧ (if x < minCh then 0 else x) ≤ max 0 x := by
  split
  · exact ⟨le_refl _, le_max_left _ _⟩
  · rename_i h
    exact ⟨le_trans hm (not_lt.mp h), le_max_right _ _⟩

/-- the power noted for the current timestep: unchanged for `i ≠ 0` -/
theorem batNaive_bp_succ (ops : Ops α B) (minCh : α) :
    ∀ (l : List (TS α)) (i : Nat) (bat bat' : B) (bp bp' : α),
      batNaive ops minCh l (i + 1) bat bp = .ok (bat', bp') → bp' = bp := by
  intro l
  induction l with
  | nil => intro i bat bat' bp bp' h; simp only [batNaive, Except.ok.injEq, Prod.mk.injEq] at h; exact h.2.symm
  | cons t rest ih =>
    intro i bat bat' bp bp' h
    unfold batNaive at h
    simp only [bind, Except.bind] at h
    split at h
    · cases h
    · have := ih (i + 1) _ _ _ _ h
      simpa using this

theorem batPass_bp_succ (ops : Ops α B) (minCh power : α) :
    ∀ (l : List (TS α)) (i : Nat) (bat bat' : B) (bp bp' : α),
      batPass ops minCh power l (i + 1) bat bp = .ok (bat', bp') → bp' = bp := by
  intro l
  induction l with
  | nil => intro i bat bat' bp bp' h; simp only [batPass, Except.ok.injEq, Prod.mk.injEq] at h; exact h.2.symm
  | cons t rest ih =>
    intro i bat bat' bp bp' h
    unfold batPass at h
    simp only [bind, Except.bind] at h
    split at h
    · cases h
    · have := ih (i + 1) _ _ _ _ h
      simpa using this

/-- "`bp` is a charging power within `X`" -/
def BpOK (X bp : α) : Prop := 0 ≤ bp ∧ bp ≤ max 0 X

theorem batNaive_bp (ops : Ops α B) (minCh : α) (hm : 0 ≤ minCh) (X : α) (l : List (TS α))
    (hl : ∀ t0 rest, l = t0 :: rest → t0.power ≤ X)
    (bat bat' : B) (bp bp' : α) (hbp : BpOK X bp)
    (h : batNaive ops minCh l 0 bat bp = .ok (bat', bp')) : BpOK X bp' := by
  cases l with
  | nil => simp only [batNaive, Except.ok.injEq, Prod.mk.injEq] at h; rw [← h.2]; exact hbp
  | cons t rest =>
    unfold batNaive at h
    simp only [bind, Except.bind] at h
    split at h
    · cases h
    · have := batNaive_bp_succ ops minCh rest 0 _ _ _ _ h
      simp only [beq_self_eq_true, if_true] at this
      rw [this]
      obtain ⟨h1, h2⟩ := minCut_bounds t.power minCh hm
      exact ⟨h1, le_trans h2 (max_le_max (le_refl _) (hl t rest rfl))⟩

theorem batPass_bp (ops : Ops α B) (minCh power : α) (hm : 0 ≤ minCh) (X : α) (l : List (TS α))
    (hl : ∀ t0 rest, l = t0 :: rest → t0.power ≤ X)
    (bat bat' : B) (bp bp' : α) (hbp : BpOK X bp)
    (h : batPass ops minCh power l 0 bat bp = .ok (bat', bp')) : BpOK X bp' := by
  cases l with
  | nil => simp only [batPass, Except.ok.injEq, Prod.mk.injEq] at h; rw [← h.2]; exact hbp
  | cons t rest =>
    unfold batPass at h
    simp only [bind, Except.bind] at h
    split at h
    · cases h
    · have := batPass_bp_succ ops minCh power rest 0 _ _ _ _ h
      simp only [beq_self_eq_true, if_true] at this
      rw [this]
      obtain ⟨h1, h2⟩ := minCut_bounds (pymin t.power power) minCh hm
      refine ⟨h1, le_trans h2 (max_le_max (le_refl _) ?_)⟩
      simp only [pymin_eq]
      exact le_trans (min_le_left _ _) (hl t rest rfl)

theorem batBisect_bp (ops : Ops α B) (eps minCh : α) (hm : 0 ≤ minCh) (X : α) (cheap : List (TS α))
    (hl : ∀ t0 rest, cheap = t0 :: rest → t0.power ≤ X) (oldSoc : α) :
    ∀ (fuel : Nat) (minP maxP : α) (bat bat' : B) (bp bp' : α), BpOK X bp →
      batBisect ops eps minCh cheap oldSoc fuel minP maxP bat bp = .ok (bat', bp') → BpOK X bp' := by
  intro fuel
  induction fuel with
  | zero => intro minP maxP bat bat' bp bp' _ h; simp [batBisect] at h
  | succ n ih =>
    intro minP maxP bat bat' bp bp' hbp h
    unfold batBisect at h
    split at h
    · simp only [bind, Except.bind] at h
      split at h
      · cases h
      · rename_i r hr
        obtain ⟨b1, bp1⟩ := r
        have h1 := batPass_bp ops minCh _ hm X cheap hl _ b1 bp bp1 hbp hr
        simp only at h
        split at h
        · exact ih _ _ _ _ _ _ h1 h
        · exact ih _ _ _ _ _ _ h1 h
    · simp only [Except.ok.injEq, Prod.mk.injEq] at h
      rw [← h.2]; exact hbp

/-- `capTs`: for `n > 0` the head of the forecast is at most the headroom; the list stays non-empty -/
theorem capTs_head (n : Nat) (ts : List (TS α)) (H : α) (hn : 0 < n) :
    ∀ t0 rest, (capTs n ts H).take n = t0 :: rest → t0.power ≤ H := by
  intro t0 rest h
  unfold capTs at h
  rw [if_pos hn] at h
  cases ts with
  | nil => simp at h
  | cons t tss =>
    obtain ⟨k, rfl⟩ : ∃ k, n = k + 1 := ⟨n - 1, by omega⟩
    simp only [List.take_succ_cons, List.cons.injEq] at h
    rw [← h.1]
    simp only [pymin_eq]
    exact min_le_right _ _

/-- **one stationary battery** (any price situation), starting with nobody discharging: the connector
stays within `[−M, M]`; only the support discharge (`num_cheap_ts = 0`) can add to `discharging_stations` -/
theorem batteryBody_bounds (ops : Ops α B) (law : BatLaw ops.toBatOps) (env : Env α) (M : α)
    (gid : String) (nCheap : Option Nat) (g g' : GSt α B) (bid : String)
    (hmin : ∀ b ∈ g.w.batteries, 0 ≤ b.minChargingPower) (hM : 0 ≤ M)
    (hcm : g.gc.curMax = M) (hid : g.gc.id = gid) (hlo : -M ≤ g.gc.currentLoad)
    (hhi : g.gc.currentLoad ≤ M) (hdis : g.dis = [])
    (h : batteryBody ops env nCheap g bid = .ok g') :
    g'.gc.curMax = M ∧ g'.gc.id = gid ∧ -M ≤ g'.gc.currentLoad ∧ g'.gc.currentLoad ≤ M ∧
      (g'.dis = [] ∨ nCheap = some 0) ∧ (∀ b ∈ g'.w.batteries, 0 ≤ b.minChargingPower) := by
  unfold batteryBody at h
  split at h
  · cases h
  · rename_i b hb
    have hbm : b ∈ g.w.batteries := List.mem_of_find?_eq_some hb
    have hmc := hmin b hbm
    split at h
    · simp only [Except.ok.injEq] at h; subst h
      exact ⟨hcm, hid, hlo, hhi, Or.inl hdis, hmin⟩
    · split at h
      · cases h
      · rename_i n
        simp only [bind, Except.bind] at h
        have hset : ∀ bt : B, ∀ b' ∈ (g.w.setBattery { b with bat := bt }).batteries, 0 ≤ b'.minChargingPower := by
          intro bt b' hb'
          unfold SWorld.setBattery at hb'
          simp only [List.mem_map] at hb'
          obtain ⟨x, hx, rfl⟩ := hb'
          split
          · exact hmc
          · exact hmin x hx
        rw [hdis, currentLoadExcl_nil] at h
        -- the power the battery is asked to take
        set X : α := if 0 < n then M - g.gc.currentLoad else -g.gc.currentLoad with hX
        have hcheap : ∀ t0 rest, (capTs n g.ts (g.gc.curMax - g.gc.currentLoad)).take n = t0 :: rest →
            t0.power ≤ X := by
          intro t0 rest ht
          by_cases hn : 0 < n
          · rw [hX, if_pos hn, ← hcm]
            exact capTs_head n g.ts _ hn t0 rest ht
          · have : n = 0 := by omega
            subst this
            simp at ht
        have hbp0 : BpOK X (pymax (-g.gc.currentLoad) 0) := by
          simp only [pymax_eq]
          refine ⟨le_max_right _ _, ?_⟩
          by_cases hn : 0 < n
          · rw [hX, if_pos hn]
            apply max_le
            · exact le_trans (by linarith) (le_max_right _ _)
            · exact le_max_left _ _
          · rw [hX, if_neg hn, max_comm]
        split at h
        · cases h
        · rename_i r1 hr1
          obtain ⟨bat1, bp1⟩ := r1
          have h1 := batNaive_bp ops b.minChargingPower hmc X _ hcheap _ bat1 _ bp1 hbp0 hr1
          simp only at h
          split at h
          · cases h
          · rename_i r2 hr2
            obtain ⟨bat2, bp2⟩ := r2
            have h2 : BpOK X bp2 := by
              split at hr2
              · exact batBisect_bp ops env.eps b.minChargingPower hmc X _ hcheap _ _ _ _ _ bat2 _ bp2
                  ⟨le_refl _, le_max_left _ _⟩ hr2
              · simp only [pure, Except.pure, Except.ok.injEq, Prod.mk.injEq] at hr2
                rw [← hr2.2]; exact h1
            simp only at h
            split at h
            · cases h
            · rename_i r3 hr3
              obtain ⟨bat3, avg⟩ := r3
              have hl := law.load_target _ _ _ _ hr3
              rw [max_eq_left h2.1] at hl
              obtain ⟨hc1, hc2, hc3, _⟩ := addLoad_currentLoad g.gc bid avg
              -- load after the real charge
              have hload1 : (g.gc.addLoad bid avg).1.currentLoad ≤ M := by
                rw [hc1]
                have hav : avg ≤ max 0 X := le_trans hl.2 h2.2
                by_cases hn : 0 < n
                · rw [hX, if_pos hn] at hav
                  rcases le_total 0 (M - g.gc.currentLoad) with h0 | h0
                  · rw [max_eq_right h0] at hav; linarith
                  · rw [max_eq_left h0] at hav; linarith
                · rw [hX, if_neg hn] at hav
                  rcases le_total 0 (-g.gc.currentLoad) with h0 | h0
                  · rw [max_eq_right h0] at hav; linarith
                  · rw [max_eq_left h0] at hav; linarith
              have hload1lo : -M ≤ (g.gc.addLoad bid avg).1.currentLoad := by
                rw [hc1]; linarith [hl.1]
              simp only at h
              split at h
              · rename_i hcond
                split at h
                · cases h
                · rename_i r4 hr4
                  obtain ⟨bat4, out⟩ := r4
                  simp only [Except.ok.injEq] at h
                  subst h
                  have hu := law.unload_target _ _ _ _ hr4
                  obtain ⟨hd1, hd2, hd3, _⟩ := addLoad_currentLoad (g.gc.addLoad bid avg).1 bid (-out)
                  have hn0 : n = 0 := by simpa using hcond.2.1
                  refine ⟨by show ((g.gc.addLoad bid avg).1.addLoad bid (-out)).1.curMax = M; rw [hd2, hc2, hcm],
                    by show ((g.gc.addLoad bid avg).1.addLoad bid (-out)).1.id = gid; rw [hd3, hc3, hid],
                    ?_, ?_, Or.inr (by rw [hn0]), ?_⟩
                  · show -M ≤ ((g.gc.addLoad bid avg).1.addLoad bid (-out)).1.currentLoad
                    rw [hd1]
                    simp only [pymin_eq] at hu
                    rcases le_total (min g.gc.currentLoad ((g.gc.addLoad bid avg).1.curMax + (g.gc.addLoad bid avg).1.currentLoad)) 0 with h0 | h0
                    · rw [max_eq_right h0] at hu
                      have : out = 0 := le_antisymm hu.2 hu.1
                      rw [this]; linarith
                    · rw [max_eq_left h0] at hu
                      have := le_trans hu.2 (min_le_right _ _)
                      rw [hc2, hcm] at this
                      linarith
                  · show ((g.gc.addLoad bid avg).1.addLoad bid (-out)).1.currentLoad ≤ M
                    rw [hd1]; linarith [hu.1]
                  · exact hset bat4
              · simp only [Except.ok.injEq] at h
                subst h
                refine ⟨by show (g.gc.addLoad bid avg).1.curMax = M; rw [hc2, hcm],
                  by show (g.gc.addLoad bid avg).1.id = gid; rw [hc3, hid], hload1lo, hload1, Or.inl rfl, hset bat3⟩

/-! ### the price pattern `num_cheap_ts` only depends on the prices, which the vehicle loop keeps -/

theorem updateTimesteps_costs (ops : Ops α B) (dl : α) :
    ∀ (power : List α) (ts ts' : List (TS α)) (sim : B),
      updateTimesteps ops dl power ts sim = .ok ts' → ts'.map (·.cost) = ts.map (·.cost) := by
  intro power
  induction power with
  | nil => intro ts ts' sim h; rw [updateTimesteps_nil] at h; simp only [Except.ok.injEq] at h; rw [h]
  | cons p rest ih =>
    intro ts ts' sim h
    cases ts with
    | nil => simp [updateTimesteps] at h
    | cons t tss =>
      unfold updateTimesteps at h
      split at h
      · simp only [bind, Except.bind] at h
        split at h
        · cases h
        · split at h
          · cases h
          · rename_i r hr
            simp only [Except.ok.injEq] at h
            rw [← h]; simp only [List.map_cons]; rw [ih _ _ _ hr]
      · split at h
        · simp only [bind, Except.bind] at h
          split at h
          · cases h
          · split at h
            · cases h
            · rename_i r hr
              simp only [Except.ok.injEq] at h
              rw [← h]; simp only [List.map_cons]; rw [ih _ _ _ hr]
        · simp only [bind, Except.bind] at h
          split at h
          · cases h
          · rename_i r hr
            simp only [Except.ok.injEq] at h
            rw [← h]; simp only [List.map_cons]; rw [ih _ _ _ hr]

theorem vehicleBody_costs (ops : Ops α B) (env : Env α) (g g' : GSt α B) (vid : String)
    (h : vehicleBody ops env g vid = .ok g') : g'.ts.map (·.cost) = g.ts.map (·.cost) := by
  unfold vehicleBody at h
  split at h
  · cases h
  · split at h
    · cases h
    · split at h
      · cases h
      · split at h
        · cases h
        · simp only [bind, Except.bind] at h
          split at h
          · cases h
          · split at h
            · cases h
            · split at h
              · cases h
              · split at h
                · cases h
                · rename_i ts' hts
                  simp only [Except.ok.injEq] at h
                  subst h
                  exact updateTimesteps_costs ops _ _ _ _ _ hts

theorem surplusBody_ts (ops : Ops α B) (env : Env α) (g g' : GSt α B) (vid : String)
    (h : surplusBody ops env g vid = .ok g') : g'.ts = g.ts := by
  unfold surplusBody at h
  split at h
  · cases h
  · split at h
    · cases h
    · split at h
      · cases h
      · simp only at h
        split at h
        · simp only [bind, Except.bind] at h
          split at h
          · cases h
          · simp only [Except.ok.injEq] at h
            subst h; rfl
        · simp only [Except.ok.injEq] at h
          subst h; rfl

theorem numCheapAux_congr (thr : α) : ∀ (ts ts' : List (TS α)) (i : Nat),
    ts.map (·.cost) = ts'.map (·.cost) → numCheapAux thr ts i = numCheapAux thr ts' i := by
  intro ts
  induction ts with
  | nil =>
    intro ts' i h
    cases ts' with
    | nil => rfl
    | cons _ _ => simp at h
  | cons t rest ih =>
    intro ts' i h
    cases ts' with
    | nil => simp at h
    | cons t' rest' =>
      simp only [List.map_cons, List.cons.injEq] at h
      unfold numCheapAux
      rw [h.1, ih rest' (i + 1) h.2]

theorem numCheap_congr (thr : α) (ts ts' : List (TS α)) (h : ts.map (·.cost) = ts'.map (·.cost)) :
    numCheap thr ts = numCheap thr ts' := by
  cases ts with
  | nil =>
    cases ts' with
    | nil => rfl
    | cons _ _ => simp at h
  | cons t rest =>
    cases ts' with
    | nil => simp at h
    | cons t' rest' =>
      unfold numCheap
      simp only
      rw [numCheapAux_congr thr _ _ 0 h]

/-! ### `step_gc` with stationary batteries (repair BM2), without V2G vehicles -/

/-- what the battery loop needs and keeps -/
def BatInv (M : α) (gid : String) (g : GSt α B) : Prop :=
  g.gc.curMax = M ∧ g.gc.id = gid ∧ -M ≤ g.gc.currentLoad ∧ g.gc.currentLoad ≤ M ∧ g.dis = [] ∧
    ∀ b ∈ g.w.batteries, 0 ≤ b.minChargingPower

theorem stepGc_limit_bat (ops : Ops α B) (law : BatLaw ops.toBatOps) (R : B → B → Prop)
    (sl : SimLaw ops R) (env : Env α) (w w' : SWorld α B) (gcId : String)
    (cmds : List (String × α)) (gc : GcS α) (hgc : w.gc? gcId = some gc)
    (heps : 0 ≤ env.eps) (hM : 0 ≤ gc.curMax) (hlo0 : -gc.curMax ≤ gc.currentLoad)
    (hbase : gc.currentLoad ≤ gc.curMax)
    (hfut : ∀ e ∈ env.events, env.now < e.start) (hW : WInv w)
    (hnov2g : ∀ v ∈ w.vehicles, v.v2g = false)
    (hmin : ∀ b ∈ w.batteries, 0 ≤ b.minChargingPower)
    (ts0 : List (TS α)) (hts0 : timestepsOf ops env gc = .ok ts0)
    (hmode : w.batteries.length ≤ 1 ∨ ∃ k, numCheap env.priceThreshold ts0 = .ok (some (k + 1)))
    (h : stepGc ops env w gcId = .ok (w', cmds)) :
    ∀ g' ∈ w'.gcs, g'.id = gcId →
      -gc.curMax ≤ g'.currentLoad ∧ g'.currentLoad ≤ gc.curMax ∧ g'.curMax = gc.curMax := by
  obtain ⟨_, hgid⟩ := gc?_some w gcId gc hgc
  unfold stepGc at h
  rw [hgc] at h
  simp only [bind, Except.bind] at h
  split at h
  · cases h
  · rename_i vs hvs
    split at h
    · cases h
    · rename_i vids hvids
      rw [hts0] at h
      simp only at h
      split at h
      · cases h
      · rename_i g1 hg1
        split at h
        · cases h
        · rename_i g2 hg2
          split at h
          · cases h
          · rename_i nCheap hn
            split at h
            · cases h
            · rename_i g3 hg3
              simp only [Except.ok.injEq, Prod.mk.injEq] at h
              obtain ⟨rfl, _⟩ := h
              have hhead := timestepsOf_head ops env gc ts0 hfut hts0
              have h0 : GInv gc.curMax gc.currentLoad gcId (⟨w, gc, ts0, [], []⟩ : GSt α B) ∧
                  (⟨w, gc, ts0, [], []⟩ : GSt α B).w.batteries = w.batteries ∧
                  (⟨w, gc, ts0, [], []⟩ : GSt α B).ts.map (·.cost) = ts0.map (·.cost) :=
                ⟨⟨rfl, hgid, le_refl _, hbase, fun t0 ht0 => by rw [hhead t0 ht0], rfl, hW, hnov2g⟩, rfl, rfl⟩
              have h1 := foldlM_inv _
                (fun g => GInv gc.curMax gc.currentLoad gcId g ∧ g.w.batteries = w.batteries ∧
                  g.ts.map (·.cost) = ts0.map (·.cost))
                (fun g vid g' hg hstep =>
                  ⟨vehicleBody_GInv ops law R sl env _ _ gcId g g' vid hg.1 hstep,
                   by rw [vehicleBody_batteries ops env g g' vid hstep]; exact hg.2.1,
                   by rw [vehicleBody_costs ops env g g' vid hstep]; exact hg.2.2⟩)
                vids _ g1 h0 hg1
              have h2 := foldlM_inv _
                (fun g => GInv2 gc.curMax gc.currentLoad gcId g ∧ g.w.batteries = w.batteries ∧
                  g.ts.map (·.cost) = ts0.map (·.cost))
                (fun g vid g' hg hstep =>
                  ⟨surplusBody_GInv2 ops law env _ _ gcId heps hM g g' vid hg.1 hstep,
                   by rw [surplusBody_batteries ops env g g' vid hstep]; exact hg.2.1,
                   by rw [surplusBody_ts ops env g g' vid hstep]; exact hg.2.2⟩)
                vids _ g2 ⟨h1.1.toGInv2, h1.2⟩ hg2
              have hb2 : BatInv gc.curMax gcId g2 :=
                ⟨h2.1.curMax, h2.1.gcid, le_trans hlo0 h2.1.lo, h2.1.hi, h2.1.dis,
                  by rw [h2.2.1]; exact hmin⟩
              have hn0 : numCheap env.priceThreshold ts0 = .ok nCheap := by
                rw [← numCheap_congr env.priceThreshold g2.ts ts0 h2.2.2]; exact hn
              -- the battery loop
              have h3 : g3.gc.curMax = gc.curMax ∧ g3.gc.id = gcId ∧ -gc.curMax ≤ g3.gc.currentLoad ∧
                  g3.gc.currentLoad ≤ gc.curMax := by
                rcases hmode with hone | ⟨k, hk⟩
                · -- at most one stationary battery
                  cases hbs : w.batteries with
                  | nil =>
                    rw [hbs] at hg3
                    simp only [List.map_nil, List.foldlM_nil, pure, Except.pure, Except.ok.injEq] at hg3
                    subst hg3
                    exact ⟨hb2.1, hb2.2.1, hb2.2.2.1, hb2.2.2.2.1⟩
                  | cons b rest =>
                    have hrest : rest = [] := by
                      rw [hbs] at hone
                      simp only [List.length_cons] at hone
                      exact List.eq_nil_of_length_eq_zero (by omega)
                    rw [hbs, hrest] at hg3
                    simp only [List.map_cons, List.map_nil, List.foldlM_cons, List.foldlM_nil, bind,
                      Except.bind, pure, Except.pure] at hg3
                    split at hg3
                    · cases hg3
                    · rename_i gx hgx
                      simp only [Except.ok.injEq] at hg3
                      subst hg3
                      obtain ⟨a1, a2, a3, a4, _, _⟩ := batteryBody_bounds ops law env gc.curMax gcId nCheap g2 gx
                        b.id hb2.2.2.2.2.2 hM hb2.1 hb2.2.1 hb2.2.2.1 hb2.2.2.2.1 hb2.2.2.2.2.1 hgx
                      exact ⟨a1, a2, a3, a4⟩
                · -- a cheap current step followed by at least one more step: nobody is discharged
                  rw [hk] at hn0
                  simp only [Except.ok.injEq] at hn0
                  have := foldlM_inv _ (fun g => BatInv gc.curMax gcId g)
                    (fun g bid g' hg hstep => by
                      obtain ⟨a1, a2, a3, a4, a5, a6⟩ := batteryBody_bounds ops law env gc.curMax gcId nCheap
                        g g' bid hg.2.2.2.2.2 hM hg.1 hg.2.1 hg.2.2.1 hg.2.2.2.1 hg.2.2.2.2.1 hstep
                      refine ⟨a1, a2, a3, a4, ?_, a6⟩
                      rcases a5 with a5 | a5
                      · exact a5
                      · rw [← hn0] at a5; simp at a5)
                    _ _ g3 hb2 hg3
                  exact ⟨this.1, this.2.1, this.2.2.1, this.2.2.2.1⟩
              intro g' hg' hid
              unfold SWorld.setGc at hg'
              simp only [List.mem_map] at hg'
              obtain ⟨x, hx, rfl⟩ := hg'
              split at hid
              · rename_i hxid
                rw [if_pos hxid]
                exact ⟨h3.2.2.1, h3.2.2.2, h3.1⟩
              · rename_i hxid
                exfalso
                apply hxid
                rw [h3.2.1]
                simpa using hid

end SpiceEv.BalancedMarket
