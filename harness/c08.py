"""C08 — vehicle trip state machine and negative-SoC policy.

Correspondence (exact): the same adapter as C07 (evwire.py) — real `Events`, `get_event_steps` and a
bare `strategy.Strategy` stepped with `Strategy.step(bucket)`; vehicle attributes (station, ETA, ETD,
desired SoC, SoC, presence/value of `soc_delta`, schedule), counters, tracker and the error kind are
compared with the Lean model after every step.  A second stream runs the REAL `Scenario.run` (greedy,
stations with 0 kW so that the strategy itself cannot move any SoC) and compares `step_i`, abort flag,
tracker, counters and final vehicle state with the model's `runLoop` — this is the first `try/except`
of `Scenario.run`.

Oracle (Python, independent, states the property): replaying the applied vehicle events in the
observed order — an arrival lowers the SoC by the trip consumption once and connects the vehicle to
the announced station with the announced departure time / desired SoC; a departure disconnects it and
clears the departure estimate; the SoC of a vehicle changes in no other way (one documented
exception: a departure dated more than one interval in the past sets soc := desired_soc); arrival
below −EPS: time recorded, run stops with RuntimeError unless allowed, SoC reset to 0 iff requested;
counters = number of departures of connected vehicles below desired − EPS (resp. 0 ≤ soc < (1 −
margin)·desired − EPS); an error stops the run in that step.
"""
import datetime
import io
import itertools
import random
import contextlib
import warnings
from fractions import Fraction as F

import engine
import evwire
from evwire import num, opt
from c07 import at, mk_vehicle, mk_signal, run_case, START, DELTA_S, N

PID = "C08"
RULE = ("bounded-exhaustive: every sequence of <= 3 vehicle events for one vehicle over the alphabet "
        "{arrival -1/8, arrival -3/4, arrival to the exact -EPS boundary, arrival without soc_delta, "
        "departure, departure announcing desired_soc 1, departure carrying a soc_delta, schedule} x start "
        "slot in {-2, 0, 1, 4/3, 3} steps (65 640 sequences; double arrival, departure without arrival, "
        "same-step pairs, past departures included) x vehicle initially connected / not x "
        "ALLOW/RESET in {FF, TF, TT, FT} x margin in {0, 1/10, 1} x EPS in {code default, 1/8}: thorough tier "
        "= all sequences; those of length <= 2 with all 24 option combinations, those of length 3 with 6 "
        "of the 24 (rotated) — 0.87 M runs; quick tier = every 11th sequence (offset by seed) with one "
        "rotated combination; random histories of 4-5 events for two vehicles plus an unknown id "
        "(quick 25k, thorough 200k); real Scenario.run runs (quick 150, thorough 3000). "
        "non-trivial = at least one vehicle event applied")
EXHAUSTIVE = {"quick": False, "thorough": True}
CHUNK = 400
ASSUMPTIONS = [
    "SoC values, soc_delta and desired SoC on the lattice of eighths, EPS and margin handed to the "
    "strategy as exact rationals (or left at the float defaults 1e-5 / 0.1, where no comparison on the "
    "lattice comes within rounding distance of its threshold): all float operations of the branch exact",
    "update keys other than estimated_time_of_arrival/departure, desired_soc, soc_delta, "
    "connected_charging_station, schedule are not modelled (no statement of Strategy.step reads them)",
    "the strategy's own action leaves disconnected vehicles and the two counters alone (hypotheses "
    "KeepsDisconnected / KeepsCounters; true for apply_battery_losses because vehicles carry no loss "
    "rate, and for greedy/balanced/distributed which only charge connected vehicles)",
]
UNPROVED = [
    "that the six look-ahead strategies leave disconnected vehicles alone is not proved (they are not "
    "modelled); the theorem takes it as hypothesis KeepsDisconnected",
]

engine.use_repo()

SLOTS = [F(-2), F(0), F(1), F(4, 3), F(3)]
OPT_COMBOS = [(a, r, m, e) for (a, r) in [(False, False), (True, False), (True, True), (False, True)]
              for m in ["0", "1/10", "1"] for e in [None, "1/8"]]


def components(v1_connected=True, soc1=0.5, two=True, power=11):
    c = {
        "vehicle_types": {"t": {"name": "t", "capacity": 8, "charging_curve": [[0, 11], [1, 11]]}},
        "vehicles": {"v1": {"vehicle_type": "t", "soc": soc1, "desired_soc": 0.75}},
        "grid_connectors": {"g1": {"max_power": 100, "cost": {"type": "fixed", "value": 0.125}}},
        "charging_stations": {"cs1": {"max_power": power, "parent": "g1"}, "cs2": {"max_power": power, "parent": "g1"}},
    }
    if v1_connected:
        c["vehicles"]["v1"]["connected_charging_station"] = "cs1"
        c["vehicles"]["v1"]["estimated_time_of_departure"] = at(2)
    if two:
        c["vehicles"]["v2"] = {"vehicle_type": "t", "soc": 0.625, "desired_soc": 0.5}
    return c


def alphabet_event(kind, slot, vid="v1", eps=None):
    st = at(slot)
    sg = at(slot - 3)
    if kind == "a1":
        return mk_vehicle(sg, st, vid, "arrival", soc_delta=-0.125, connected_charging_station="cs1",
                          estimated_time_of_departure=at(slot + 2), desired_soc=0.75)
    if kind == "a2":
        return mk_vehicle(sg, st, vid, "arrival", soc_delta=-0.75, connected_charging_station="cs2",
                          estimated_time_of_departure=at(slot + 1), desired_soc=1.0)
    if kind == "a3":
        return mk_vehicle(sg, st, vid, "arrival", connected_charging_station="cs1")
    if kind == "a4":    # lands exactly on -1/8 from 1/2: with EPS = 1/8 this is soc + EPS == 0
        return mk_vehicle(sg, st, vid, "arrival", soc_delta=-0.625, connected_charging_station="cs1",
                          desired_soc=0.25)
    if kind == "d1":
        return mk_vehicle(sg, st, vid, "departure", estimated_time_of_arrival=at(slot + 1))
    if kind == "d2":
        return mk_vehicle(sg, st, vid, "departure", desired_soc=1.0)
    if kind == "d3":
        return mk_vehicle(sg, st, vid, "departure", soc_delta=-0.25, desired_soc=0.625)
    return mk_vehicle(sg, st, vid, "schedule", schedule=3.5)


KINDS = ["a1", "a2", "a3", "a4", "d1", "d2", "d3", "s1"]
ALPHABET = [(k, s) for k in KINDS for s in SLOTS]


def mk_opts(combo):
    a, r, m, e = combo
    o = {"ALLOW_NEGATIVE_SOC": a, "RESET_NEGATIVE_SOC": r, "margin": m}
    if e is not None:
        o["EPS"] = e
    return o


def sequences():
    for ln in (1, 2, 3):
        for seq in itertools.product(ALPHABET, repeat=ln):
            yield seq


def exhaustive(tier, seed):
    quick = tier == "quick"
    k = 0
    nc = len(OPT_COMBOS)
    for seq in sequences():
        k += 1
        if quick and (k + seed) % 11:
            continue
        evs = [alphabet_event(kd, sl) for kd, sl in seq]
        for ci, conn in enumerate((True, False)):
            if quick:
                combos = [OPT_COMBOS[(k // 11 + ci * 7 + seed) % nc]]
            elif len(seq) <= 2:
                combos = OPT_COMBOS
            else:       # 6 of the 24 combinations, rotated so that all are used equally often
                combos = [OPT_COMBOS[(k + ci * 3 + 4 * j) % nc] for j in range(6)]
            for combo in combos:
                # SoC 11/16 with desired 3/4 lies inside the 10 % margin band [0.9·desired, desired): the only lattice
                # point that tells margin 0 from margin 1/10 (seeded change C08-h1: falsy options replaced by defaults)
                yield run_case({"vehicle_events": evs},
                               components=components(conn, two=False, soc1=0.6875 if (k + ci) % 2 else 0.5),
                               opts=mk_opts(combo))


def random_history(rnd):
    evs = []
    for _ in range(rnd.randint(4, 5)):
        kd = rnd.choice(KINDS)
        sl = rnd.choice(SLOTS + [F(2), F(1, 3), F(-1), F(-4, 3), F(5)])
        vid = rnd.choice(["v1", "v1", "v2", "v2", "vX"])
        e = alphabet_event(kd, sl, vid)
        if rnd.random() < 0.3:      # signalled late / exactly at start
            e["signal_time"] = rnd.choice([e["start_time"], at(sl + F(2, 3)), at(sl + 2)])
        if rnd.random() < 0.15 and "soc_delta" in e["update"]:
            e["update"]["soc_delta"] = rnd.choice([0.0, 0.125, -1.0, -0.5])
        if rnd.random() < 0.1:
            e["update"]["connected_charging_station"] = None
        if rnd.random() < 0.1:
            e["update"]["estimated_time_of_departure"] = None
        evs.append(e)
    extra = {}
    if rnd.random() < 0.2:
        extra["grid_operator_signals"] = [mk_signal(at(0), at(rnd.choice(SLOTS)), max_power=50.0)]
    c = run_case(dict(vehicle_events=evs, **extra),
                 components=components(rnd.random() < 0.5, soc1=rnd.choice([0.5, 0.0, 0.125, 1.0, 0.75, 0.6875, 0.6875])),
                 opts=mk_opts(rnd.choice(OPT_COMBOS)), n=rnd.choice([N, N, 7]))
    if rnd.random() < 0.2:
        c["opts"].pop("margin")         # code default 0.1 (float)
    return c


def scenario_case(rnd):
    """a real Scenario.run (greedy) on a world whose stations deliver 0 kW"""
    evs = []
    for _ in range(rnd.randint(1, 4)):
        e = alphabet_event(rnd.choice(KINDS), rnd.choice(SLOTS), rnd.choice(["v1", "v2"]))
        evs.append(e)
    c = run_case({"vehicle_events": evs},
                 components=components(rnd.random() < 0.5, power=0, soc1=rnd.choice([0.5, 0.6875])),
                 opts={"ALLOW_NEGATIVE_SOC": rnd.random() < 0.5, "RESET_NEGATIVE_SOC": rnd.random() < 0.5,
                       "margin": rnd.choice(["0", "1/8", "1", "1/16"])})
    c["k"] = "scn"
    return c


def gen_cases(tier, seed):
    rnd = random.Random(seed * 104729 + 11)
    quick = tier == "quick"
    for _ in range(150 if quick else 3000):
        yield scenario_case(rnd)
    for _ in range(25000 if quick else 200000):
        yield random_history(rnd)
    yield from exhaustive(tier, seed)
    import s_backfill                      # directed scenarios for the run loop's `disconnect` back-fill (k = "bf")
    yield from s_backfill.directed_cases(tier, seed)


# ------------------------------------------------------------------------------------------

def oracle(case, obs):
    viol = []
    if obs.init_error is not None or obs.bucket_error is not None:
        return viol
    o = case.get("opts", {})
    eps = F(o["EPS"]) if o.get("EPS") is not None else F(evwire.DEFAULT_EPS)
    margin = F(o["margin"]) if o.get("margin") is not None else F(evwire.DEFAULT_MARGIN)
    allow, reset = bool(o.get("ALLOW_NEGATIVE_SOC")), bool(o.get("RESET_NEGATIVE_SOC"))
    interval = datetime.timedelta(seconds=case["interval_s"])
    times = evwire.sim_times(case)
    fromiso = datetime.datetime.fromisoformat
    V = {}
    for vid, c in case["components"].get("vehicles", {}).items():
        etd = c.get("estimated_time_of_departure")
        V[vid] = {"station": c.get("connected_charging_station"), "etd": None if etd is None else fromiso(etd),
                  "desired": F(float(c.get("desired_soc") or 0)), "soc": F(float(c.get("soc") or 0)), "delta": None}
    dc = mc = 0
    tracker = {}
    vev = obs.events_obj.vehicle_events
    jsons = case["events"].get("vehicle_events", [])
    index = {id(x): j for j, x in enumerate(vev)}
    prev = None
    for i, rec in enumerate(obs.records):
        now = times[i]
        exp_err = None
        touched = set()
        for ev in rec["popped"]:
            if id(ev) not in index:
                continue
            x = jsons[index[id(ev)]]
            v = V.get(x["vehicle_id"])
            if v is None:
                continue                                  # unknown vehicle: no effect
            touched.add(x["vehicle_id"])
            was_connected = v["station"] is not None
            u = x["update"]
            if "connected_charging_station" in u:
                v["station"] = u["connected_charging_station"]
            if "estimated_time_of_departure" in u:
                t = u["estimated_time_of_departure"]
                v["etd"] = None if t is None else fromiso(t)
            if "desired_soc" in u:
                v["desired"] = F(float(u["desired_soc"]))
            if "soc_delta" in u:
                v["delta"] = F(float(u["soc_delta"]))
            if x["event_type"] == "departure":
                v["etd"] = None
                if fromiso(x["start_time"]) < now - interval:
                    v["soc"] = v["desired"]               # the code's deliberate past-departure rule
                if was_connected:
                    dc += v["soc"] < v["desired"] - eps
                    mc += 0 <= v["soc"] < (1 - margin) * v["desired"] - eps
                v["station"] = None
            elif x["event_type"] == "arrival":
                if v["delta"] is None:
                    exp_err = "AssertionError"            # no trip consumption known
                    break
                v["soc"] += v["delta"]
                if v["soc"] + eps < 0:
                    tracker.setdefault(x["vehicle_id"], []).append(now)
                    if not allow:
                        exp_err = "RuntimeError"
                        break
                    if reset:
                        v["soc"] = F(0)
                v["delta"] = None
        got_err = None if rec["err"] is None else type(rec["err"]).__name__
        if got_err != exp_err and not (exp_err is None and got_err == "Exception"):
            key = "C08:negative_soc_policy" if "RuntimeError" in (got_err, exp_err) else "C08:error_kind"
            viol.append(("policy", key, "step %d: raised %s, expected %s" % (i, got_err, exp_err)))
            break
        for vid, v in V.items():
            g = rec["vehicles"][vid]
            if F(g["soc"]) != v["soc"]:
                if vid not in touched:
                    viol.append(("disconnected_const", "C08:soc_changed_without_event",
                                 "step %d %s: soc %s -> %s" % (i, vid, prev["vehicles"][vid]["soc"] if prev else "?", g["soc"])))
                else:
                    viol.append(("arrival_departure_soc", "C08:soc_after_event",
                                 "step %d %s: soc %s, expected %s" % (i, vid, g["soc"], v["soc"])))
            if g["station"] != v["station"] or g["etd"] != v["etd"] or F(g["desired"]) != v["desired"]:
                viol.append(("connection_state", "C08:connection_state",
                             "step %d %s: station/etd/desired %s %s %s, expected %s %s %s"
                             % (i, vid, g["station"], g["etd"], g["desired"], v["station"], v["etd"], v["desired"])))
            if exp_err is None and g["has_delta"] != (v["delta"] is not None):
                viol.append(("delta_once", "C08:soc_delta_not_consumed", "step %d %s" % (i, vid)))
        if (rec["desired_counter"], rec["margin_counter"]) != (dc, mc):
            viol.append(("counters", "C08:counters", "step %d: counters %d/%d, expected %d/%d"
                         % (i, rec["desired_counter"], rec["margin_counter"], dc, mc)))
        gt = {k: [fromiso(s) for s in v] for k, v in rec["tracker"].items()}
        if gt != tracker:
            viol.append(("tracker", "C08:tracker", "step %d: %s, expected %s" % (i, rec["tracker"], tracker)))
        if viol:
            break
        prev = rec
        if got_err is not None:
            if i != len(obs.records) - 1:
                viol.append(("error_aborts", "C08:error_not_latched", "steps executed after the error"))
            break
    return viol


def eval_scn(case):
    """real Scenario.run vs the model's runLoop"""
    from spice_ev import scenario
    o = case["opts"]
    j = {"scenario": {"start_time": case["start"], "interval": case["interval_s"] / 60, "n_intervals": case["n"]},
         "components": case["components"], "events": case["events"]}
    options = {"ALLOW_NEGATIVE_SOC": o["ALLOW_NEGATIVE_SOC"], "RESET_NEGATIVE_SOC": o["RESET_NEGATIVE_SOC"],
               "margin": float(F(o["margin"])), "testing": True}
    from spice_ev import strategy as st_mod
    orig_losses = st_mod.Strategy.apply_battery_losses
    changed_by_step_end = []

    def losses(self):
        # vehicles carry no self-discharge here and the stations deliver 0 kW: the end-of-step bookkeeping
        # must leave every vehicle SoC (connected or not, negative or not) as it is
        before = {vid: v.battery.soc for vid, v in self.world_state.vehicles.items()}
        r = orig_losses(self)
        for vid, v in self.world_state.vehicles.items():
            if v.battery.soc != before[vid]:
                changed_by_step_end.append((str(self.current_time), vid, before[vid], v.battery.soc))
        return r
    st_mod.Strategy.apply_battery_losses = losses
    import s_backfill                      # tie of the run loop's `disconnect` back-fill (reported SoC of absent vehicles)
    rec = s_backfill.Recorder().start()
    try:
        with warnings.catch_warnings():
            warnings.simplefilter("ignore")
            s = scenario.Scenario(j, ".")
            buf = io.StringIO()
            with contextlib.redirect_stdout(buf):
                s.run("greedy", options)
    finally:
        rec.stop()
        st_mod.Strategy.apply_battery_losses = orig_losses
    strat = s.strat
    aborted = "ABORTED" in (strat.description or "")
    vs = strat.world_state.vehicles
    impl = "R %s %d ; V %s ; K %d %d ; T %s" % (
        "abort" if aborted else "ok", s.step_i,
        evwire.lst(vs.items(), evwire.vehicle_impl), strat.desired_counter, strat.margin_counter,
        evwire.lst(s.negative_soc_tracker.items(),
                   lambda kv: "%s %s" % (kv[0], evwire.lst(kv[1], lambda t: str(evwire.iso_us(t))))))
    viol = []
    if changed_by_step_end:
        t, vid, a, b = changed_by_step_end[0]
        viol.append(("disconnected_const", "C08:soc_changed_without_event",
                     "end of step %s: SoC of %s changed %r -> %r although nothing was charged and no event "
                     "occurred (negative SoC is reset only if requested)" % (t, vid, a, b)))
    # property: an error in event processing is latched and stops the run at that step
    times = evwire.sim_times(case)
    if s.negative_soc_tracker and not o["ALLOW_NEGATIVE_SOC"]:
        first = min(datetime.datetime.fromisoformat(t) for ts in s.negative_soc_tracker.values() for t in ts)
        if not aborted or s.step_i != times.index(first) + 1:
            viol.append(("error_aborts", "C08:run_not_aborted_at_negative_soc",
                         "negative SoC at %s, run ended with step_i=%d aborted=%s" % (first, s.step_i, aborted)))
    if not aborted and s.step_i != case["n"]:
        viol.append(("error_aborts", "C08:run_incomplete_without_error", "step_i=%d" % s.step_i))
    viol += s_backfill.oracle(s, rec)[0]
    return impl, viol, s_backfill.lines_for(s, rec)


def compare(case, impl, model):
    if impl.startswith("@s_backfill "):
        import s_backfill
        return s_backfill.compare(case, impl, model)
    if case["k"] != "scn":
        return None if impl == model else "differs"
    # model output is the full evrun line; take the run summary and the last step's state
    try:
        parts = model.split(" | ")
        summary = parts[-1].split()
        steps = parts[2].split(" # ")
        last = steps[-1] if steps and steps[-1] else ""
        segs = last.split(" ; ")
        err = summary[1]
        veh = [x for x in segs if x.startswith("V ")][0][2:]
        k = [x for x in segs if x.startswith("K ")][0][2:]
        t = [x for x in segs if x.startswith("T ")][0][2:]
        m = "R %s %s ; V %s ; K %s ; T %s" % ("ok" if err == "ok" else "abort", summary[2], veh, k, t)
    except Exception as e:      # unparsable model output is a disagreement
        return "cannot parse model output: %r" % (e,)
    return None if m == impl else "run summary differs: model %s" % m


def eval_case(case):
    if case["k"] == "bf":
        import s_backfill
        return s_backfill.eval_directed(case)
    if case["k"] == "scn":
        rc = dict(case)
        rc["k"] = "run"
        rc["opts"] = dict(case["opts"])
        line = evwire.run_line(rc)
        impl, viol, (bf_lines, bf_impl) = eval_scn(case)
        return {"lines": [line] + bf_lines, "impl": [impl] + bf_impl, "violations": viol, "nontrivial": True,
                "stats": ["scenario_run"]}
    line = evwire.run_line(case)
    impl, obs = evwire.run_impl(case)
    viol = oracle(case, obs)
    stats = set()
    for r in obs.records:
        for ev in r["popped"]:
            if hasattr(ev, "event_type"):
                stats.add("applied_" + ev.event_type)
    if obs.error is not None:
        stats.add("abort_" + type(obs.error).__name__)
    if obs.strat is not None:
        if obs.strat.negative_soc_tracker:
            stats.add("negative_soc")
        if obs.strat.desired_counter:
            stats.add("desired_counter>0")
        if obs.strat.margin_counter:
            stats.add("margin_counter>0")
        if obs.strat.desired_counter != obs.strat.margin_counter:
            stats.add("departure_inside_margin_band")
    return {"lines": [line], "impl": [impl], "violations": viol,
            "nontrivial": any(s.startswith("applied_") for s in stats), "stats": sorted(stats)}
