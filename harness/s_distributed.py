"""S_DISTRIBUTED — step-level tie of the Lean model of `Distributed` (Model/StratDistributed.lean) to the real class.

Real `Scenario.run('distributed')` on scenarios of harness/scen.py (all features: fixed load, generation, one or two
stationary batteries per connector incl. unlimited ones, V2G, limit / price / window signals, CONCURRENCY, minimum
powers, number_cs, up to three connectors of either station type, connectors without stations) with every option the
class has (`strategy_opps`, `strategy_deps` in {greedy, balanced}, `strategy_options_opps/deps` overriding
PRICE_THRESHOLD / EPS).  `Distributed.__init__` and `Distributed.step` are wrapped at run time:

* after `__init__` (or when it raises) the static world is rendered for the model's `init_distributed`; the derived
  state (`strategies`, `gc_battery`, `virtual_vt`, `virtual_cs`, `connected`) or the exception kind is compared;
* before every `step` the complete state the step reads (world, `number_cs`, `connected`, derived state, the arrival
  events in `future_events`) is rendered for `step_distributed`; after the real step the commands, every connector's
  loads AND limit, station powers, vehicle and battery SoCs, `connected` and the virtual stations' power are compared
  with the model's line by value (bit level).
"""
import contextlib
import random

import engine
import scen
import s_peak_shaving
import s_peak_load_window as s_plw
from c10 import us, f, r_battery, r_cost, compare as _compare

engine.use_repo()

PID = "S_DISTRIBUTED"
CHUNK = 2
THEOREM_MODULES = ["C04_Distributed", "C05_Distributed", "C05_DistributedConn", "C06_Distributed", "C14_Distributed",
                   "C14_DistributedRun", "C14_DistributedNcs", "C09_DistributedRun"]
RULE = ("scenarios from the grammar in harness/scen.py for strategy distributed (1-3 connectors of either station type, "
        "fixed load, generation, up to two stationary batteries per connector, V2G, signals, CONCURRENCY, minimum powers, "
        "number_cs) x sub-strategy options (strategy_opps/deps in greedy/balanced, option overrides); every constructor "
        "call and every strategy step of every run is one model evaluation; non-trivial = a step in which a station or "
        "battery carries power; distinct = distinct (seed, index)")
ASSUMPTIONS = ["model vs implementation: floats compared by value (+0.0 == -0.0), no tolerance",
               "sub-strategies greedy / balanced / peak_shaving / peak_load_window are modelled; balanced_market, flex_window, "
               "schedule, distributed as sub-strategy are not (the harness raises NotImplementedError, never a silent pass); "
               "a sub-strategy whose `interval` option differs from the parent's is not modelled",
               "world_state.future_events: the arrival vehicle events always (the ones step reads itself); every event when a "
               "peak_shaving sub-strategy without perfect foresight reads the per-connector copies (new_world_state.future_events)"]
UNPROVED = []
RULES = {"Greedy": "g", "Balanced": "b"}


def r_curve(c):
    return " ".join([str(len(c.points))] + ["%s %s" % (f(p[0]), f(p[1])) for p in c.points] + [f(c.max_power)])


def r_cs(cid, cs):
    return " ".join([cid, cs.parent, f(cs.max_power), f(cs.min_power), f(cs.current_power)])


def r_gcs(ws):
    parts = [str(len(ws.grid_connectors))]
    for gid, gc in ws.grid_connectors.items():
        parts += [gid, f(gc.cur_max_power), r_cost(gc.cost), str(len(gc.current_loads))]
        for k, v in gc.current_loads.items():
            parts += [k, f(v)]
    return parts


def r_stations(ws):
    parts = [str(len(ws.charging_stations))]
    for cid, cs in ws.charging_stations.items():
        parts.append(r_cs(cid, cs))
    return parts


def r_vehicles(ws):
    parts = [str(len(ws.vehicles))]
    for vid, v in ws.vehicles.items():
        etd = v.estimated_time_of_departure
        parts += [vid, "N" if v.connected_charging_station is None else "S " + v.connected_charging_station,
                  f(v.desired_soc), "N" if etd is None else "S %d" % us(etd),
                  f(v.vehicle_type.min_charging_power), "1" if v.vehicle_type.v2g else "0",
                  f(v.vehicle_type.discharge_limit), r_battery(v.battery)]
    return parts


def r_batteries(ws, with_curve):
    parts = [str(len(ws.batteries))]
    for bid, b in ws.batteries.items():
        parts += [bid, b.parent, f(b.min_charging_power), r_battery(b)]
        if with_curve:
            parts.append(r_curve(b.charging_curve))
    return parts


def r_kind(strat, entry):
    typ, sub = entry
    if typ == "deps" and sub is strat.strat_deps:
        return "deps"
    if typ == "opps" and sub is strat.strat_opps:
        return "opps"
    return "mismatch:%s" % typ


def r_ids(d):
    return " ".join([str(len(d))] + ["%s %s" % (k, " ".join([str(len(v))] + list(v))) for k, v in d.items()])


def r_vt(name, vt):
    return " ".join([name, f(vt.capacity), r_curve(vt.charging_curve), f(vt.min_charging_power), f(vt.battery_efficiency),
                     "1" if vt.v2g else "0", f(vt.discharge_limit), r_curve(vt.discharge_curve)])


def r_init_state(strat, sep):
    """the state derived in __init__, in the format of the model's `rInit` (sep = ' | ') or as request tokens (' ')"""
    ws = strat.world_state
    s1 = " ".join([str(len(strat.strategies))] + ["%s %s" % (g, r_kind(strat, e)) for g, e in strat.strategies.items()])
    gcb = {}
    for g, d in strat.gc_battery.items():
        gcb[g] = [b if bat is ws.batteries.get(b) else "mismatch" for b, bat in d.items()]
    s2 = r_ids(gcb)
    s3 = " ".join([str(len(strat.virtual_vt))] + [r_vt(n, vt) for n, vt in strat.virtual_vt.items()])
    s4 = " ".join([str(len(strat.virtual_cs))] + [r_cs(n, cs) for n, cs in strat.virtual_cs.items()])
    return sep.join([s1, s2, s3, s4])


def render_init(strat):
    ws = strat.world_state
    return " ".join(["init_distributed"] + r_gcs(ws) + r_stations(ws) + r_vehicles(ws) + r_batteries(ws, True))


def render_init_result(strat):
    return r_init_state(strat, " | ") + " | " + r_ids({g: list(d.keys()) for g, d in strat.connected.items()})


def r_sub(strat, sub):
    name = type(sub).__name__
    rule = RULES.get(name)
    if rule is None and name not in ("PeakShaving", "PeakLoadWindow"):
        raise NotImplementedError("sub-strategy %s is not modelled" % name)
    if sub.interval != strat.interval:
        raise NotImplementedError("sub-strategy interval differs from the parent's")
    parts = [rule or "g", f(sub.EPS), f(sub.PRICE_THRESHOLD), f(sub.ts_per_hour),
             str(int(sub.interval.total_seconds() * 1000000))]
    if name == "PeakShaving":
        import datetime
        parts += ["S", str(sub.HORIZON // datetime.timedelta(microseconds=1)), "1" if sub.perfect_foresight else "0",
                  str(s_peak_shaving.FUEL)]
    else:
        parts.append("N")
    if name == "PeakLoadWindow":
        parts += ["S", str(s_plw.inst(sub.start_time)), str(s_plw.inst(sub.stop_time)), str(s_plw.BISECT_FUEL),
                  s_plw.r_windows(sub.time_windows), s_plw.r_table(sub.events)]
    else:
        parts.append("N")
    return parts


def sub_peaks(sub):
    """`self.peak_power` of a PeakLoadWindow sub-strategy"""
    return dict(sub.peak_power) if type(sub).__name__ == "PeakLoadWindow" else {}


def r_kv(d):
    return " ".join([str(len(d))] + ["%s %s" % (k, f(v)) for k, v in d.items()])


def sub_events(sub):
    """`self.events` of a PeakShaving sub-strategy with perfect foresight (its own list, popped by step_gc)"""
    if type(sub).__name__ == "PeakShaving" and sub.perfect_foresight:
        return list(sub.events)
    return []


def r_evlist(evs):
    return " ".join([str(len(evs))] + [s_peak_shaving.r_event(e) for e in evs])


def render_world(strat):
    from spice_ev import events
    ws = strat.world_state
    interval_us = int(strat.interval.total_seconds() * 1000000)
    parts = ["step_distributed", f(strat.EPS), f(strat.PRICE_THRESHOLD), f(strat.ts_per_hour),
             str(us(strat.current_time)), str(interval_us)]
    parts += r_sub(strat, strat.strat_opps) + r_sub(strat, strat.strat_deps)
    parts += r_gcs(ws)
    parts.append(str(len(ws.grid_connectors)))
    for gid, gc in ws.grid_connectors.items():
        parts += [gid, "N" if gc.number_cs is None else "S %d" % gc.number_cs]
    parts += r_stations(ws) + r_vehicles(ws) + r_batteries(ws, False)
    parts.append(r_ids({g: list(d.keys()) for g, d in strat.connected.items()}))
    parts.append(r_init_state(strat, " "))
    parts += [r_evlist(sub_events(strat.strat_opps)), r_evlist(sub_events(strat.strat_deps))]
    evs = [e for e in ws.future_events if type(e) is events.VehicleEvent and e.event_type == "arrival"]
    parts.append(str(len(evs)))
    for e in evs:
        cs = e.update.get("connected_charging_station")
        parts += [str(us(e.start_time)), e.vehicle_id, "N" if cs is None else "S " + cs,
                  "S " + f(e.update["soc_delta"]) if "soc_delta" in e.update else "N",
                  "S " + f(e.update["desired_soc"]) if "desired_soc" in e.update else "N",
                  "1" if "estimated_time_of_departure" in e.update else "0"]
    needs_future = any(type(x).__name__ == "PeakShaving" and not x.perfect_foresight
                       for x in (strat.strat_opps, strat.strat_deps))
    parts.append(r_evlist(list(ws.future_events) if needs_future else []))
    # what a PeakLoadWindow sub-strategy reads beyond the shared world: the clock as a datetime, connector attributes
    # (operator, voltage level, window flag), charging-curve powers and `schedule` of the vehicles, its peak_power
    parts.append(s_plw.w_dt(strat.current_time))
    if any(type(x).__name__ == "PeakLoadWindow" for x in (strat.strat_opps, strat.strat_deps)):
        parts.append(str(len(ws.grid_connectors)))
        for gid, gc in ws.grid_connectors.items():
            parts += [gid, "~None" if gc.grid_operator is None else s_plw.tok(gc.grid_operator),
                      "N" if gc.voltage_level is None else "S " + s_plw.tok(gc.voltage_level),
                      "N" if gc.window is None else "S %d" % int(bool(gc.window))]
        parts.append(str(len(ws.vehicles)))
        for vid, v in ws.vehicles.items():
            pts = v.vehicle_type.charging_curve.points
            sched = getattr(v, "schedule", None)
            parts += [vid, str(len(pts))] + [f(p[1]) for p in pts] + ["N" if sched is None else "S " + f(sched)]
    else:
        parts += ["0", "0"]
    parts += [r_kv(sub_peaks(strat.strat_opps)), r_kv(sub_peaks(strat.strat_deps))]
    return " ".join(parts)


def render_result(strat, cmds):
    ws = strat.world_state
    kv = lambda d: " ".join([str(len(d))] + ["%s %s" % (k, f(v)) for k, v in d.items()])
    return (kv(cmds) + " | "
            + " ; ".join("%s %s %s" % (gid, f(gc.cur_max_power), kv(gc.current_loads)) for gid, gc in ws.grid_connectors.items())
            + " | " + " ".join(f(cs.current_power) for cs in ws.charging_stations.values())
            + " | " + " ".join(f(v.battery.soc) for v in ws.vehicles.values())
            + " | " + " ".join(f(b.soc) for b in ws.batteries.values())
            + " | " + r_ids({g: list(d.keys()) for g, d in strat.connected.items()})
            + " | " + " ".join(f(cs.current_power) for cs in strat.virtual_cs.values())
            + " | %d %d" % (len(sub_events(strat.strat_opps)), len(sub_events(strat.strat_deps)))
            + " | " + r_kv(sub_peaks(strat.strat_opps)) + " | " + r_kv(sub_peaks(strat.strat_deps)))


@contextlib.contextmanager
def tie(full=None):
    """wrap the real `Distributed.__init__` and `Distributed.step` for the duration of a `scen.run_real(full)`;
    yields a dict with `lines` (model requests), `impl` (implementation results) and `active` (steps with power)"""
    from spice_ev.strategies import distributed as dmod
    cls = dmod.Distributed
    orig_init, orig_step = cls.__init__, cls.step
    box = {"lines": [], "impl": [], "active": 0, "stats": set()}

    def init(self, comps, start_time, **kwargs):
        evs = getattr(kwargs.get("events"), "vehicle_events", None)
        before = None if evs is None else [(us(e.signal_time), us(e.start_time)) for e in evs]
        try:
            orig_init(self, comps, start_time, **kwargs)
        except Exception as e:
            if hasattr(self, "world_state") and hasattr(self, "strat_deps"):
                box["lines"].append(render_init(self))
                box["impl"].append("!" + type(e).__name__)
                box["stats"].add("init_raises_" + type(e).__name__)
            raise
        box["lines"].append(render_init(self))
        box["impl"].append(render_init_result(self))
        if before is not None:
            box["lines"].append(" ".join(["signal_distributed", str(len(before))] + ["%d %d" % e for e in before]))
            box["impl"].append(" ".join([str(len(evs))] + [str(us(e.signal_time)) for e in self.events.vehicle_events]))

    def step(self):
        line = render_world(self)
        try:
            res = orig_step(self)
        except Exception as e:
            box["lines"].append(line)
            box["impl"].append("!" + type(e).__name__)
            box["stats"].add("step_raises_" + type(e).__name__)
            raise
        box["lines"].append(line)
        box["impl"].append(render_result(self, res["commands"]))
        if any(abs(x) > 1e-5 for x in res["commands"].values()) or any(
                abs(v) > 1e-5 for gc in self.world_state.grid_connectors.values()
                for k, v in gc.current_loads.items() if k in self.world_state.batteries):
            box["active"] += 1
        # branch statistics
        ws = self.world_state
        for gid, gc in ws.grid_connectors.items():
            ent = self.strategies.get(gid)
            if ent is None:
                continue
            occupied = any(v.connected_charging_station and ws.charging_stations[v.connected_charging_station].parent == gid
                           for v in ws.vehicles.values())
            if type(ent[1]).__name__ == "PeakShaving" and (occupied or gid in self.gc_battery):
                box["stats"].add("ps_%s%s%s" % (ent[0], "" if ent[1].perfect_foresight else "_no_foresight",
                                                "" if occupied else "_vacant_battery"))
                if any(abs(res["commands"].get(c, 0)) > 1e-5 for c, cs in ws.charging_stations.items()
                       if cs.parent == gid):
                    box["stats"].add("ps_%s_charges" % ent[0])
            if type(ent[1]).__name__ == "PeakLoadWindow" and (occupied or gid in self.gc_battery):
                box["stats"].add("plw_%s%s" % (ent[0], "" if occupied else "_vacant_battery"))
                if any(abs(res["commands"].get(c, 0)) > 1e-5 for c, cs in ws.charging_stations.items()
                       if cs.parent == gid):
                    box["stats"].add("plw_%s_charges" % ent[0])
                if gc.window:
                    box["stats"].add("plw_inside_window")
            if gid in self.gc_battery:
                box["stats"].add("%s_battery_%s" % (ent[0], "occupied" if occupied else "vacant"))
                if len(self.gc_battery[gid]) > 1:
                    box["stats"].add("%s_two_batteries" % ent[0])
            if gc.number_cs is not None:
                box["stats"].add("number_cs")
            if ent[0] == "opps":
                for b in self.gc_battery.get(gid, {}):
                    ld = gc.current_loads.get(b, 0)
                    if ld < -1e-5:
                        box["stats"].add("opps_support_discharge")
                    elif ld > 1e-5:
                        box["stats"].add("opps_virtual_vehicle_charges")
        if any(v.vehicle_type.v2g and res["commands"].get(v.connected_charging_station, 0) < -1e-5
               for v in ws.vehicles.values()):
            box["stats"].add("v2g_discharge")
        return res
    cls.__init__, cls.step = init, step
    try:
        # a PeakShaving sub-strategy is tied on its own as well (its `__init__` through `init_peak_shaving`, its
        # `step()` on every virtual world through `step_peak_shaving`)
        # … and so is a PeakLoadWindow sub-strategy (`init_peak_load_window`, `step_peak_load_window`)
        with s_peak_shaving.tie(full, with_oracle=False) as ps, s_plw.tie(full or {}) as pl:
            try:
                yield box
            finally:
                box["lines"] += ps["lines"] + pl["lines"]
                box["impl"] += ps["impl"] + pl["impl"]
                if ps["lines"]:
                    box["stats"].add("peak_shaving_substrategy")
                if pl["lines"]:
                    box["stats"].add("peak_load_window_substrategy")
    finally:
        cls.__init__, cls.step = orig_init, orig_step


def sub_options(rng):
    """options of the class itself: sub-strategy names and per-sub-strategy option overrides"""
    o = {}
    r = rng.random()
    if r < 0.25:
        o["strategy_opps"] = rng.choice(["greedy", "balanced"])
    if 0.15 < r < 0.4:
        o["strategy_deps"] = rng.choice(["greedy", "balanced"])
    if rng.random() < 0.2:
        o["strategy_options_opps"] = rng.choice([{"PRICE_THRESHOLD": 0.1}, {"PRICE_THRESHOLD": 0.3}, {"EPS": 1e-3},
                                                 {"PRICE_THRESHOLD": -1.0}])
    if rng.random() < 0.2:
        o["strategy_options_deps"] = rng.choice([{"PRICE_THRESHOLD": 0.1}, {"PRICE_THRESHOLD": 0.3}, {"EPS": 1e-3},
                                                 {"PRICE_THRESHOLD": -1.0}])
    return o


def ps_options(o, seed, i):
    """a third of the scenarios delegate to peak_shaving on one or both sides (own HORIZON / perfect_foresight)"""
    r2 = random.Random("S_DISTRIBUTED:sub:%s:%s" % (seed, i))
    if i % 3 != 2:
        return
    for k in r2.choice([["deps"], ["opps"], ["deps", "opps"]]):
        o["strategy_" + k] = "peak_shaving"
        so = dict(o.get("strategy_options_" + k, {}))
        if r2.random() < 0.5:
            so["HORIZON"] = r2.choice([0.5, 1, 2, 3, 6, 12])
        if r2.random() < 0.35:
            so["perfect_foresight"] = False
        if so:
            o["strategy_options_" + k] = so


def plw_options(full, seed, i):
    """a sixth of the scenarios delegate to peak_load_window on one or both sides (needs the option time_windows)"""
    if i % 6 != 4:
        return
    r3 = random.Random("S_DISTRIBUTED:plw:%s:%s" % (seed, i))
    o = full["options"]
    o["time_windows"] = "@TIME_WINDOWS"
    full["meta"]["time_windows"] = {"default_grid_operator": {
        "s1": {"start": "2020-01-01", "end": "2020-12-31", "windows": {
            lvl: [[r3.choice(["08:15", "11:00"]), r3.choice(["12:30", "13:00"])],
                  [r3.choice(["16:30", "17:45"]), r3.choice(["19:00", "20:00"])],
                  ["23:00", "01:00"]] for lvl in ["HV", "MV", "LV"]}}}}
    variant = r3.choice(["full", "full", "full", "full", "level_without_windows", "season_over"])
    s1 = full["meta"]["time_windows"]["default_grid_operator"]["s1"]
    if variant == "level_without_windows":
        del s1["windows"][r3.choice(["HV", "MV", "LV"])]
    elif variant == "season_over":
        s1["end"] = "2020-01-%02d" % r3.choice([5, 7, 11])
    for k in r3.choice([["deps"], ["opps"], ["deps", "opps"]]):
        o["strategy_" + k] = "peak_load_window"
        o.pop("strategy_options_" + k, None)


def gen_full(seed, i):
    rng = random.Random("S_DISTRIBUTED:%s:%s" % (seed, i))
    feats = {}
    if i % 4 == 1:
        feats["battery"] = True          # stationary batteries are the intricate part of the class
    if i % 8 == 3 or i % 16 == 7:
        feats["number_cs"] = True
    full = scen.gen_scenario(rng, strategy="distributed", n_gc=rng.choice([1, 1, 2, 2, 3]), feasible=rng.random() < 0.85,
                             features=feats, max_steps=36)
    full["options"].update(sub_options(rng))
    ps_options(full["options"], seed, i)
    plw_options(full, seed, i)
    if i % 16 == 7:
        # a tolerance that vehicle SoCs of the grammar hit exactly (desired 1.0, SoC 0.5): boundary of `> self.EPS`
        full["options"]["EPS"] = 0.5
    bats = full["scenario"]["components"]["batteries"]
    if bats and i % 4 == 1:
        # the battery branches of an opportunity station depend on the sub-strategy reading the departure time
        # (balanced) and on batteries that are nearly empty / below their minimum power
        if rng.random() < 0.5:
            full["options"]["strategy_opps"] = "balanced"
        for b in bats.values():
            if rng.random() < 0.4:
                b["min_charging_power"] = rng.choice([0.5, 1.0]) * b["charging_curve"][0][1]
            if rng.random() < 0.4:
                b["soc"] = rng.choice([0.02, 0.05, 0.1, 0.97])
    if rng.random() < 0.04:
        # a station whose id does not end in deps/opps, or mixed types at one connector: the constructor raises
        css = full["scenario"]["components"]["charging_stations"]
        k = rng.choice(sorted(css))
        new = k.rsplit("_", 1)[0] + rng.choice(["_depot", "_opps", "_deps"])
        if new not in css:
            if rng.random() < 0.5:
                css[new] = css[k]
            else:   # the odd station first
                full["scenario"]["components"]["charging_stations"] = dict([(new, css[k])] + list(css.items()))
    full["pid"] = PID
    return full


def gen_cases(tier, seed):
    n = 500 if tier == "quick" else 6000
    for i in range(n):
        yield {"seed": seed, "i": i, "pid": PID}


def eval_case(case):
    full = case if "scenario" in case else gen_full(case["seed"], case["i"])
    with tie(full) as box:
        r = scen.run_real(full, timeout_s=120, collect_ops=False)
    stats = sorted(box["stats"])
    if r.get("escaped"):
        stats.append("escaped")
    return {"lines": box["lines"], "impl": box["impl"], "violations": [], "nontrivial": box["active"] > 0,
            "stats": stats, "replay_case": full, "num": {"steps_compared": len(box["lines"])}}


def compare(case, impl, model):
    return _compare(case, impl, model)
