/-
C17 — "every strategy step finishes in bounded time": the step models of ALL EIGHT charging strategies are total.
One statement that collects the per-strategy theorems (`C17_<strategy>_step_total`, proved in
Properties/C17_RuleTotal / C17_DistributedTotal / C17_PeakShavingTotal / C17_PeakLoadWindowTotal /
C17_BalancedMarketTotal / C17_FlexWindow / C17_Schedule): for each strategy, under that strategy's explicit
hypotheses (battery operations never answer `FUEL`, battery contract where needed, `0 < EPS`, and the bounds that say
the model's fuel parameters reach the loops' iteration bounds on the INITIAL world), the whole step returns a result or
a Python exception value — never the model's own `FUEL` marker.
`distributed`: with greedy / balanced sub-strategy objects (the class's own loops); with peak_shaving /
peak_load_window objects the statement is `C17_distributed_step_total_partial` (sub-step totality assumed).
-/
import SpiceEv.Properties.C17_RuleTotal
import SpiceEv.Properties.C17_DistributedTotal
import SpiceEv.Properties.C17_PeakShavingTotal
import SpiceEv.Properties.C17_PeakLoadWindowTotal
import SpiceEv.Properties.C17_BalancedMarketTotal
import SpiceEv.Properties.C17_FlexWindow
import SpiceEv.Properties.C17_Schedule
set_option linter.unusedSectionVars false
set_option linter.unusedVariables false
namespace SpiceEv
variable {α B : Type} [Field α] [LinearOrder α] [IsStrictOrderedRing α]

/-- **Every strategy step is total** (greedy, balanced, distributed[rule objects], peak_shaving, peak_load_window,
balanced_market, flex_window, schedule): the conjunction of the eight per-strategy theorems, each with its own
hypotheses spelled out. -/
theorem C17_every_strategy_step_total :
    -- greedy
    (∀ (ops : BatOps α B) (_ : RuleTotal.NoFuel ops) (env : StratEnv α) (w : SWorld α B),
      ruleStep .greedy ops env w ≠ .error .fuel) ∧
    -- balanced
    (∀ (ops : BatOps α B) (_ : RuleTotal.NoFuel ops) (env : StratEnv α) (w : SWorld α B),
      ruleStep .balanced ops env w ≠ .error .fuel) ∧
    -- distributed (greedy / balanced objects at depots and opportunity stations)
    (∀ (dops : Distrib.DOps α B) (_ : DistribTotal.DNoFuel dops) (de : Distrib.DEnv α)
      (_ : de.deps.isRule) (_ : de.opps.isRule) (s : Distrib.DState α B),
      Distrib.step dops de s ≠ .error .fuel) ∧
    -- peak_shaving
    (∀ (ops : PeakShaving.Ops α B) (_ : BatLaw ops.bat) (_ : PeakShaving.SumExact ops) (_ : PeakShaving.NoFuelErr ops)
      (env : PeakShaving.Env α) (_ : 0 < env.eps) (events : List (PeakShaving.Ev α)) (w : SWorld α B) (H : α)
      (_ : PeakShaving.Total.WorldBelowCount events w (env.eps * 2 ^ env.fuel) H),
      PeakShaving.step ops env events w ≠ .error .fuel) ∧
    -- peak_load_window
    (∀ (ops : BatOps α B) (_ : PeakLoadWindow.OpsNoFuel ops) (_ : BatLaw ops) (env : PeakLoadWindow.PEnv α)
      (_ : 0 < env.eps) (_ : 0 < env.interval) (w : PeakLoadWindow.PWorld α B)
      (_ : w.gcs.Pairwise (fun a b => a.gc.id ≠ b.gc.id))
      (_ : ∀ g ∈ w.gcs, ∃ L H : α, H - L ≤ (2 : α) ^ env.bisectFuel * env.eps ∧
        ∀ (seasons : List Season) (level : String) (k : Int),
          ∀ t ∈ PeakLoadWindow.buildTimesteps env seasons level g.gc.id
              ([] :: PeakLoadWindow.pySlice env.events (floorDiv (env.now.instant - env.start) env.interval + 1)
                (floorDiv (env.now.instant - env.start) env.interval + 1 + k))
              (env.now.add (-env.interval)) (g.gc.loads, g.gc.curMax),
            L ≤ t.power ∧ t.maxPower ≤ H),
      PeakLoadWindow.step ops env w ≠ .error .fuel) ∧
    -- balanced_market
    (∀ (ops : BalancedMarket.Ops α B) (_ : BalancedMarket.NoFuel ops) (_ : BatLaw ops.toBatOps)
      (R : B → B → Prop) (_ : BalancedMarket.SimLaw ops R) (_ : BalancedMarket.Total.DomLaw ops R)
      (env : BalancedMarket.Env α) (_ : 0 < env.eps) (w : SWorld α B)
      (_ : (w.vehicles.map (·.id)).Nodup)
      (_ : ∀ u1 ∈ w.vehicles, ∀ u2 ∈ w.vehicles, ∀ c, u1.cs = some c → u2.cs = some c → u1.id = u2.id)
      (_ : (w.gcs.map (·.id)).Nodup)
      (_ : ∀ s ∈ w.stations, s.maxPower ≤ env.eps * 2 ^ 2198)
      (_ : ∀ g ∈ w.gcs, g.curMax ≤ env.eps * 2 ^ 2199),
      BalancedMarket.step ops env w ≠ .error .fuel) ∧
    -- flex_window
    (∀ (ops : BatOps α B) (_ : FlexWindow.OpsNoFuel ops) (env : FlexWindow.FEnv α) (_ : 0 < env.base.eps)
      (w : SWorld α B) (window : Option Bool) (events : List (FlexWindow.FEvent α))
      (_ : env.strat = .balanced → BatLaw ops ∧ ∃ g, w.gcs = [g])
      (_ : ∀ g ∈ w.gcs, 2 * g.curMax + env.base.eps ≤ env.base.eps * 2 ^ env.fuel)
      (_ : ∀ s ∈ w.stations, s.maxPower ≤ env.base.eps * 2 ^ env.fuel)
      (_ : ∀ v ∈ w.vehicles, 1 - v.dischargeLimit ≤ env.base.eps * 2 ^ env.fuel),
      FlexWindow.step ops env w window events ≠ .error (.py .fuel)) ∧
    -- schedule
    (∀ (ops : Sched.Ops α B) (_ : Sched.Law ops) (_ : Sched.NoFuel ops) (env : Sched.Env α) (_ : 0 < env.eps)
      (_ : 0 < env.interval) (w : SWorld α B) (st : Sched.CState α) (n A M : Nat)
      (_ : CoreWF env.cst)
      (_ : ∀ id x, Sched.getVx env id = .ok x → x.curveMax ≤ env.eps * 2 ^ env.fuel)
      (_ : ∀ s ∈ w.stations, s.maxPower ≤ env.eps * 2 ^ env.fuel)
      (_ : ∀ v ∈ w.vehicles, 0 ≤ v.minChargingPower ∧ 1 - v.dischargeLimit ≤ env.eps * 2 ^ env.fuel)
      (_ : st.energyNeeded.length ≤ n) (_ : w.vehicles.length ≤ n)
      (_ : ∀ g ∈ w.gcs, g.curMax - g.currentLoad ≤ env.eps * A)
      (_ : ∀ g ∈ w.gcs, g.curMax - g.currentLoad + 1 ≤ env.eps * M) (_ : 1 ≤ env.eps * M)
      (_ : (n * M + 1) * A + n * M + n ≤ env.retryFuel),
      Sched.step ops env w st ≠ .error .fuel) :=
  ⟨fun ops hnf env w => C17_greedy_step_total ops hnf env w,
   fun ops hnf env w => C17_balanced_step_total ops hnf env w,
   fun dops hnf de hd ho s => C17_distributed_rule_step_total dops hnf de hd ho s,
   fun ops law hsum hn env heps events w H hw => C17_peak_shaving_step_total ops law hsum hn env heps events w H hw,
   fun ops hf law env heps hint w hids hbr => C17_peak_load_window_step_total ops hf law env heps hint w hids hbr,
   fun ops hnf law R sl dl env heps w h1 h2 h3 h4 h5 =>
     C17_balanced_market_step_total ops hnf law R sl dl env heps w h1 h2 h3 h4 h5,
   fun ops hnf env heps w window events hbal hg hs hv =>
     C17_flex_window_step_total ops hnf env heps w window events hbal hg hs hv,
   fun ops law hnf env heps hint w st n A M hc hvx hst hveh hn hnv hA hM hM1 hf =>
     C17_schedule_step_total ops law hnf env heps hint w st n A M hc hvx hst hveh hn hnv hA hM hM1 hf⟩

/-- non-vacuity: every conjunct's hypotheses are inhabited — by the examples next to the per-strategy theorems
(toy / ideal batteries and example worlds of the seven modules imported above); here: the schedule conjunct applied
to the toy battery gives a statement about a concrete step. -/
example : Sched.NoFuel Sched.toyOps ∧ Sched.Law Sched.toyOps := ⟨Sched.toyNoFuel, Sched.toyLaw⟩

end SpiceEv
