"""C03 — charging-curve lookup and clamping are exact piecewise-linear operations.

Correspondence: real `LoadingCurve` / `VehicleType` run on exact rationals (`Q`) against the Lean
model on `Rat` — equality of the constructed curve, the clamped curve, lookups and section
boundaries.  Oracle (Python, exact, independent of both): lookup = lerp between the bracketing
points; clamped(s) = post*min(pre*curve(s), L) at every breakpoint of either curve, every crossing
and every midpoint (two piecewise-linear functions that agree there agree on [0,1]); max_power =
max over the points; default discharge curve = factor * charging curve.
"""
import itertools
import random
from fractions import Fraction as F

import engine
from exact import Q
from wire import canon, err

PID = "C03"
RULE = ("quick+thorough: exhaustive grid — SoC in {0,1/4,1/2,3/4,1}, power in {0,1,2,3}, 2-4 points, "
        "L in {0,1/2,..,4}, pre/post in {1/2,1,2}, input order rotated through all permutations; "
        "default-discharge cases through components.VehicleType; random 2-6 point curves and a "
        "malformed stream (duplicate SoCs, missing end points, negative limit) on top. "
        "non-trivial = well-formed curve with a limit that cuts it or a scale factor != 1; "
        "distinct = distinct (points, L, pre, post)")
EXHAUSTIVE = {"quick": True, "thorough": True}
ASSUMPTIONS = ["curve well-formed: distinct SoCs including 0 and 1, powers >= 0; L >= 0; pre, post > 0",
               "exact arithmetic on both sides (fractions.Fraction vs Lean Rat); float rounding of the "
               "same formulas is covered by C01/C02's float correspondence"]
UNPROVED = []

engine.use_repo()


def _q(s):
    return Q(s)


def gen_cases(tier, seed):
    socs_grid = [F(1, 4), F(1, 2), F(3, 4)]
    powers = [0, 1, 2, 3]
    Ls = [F(i, 2) for i in range(0, 9)]
    scales = [F(1, 2), F(1), F(2)]
    k = 0
    for n_int in (0, 1, 2):
        for interior in itertools.combinations(socs_grid, n_int):
            xs = [F(0)] + list(interior) + [F(1)]
            perms = list(itertools.permutations(range(len(xs))))
            for ps in itertools.product(powers, repeat=len(xs)):
                pts = list(zip(xs, ps))
                for L in Ls:
                    for pre in scales:
                        for post in scales:
                            perm = perms[k % len(perms)]
                            k += 1
                            yield {"k": "curve", "pts": [[str(pts[i][0]), str(pts[i][1])] for i in perm],
                                   "L": str(L), "pre": str(pre), "post": str(post),
                                   "socs": ["0", "1/8", "1/4", "3/8", "1/2", "7/10", "3/4", "1"]}
    # default discharge curve through components.VehicleType
    for n_int in (0, 1, 2):
        for interior in itertools.combinations(socs_grid, n_int):
            xs = [F(0)] + list(interior) + [F(1)]
            for ps in itertools.product(powers, repeat=len(xs)):
                if max(ps) == 0:
                    continue
                for fac in ("1/2", "1/4", "1", "3/2"):
                    yield {"k": "vt", "pts": [[str(x), str(p)] for x, p in zip(xs, ps)], "factor": fac,
                           "socs": ["0", "1/8", "1/4", "1/2", "7/10", "1"]}
    rnd = random.Random(seed * 1000003 + 17)
    n_rand = 3000 if tier == "quick" else 200000
    for _ in range(n_rand):
        n = rnd.randint(2, 6)
        den = rnd.choice([6, 10, 12, 20, 97])
        interior = sorted(rnd.sample(range(1, den), n - 2))
        xs = [F(0)] + [F(i, den) for i in interior] + [F(1)]
        shape = rnd.choice(["any", "taper", "rise", "const", "zero_end"])
        if shape == "const":
            p0 = F(rnd.randint(1, 40), rnd.choice([1, 2, 3]))
            ps = [p0] * n
        elif shape == "taper":
            ps = sorted([F(rnd.randint(0, 400), 7) for _ in range(n)], reverse=True)
        elif shape == "rise":
            ps = sorted([F(rnd.randint(0, 400), 7) for _ in range(n)])
        else:
            ps = [F(rnd.randint(0, 400), rnd.choice([1, 3, 7])) for _ in range(n)]
            if shape == "zero_end":
                ps[rnd.choice([0, -1])] = F(0)
        mx = max(ps)
        L = rnd.choice([F(0), mx, mx + 1, mx / 2, F(rnd.randint(0, 4000), 70), rnd.choice(ps)])
        pre = rnd.choice([F(1), F(1, 2), F(19, 20), F(20, 19), F(rnd.randint(1, 30), 10)])
        post = rnd.choice([F(1), F(19, 20), F(20, 19), F(rnd.randint(1, 30), 10)])
        pts = list(zip(xs, ps))
        rnd.shuffle(pts)
        socs = [F(rnd.randint(0, 100), 100) for _ in range(4)] + [F(rnd.randint(-20, 0), 40)]
        yield {"k": "curve", "pts": [[str(a), str(b)] for a, b in pts], "L": str(L), "pre": str(pre),
               "post": str(post), "socs": [str(s) for s in socs]}
    # malformed stream: only error kinds / raw behaviour are compared
    n_bad = 300 if tier == "quick" else 5000
    for _ in range(n_bad):
        n = rnd.randint(1, 4)
        xs = [F(rnd.randint(0, 4), 4) for _ in range(n)]
        ps = [F(rnd.randint(-1, 3)) for _ in range(n)]
        yield {"k": "curve", "pts": [[str(a), str(b)] for a, b in zip(xs, ps)],
               "L": str(F(rnd.randint(-2, 6), 2)), "pre": str(rnd.choice([F(1), F(0), F(-1), F(1, 2)])),
               "post": str(rnd.choice([F(1), F(0), F(2)])), "socs": ["0", "1/3", "1", "5/4"], "bad": 1}


# ------------------------------------------------------------------------------------------

def cq(x):
    """canonical exact token; the float literal 1.0 the code inserts is converted exactly"""
    return x if isinstance(x, str) else canon(Q(x))


def r_curve(c):
    return " ".join([str(len(c.points))] + ["%s %s" % (cq(p[0]), cq(p[1])) for p in c.points]
                    + [cq(c.max_power)])


def lerp_spec(pts, s):
    """independent reference: affine piece through the two points bracketing s (pts sorted, wf)"""
    if s <= pts[0][0]:
        return pts[0][1]
    for a, b in zip(pts, pts[1:]):
        if a[0] < s <= b[0]:
            return a[1] + (b[1] - a[1]) * (s - a[0]) / (b[0] - a[0])
    return None


def eval_case(case):
    from spice_ev.loading_curve import LoadingCurve
    from spice_ev import components
    pts = [(_q(a), _q(b)) for a, b in case["pts"]]
    socs = [_q(s) for s in case["socs"]]
    viol, stats = [], []
    if case["k"] == "vt":
        fac = _q(case["factor"])
        try:
            base = LoadingCurve(pts)
            L, pre, post = base.max_power, fac, Q(1)
        except Exception:
            base = None
            L, pre, post = Q(0), fac, Q(1)
    else:
        L, pre, post = _q(case["L"]), _q(case["pre"]), _q(case["post"])
    line = "curve q %d %s %s %s %s %d %s" % (
        len(pts), " ".join("%s %s" % (a, b) for a, b in pts), L, pre, post, len(socs),
        " ".join(str(s) for s in socs))
    try:
        c = LoadingCurve(pts)
        s_new = r_curve(c)
    except Exception as e:
        c, s_new = None, err(e)
    cl = None
    if c is None:
        s_cl = s_new
    else:
        try:
            if case["k"] == "vt":
                class _F(float):
                    pass
                vt = components.VehicleType({"name": "t", "capacity": 50, "charging_curve": pts,
                                             "v2g_power_factor": fac})
                # float() in set_attr_from_dict rounds the factor; feed the exact value back in the
                # same way the constructor does (this is the statement of the constructor, re-run)
                if Q(vt.v2g_power_factor) != fac:
                    vt.v2g_power_factor = fac
                    vt.discharge_curve = vt.charging_curve.clamped(vt.charging_curve.max_power,
                                                                   pre_scale=vt.v2g_power_factor)
                cl = vt.discharge_curve
            else:
                cl = c.clamped(L, pre_scale=pre, post_scale=post)
            s_cl = r_curve(cl)
        except Exception as e:
            s_cl = err(e)

    def look(cv):
        if cv is None:
            return "-"
        out = []
        for s in socs:
            try:
                v = cv.power_from_soc(s)
                out.append(canon(v) if v is None else cq(v))
            except Exception as e:
                out.append(err(e))
        return " ".join(out)

    def bnd(cv):
        if cv is None:
            return "-"
        out = []
        for s in socs:
            try:
                out.append("%d,%d" % cv.get_section_boundary(s))
            except Exception as e:
                out.append(err(e))
        return " ".join(out)
    impl = "%s | %s | %s | %s | %s | %s" % (s_new, s_cl, look(c), look(cl), bnd(c), bnd(cl))

    # ---- oracle: only inside the property's quantifier
    xs = [p[0] for p in pts]
    wf = (len(set(xs)) == len(xs) and Q(0) in xs and Q(1) in xs and all(Q(0) <= x <= Q(1) for x in xs)
          and all(p[1] >= 0 for p in pts) and len(pts) >= 2 and L >= 0 and pre > 0 and post > 0)
    nontrivial = False
    if wf:
        sp = sorted(pts, key=lambda p: p[0])
        mx = max(p[1] for p in sp)
        nontrivial = (pre * mx > L) or pre != 1 or post != 1
        if c is None:
            viol.append(("constructor", "C03:constructor_rejects_wf_curve", s_new))
        else:
            if [tuple(p) for p in c.points] != sp:
                viol.append(("unsorted_input", "C03:points_not_sorted", r_curve(c)))
            if c.max_power != mx:
                viol.append(("max_power", "C03:max_power", "%s != %s" % (c.max_power, mx)))
            for s in socs + [p[0] for p in sp]:
                if Q(0) <= s <= Q(1):
                    try:
                        got = c.power_from_soc(s)
                    except Exception as e:
                        got = err(e)
                    want = lerp_spec(sp, s)
                    if isinstance(got, str) or got != want:
                        viol.append(("lookup_lerp", "C03:lookup", "soc=%s got=%s want=%s" % (s, got, want)))
                        break
            if cl is None:
                viol.append(("clamped_wf", "C03:clamped_raises", s_cl))
            else:
                # evaluation set: breakpoints of both curves, crossings, midpoints, the case's socs
                U = set(p[0] for p in sp) | set(p[0] for p in cl.points)
                for a, b in zip(sp, sp[1:]):
                    ya, yb = pre * a[1], pre * b[1]
                    if (ya - L) * (yb - L) < 0:
                        U.add(a[0] + (b[0] - a[0]) * (L - ya) / (yb - ya))
                U = sorted(u for u in U if Q(0) <= u <= Q(1))
                U = U + [(a + b) / 2 for a, b in zip(U, U[1:])] + [s for s in socs if Q(0) <= s <= Q(1)]
                for s in U:
                    want = post * min(pre * lerp_spec(sp, s), L)
                    try:
                        got = cl.power_from_soc(s)
                    except Exception as e:
                        got = err(e)
                    if isinstance(got, str) or got != want:
                        key = "C03:clamped_pointwise" if case["k"] == "curve" else "C03:default_discharge"
                        viol.append(("clamped_pointwise" if case["k"] == "curve" else "default_discharge",
                                     key, "soc=%s got=%s want=%s" % (s, got, want)))
                        break
                mxc = max(p[1] for p in cl.points)
                if cl.max_power != mxc or cl.max_power != post * min(pre * mx, L):
                    viol.append(("max_power", "C03:clamped_max_power",
                                 "%s vs points %s vs formula %s" % (cl.max_power, mxc, post * min(pre * mx, L))))
        stats.append("wf")
        if pre * mx > L:
            stats.append("limit_cuts")
        if pre != 1:
            stats.append("pre_scale")
    else:
        stats.append("malformed")
    return {"lines": [line], "impl": [impl], "violations": viol, "nontrivial": nontrivial, "stats": stats}


