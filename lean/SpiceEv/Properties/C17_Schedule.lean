/-
C17 — "every strategy step finishes in bounded time", for the model of the charging strategy `schedule`
(Model/StratSchedule.lean; both sub-strategies): every fuel-guarded loop ends within an explicit bound computed from
its inputs, and the whole step never answers with the model's own `FUEL` marker when the environment's fuel parameters
reach those bounds.  The ONE loop of the pinned class that had no bound — the end-of-core-standing-time scan on a core
standing time that covers the whole week (finding H4; diverging input: `C15_end_of_window_never`, replayed against the real
code) — is modelled as REPAIRED by fixes/H4.diff (scan of at most eight days) and now ends unconditionally.
Lemmas: Proofs/StratScheduleFuel.lean.  `NoFuel ops` = the battery's own loops terminate (C01).
-/
import SpiceEv.Proofs.StratScheduleFuel
import SpiceEv.Properties.C15
set_option linter.unusedSectionVars false
set_option linter.unusedVariables false
namespace SpiceEv
open SpiceEv.Sched
variable {α B : Type} [Field α] [LinearOrder α] [IsStrictOrderedRing α]

/-- **The collective retry loop ends** (`while len(vehicles) > 0` of `charge_vehicles_during_core_standing_time`;
the loop of the hangs H3).  For a queue of at most `n` entries and `remaining_power_on_schedule ≤ ε·A`,
`remaining + 1 ≤ ε·M` at loop entry, `(n·M + 1)·A + n·M + n` passes suffice — for every battery that delivers
`0 ≤ avg ≤ max(requested, 0)`.  Variant (Proofs/StratScheduleFuel.lean, `csRank`): a re-queue either charged at least
ε (then `remaining` fell by ε) or was offered more than ε above the vehicle's last offer (offers are bounded by
`remaining`); every other pass shortens the queue. -/
theorem C17_schedule_retry_loop_terminates (ops : Ops α B) (law : Law ops) (hnf : NoFuel ops) (env : Env α)
    (heps : 0 < env.eps) (fraction : α) (nVeh : Nat) (gid : String) (q : List (String × α)) (extra rem : α)
    (w : SWorld α B) (cmds : List (String × α)) (n A M fuel : Nat) (hq : q.length ≤ n)
    (hA : rem ≤ env.eps * A) (hM : rem + 1 ≤ env.eps * M) (hM1 : 1 ≤ env.eps * M)
    (hf : (n * M + 1) * A + n * M + n ≤ fuel) :
    csLoop ops env fraction nVeh gid fuel 0 q [] extra rem w cmds ≠ .error .fuel := by
  have hR0 : (0 : α) ≤ max rem 0 := le_max_right _ _
  have hRA : max rem 0 ≤ env.eps * A := max_le hA (by positivity)
  have hRM : max rem 0 + 1 ≤ env.eps * M := by
    rcases le_total rem 0 with h | h
    · rw [max_eq_right h]; linarith
    · rw [max_eq_left h]; exact hM
  refine csLoop_ne_fuel ops law hnf env heps fraction nVeh gid (q.map (·.1)) (max rem 0) hR0 fuel 0 q [] extra rem w
    cmds (fun e he => List.mem_map_of_mem he) (le_max_left _ _)
    (fun id => by simp only [loGet, sdGet]; exact ⟨le_refl _, by linarith⟩) ?_
  have h1 := csRank_init_le env.eps (max rem 0) rem heps hR0 (q.map (·.1)) n A M (by simpa using hq)
    (le_max_left _ _) hRA hRM
  rw [List.length_map] at h1
  exact le_trans h1 (by exact_mod_cast hf)

/-- … and with any larger fuel the model's result is the same: from the bound on, the fuel-guarded loop IS the
unbounded `while` loop of the code. -/
theorem C17_schedule_retry_loop_result_independent_of_fuel (ops : Ops α B) (law : Law ops) (hnf : NoFuel ops)
    (env : Env α) (heps : 0 < env.eps) (fraction : α) (nVeh : Nat) (gid : String) (q : List (String × α))
    (extra rem : α) (w : SWorld α B) (cmds : List (String × α)) (n A M fuel fuel' : Nat) (hq : q.length ≤ n)
    (hA : rem ≤ env.eps * A) (hM : rem + 1 ≤ env.eps * M) (hM1 : 1 ≤ env.eps * M)
    (hf : (n * M + 1) * A + n * M + n ≤ fuel) (hf' : fuel ≤ fuel') :
    csLoop ops env fraction nVeh gid fuel' 0 q [] extra rem w cmds =
      csLoop ops env fraction nVeh gid fuel 0 q [] extra rem w cmds := by
  obtain ⟨k, rfl⟩ := Nat.exists_eq_add_of_le hf'
  exact csLoop_fuel_mono ops env fraction nVeh gid fuel k 0 q [] extra rem w cmds
    (C17_schedule_retry_loop_terminates ops law hnf env heps fraction nVeh gid q extra rem w cmds n A M fuel hq hA hM
      hM1 hf)

/-- **The ranking of the retry loop**: under the loop invariants (queued ids listed, `remaining ≤ R`, recorded offers
in `[−1, R]`) `fuel ≥ rank` passes suffice from ANY state of the loop, not only from loop entry. -/
theorem C17_schedule_retry_loop_variant (ops : Ops α B) (law : Law ops) (hnf : NoFuel ops) (env : Env α)
    (heps : 0 < env.eps) (fraction : α) (nVeh : Nat) (gid : String) (ids : List String) (R : α) (hR : 0 ≤ R)
    (fuel i : Nat) (q lo : List (String × α)) (extra rem : α) (w : SWorld α B) (cmds : List (String × α))
    (hq : ∀ e ∈ q, e.1 ∈ ids) (hrem : rem ≤ R) (hlo : ∀ id, -1 ≤ loGet lo id ∧ loGet lo id ≤ R)
    (hrank : csRank env.eps R ids rem lo q.length ≤ (fuel : α)) :
    csLoop ops env fraction nVeh gid fuel i q lo extra rem w cmds ≠ .error .fuel :=
  csLoop_ne_fuel ops law hnf env heps fraction nVeh gid ids R hR fuel i q lo extra rem w cmds hq hrem hlo hrank

/-- **The power search of `sim_balanced_charging` ends** (`while (idx < ITERATIONS or not safe) and max − min > ε`):
its bracket is at most `max(curve_max, 0)` wide for a vehicle with non-negative minimum power, so `fuel` passes
suffice when `curve_max ≤ ε·2^fuel`. -/
theorem C17_schedule_balanced_search_terminates (ops : Ops α B) (hnf : NoFuel ops) (env : Env α) (heps : 0 < env.eps)
    (cs : StationS α) (v : VehicleS α B) (x : VehX α) (dt : Int) (maxPower : α) (deltaSoc : Option α)
    (hv : 0 ≤ v.minChargingPower) (hx : x.curveMax ≤ env.eps * 2 ^ env.fuel) :
    simBalanced ops env cs v x dt maxPower deltaSoc ≠ .error .fuel :=
  simBalanced_ne_fuel ops hnf env heps cs v x dt maxPower deltaSoc hv hx

/-- **The power search of the V2G pass ends** (`while max_power − min_power > ε`): every pass halves the bracket. -/
theorem C17_schedule_v2g_power_search_terminates (ops : Ops α B) (hnf : NoFuel ops) (env : Env α) (heps : 0 < env.eps)
    (cs : StationS α) (v : VehicleS α B) (chargeNow : Bool) (mdp desired : α) (dl : Option α) (dur : Nat)
    (bat0 : B) (fuel : Nat) (mn mx total : α) (sim : B) (hw : mx - mn ≤ env.eps * 2 ^ fuel) :
    v2gPowerLoop ops env cs v chargeNow mdp desired dl dur bat0 fuel mn mx total sim ≠ .error .fuel :=
  v2gPowerLoop_ne_fuel ops hnf env heps cs v chargeNow mdp desired dl dur bat0 fuel mn mx total sim hw

/-- … with the bracket the pass uses (`[0, min(cs.max_power, …)]`): `cs.max_power ≤ ε·2^fuel` suffices. -/
theorem C17_schedule_v2g_total_terminates (ops : Ops α B) (hnf : NoFuel ops) (env : Env α) (heps : 0 < env.eps)
    (chargeNow : Bool) (chargeWindow : List Bool) (cs : StationS α) (v : VehicleS α B) (mdp diff headNeg : α)
    (wc : Nat) (dl : Option α) (hw : cs.maxPower ≤ env.eps * 2 ^ env.fuel) :
    v2gTotal ops env chargeNow chargeWindow cs v mdp diff headNeg wc dl ≠ .error .fuel :=
  v2gTotal_ne_fuel ops hnf env heps chargeNow chargeWindow cs v mdp diff headNeg wc dl hw

/-- **The discharge-limit bisection of the V2G pass ends** (`while max_soc − min_soc > ε` on
`[discharge_limit, 1]`). -/
theorem C17_schedule_v2g_limit_bisection_terminates (ops : Ops α B) (hnf : NoFuel ops) (env : Env α)
    (heps : 0 < env.eps) (chargeNow : Bool) (cs : StationS α) (v : VehicleS α B) (gcCurMax mdp : α)
    (connected : List Bool) (wc : Nat) (prev : Option α) (hw : 1 - v.dischargeLimit ≤ env.eps * 2 ^ env.fuel) :
    v2gLimit ops env chargeNow cs v gcCurMax mdp connected wc prev ≠ .error .fuel :=
  v2gLimit_ne_fuel ops hnf env heps chargeNow cs v gcCurMax mdp connected wc prev hw

/-- **Both loops of `charge_individually` end**: the look-ahead over the standing time (`⌈(etd − now)/interval⌉`
passes, the fuel the model computes itself) and the additional-power bisection on `[0, cs.max_power]`. -/
theorem C17_schedule_individual_loops_terminate (ops : Ops α B) (hnf : NoFuel ops) (env : Env α) (heps : 0 < env.eps)
    (hint : 0 < env.interval) (prev : Option α) (cs : StationS α) (gc : GcS α) (v : VehicleS α B) (sched : α)
    (hw : cs.maxPower ≤ env.eps * 2 ^ env.fuel) :
    indSchedule env v sched ≠ .error .fuel ∧ indAdd ops env prev cs gc v sched ≠ .error .fuel :=
  ⟨indSchedule_no_fuel env hint v sched, indAdd_ne_fuel ops hnf env heps hint prev cs gc v sched hw⟩

/-- **The end-of-core-standing-time scan ends** (`while duration < 8 days and dt_within_core_standing_time(now +
duration)`, one-minute steps; repaired by fixes/H4.diff): for EVERY core standing time with well-formed windows —
including those that cover the whole week, on which the pinned loop never ended (`C15_end_of_window_never`) — it returns
`k` minutes with `k ≤ 8·1440`, every minute before `k` inside, and minute `k` outside unless the eight days are used up. -/
theorem C17_schedule_end_of_window_scan_terminates (env : Env α) (hwf : CoreWF env.cst) :
    ∃ k : Nat, k ≤ 8 * 1440 ∧ dtToEnd env = .ok ((k : Int) * usPerMinute) ∧
      (∀ i : Nat, i < k → dtWithinCoreStandingTime (env.now.add ((i : Int) * usPerMinute)) env.cst = .ok true) ∧
      (k < 8 * 1440 → dtWithinCoreStandingTime (env.now.add ((k : Int) * usPerMinute)) env.cst = .ok false) := by
  obtain ⟨k, -, h2, h3, h4, h5⟩ := dtToEndScan_ok env.now env.cst hwf dtToEndMinutes 0
  refine ⟨k, by simpa [dtToEndMinutes] using h2, ?_, fun i hi => h4 i (Nat.zero_le _) hi,
    fun hk => h5 (by simpa [dtToEndMinutes] using hk)⟩
  unfold dtToEnd
  simpa using h3

/-- **The whole step of `schedule` is total**: `Schedule.step` returns a result or a Python exception value, never the
model's `FUEL` marker, when
* the battery's own loops terminate (`NoFuel`, C01) and it delivers `0 ≤ avg ≤ max(requested, 0)` (`Law`),
* `E = ε·2^fuel` covers the bisection brackets: station maxima, charging-curve maxima, `1 − discharge_limit`
  (the harness supplies `fuel = 1100` at `ε = 1e-5`: every finite double), vehicles' minimum powers are not negative,
* `retryFuel ≥ (n·M + 1)·A + n·M + n` with `n ≥` the number of vehicles (and of entries of a stored
  `energy_needed_per_vehicle`), connector headroom `≤ ε·A`, headroom + 1 `≤ ε·M` (harness/s_schedule.py computes
  `retryFuel` from exactly this formula),
* the windows of the core standing time are well-formed (`CoreWF`).  No hypothesis about WHEN the core standing time ends:
  after repair H4 the end-of-window scan stops after eight days (before it, a core standing time covering the whole week
  made the step hang — `C15_end_of_window_never` is the kernel-checked divergence of the pinned scan, tools/replay_H4.py
  the replay against the real code). -/
theorem C17_schedule_step_total (ops : Ops α B) (law : Law ops) (hnf : NoFuel ops) (env : Env α) (heps : 0 < env.eps)
    (hint : 0 < env.interval) (w : SWorld α B) (st : CState α) (n A M : Nat)
    (hcst : CoreWF env.cst)
    (hvx : ∀ id x, getVx env id = .ok x → x.curveMax ≤ env.eps * 2 ^ env.fuel)
    (hst : ∀ s ∈ w.stations, s.maxPower ≤ env.eps * 2 ^ env.fuel)
    (hveh : ∀ v ∈ w.vehicles, 0 ≤ v.minChargingPower ∧ 1 - v.dischargeLimit ≤ env.eps * 2 ^ env.fuel)
    (hn : st.energyNeeded.length ≤ n) (hnv : w.vehicles.length ≤ n)
    (hA : ∀ g ∈ w.gcs, g.curMax - g.currentLoad ≤ env.eps * A)
    (hM : ∀ g ∈ w.gcs, g.curMax - g.currentLoad + 1 ≤ env.eps * M) (hM1 : 1 ≤ env.eps * M)
    (hfuel : (n * M + 1) * A + n * M + n ≤ env.retryFuel) :
    step ops env w st ≠ .error .fuel :=
  step_ne_fuel ops law hnf env heps hint w st n A M hcst hvx ⟨hst, hveh⟩ hn hnv hA hM hM1 hfuel

/-! ### non-vacuity -/

/-- the toy battery of Proofs/StratSchedule.lean never answers `FUEL` -/
example : NoFuel toyOps := toyNoFuel

/-- retry loop: one vehicle, 4 kW remaining at ε = 1e-5: `A = 400000`, `M = 500000` -/
example : (4 : ℚ) ≤ 1/100000 * (400000 : ℕ) ∧ (4 : ℚ) + 1 ≤ 1/100000 * (500000 : ℕ) ∧
    (1 * 500000 + 1) * 400000 + 1 * 500000 + 1 ≤ 200000900001 := by
  refine ⟨by norm_num, by norm_num, by norm_num⟩

/-- the on-schedule example step (8 kW offered in the first hour of the core standing time) runs the retry loop and
ends with a result — with a retry fuel of 3 passes -/
example :
    (match duringCst toyOps { exEnvC 12 with retryFuel := 3 } exWorldC exStateTarget with
     | .ok r => !r.2.2.isEmpty
     | .error _ => false) = true := by decide +kernel

/-- bisections: a bracket of 11 kW at ε = 1e-5 needs 21 halvings; SoC brackets need 17 -/
example : (11 : ℚ) ≤ 1/100000 * 2 ^ 21 ∧ (1 : ℚ) - 0 ≤ 1/100000 * 2 ^ 17 := by norm_num

/-- the end-of-window scan of the collective example (core standing time 00:00–02:00 inclusive, now = 00:00) returns
121 minutes … -/
example : dtToEnd (exEnvAt 0) = .ok (121 * usPerMinute) := by decide +kernel

/-- … and the step returns a result -/
example : (match step toyOps (exEnvAt 0) exWorldC exState with | .ok _ => true | .error _ => false) = true := by
  decide +kernel

/-- the formerly diverging input: with `no_drive_days = [0, …, 6]` the core standing time never ends (`NeverLeaves`:
the pinned scan ran forever, `C15_end_of_window_never`); its windows are trivially well-formed, so the repaired scan and
the whole step are covered by the theorems above -/
example : NeverLeaves (exEnvAt 0).now (some { noDriveDays := some [0, 1, 2, 3, 4, 5, 6] }) ∧
    CoreWF (some { noDriveDays := some [0, 1, 2, 3, 4, 5, 6] }) := by
  refine ⟨Or.inr ⟨_, rfl, fun r _ => Or.inl ?_⟩, fun w hw => by simp at hw⟩
  have h := DateTime.weekday_range ((exEnvAt 0).now.add ((r : Int) * usPerMinute))
  simp only [Option.getD_some, List.mem_cons, List.not_mem_nil, or_false]
  omega

end SpiceEv
