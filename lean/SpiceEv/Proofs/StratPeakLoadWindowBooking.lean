/-
Energy bookkeeping of `peak_load_window` (C06): `step_gc` changes the world only through booked battery calls — every
vehicle command is the average power of that vehicle's one `Battery.load` call and is what the connector's load rises
by; every stationary battery books the signed average power of its one `load` / `unload` call; the look-ahead
simulations leave no trace (the batteries after the step are the batteries before it or the results of those calls).
-/
import SpiceEv.Proofs.StratPeakLoadWindowBat
set_option linter.unusedSectionVars false
set_option linter.unusedSimpArgs false
set_option linter.unusedVariables false
namespace SpiceEv.PeakLoadWindow
open SpiceEv
variable {α B : Type} [Field α] [LinearOrder α] [IsStrictOrderedRing α]

/-- a booked vehicle call: `(station, avg_power)` of ONE `Battery.load` on the battery of a vehicle of the world `W`
(its state before the step) connected to that station -/
def VCall (ops : BatOps α B) (W : PWorld α B) (kv : String × α) : Prop :=
  ∃ pv ∈ W.vehicles, pv.v.cs = some kv.1 ∧ ∃ req bat', ops.load pv.v.bat none none (some req) = .ok (bat', kv.2)

/-- a vehicle of the world after the step that is not literally a vehicle of the world before it: it is one of those
with a new `schedule`, and possibly with the battery its ONE booked `load` call returned -/
def VDerived (ops : BatOps α B) (W : PWorld α B) (x' : PVeh α B) : Prop :=
  ∃ pv ∈ W.vehicles, ∃ sched, x' = { pv with schedule := some sched } ∨
    ∃ bat' p, ops.load pv.v.bat none none (some sched) = .ok (bat', p) ∧
      x' = { pv with v := { pv.v with bat := bat' }, schedule := some sched }

theorem mem_setVehicle (w : PWorld α B) (v' x' : PVeh α B) (h : x' ∈ (w.setVehicle v').vehicles) :
    x' = v' ∨ x' ∈ w.vehicles := by
  simp only [PWorld.setVehicle, List.mem_map] at h
  obtain ⟨y, hy, e⟩ := h
  split at e
  · exact Or.inl e.symm
  · exact Or.inr (e ▸ hy)

theorem mem_setBattery (w : PWorld α B) (b' x' : StatBatS α B) (h : x' ∈ (w.setBattery b').batteries) :
    x' = b' ∨ x' ∈ w.batteries := by
  simp only [PWorld.setBattery, List.mem_map] at h
  obtain ⟨y, hy, e⟩ := h
  split at e
  · exact Or.inl e.symm
  · exact Or.inr (e ▸ hy)

/-- the final vehicle loop books its calls -/
theorem chargeVehicles_book (ops : BatOps α B) (W : PWorld α B) :
    ∀ (plans : List (PVeh α B × α)) (surplus : α) (st st' : PWorld α B × GcS α × List (String × α)),
      (∀ q ∈ plans, q.1 ∈ W.vehicles) → chargeVehicles ops plans surplus st = .ok st' →
      ∃ calls : List (String × α), (∀ kv ∈ calls, VCall ops W kv) ∧
        st'.2.1.currentLoad = st.2.1.currentLoad + (calls.map (·.2)).sum ∧
        (∀ kv ∈ st'.2.2, kv ∈ st.2.2 ∨ kv ∈ calls) ∧
        (∀ x' ∈ st'.1.vehicles, x' ∈ st.1.vehicles ∨ VDerived ops W x') ∧
        st'.1.batteries = st.1.batteries ∧ st'.1.gcs = st.1.gcs ∧
        st'.2.1.curMax = st.2.1.curMax ∧ st'.2.1.id = st.2.1.id := by
  intro plans
  induction plans with
  | nil =>
    intro surplus st st' _ h
    simp only [chargeVehicles, Except.ok.injEq] at h
    subst h
    exact ⟨[], by simp, by simp, fun kv h => Or.inl h, fun x h => Or.inl h, rfl, rfl, rfl, rfl⟩
  | cons q rest ih =>
    intro surplus st st' hq h
    obtain ⟨pv, planned⟩ := q
    obtain ⟨w, gc, cmds⟩ := st
    have hpv : pv ∈ W.vehicles := hq (pv, planned) (by simp)
    obtain ⟨csId, sched, hcs, hso, hcase⟩ := chargeVehicles_cons ops pv planned rest surplus w gc cmds st' h
    rcases hcase with ⟨_, bat', p, hload, hrec⟩ | ⟨_, hrec⟩
    · obtain ⟨calls, k1, k2, k3, k4, k5, k6, k7, k8⟩ := ih _ _ _ (fun q' hq' => hq q' (List.mem_cons_of_mem _ hq')) hrec
      simp only at k2 k3 k4 k5 k6 k7 k8
      refine ⟨(csId, p) :: calls, ?_, ?_, ?_, ?_, k5, k6, by rw [k7, (addLoad_currentLoad gc csId p).2.1],
        by rw [k8, (addLoad_currentLoad gc csId p).2.2.1]⟩
      · intro kv hkv
        rcases List.mem_cons.mp hkv with rfl | hkv
        · exact ⟨pv, hpv, hcs, sched, bat', hload⟩
        · exact k1 kv hkv
      · rw [k2, (addLoad_currentLoad gc csId p).1]
        simp only [List.map_cons, List.sum_cons]; ring
      · intro kv hkv
        rcases k3 kv hkv with hkv | hkv
        · rcases mem_sdSet _ _ _ _ hkv with hkv | rfl
          · exact Or.inl hkv
          · exact Or.inr (by simp)
        · exact Or.inr (List.mem_cons_of_mem _ hkv)
      · intro x' hx'
        rcases k4 x' hx' with hx' | hx'
        · rcases mem_setVehicle _ _ _ hx' with rfl | hx'
          · exact Or.inr ⟨pv, hpv, sched, Or.inr ⟨bat', p, hload, rfl⟩⟩
          · exact Or.inl hx'
        · exact Or.inr hx'
    · obtain ⟨calls, k1, k2, k3, k4, k5, k6, k7, k8⟩ := ih _ _ _ (fun q' hq' => hq q' (List.mem_cons_of_mem _ hq')) hrec
      simp only at k2 k3 k4 k5 k6 k7 k8
      refine ⟨calls, k1, k2, k3, ?_, k5, k6, k7, k8⟩
      intro x' hx'
      rcases k4 x' hx' with hx' | hx'
      · rcases mem_setVehicle _ _ _ hx' with rfl | hx'
        · exact Or.inr ⟨pv, hpv, sched, Or.inl rfl⟩
        · exact Or.inl hx'
      · exact Or.inr hx'

/-- a booked battery call: `(battery id, signed avg_power)` of ONE `load` (positive) or `unload` (negative) call on a
stationary battery of the list `bats` in its state before the step -/
def BCall (ops : BatOps α B) (bats : List (StatBatS α B)) (kv : String × α) : Prop :=
  ∃ b ∈ bats, b.id = kv.1 ∧ ∃ req bat', ops.load b.bat none none (some req) = .ok (bat', kv.2) ∨
    ∃ avg, ops.unload b.bat none none (some req) = .ok (bat', avg) ∧ kv.2 = -avg

/-- a battery handed back by the second loop: untouched, or with the state its ONE booked call returned -/
def BDerived (ops : BatOps α B) (bats : List (StatBatS α B)) (b' : StatBatS α B) : Prop :=
  ∃ b ∈ bats, b' = b ∨ ∃ req bat' avg, (ops.load b.bat none none (some req) = .ok (bat', avg) ∨
    ops.unload b.bat none none (some req) = .ok (bat', avg)) ∧ b' = { b with bat := bat' }

/-- the second battery loop books its calls -/
theorem applyBatteries_book (ops : BatOps α B) (env : PEnv α) (info : List (String × α))
    (all : List (StatBatS α B)) :
    ∀ (bats : List (StatBatS α B)) (st st' : GcS α × List (String × α) × List (StatBatS α B)),
      (∀ b ∈ bats, b ∈ all) → bats.foldlM (applyBattery ops env info) st = .ok st' →
      ∃ calls : List (String × α), (∀ kv ∈ calls, BCall ops all kv) ∧
        st'.1.currentLoad = st.1.currentLoad + (calls.map (·.2)).sum ∧ st'.1.curMax = st.1.curMax ∧
        st'.1.id = st.1.id ∧ (∀ b' ∈ st'.2.2, b' ∈ st.2.2 ∨ BDerived ops all b') := by
  intro bats
  induction bats with
  | nil =>
    intro st st' _ h
    simp only [List.foldlM_nil, pure, Except.pure, Except.ok.injEq] at h
    subst h
    exact ⟨[], by simp, by simp, rfl, rfl, fun b h => Or.inl h⟩
  | cons b rest ih =>
    intro st st' hall h
    obtain ⟨gc, G, done⟩ := st
    simp only [List.foldlM_cons] at h
    obtain ⟨st1, h1, h2⟩ := bind_ok h
    have hb : b ∈ all := hall b (by simp)
    obtain ⟨calls, k1, k2, k3, k4, k5⟩ := ih st1 st' (fun b' hb' => hall b' (List.mem_cons_of_mem _ hb')) h2
    -- one pass
    have one : ∃ c1 : List (String × α), (∀ kv ∈ c1, BCall ops all kv) ∧
        st1.1.currentLoad = gc.currentLoad + (c1.map (·.2)).sum ∧ st1.1.curMax = gc.curMax ∧ st1.1.id = gc.id ∧
        (∀ b' ∈ st1.2.2, b' ∈ done ∨ BDerived ops all b') := by
      unfold applyBattery at h1
      simp only at h1
      split at h1
      · cases h1
      · split at h1
        · split at h1
          · obtain ⟨x, hx, h1⟩ := bind_ok h1
            obtain ⟨bat', avg⟩ := x
            simp only [Except.ok.injEq] at h1
            subst h1
            obtain ⟨a1, a2, a3, _⟩ := addLoad_currentLoad gc b.id avg
            refine ⟨[(b.id, avg)], ?_, by simp [a1], a2, a3, ?_⟩
            · intro kv hkv
              simp only [List.mem_singleton] at hkv
              subst hkv
              exact ⟨b, hb, rfl, _, bat', Or.inl hx⟩
            · intro b' hb'
              rcases List.mem_append.mp hb' with hb' | hb'
              · exact Or.inl hb'
              · simp only [List.mem_singleton] at hb'
                exact Or.inr ⟨b, hb, Or.inr ⟨_, bat', avg, Or.inl hx, hb'⟩⟩
          · simp only [Except.ok.injEq] at h1
            subst h1
            refine ⟨[], by simp, by simp, rfl, rfl, ?_⟩
            intro b' hb'
            rcases List.mem_append.mp hb' with hb' | hb'
            · exact Or.inl hb'
            · simp only [List.mem_singleton] at hb'
              exact Or.inr ⟨b, hb, Or.inl hb'⟩
        · obtain ⟨x, hx, h1⟩ := bind_ok h1
          obtain ⟨bat', avg⟩ := x
          simp only [Except.ok.injEq] at h1
          subst h1
          obtain ⟨a1, a2, a3, _⟩ := addLoad_currentLoad gc b.id (-avg)
          refine ⟨[(b.id, -avg)], ?_, by simp [a1], a2, a3, ?_⟩
          · intro kv hkv
            simp only [List.mem_singleton] at hkv
            subst hkv
            exact ⟨b, hb, rfl, _, bat', Or.inr ⟨avg, hx, rfl⟩⟩
          · intro b' hb'
            rcases List.mem_append.mp hb' with hb' | hb'
            · exact Or.inl hb'
            · simp only [List.mem_singleton] at hb'
              exact Or.inr ⟨b, hb, Or.inr ⟨_, bat', avg, Or.inr hx, hb'⟩⟩
    obtain ⟨c1, o1, o2, o3, o4, o5⟩ := one
    refine ⟨c1 ++ calls, ?_, ?_, by rw [k3, o3], by rw [k4, o4], ?_⟩
    · intro kv hkv
      rcases List.mem_append.mp hkv with hkv | hkv
      · exact o1 kv hkv
      · exact k1 kv hkv
    · rw [k2, o2]; simp only [List.map_append, List.sum_append]; ring
    · intro b' hb'
      rcases k5 b' hb' with hb' | hb'
      · exact o5 b' hb'
      · exact Or.inr hb'

theorem foldl_setBattery_mem (done : List (StatBatS α B)) :
    ∀ (w : PWorld α B) (x' : StatBatS α B), x' ∈ (done.foldl (fun w b => w.setBattery b) w).batteries →
      x' ∈ w.batteries ∨ x' ∈ done := by
  induction done with
  | nil => intro w x' h; exact Or.inl h
  | cons b rest ih =>
    intro w x' h
    simp only [List.foldl_cons] at h
    rcases ih _ _ h with h | h
    · rcases mem_setBattery _ _ _ h with rfl | h
      · exact Or.inr (by simp)
      · exact Or.inl h
    · exact Or.inr (List.mem_cons_of_mem _ h)

theorem foldl_setBattery_vehicles (done : List (StatBatS α B)) :
    ∀ w : PWorld α B, (done.foldl (fun w b => w.setBattery b) w).vehicles = w.vehicles := by
  induction done with
  | nil => intro w; rfl
  | cons b rest ih => intro w; simp only [List.foldl_cons]; rw [ih]; rfl

/-- **bookkeeping of one `step_gc` call** -/
theorem stepGc_book (ops : BatOps α B) (law : BatLaw ops) (env : PEnv α) (w : PWorld α B) (g : PGc α)
    (level : String) (w' : PWorld α B) (cmds : List (String × α))
    (h : stepGc ops env w g level = .ok (w', cmds)) :
    ∃ vcalls bcalls : List (String × α),
      (∀ kv ∈ vcalls, VCall ops w kv) ∧
      (∀ kv ∈ bcalls, BCall ops (w.batteries.filter (fun b => b.parent == g.gc.id)) kv) ∧
      (∀ kv ∈ cmds, kv ∈ vcalls) ∧
      (∀ g' ∈ w'.gcs, g'.gc.id = g.gc.id → g'.gc.curMax = g.gc.curMax ∧
        g'.gc.currentLoad = g.gc.currentLoad + (vcalls.map (·.2)).sum + (bcalls.map (·.2)).sum) ∧
      (∀ g' ∈ w'.gcs, g'.gc.id ≠ g.gc.id → g' ∈ w.gcs) ∧
      (∀ x' ∈ w'.vehicles, x' ∈ w.vehicles ∨ VDerived ops w x') ∧
      (∀ b' ∈ w'.batteries, b' ∈ w.batteries ∨
        BDerived ops (w.batteries.filter (fun b => b.parent == g.gc.id)) b') ∧
      w'.stations = w.stations := by
  have hst := stepGc_stations ops env w g level w' cmds h
  unfold stepGc at h
  simp only at h
  obtain ⟨r1, hg, h⟩ := bind_ok h
  obtain ⟨vehicles, maxStanding⟩ := r1
  obtain ⟨seasons, _, h⟩ := bind_ok h
  obtain ⟨r2, _, h⟩ := bind_ok h
  obtain ⟨ahead, untilChange⟩ := r2
  obtain ⟨r3, hp, h⟩ := bind_ok h
  obtain ⟨plans, timesteps, pk⟩ := r3
  obtain ⟨ts0, ht0, h⟩ := bind_ok h
  obtain ⟨r4, hc, h⟩ := bind_ok h
  obtain ⟨w1, gc1, cmds1⟩ := r4
  obtain ⟨r5, h5, h⟩ := bind_ok h
  obtain ⟨L1, info1⟩ := r5
  obtain ⟨r6, h6, h⟩ := bind_ok h
  obtain ⟨gc2, gl2, done⟩ := r6
  simp only [Except.ok.injEq, Prod.mk.injEq] at h
  obtain ⟨rfl, rfl⟩ := h
  have hgs := gatherVehicles_spec ops env w g.gc.id vehicles maxStanding hg
  obtain ⟨_, hplans⟩ := planVehicles_spec ops law env w (sumLoads env g.gc.loads) _ _ _ _ _ _
    (headGe_buildTimesteps env seasons level g.gc.id _ _ (g.gc.loads, g.gc.curMax)) hp
  obtain ⟨vc, v1, v2, v3, v4, v5, v6, hcm1, hid1⟩ := chargeVehicles_book ops w plans _ (w, g.gc, [])
    (w1, gc1, cmds1) (fun q hq => (hgs q.1 (mem_sortByKey _ _ _ (hplans q hq).1)).1) hc
  simp only at v2 v3 v4 v5 v6 hcm1 hid1
  obtain ⟨bc, b1, b2, b3, b4, b5⟩ := applyBatteries_book ops env info1 _ _ (gc1, L1, []) (gc2, gl2, done)
    (fun _ hb => hb) h6
  simp only at b2 b3 b4 b5
  have e : gc2.id = g.gc.id := by rw [b4, hid1]
  refine ⟨vc, bc, v1, b1, ?_, ?_, ?_, ?_, ?_, hst⟩
  · intro kv hkv
    rcases v3 kv hkv with hk | hk
    · simp at hk
    · exact hk
  · intro g' hg' hid
    simp only [PWorld.setGc, List.mem_map] at hg'
    obtain ⟨x, _, hx⟩ := hg'
    split at hx
    · subst hx
      simp only
      exact ⟨by rw [b3, hcm1], by rw [b2, v2]⟩
    · rename_i hne
      subst hx
      exfalso
      apply hne
      simp only [e]
      rw [hid]; simp
  · intro g' hg' hid
    simp only [PWorld.setGc, List.mem_map] at hg'
    obtain ⟨x, hxm, hx⟩ := hg'
    split at hx
    · rename_i he
      subst hx
      exfalso
      apply hid
      exact e
    · subst hx
      rw [foldl_setBattery_gcs, v6] at hxm
      exact hxm
  · intro x' hx'
    simp only [PWorld.setGc] at hx'
    rw [foldl_setBattery_vehicles] at hx'
    exact v4 x' hx'
  · intro b' hb'
    simp only [PWorld.setGc] at hb'
    rcases foldl_setBattery_mem done w1 b' hb' with hb' | hb'
    · rw [v5] at hb'; exact Or.inl hb'
    · rcases b5 b' hb' with hb' | hb'
      · simp at hb'
      · exact Or.inr hb'

/-- (connector loads, vehicle SoCs, battery SoCs) of the example world after a `step_gc` result -/
def worldOf (r : Py (PWorld ℚ ℚ × List (String × ℚ))) : Option (List ℚ × List ℚ × List ℚ) :=
  match r with
  | .ok (w, _) => some (w.gcs.map (fun g => g.gc.currentLoad), w.vehicles.map (fun v => v.v.bat),
      w.batteries.map (fun b => b.bat))
  | .error _ => none

end SpiceEv.PeakLoadWindow
