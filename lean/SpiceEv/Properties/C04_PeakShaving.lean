/-
C04 (grid-connector power limit) for the charging strategy `peak_shaving`
(Model/StratPeakShaving.lean, tied to spice_ev/strategies/peak_shaving.py bit for bit by harness/s_peak_shaving.py).

The model is the REPAIRED class (fixes/PS1.diff, fixes/PS2.diff).  The pinned commit exceeded the limit in two
situations (former findings `C04:strategy_breaks_limit:peak_shaving:draw:vehicles` — the whole surplus to every vehicle,
D6 — and `…:draw:batteries` — the battery pass never read the limit valid now); with the repairs the hypotheses "no
surplus" and "no predicted level above the present limit" of the earlier `_partial` theorems are gone.  What is still
assumed, and why the names keep `_partial`: `LoadSat` — on exact numbers the battery meets a positive target-power
request exactly or is saturated (C02's target-power sentence; the real battery may fall short of a request by its own
EPS, finding D15/D16) — and exact arithmetic (`SumExact`; IEEE rounding is covered by the bit-level tie only).
-/
import SpiceEv.Proofs.StratPeakShavingVeh
set_option linter.unusedSectionVars false
set_option linter.unusedVariables false
namespace SpiceEv
open PeakShaving
variable {α B : Type} [Field α] [LinearOrder α] [IsStrictOrderedRing α]

/-- **Vehicles never break the limit — surplus or not** (repaired code).
For any battery obeying the battery law (`0 ≤ avg_power ≤ requested`, C01/C02) and `LoadSat`, exact `sum`, any visible
events that all start after the present step, unique vehicle ids, any number of vehicles standing now or predicted to
arrive, any stations, minimum powers, limits signalled for later steps, horizon and foresight mode:
if the connector's load before the step (fixed load − generation, possibly negative) is at most the currently valid
limit `≥ 0` and no stationary battery hangs on this connector, then after `step_gc` the connector's load is still at
most the limit (and not lower than before); limit and id are untouched.

The proof follows the code: the first forecast entry is the connector's present state; `fast_charge` raises it for
a vehicle standing now by exactly what the first simulated `battery.load` takes, bounded by
`min(opt_power, max_power) − cur_power`; the apply pass repeats that call on the real battery with the planned power
or — surplus offer — a larger one, and books what the battery takes beyond the plan as used surplus, so that all
offers together never exceed the surplus `−min(timesteps[0]["cur_power"], 0)` left after planning. -/
theorem C04_peak_shaving_vehicles_partial (ops : PeakShaving.Ops α B) (law : BatLaw ops.bat) (hsat : LoadSat ops)
    (hsum : SumExact ops) (env : PeakShaving.Env α) (events : List (PeakShaving.Ev α))
    (hev : EventsAhead env events) (w w' : SWorld α B) (hu : UniqueVehicles w) (gc : GcS α)
    (hm0 : 0 ≤ gc.curMax) (hmax : gc.currentLoad ≤ gc.curMax)
    (hnobat : ∀ b ∈ w.batteries, b.parent ≠ gc.id)
    (cmds : List (String × α)) (fc : List α)
    (h : PeakShaving.stepGc ops env events w gc = .ok (w', cmds, fc)) :
    ∃ (wmid : SWorld α B) (g' : GcS α), w' = wmid.setGc g' ∧ g'.id = gc.id ∧ g'.curMax = gc.curMax ∧
      gc.currentLoad ≤ g'.currentLoad ∧ g'.currentLoad ≤ gc.curMax := by
  obtain ⟨nAhead, arr, ts0, ts, vehicles, acc1, acc2, ts2, _, hfc, hadj, hap, hfold, hw, _⟩ :=
    stepGc_fold ops env events w w' gc cmds fc h
  have := batteryFold_none ops env nAhead gc.id _ hnobat _ _ hfold
  simp only [Prod.mk.injEq] at this
  obtain ⟨rfl, _⟩ := this
  obtain ⟨h1, h2, h3, h4⟩ := vehiclePass_limit ops law hsat hsum env events hev w hu gc hm0 hmax nAhead arr ts0 ts
    vehicles acc2 hfc hadj hap
  exact ⟨acc2.world, acc2.gc, hw, h4, h3, h1, h2⟩

/-- **One stationary battery never breaks the limit** (repaired code: unconditional).
For the body of the battery loop of `step_gc` (both bisections, the clamp to the headroom valid now, the final
`load`/`unload`), any battery obeying the battery law, any forecast: the connector's load after the battery is at most
`max(load before, limit valid now)`; it is also at most every `bound ≥ 0` that dominates the load before it and all
predicted power levels of the horizon (the battery shaves, it does not create peaks), and it is never below
`min(load before, 0)` — a battery never discharges into feed-in. -/
theorem C04_peak_shaving_battery (ops : PeakShaving.Ops α B) (law : BatLaw ops.bat)
    (env : PeakShaving.Env α) (heps : 0 ≤ env.eps) (nAhead : Int) (gcId : String) (acc acc' : Acc α B)
    (ts ts' : List (TS α)) (b0 : StatBatS α B)
    (h : batteryStep ops env nAhead gcId (acc, ts) b0 = .ok (acc', ts')) :
    acc'.gc.currentLoad ≤ max acc.gc.currentLoad acc.gc.curMax ∧
    min acc.gc.currentLoad 0 ≤ acc'.gc.currentLoad ∧
    (∀ bound, 0 ≤ bound → acc.gc.currentLoad ≤ bound → (∀ pl ∈ powerLevels nAhead ts', pl ≤ bound) →
      acc'.gc.currentLoad ≤ bound) ∧
    acc'.gc.curMax = acc.gc.curMax ∧ acc'.gc.id = acc.gc.id :=
  let ⟨h1, h2, h3, h4, _, h6⟩ := batteryStep_bounds ops law env heps nAhead gcId acc acc' ts ts' b0 h
  ⟨h6, h1, h2, h3, h4⟩

/-- **The whole `step_gc` keeps the connector within ± its limit** (repaired code): any number of vehicles and of
stationary batteries at the connector, surplus or not, any forecast.  If the load before the step is at most the limit
`≥ 0`, the load after the step lies in `[min(load before, 0), limit]`. -/
theorem C04_peak_shaving_limit_partial (ops : PeakShaving.Ops α B) (law : BatLaw ops.bat) (hsat : LoadSat ops)
    (hsum : SumExact ops) (env : PeakShaving.Env α) (heps : 0 ≤ env.eps) (events : List (PeakShaving.Ev α))
    (hev : EventsAhead env events) (w w' : SWorld α B) (hu : UniqueVehicles w) (gc : GcS α)
    (hm0 : 0 ≤ gc.curMax) (hmax : gc.currentLoad ≤ gc.curMax)
    (cmds : List (String × α)) (fc : List α)
    (h : PeakShaving.stepGc ops env events w gc = .ok (w', cmds, fc)) :
    ∃ (wmid : SWorld α B) (g' : GcS α), w' = wmid.setGc g' ∧ g'.id = gc.id ∧ g'.curMax = gc.curMax ∧
      min gc.currentLoad 0 ≤ g'.currentLoad ∧ g'.currentLoad ≤ gc.curMax := by
  obtain ⟨nAhead, arr, ts0, ts, vehicles, acc1, acc2, ts2, hn, hfc, hadj, hap, hfold, hw, _⟩ :=
    stepGc_fold ops env events w w' gc cmds fc h
  obtain ⟨h1, h2, h3, h4⟩ := vehiclePass_limit ops law hsat hsum env events hev w hu gc hm0 hmax nAhead arr ts0 ts
    vehicles acc1 hfc hadj hap
  obtain ⟨hb1, hb3, hb4⟩ := batteryFold_lower ops law env heps nAhead gc.id w.batteries (acc1, ts) (acc2, ts2) hfold
  have hb2 := batteryFold_limit ops law env heps nAhead gc.id w.batteries (acc1, ts) (acc2, ts2) hfold
  simp only at hb1 hb2 hb3 hb4
  refine ⟨acc2.world, acc2.gc, hw, hb4.trans h4, hb3.trans h3, ?_, ?_⟩
  · have : min gc.currentLoad 0 ≤ min acc1.gc.currentLoad 0 :=
      le_min (le_trans (min_le_left _ _) h1) (min_le_right _ _)
    exact le_trans this hb1
  · rw [h3] at hb2
    exact le_trans hb2 (max_le h2 (le_refl _))

/-- **The whole `step` (all connectors in turn) keeps every connector within its limit** in a world without
stationary batteries (repaired code, surplus or not): if before the step every connector's load is at most its
currently valid limit `≥ 0`, then so it is after the step — any number of connectors, vehicles and stations. -/
theorem C04_peak_shaving_step_vehicles_partial (ops : PeakShaving.Ops α B) (law : BatLaw ops.bat)
    (hsat : LoadSat ops) (hsum : SumExact ops) (env : PeakShaving.Env α) (events : List (PeakShaving.Ev α))
    (hev : EventsAhead env events) (w w' : SWorld α B) (hu : UniqueVehicles w) (hnb : w.batteries = [])
    (hall : ∀ g ∈ w.gcs, 0 ≤ g.curMax ∧ g.currentLoad ≤ g.curMax)
    (cmds : List (String × α)) (fc : List α)
    (h : PeakShaving.step ops env events w = .ok (w', cmds, fc)) :
    ∀ g ∈ w'.gcs, 0 ≤ g.curMax ∧ g.currentLoad ≤ g.curMax := by
  unfold PeakShaving.step at h
  exact step_nobat_limit ops law hsat hsum env events hev w.gcs (w, [], []) (w', cmds, fc) hu hnb hall h

/-- **The feed-in side of the limit holds unconditionally.**  For every world, every event list and any battery
obeying the battery law: `step_gc` never lowers the connector's load below `min(load before, 0)` — vehicles are only
charged, a stationary battery never discharges below a zero connector load.  Hence a connector whose fixed load and
generation alone respect `−limit` still respects it after the strategy has acted (surplus or not). -/
theorem C04_peak_shaving_feed_in (ops : PeakShaving.Ops α B) (law : BatLaw ops.bat)
    (env : PeakShaving.Env α) (heps : 0 ≤ env.eps) (events : List (PeakShaving.Ev α))
    (w w' : SWorld α B) (gc : GcS α) (cmds : List (String × α)) (fc : List α)
    (h : PeakShaving.stepGc ops env events w gc = .ok (w', cmds, fc)) :
    ∃ (wmid : SWorld α B) (g' : GcS α), w' = wmid.setGc g' ∧ g'.id = gc.id ∧ g'.curMax = gc.curMax ∧
      min gc.currentLoad 0 ≤ g'.currentLoad := by
  obtain ⟨nAhead, arr, ts0, ts, vehicles, acc1, acc2, ts2, _, _, _, hap, hfold, hw, _⟩ :=
    stepGc_fold ops env events w w' gc cmds fc h
  obtain ⟨hb1, hb2, hb3⟩ := batteryFold_lower ops law env heps nAhead gc.id w.batteries (acc1, ts) (acc2, ts2) hfold
  simp only at hb1 hb2 hb3
  have hv : gc.currentLoad ≤ acc1.gc.currentLoad ∧ acc1.gc.curMax = gc.curMax ∧ acc1.gc.id = gc.id := by
    rcases applyPass_trace ops w gc ts vehicles acc1 hap with ⟨_, rfl⟩ | ⟨t0, _, htr⟩
    · exact ⟨le_refl _, rfl, rfl⟩
    · exact vehTrace_load_mono ops law _ _ _ htr
  refine ⟨acc2.world, acc2.gc, hw, hb3.trans hv.2.2, hb2.trans hv.2.1, ?_⟩
  have : min gc.currentLoad 0 ≤ min acc1.gc.currentLoad 0 := le_min (le_trans (min_le_left _ _) hv.1) (min_le_right _ _)
  exact le_trans this hb1

/-- **The hypothesis `EventsAhead` is what `__init__` establishes.**  With perfect foresight it holds for the event
list `__init__` builds (`initEvents`: all events, stably sorted by start time), at any current time — popping the
past events leaves only events that start later — and for every list sorted by start time (such as the suffix that
remains after earlier steps).  Without foresight it is the statement that the queue of future events holds only events
that start after the present step (what `Strategy.step` leaves, C07). -/
theorem C04_peak_shaving_events_ahead (env : PeakShaving.Env α) (hp : env.perfect = true)
    (horizon scenarioStart : Int) (ves sigs : List (Signalled α)) (loads gens : List (List (Signalled α))) :
    EventsAhead env ((initEvents horizon scenarioStart ves sigs loads gens).1.map (·.ev)) ∧
    (∀ events : List (PeakShaving.Ev α), events.Pairwise (fun a b => a.start ≤ b.start) → EventsAhead env events) :=
  ⟨eventsAhead_of_sorted env hp _ (initEvents_sorted horizon scenarioStart ves sigs loads gens),
   fun events hs => eventsAhead_of_sorted env hp events hs⟩

/-! Non-vacuity (hypotheses satisfiable: `toyLaw`, `toyLoadSat`, `toySum`): a 20 kW connector drawing 3 kW now and 8 kW later, a vehicle that needs 5 kWh
within two steps, a half-full battery: the step returns, the connector ends at 5505029/524288 ≈ 10.5 kW ≤ 20 kW. -/
example :
    (match PeakShaving.step toyOps ⟨1/100000, 4, 0, 900000000, 4 * 900000000, true, 60⟩
        [.load 900000000 "GC" "load" 8]
        ⟨[⟨"GC", 20, none, [("load", 3)]⟩], [⟨"CS", "GC", 11, 0, 0⟩],
         [⟨"v", some "CS", 1, some (2 * 900000000), 0, false, 0, 1/2⟩], [⟨"B", "GC", 0, 1/2⟩]⟩ with
      | .ok (w, _, _) => w.gcs.map GcS.currentLoad
      | .error _ => []) = [5505029/524288] := by
  decide +kernel

/-! Non-vacuity of the battery-free theorems (`…_vehicles_partial`, `…_step_vehicles_partial`): two connectors without
batteries, one draws 3 kW and has a vehicle at a 3.7 kW station, the other draws 1 kW: after `step` they are at
6.7 kW ≤ 20 kW and 1 kW ≤ 5 kW. -/
example :
    (match PeakShaving.step toyOps ⟨1/100000, 4, 0, 900000000, 4 * 900000000, true, 60⟩ []
        ⟨[⟨"GC", 20, none, [("load", 3)]⟩, ⟨"GC2", 5, none, [("load", 1)]⟩], [⟨"CS", "GC", 37/10, 0, 0⟩],
         [⟨"v", some "CS", 1, some (2 * 900000000), 0, false, 0, 1/2⟩], []⟩ with
      | .ok (w, _, _) => w.gcs.map GcS.currentLoad
      | .error _ => []) = [67/10, 1] := by
  decide +kernel

/-! **The former witness of D6 (vehicles), now within the limit:** limit 6 kW, 5 kW generation surplus, three vehicles
that need nothing.  The pinned code handed the whole surplus to each (connector at −5 + 3·5 = 10 kW > 6 kW); the
repaired code gives it to the first vehicle only: the connector ends at 0 kW. -/
example :
    (match PeakShaving.step toyOps ⟨1/100000, 4, 0, 900000000, 4 * 900000000, true, 60⟩ []
        ⟨[⟨"GC", 6, none, [("pv", -5)]⟩],
         [⟨"CS1", "GC", 11, 0, 0⟩, ⟨"CS2", "GC", 11, 0, 0⟩, ⟨"CS3", "GC", 11, 0, 0⟩],
         [⟨"v1", some "CS1", 1/2, some (2 * 900000000), 0, false, 0, 1/2⟩,
          ⟨"v2", some "CS2", 1/2, some (2 * 900000000), 0, false, 0, 1/2⟩,
          ⟨"v3", some "CS3", 1/2, some (2 * 900000000), 0, false, 0, 1/2⟩], []⟩ with
      | .ok (w, c, _) => (c, w.gcs.map GcS.currentLoad)
      | .error _ => ([], [])) = ([("CS1", 5)], [0]) := by
  decide +kernel

/-! **The former witness of the battery finding, now within the limit:** limit 5 kW now, raised to 20 kW from the next
step on by an operator signal; fixed load 1 kW now, 12 kW from the next step on; an empty battery.  The pinned code
charged ≈ 8.25 kW now (connector at ≈ 9.25 kW > 5 kW); the repaired code charges the 4 kW of headroom: 5 kW. -/
example :
    (match PeakShaving.step toyOps ⟨1/100000, 4, 0, 900000000, 4 * 900000000, true, 60⟩
        [.signal 900000000 "GC" (some 20), .load 900000000 "GC" "load" 12]
        ⟨[⟨"GC", 5, none, [("load", 1)]⟩], [], [], [⟨"B", "GC", 0, 0⟩]⟩ with
      | .ok (w, _, _) => w.gcs.map GcS.currentLoad
      | .error _ => []) = [5] := by
  decide +kernel

end SpiceEv
