/-
Helper lemmas for C20 (Model/GenCsv.lean): the loop invariant of `assign_vehicle_id`.
-/
import Mathlib.Data.List.Basic
import Mathlib.Data.List.Nodup
import Mathlib.Data.List.Perm.Basic
import Mathlib.Data.List.Forall2
import Mathlib.Algebra.Order.Field.Rat
import Mathlib.Tactic.NormNum
import SpiceEv.Model.GenCsv

namespace SpiceEv.GenCsv

/-! ### `release` -/

theorem release_spec (d : Int) (q : List Rot) (idle : List VId) :
    ∃ rel, q = rel ++ (release d q idle).1 ∧ (release d q idle).2 = idle ++ rel.map (·.vid) ∧
      (∀ r ∈ rel, r.mdt < d) ∧ (∀ r, (release d q idle).1.head? = some r → d ≤ r.mdt) := by
  induction q generalizing idle with
  | nil => exact ⟨[], by simp [release]⟩
  | cons r q ih =>
    unfold release
    by_cases h : r.mdt < d
    · simp only [h, if_true]
      obtain ⟨rel, h1, h2, h3, h4⟩ := ih (idle ++ [r.vid])
      refine ⟨r :: rel, ?_, ?_, ?_, h4⟩
      · simp [← h1]
      · rw [h2]; simp
      · intro x hx
        rcases List.mem_cons.mp hx with rfl | hx
        · exact h
        · exact h3 x hx
    · simp only [h, if_false]
      refine ⟨[], by simp, by simp, by simp, ?_⟩
      intro x hx
      simp at hx
      subst hx
      omega

/-- on a queue sorted by `min_departure_time` the early `break` loses nothing -/
theorem release_rest_ge (d : Int) (q : List Rot) (idle : List VId)
    (hs : q.Pairwise (fun a b => a.mdt ≤ b.mdt)) :
    ∀ r ∈ (release d q idle).1, d ≤ r.mdt := by
  obtain ⟨rel, h1, -, -, h4⟩ := release_spec d q idle
  intro r hr
  rw [h1] at hs
  have hs' := (List.pairwise_append.mp hs).2.1
  cases hq : (release d q idle).1 with
  | nil => rw [hq] at hr; simp at hr
  | cons x rest =>
    rw [hq] at hr hs' h4
    have hx : d ≤ x.mdt := h4 x rfl
    rcases List.mem_cons.mp hr with rfl | hr
    · exact hx
    · have := (List.pairwise_cons.mp hs').1 r hr
      omega

/-! ### `pyInsert` at `insertPos` -/

theorem pyInsert_perm {α : Type} (i : Nat) (x : α) (l : List α) : (pyInsert i x l).Perm (x :: l) := by
  induction l generalizing i with
  | nil => simp [pyInsert]
  | cons y l ih =>
    cases i with
    | zero => simp [pyInsert]
    | succ i =>
      simp only [pyInsert]
      exact ((ih i).cons y).trans (List.Perm.swap x y l)

theorem mem_pyInsert {α : Type} (i : Nat) (x y : α) (l : List α) :
    y ∈ pyInsert i x l ↔ y = x ∨ y ∈ l := by
  rw [(pyInsert_perm i x l).mem_iff]; simp

theorem pyInsert_sorted (x : Rot) (q : List Rot) (hs : q.Pairwise (fun a b => a.mdt ≤ b.mdt)) :
    (pyInsert (insertPos x.mdt q) x q).Pairwise (fun a b => a.mdt ≤ b.mdt) := by
  induction q with
  | nil => simp [pyInsert]
  | cons r q ih =>
    have hq := List.pairwise_cons.mp hs
    unfold insertPos
    by_cases h : x.mdt ≤ r.mdt
    · simp only [h, if_true, pyInsert]
      refine List.pairwise_cons.mpr ⟨?_, hs⟩
      intro y hy
      rcases List.mem_cons.mp hy with rfl | hy
      · exact h
      · have := hq.1 y hy; omega
    · simp only [h, if_false, pyInsert]
      refine List.pairwise_cons.mpr ⟨?_, ih hq.2⟩
      intro y hy
      rcases (mem_pyInsert _ _ _ _).mp hy with rfl | hy
      · omega
      · exact hq.1 y hy

/-! ### `v_type_counts` -/

theorem incrCount_spec (ty : String) (counts : List (String × Nat)) (n : Nat)
    (counts' : List (String × Nat)) (h : incrCount ty counts = .ok (n, counts')) :
    (∃ c, counts.lookup ty = some c ∧ n = c + 1) ∧ counts'.lookup ty = some n ∧
      ∀ k, k ≠ ty → counts'.lookup k = counts.lookup k := by
  induction counts generalizing n counts' with
  | nil => simp [incrCount] at h
  | cons kc rest ih =>
    unfold incrCount at h
    by_cases hk : kc.1 = ty
    · have hb : (kc.1 == ty) = true := by simp [hk]
      simp only [hb, if_true] at h
      injection h with h
      injection h with h1 h2
      subst h1 h2
      obtain ⟨k, c⟩ := kc
      simp only at hk
      subst hk
      refine ⟨⟨c, by simp [List.lookup], rfl⟩, by simp [List.lookup], ?_⟩
      intro k' hk'
      have : (k' == k) = false := by simp [hk']
      simp [List.lookup, this]
    · have hb : (kc.1 == ty) = false := by simp [hk]
      simp only [hb] at h
      cases hr : incrCount ty rest with
      | error e => simp [hr] at h
      | ok p =>
        obtain ⟨n', rest'⟩ := p
        simp only [hr] at h
        injection h with h
        injection h with h1 h2
        subst h1 h2
        obtain ⟨⟨c, hc1, hc2⟩, h2, h3⟩ := ih n' rest' hr
        obtain ⟨k, c0⟩ := kc
        simp only at hk hb
        have hb' : (ty == k) = false := by simp [Ne.symm hk]
        refine ⟨⟨c, by simp [List.lookup, hb', hc1], hc2⟩, by simp [List.lookup, hb', h2], ?_⟩
        intro k' hk'
        by_cases hkk : k' = k
        · subst hkk; simp [List.lookup]
        · have : (k' == k) = false := by simp [hkk]
          simp [List.lookup, this, h3 k' hk']

theorem incrCount_ok_iff (ty : String) (counts : List (String × Nat)) :
    (∃ p, incrCount ty counts = .ok p) ↔ ∃ c, counts.lookup ty = some c := by
  induction counts with
  | nil => simp [incrCount]
  | cons kc rest ih =>
    obtain ⟨k, c0⟩ := kc
    unfold incrCount
    by_cases hk : k = ty
    · subst hk; simp [List.lookup]
    · have hb : (k == ty) = false := by simp [hk]
      have hb' : (ty == k) = false := by simp [Ne.symm hk]
      simp only [hb, List.lookup, hb']
      rw [← ih]
      cases incrCount ty rest with
      | error e => simp
      | ok p => simp


/-! ### `pickVehicle`, `step` inversion -/

theorem pickVehicle_spec (ty : String) (idle : List VId) (counts : List (String × Nat))
    (vid : VId) (idle' : List VId) (counts' : List (String × Nat))
    (h : pickVehicle ty idle counts = .ok (vid, idle', counts')) :
    (∃ l₁ l₂, idle = l₁ ++ vid :: l₂ ∧ (∀ w ∈ l₁, w.vtype ≠ ty) ∧ vid.vtype = ty ∧
        idle' = idle.erase vid ∧ counts' = counts) ∨
    ((∀ w ∈ idle, w.vtype ≠ ty) ∧ idle' = idle ∧
        ∃ n, vid = ⟨ty, n⟩ ∧ incrCount ty counts = .ok (n, counts')) := by
  unfold pickVehicle at h
  cases hf : idle.find? (fun v => v.vtype == ty) with
  | some v =>
    simp only [hf] at h
    injection h with h
    injection h with h1 h2
    injection h2 with h2 h3
    subst h1 h2 h3
    left
    obtain ⟨hp, l₁, l₂, hl, hn⟩ := List.find?_eq_some_iff_append.mp hf
    refine ⟨l₁, l₂, hl, ?_, by simpa using hp, rfl, rfl⟩
    intro w hw
    have := hn w hw
    simpa using this
  | none =>
    simp only [hf] at h
    right
    have hnone := List.find?_eq_none.mp hf
    cases hi : incrCount ty counts with
    | error e => simp [hi] at h
    | ok p =>
      obtain ⟨n, c'⟩ := p
      simp only [hi] at h
      injection h with h
      injection h with h1 h2
      injection h2 with h2 h3
      subst h1 h2 h3
      refine ⟨?_, rfl, n, rfl, rfl⟩
      intro w hw
      have := hnone w hw
      simpa using this

/-- the rotation dict written by one loop iteration -/
def newRot (it : Trip × Nat) (vid : VId) (m : Int) : Rot := ⟨it.2, it.1, vid, it.1.arr + m⟩

theorem step_ok_inv (ms : List (String × Int)) (s s' : St) (it : Trip × Nat)
    (h : step ms s it = .ok s') :
    ∃ vid idle counts m,
      pickVehicle it.1.vtype (release it.1.dep s.queue s.idle).2 s.counts = .ok (vid, idle, counts) ∧
      ms.lookup it.1.vtype = some m ∧
      s'.queue = pyInsert (insertPos (it.1.arr + m) (release it.1.dep s.queue s.idle).1)
          (newRot it vid m) (release it.1.dep s.queue s.idle).1 ∧
      s'.idle = idle ∧ s'.counts = counts ∧ s'.out = s.out ++ [newRot it vid m] := by
  unfold step at h
  simp only at h
  cases hp : pickVehicle it.1.vtype (release it.1.dep s.queue s.idle).2 s.counts with
  | error e => simp [hp] at h
  | ok p =>
    obtain ⟨vid, idle, counts⟩ := p
    simp only [hp] at h
    cases hm : ms.lookup it.1.vtype with
    | none => simp [hm] at h
    | some m =>
      simp only [hm] at h
      injection h with h
      subst h
      exact ⟨vid, idle, counts, m, rfl, rfl, rfl, rfl, rfl, rfl⟩


/-! ### the loop invariant -/

/-- a new vehicle id is created only if every existing vehicle of that type is still busy -/
def FrugalNew (out : List Rot) : Prop :=
  ∀ pre b suf, out = pre ++ b :: suf → (∀ a ∈ pre, a.vid ≠ b.vid) →
    ∀ a ∈ pre, a.trip.vtype = b.trip.vtype → ∃ a' ∈ pre, a'.vid = a.vid ∧ b.trip.dep ≤ a'.mdt

/-- a reused vehicle has been free at least as long as every other idle vehicle of the type -/
def Fifo (out : List Rot) : Prop :=
  ∀ pre b suf, out = pre ++ b :: suf →
    ∀ a₂ ∈ pre, a₂.vid ≠ b.vid → a₂.trip.vtype = b.trip.vtype →
      (∀ a' ∈ pre, a'.vid = a₂.vid → a'.mdt < b.trip.dep) →
      ∀ a₁ ∈ pre, a₁.vid = b.vid → ∃ a' ∈ pre, a'.vid = a₂.vid ∧ a₁.mdt ≤ a'.mdt

/-- every rotation of `v` is finished no later than some rotation of `w` -/
def RelLe (out : List Rot) (v w : VId) : Prop :=
  ∀ a ∈ out, a.vid = v → ∃ b ∈ out, b.vid = w ∧ a.mdt ≤ b.mdt

structure Inv (ms : List (String × Int)) (s : St) (d : Int) : Prop where
  sorted : s.queue.Pairwise (fun a b => a.mdt ≤ b.mdt)
  qsub : ∀ r ∈ s.queue, r ∈ s.out
  qnodup : (s.queue.map (·.vid)).Nodup
  idleNodup : s.idle.Nodup
  disj : ∀ r ∈ s.queue, r.vid ∉ s.idle
  cover : ∀ a ∈ s.out, a.vid ∈ s.idle ∨ ∃ r ∈ s.queue, r.vid = a.vid
  idleSub : ∀ v ∈ s.idle, ∃ a ∈ s.out, a.vid = v
  idleDone : ∀ a ∈ s.out, a.vid ∈ s.idle → a.mdt < d
  qlast : ∀ r ∈ s.queue, ∀ a ∈ s.out, a.vid = r.vid → a = r ∨ a.mdt < r.trip.dep
  depLe : ∀ a ∈ s.out, a.trip.dep ≤ d
  cnt : ∀ a ∈ s.out, ∃ c, s.counts.lookup a.vid.vtype = some c ∧ a.vid.n ≤ c
  pure : ∀ a ∈ s.out, a.vid.vtype = a.trip.vtype
  mdtEq : ∀ a ∈ s.out, ms.lookup a.trip.vtype = some (a.mdt - a.trip.arr)
  standing : s.out.Pairwise (fun a b => a.vid = b.vid → a.mdt < b.trip.dep)
  frugal : FrugalNew s.out

/-- additional invariant for tables whose rotations end no earlier than they start -/
structure InvS (s : St) (d : Int) : Prop where
  outSane : ∀ a ∈ s.out, a.trip.dep ≤ a.mdt
  qGe : ∀ r ∈ s.queue, d ≤ r.mdt
  idleOrder : s.idle.Pairwise (RelLe s.out)
  fifo : Fifo s.out

theorem split_snoc {α : Type} (out pre suf : List α) (b0 b : α)
    (h : out ++ [b0] = pre ++ b :: suf) :
    (suf = [] ∧ pre = out ∧ b = b0) ∨ (∃ suf', suf = suf' ++ [b0] ∧ out = pre ++ b :: suf') := by
  rcases List.eq_nil_or_concat suf with rfl | ⟨L, x, rfl⟩
  · left
    have h' : out ++ [b0] = pre ++ [b] := by simpa using h
    have := List.append_inj' h' rfl
    refine ⟨rfl, this.1.symm, ?_⟩
    have := this.2
    simp at this
    exact this.symm
  · right
    have h' : out ++ [b0] = (pre ++ b :: L) ++ [x] := by simpa using h
    have := List.append_inj' h' rfl
    have h2 := this.2
    simp at h2
    subst h2
    exact ⟨L, by simp, this.1⟩

theorem inv_init (ms : List (String × Int)) (counts : List (String × Nat)) (d : Int) :
    Inv ms ⟨[], [], counts, []⟩ d := by
  refine ⟨by simp, by simp, by simp, by simp, by simp, by simp, by simp, by simp, by simp, by simp,
    by simp, by simp, by simp, by simp, ?_⟩
  intro pre b suf h
  simp at h

theorem invS_init (counts : List (String × Nat)) (d : Int) : InvS ⟨[], [], counts, []⟩ d := by
  refine ⟨by simp, by simp, by simp, ?_⟩
  intro pre b suf h
  simp at h


/-- facts about the state between the `while` loop and the insertion -/
structure Mid (s : St) (t : Trip) (q1 : List Rot) (idle1 : List VId) (rel : List Rot) : Prop where
  hq : s.queue = rel ++ q1
  hidle : idle1 = s.idle ++ rel.map (·.vid)
  hrel : ∀ r ∈ rel, r.mdt < t.dep
  hge : ∀ r ∈ q1, t.dep ≤ r.mdt

theorem mid_of_release (ms : List (String × Int)) (s : St) (d : Int) (t : Trip) (hinv : Inv ms s d) :
    ∃ rel, Mid s t (release t.dep s.queue s.idle).1 (release t.dep s.queue s.idle).2 rel := by
  obtain ⟨rel, h1, h2, h3, -⟩ := release_spec t.dep s.queue s.idle
  exact ⟨rel, h1, h2, h3, release_rest_ge t.dep s.queue s.idle hinv.sorted⟩

section
variable {ms : List (String × Int)} {s : St} {d : Int} {t : Trip} {q1 : List Rot}
  {idle1 : List VId} {rel : List Rot}

theorem Mid.rel_sub (hm : Mid s t q1 idle1 rel) : ∀ r ∈ rel, r ∈ s.queue := by
  intro r hr; rw [hm.hq]; exact List.mem_append_left _ hr

theorem Mid.q1_sub (hm : Mid s t q1 idle1 rel) : ∀ r ∈ q1, r ∈ s.queue := by
  intro r hr; rw [hm.hq]; exact List.mem_append_right _ hr

theorem Mid.mem_idle1 (hm : Mid s t q1 idle1 rel) (v : VId) :
    v ∈ idle1 ↔ v ∈ s.idle ∨ ∃ r ∈ rel, r.vid = v := by
  rw [hm.hidle]; simp

/-- every vehicle in the pool after the `while` loop has finished all its rotations before `t.dep` -/
theorem Mid.idle1_done (hm : Mid s t q1 idle1 rel) (hinv : Inv ms s d) (hd : d ≤ t.dep) :
    ∀ a ∈ s.out, a.vid ∈ idle1 → a.mdt < t.dep := by
  intro a ha hv
  rcases (hm.mem_idle1 _).mp hv with hv | ⟨r, hr, hrv⟩
  · have := hinv.idleDone a ha hv; omega
  · have hrq := hm.rel_sub r hr
    rcases hinv.qlast r hrq a ha hrv.symm with rfl | h
    · exact hm.hrel _ hr
    · have := hinv.depLe r (hinv.qsub r hrq); omega

theorem Mid.idle1_nodup (hm : Mid s t q1 idle1 rel) (hinv : Inv ms s d) : idle1.Nodup := by
  rw [hm.hidle]
  refine List.nodup_append.mpr ⟨hinv.idleNodup, ?_, ?_⟩
  · have := hinv.qnodup
    rw [hm.hq, List.map_append] at this
    exact (List.nodup_append.mp this).1
  · intro v hv w hw hvw
    obtain ⟨r, hr, rfl⟩ := List.mem_map.mp hw
    exact hinv.disj r (hm.rel_sub r hr) (hvw ▸ hv)

theorem Mid.q1_not_idle1 (hm : Mid s t q1 idle1 rel) (hinv : Inv ms s d) :
    ∀ r ∈ q1, r.vid ∉ idle1 := by
  intro r hr hv
  rcases (hm.mem_idle1 _).mp hv with hv | ⟨r', hr', hrv⟩
  · exact hinv.disj r (hm.q1_sub r hr) hv
  · have := hinv.qnodup
    rw [hm.hq, List.map_append] at this
    have hd := (List.nodup_append.mp this).2.2
    exact hd r'.vid (List.mem_map_of_mem hr') r.vid (List.mem_map_of_mem hr) hrv

theorem Mid.idle1_sub (hm : Mid s t q1 idle1 rel) (hinv : Inv ms s d) :
    ∀ v ∈ idle1, ∃ a ∈ s.out, a.vid = v := by
  intro v hv
  rcases (hm.mem_idle1 _).mp hv with hv | ⟨r, hr, hrv⟩
  · exact hinv.idleSub v hv
  · exact ⟨r, hinv.qsub r (hm.rel_sub r hr), hrv⟩

theorem Mid.cover (hm : Mid s t q1 idle1 rel) (hinv : Inv ms s d) :
    ∀ a ∈ s.out, a.vid ∈ idle1 ∨ ∃ r ∈ q1, r.vid = a.vid := by
  intro a ha
  rcases hinv.cover a ha with h | ⟨r, hr, hrv⟩
  · exact Or.inl ((hm.mem_idle1 _).mpr (Or.inl h))
  · rw [hm.hq] at hr
    rcases List.mem_append.mp hr with hr | hr
    · exact Or.inl ((hm.mem_idle1 _).mpr (Or.inr ⟨r, hr, hrv⟩))
    · exact Or.inr ⟨r, hr, hrv⟩
end


structure Picked (s : St) (t : Trip) (q1 : List Rot) (idle1 : List VId) (vid : VId)
    (idle2 : List VId) (counts2 : List (String × Nat)) : Prop where
  notIdle2 : vid ∉ idle2
  notQ1 : ∀ r ∈ q1, r.vid ≠ vid
  prevDone : ∀ a ∈ s.out, a.vid = vid → a.mdt < t.dep
  sublist : idle2.Sublist idle1
  nodup : idle2.Nodup
  ty : vid.vtype = t.vtype
  cnt : (∀ a ∈ s.out, ∃ c, counts2.lookup a.vid.vtype = some c ∧ a.vid.n ≤ c) ∧
    ∃ c, counts2.lookup vid.vtype = some c ∧ vid.n ≤ c
  keep : ∀ w ∈ idle1, w ≠ vid → w ∈ idle2
  newFrugal : (∀ a ∈ s.out, a.vid ≠ vid) → ∀ a ∈ s.out, a.trip.vtype = t.vtype →
    ∃ a' ∈ s.out, a'.vid = a.vid ∧ t.dep ≤ a'.mdt
  fifo : idle1.Pairwise (RelLe s.out) → ∀ a₂ ∈ s.out, a₂.vid ≠ vid → a₂.trip.vtype = t.vtype →
    (∀ a' ∈ s.out, a'.vid = a₂.vid → a'.mdt < t.dep) →
    ∀ a₁ ∈ s.out, a₁.vid = vid → ∃ a' ∈ s.out, a'.vid = a₂.vid ∧ a₁.mdt ≤ a'.mdt

theorem picked_of_pick {ms : List (String × Int)} {s : St} {d : Int} {t : Trip} {q1 : List Rot}
    {idle1 : List VId} {rel : List Rot} (hm : Mid s t q1 idle1 rel) (hinv : Inv ms s d)
    (hd : d ≤ t.dep) (vid : VId) (idle2 : List VId) (counts2 : List (String × Nat))
    (hp : pickVehicle t.vtype idle1 s.counts = .ok (vid, idle2, counts2)) :
    Picked s t q1 idle1 vid idle2 counts2 := by
  have hnd := hm.idle1_nodup hinv
  rcases pickVehicle_spec _ _ _ _ _ _ hp with ⟨l₁, l₂, hl, hl₁, hty, rfl, rfl⟩ | ⟨hnone, rfl, n, rfl, hinc⟩
  · -- an idle vehicle is reused
    have hmem : vid ∈ idle1 := by rw [hl]; simp
    obtain ⟨a0, ha0, ha0v⟩ := hm.idle1_sub hinv vid hmem
    refine ⟨?_, ?_, ?_, List.erase_sublist, hnd.sublist List.erase_sublist, hty,
      ⟨hinv.cnt, ?_⟩, ?_, ?_, ?_⟩
    · intro h; exact ((hnd.mem_erase_iff).mp h).1 rfl
    · intro r hr h; exact hm.q1_not_idle1 hinv r hr (h ▸ hmem)
    · intro a ha hv; exact hm.idle1_done hinv hd a ha (hv ▸ hmem)
    · have := hinv.cnt a0 ha0; rw [ha0v] at this; exact this
    · intro w hw hne; exact (List.mem_erase_of_ne hne).mpr hw
    · intro hfresh; exact absurd ha0v (hfresh a0 ha0)
    · intro hpw a₂ ha₂ hne hty₂ hidle a₁ ha₁ hv₁
      -- the other vehicle is in the pool, behind the chosen one
      have hw : a₂.vid ∈ idle1 := by
        rcases hm.cover hinv a₂ ha₂ with h | ⟨r, hr, hrv⟩
        · exact h
        · have h1 := hm.hge r hr
          have h2 := hidle r (hinv.qsub r (hm.q1_sub r hr)) hrv
          omega
      have hw₂ : a₂.vid ∈ l₂ := by
        rw [hl] at hw
        rcases List.mem_append.mp hw with h | h
        · have := hl₁ _ h
          rw [hinv.pure a₂ ha₂, hty₂] at this
          exact absurd rfl this
        · rcases List.mem_cons.mp h with h | h
          · exact absurd h hne
          · exact h
      rw [hl] at hpw
      have := (List.pairwise_append.mp hpw).2.1
      have := (List.pairwise_cons.mp this).1 _ hw₂
      exact this a₁ ha₁ hv₁
  · -- a new vehicle id is created
    obtain ⟨⟨c', hc', hn⟩, hlook, hother⟩ := incrCount_spec _ _ _ _ hinc
    have hfresh : ∀ a ∈ s.out, a.vid ≠ ⟨t.vtype, n⟩ := by
      intro a ha h
      obtain ⟨c, hc, hle⟩ := hinv.cnt a ha
      rw [h] at hc hle
      simp only at hc hle
      rw [hc'] at hc
      injection hc with hc
      omega
    have hnot : (⟨t.vtype, n⟩ : VId) ∉ idle2 := fun h => hnone _ h rfl
    refine ⟨hnot, ?_, ?_, List.Sublist.refl _, hnd, rfl, ⟨?_, ⟨n, hlook, Nat.le_refl _⟩⟩, ?_, ?_, ?_⟩
    · intro r hr; exact hfresh r (hinv.qsub r (hm.q1_sub r hr))
    · intro a ha hv; exact absurd hv (hfresh a ha)
    · intro a ha
      obtain ⟨c, hc, hle⟩ := hinv.cnt a ha
      by_cases hty : a.vid.vtype = t.vtype
      · rw [hty] at hc ⊢
        rw [hc'] at hc
        injection hc with hc
        exact ⟨n, hlook, by omega⟩
      · exact ⟨c, by rw [hother _ hty]; exact hc, hle⟩
    · intro w hw _; exact hw
    · intro _ a ha hty
      rcases hm.cover hinv a ha with h | ⟨r, hr, hrv⟩
      · have := hnone _ h
        rw [hinv.pure a ha] at this
        exact absurd hty this
      · exact ⟨r, hinv.qsub r (hm.q1_sub r hr), hrv, hm.hge r hr⟩
    · intro _ a₂ _ _ _ _ a₁ ha₁ hv₁
      exact absurd hv₁ (hfresh a₁ ha₁)


/-- everything one iteration establishes, in one place -/
theorem step_facts {ms : List (String × Int)} {s s' : St} {d : Int} {it : Trip × Nat}
    (hinv : Inv ms s d) (hd : d ≤ it.1.dep) (h : step ms s it = .ok s') :
    ∃ q1 idle1 rel vid m, Mid s it.1 q1 idle1 rel ∧ Picked s it.1 q1 idle1 vid s'.idle s'.counts ∧
      ms.lookup it.1.vtype = some m ∧
      s'.queue = pyInsert (insertPos (it.1.arr + m) q1) (newRot it vid m) q1 ∧
      s'.out = s.out ++ [newRot it vid m] := by
  obtain ⟨vid, idle, counts, m, hp, hm, hq, hi, hc, ho⟩ := step_ok_inv ms s s' it h
  obtain ⟨rel, hmid⟩ := mid_of_release ms s d it.1 hinv
  subst hi hc
  exact ⟨_, _, rel, vid, m, hmid, picked_of_pick hmid hinv hd vid _ _ hp, hm, hq, ho⟩

theorem step_inv {ms : List (String × Int)} {s s' : St} {d : Int} {it : Trip × Nat}
    (hinv : Inv ms s d) (hd : d ≤ it.1.dep) (h : step ms s it = .ok s') :
    Inv ms s' it.1.dep := by
  obtain ⟨q1, idle1, rel, vid, m, hm, hp, hms, hq, ho⟩ := step_facts hinv hd h
  set b := newRot it vid m with hb
  have hbv : b.vid = vid := rfl
  have hbt : b.trip = it.1 := rfl
  have hbm : b.mdt = it.1.arr + m := rfl
  have hq1s : q1.Pairwise (fun a b => a.mdt ≤ b.mdt) := by
    have := hinv.sorted; rw [hm.hq] at this; exact (List.pairwise_append.mp this).2.1
  have hmemq : ∀ r, r ∈ s'.queue ↔ r = b ∨ r ∈ q1 := by
    intro r; rw [hq]; exact mem_pyInsert _ _ _ _
  have hmemo : ∀ a, a ∈ s'.out ↔ a ∈ s.out ∨ a = b := by
    intro a; rw [ho]; simp
  have hsub1 : ∀ v ∈ s'.idle, v ∈ idle1 := fun v hv => hp.sublist.subset hv
  refine ⟨?_, ?_, ?_, hp.nodup, ?_, ?_, ?_, ?_, ?_, ?_, ?_, ?_, ?_, ?_, ?_⟩
  · rw [hq]; exact pyInsert_sorted b q1 hq1s
  · intro r hr
    rcases (hmemq r).mp hr with rfl | hr
    · exact (hmemo _).mpr (Or.inr rfl)
    · exact (hmemo _).mpr (Or.inl (hinv.qsub r (hm.q1_sub r hr)))
  · rw [hq]
    refine ((pyInsert_perm _ b q1).map (·.vid)).nodup_iff.mpr ?_
    rw [List.map_cons]
    refine List.nodup_cons.mpr ⟨?_, ?_⟩
    · intro hmem
      obtain ⟨r, hr, hrv⟩ := List.mem_map.mp hmem
      exact hp.notQ1 r hr hrv
    · have := hinv.qnodup
      rw [hm.hq, List.map_append] at this
      exact (List.nodup_append.mp this).2.1
  · intro r hr hv
    rcases (hmemq r).mp hr with rfl | hr
    · exact hp.notIdle2 hv
    · exact hm.q1_not_idle1 hinv r hr (hsub1 _ hv)
  · intro a ha
    rcases (hmemo a).mp ha with ha | rfl
    · by_cases hav : a.vid = vid
      · exact Or.inr ⟨b, (hmemq b).mpr (Or.inl rfl), hav.symm⟩
      · rcases hm.cover hinv a ha with h1 | ⟨r, hr, hrv⟩
        · exact Or.inl (hp.keep _ h1 hav)
        · exact Or.inr ⟨r, (hmemq r).mpr (Or.inr hr), hrv⟩
    · exact Or.inr ⟨b, (hmemq b).mpr (Or.inl rfl), rfl⟩
  · intro v hv
    obtain ⟨a, ha, hav⟩ := hm.idle1_sub hinv v (hsub1 v hv)
    exact ⟨a, (hmemo a).mpr (Or.inl ha), hav⟩
  · intro a ha hv
    rcases (hmemo a).mp ha with ha | rfl
    · exact hm.idle1_done hinv hd a ha (hsub1 _ hv)
    · exact absurd hv hp.notIdle2
  · intro r hr a ha hav
    rcases (hmemq r).mp hr with rfl | hr
    · rcases (hmemo a).mp ha with ha | rfl
      · exact Or.inr (hp.prevDone a ha hav)
      · exact Or.inl rfl
    · rcases (hmemo a).mp ha with ha | rfl
      · exact hinv.qlast r (hm.q1_sub r hr) a ha hav
      · exact absurd hav.symm (hp.notQ1 r hr)
  · intro a ha
    rcases (hmemo a).mp ha with ha | rfl
    · have := hinv.depLe a ha; omega
    · exact Int.le_refl _
  · intro a ha
    rcases (hmemo a).mp ha with ha | rfl
    · exact hp.cnt.1 a ha
    · exact hp.cnt.2
  · intro a ha
    rcases (hmemo a).mp ha with ha | rfl
    · exact hinv.pure a ha
    · exact hp.ty
  · intro a ha
    rcases (hmemo a).mp ha with ha | rfl
    · exact hinv.mdtEq a ha
    · rw [hbt, hbm, hms]; congr 1; omega
  · rw [ho]
    refine List.pairwise_append.mpr ⟨hinv.standing, by simp, ?_⟩
    intro a ha b' hb' hv
    rw [List.mem_singleton.mp hb'] at hv ⊢
    exact hp.prevDone a ha hv
  · intro pre b' suf hsplit hnew a ha hty
    rw [ho] at hsplit
    rcases split_snoc _ _ _ _ _ hsplit with ⟨-, rfl, rfl⟩ | ⟨suf', -, hout⟩
    · exact hp.newFrugal hnew a ha hty
    · exact hinv.frugal pre b' suf' hout hnew a ha hty


theorem step_invS {ms : List (String × Int)} {s s' : St} {d : Int} {it : Trip × Nat}
    (hinv : Inv ms s d) (hS : InvS s d) (hd : d ≤ it.1.dep)
    (hsane : ∀ m, ms.lookup it.1.vtype = some m → it.1.dep ≤ it.1.arr + m)
    (h : step ms s it = .ok s') : InvS s' it.1.dep := by
  obtain ⟨q1, idle1, rel, vid, m, hm, hp, hms, hq, ho⟩ := step_facts hinv hd h
  set b := newRot it vid m with hb
  have hbm : b.mdt = it.1.arr + m := rfl
  have hbs : it.1.dep ≤ b.mdt := by rw [hbm]; exact hsane m hms
  have hmemq : ∀ r, r ∈ s'.queue ↔ r = b ∨ r ∈ q1 := by
    intro r; rw [hq]; exact mem_pyInsert _ _ _ _
  have hmemo : ∀ a, a ∈ s'.out ↔ a ∈ s.out ∨ a = b := by
    intro a; rw [ho]; simp
  -- the pool after the `while` loop is ordered by release time
  have hrels : rel.Pairwise (fun a b => a.mdt ≤ b.mdt) := by
    have := hinv.sorted; rw [hm.hq] at this; exact (List.pairwise_append.mp this).1
  have hpool : idle1.Pairwise (RelLe s.out) := by
    rw [hm.hidle]
    refine List.pairwise_append.mpr ⟨hS.idleOrder, ?_, ?_⟩
    · refine List.pairwise_map.mpr (hrels.imp_of_mem ?_)
      intro r1 r2 h1 h2 hle a ha hav
      refine ⟨r2, hinv.qsub r2 (hm.rel_sub r2 h2), rfl, ?_⟩
      rcases hinv.qlast r1 (hm.rel_sub r1 h1) a ha hav with rfl | hlt
      · exact hle
      · have := hS.outSane r1 (hinv.qsub r1 (hm.rel_sub r1 h1)); omega
    · intro v hv w hw a ha hav
      obtain ⟨r, hr, rfl⟩ := List.mem_map.mp hw
      refine ⟨r, hinv.qsub r (hm.rel_sub r hr), rfl, ?_⟩
      have h1 := hinv.idleDone a ha (hav ▸ hv)
      have h2 := hS.qGe r (hm.rel_sub r hr)
      omega
  refine ⟨?_, ?_, ?_, ?_⟩
  · intro a ha
    rcases (hmemo a).mp ha with ha | rfl
    · exact hS.outSane a ha
    · exact hbs
  · intro r hr
    rcases (hmemq r).mp hr with rfl | hr
    · exact hbs
    · exact hm.hge r hr
  · refine ((hpool.sublist hp.sublist).imp_of_mem ?_)
    intro v w hv _ hvw a ha hav
    rcases (hmemo a).mp ha with ha | rfl
    · obtain ⟨b', hb', h1, h2⟩ := hvw a ha hav
      exact ⟨b', (hmemo b').mpr (Or.inl hb'), h1, h2⟩
    · rw [← hav] at hv; exact absurd hv hp.notIdle2
  · intro pre b' suf hsplit a₂ ha₂ hne hty hidle a₁ ha₁ hv₁
    rw [ho] at hsplit
    rcases split_snoc _ _ _ _ _ hsplit with ⟨-, rfl, rfl⟩ | ⟨suf', -, hout⟩
    · exact hp.fifo hpool a₂ ha₂ hne hty hidle a₁ ha₁ hv₁
    · exact hS.fifo pre b' suf' hout a₂ ha₂ hne hty hidle a₁ ha₁ hv₁

/-! ### the whole loop -/

/-- the trips still to be processed depart no earlier than `d`, in non-decreasing order -/
def DepSorted (d : Int) (ts : List (Trip × Nat)) : Prop :=
  (∀ it ∈ ts, d ≤ it.1.dep) ∧ ts.Pairwise (fun a b => a.1.dep ≤ b.1.dep)

theorem run_inv {ms : List (String × Int)} {ts : List (Trip × Nat)} {s s' : St} {d : Int}
    (hinv : Inv ms s d) (hts : DepSorted d ts) (h : run ms s ts = .ok s') :
    ∃ d', Inv ms s' d' := by
  induction ts generalizing s d with
  | nil => simp [run] at h; subst h; exact ⟨d, hinv⟩
  | cons it rest ih =>
    unfold run at h
    cases hs : step ms s it with
    | error e => simp [hs] at h
    | ok s1 =>
      simp only [hs] at h
      have hd := hts.1 it (by simp)
      have hp := List.pairwise_cons.mp hts.2
      exact ih (step_inv hinv hd hs) ⟨fun x hx => hp.1 x hx, hp.2⟩ h

theorem run_invS {ms : List (String × Int)} {ts : List (Trip × Nat)} {s s' : St} {d : Int}
    (hinv : Inv ms s d) (hS : InvS s d) (hts : DepSorted d ts)
    (hsane : ∀ it ∈ ts, ∀ m, ms.lookup it.1.vtype = some m → it.1.dep ≤ it.1.arr + m)
    (h : run ms s ts = .ok s') : ∃ d', InvS s' d' := by
  induction ts generalizing s d with
  | nil => simp [run] at h; subst h; exact ⟨d, hS⟩
  | cons it rest ih =>
    unfold run at h
    cases hs : step ms s it with
    | error e => simp [hs] at h
    | ok s1 =>
      simp only [hs] at h
      have hd := hts.1 it (by simp)
      have hp := List.pairwise_cons.mp hts.2
      exact ih (step_inv hinv hd hs) (step_invS hinv hS hd (hsane it (by simp)) hs)
        ⟨fun x hx => hp.1 x hx, hp.2⟩ (fun x hx => hsane x (by simp [hx])) h

/-- the processed rows are exactly the trips handed to the loop, in order -/
theorem run_out {ms : List (String × Int)} {ts : List (Trip × Nat)} {s s' : St}
    (h : run ms s ts = .ok s') :
    s'.out.map (fun r => (r.trip, r.idx)) = s.out.map (fun r => (r.trip, r.idx)) ++ ts := by
  induction ts generalizing s with
  | nil => simp [run] at h; subst h; simp
  | cons it rest ih =>
    unfold run at h
    cases hs : step ms s it with
    | error e => simp [hs] at h
    | ok s1 =>
      simp only [hs] at h
      obtain ⟨vid, idle, counts, m, -, -, -, -, -, ho⟩ := step_ok_inv ms s s1 it hs
      rw [ih h, ho]
      simp [newRot]

/-- running a prefix: `run` on `pre ++ suf` passes through the state after `pre` -/
theorem run_append {ms : List (String × Int)} {pre suf : List (Trip × Nat)} {s s' : St}
    (h : run ms s (pre ++ suf) = .ok s') : ∃ s1, run ms s pre = .ok s1 ∧ run ms s1 suf = .ok s' := by
  induction pre generalizing s with
  | nil => exact ⟨s, rfl, h⟩
  | cons it rest ih =>
    simp only [List.cons_append] at h
    unfold run at h
    cases hs : step ms s it with
    | error e => simp [hs] at h
    | ok s1 =>
      simp only [hs] at h
      obtain ⟨s2, h1, h2⟩ := ih h
      refine ⟨s2, ?_, h2⟩
      unfold run
      simp only [hs]
      exact h1


/-! ### the sort -/

/-- processing order of table rows: by departure key, ties by row number (stable sort) -/
def BeforeT (a b : Trip × Nat) : Prop :=
  a.1.depKey < b.1.depKey ∨ (a.1.depKey = b.1.depKey ∧ a.2 < b.2)

def keyLe (a b : Trip × Nat) : Bool := decide (a.1.depKey ≤ b.1.depKey)

theorem keyLe_trans (a b c : Trip × Nat) : keyLe a b → keyLe b c → keyLe a c := by
  simp only [keyLe, decide_eq_true_eq]; omega

theorem keyLe_total (a b : Trip × Nat) : (keyLe a b || keyLe b a) = true := by
  simp only [keyLe, Bool.or_eq_true, decide_eq_true_eq]; omega

theorem sortTrips_eq (trips : List Trip) : sortTrips trips = trips.zipIdx.mergeSort keyLe := rfl

theorem sortTrips_perm (trips : List Trip) : (sortTrips trips).Perm trips.zipIdx :=
  List.mergeSort_perm _ _

theorem mem_sortTrips (trips : List Trip) (x : Trip × Nat) :
    x ∈ sortTrips trips ↔ trips[x.2]? = some x.1 := by
  rw [(sortTrips_perm trips).mem_iff, List.mem_zipIdx_iff_getElem?]

theorem sortTrips_idx (trips : List Trip) :
    ((sortTrips trips).map (·.2)).Perm (List.range trips.length) := by
  have := (sortTrips_perm trips).map (·.2)
  refine this.trans ?_
  have h := List.zipIdx_map_snd 0 trips
  rw [List.range_eq_range']
  exact List.Perm.of_eq h

theorem sortTrips_idx_nodup (trips : List Trip) : ((sortTrips trips).map (·.2)).Nodup :=
  (sortTrips_idx trips).nodup_iff.mpr List.nodup_range

theorem sortTrips_pairwise (trips : List Trip) : (sortTrips trips).Pairwise BeforeT := by
  have hM := List.pairwise_mergeSort (le := List.zipIdxLE keyLe)
    (List.zipIdxLE_trans keyLe_trans) (List.zipIdxLE_total keyLe_total) trips.zipIdx.zipIdx
  have hmap : (trips.zipIdx.zipIdx.mergeSort (List.zipIdxLE keyLe)).map (·.1) = sortTrips trips :=
    List.mergeSort_zipIdx
  have h1 : (sortTrips trips).Pairwise (fun a b => a.1.depKey ≤ b.1.depKey ∧
      (b.1.depKey ≤ a.1.depKey → a.2 ≤ b.2)) := by
    rw [← hmap]
    refine List.pairwise_map.mpr (hM.imp_of_mem ?_)
    intro y z hy hz hle
    have hy' := List.mem_zipIdx_iff_getElem?.mp (List.mem_mergeSort.mp hy)
    have hz' := List.mem_zipIdx_iff_getElem?.mp (List.mem_mergeSort.mp hz)
    rw [List.getElem?_zipIdx] at hy' hz'
    have ey : y.1.2 = y.2 := by
      cases hg : trips[y.2]? with
      | none => simp [hg] at hy'
      | some a => simp [hg] at hy'; rw [← hy']
    have ez : z.1.2 = z.2 := by
      cases hg : trips[z.2]? with
      | none => simp [hg] at hz'
      | some a => simp [hg] at hz'; rw [← hz']
    simp only [List.zipIdxLE, keyLe] at hle
    rw [ey, ez]
    by_cases h1 : y.1.1.depKey ≤ z.1.1.depKey
    · by_cases h2 : z.1.1.depKey ≤ y.1.1.depKey
      · simp [h1, h2] at hle; exact ⟨h1, fun _ => hle⟩
      · exact ⟨h1, fun h => absurd h h2⟩
    · simp [h1] at hle
  have h2 : (sortTrips trips).Pairwise (fun a b => a.2 ≠ b.2) :=
    List.pairwise_map.mp (sortTrips_idx_nodup trips)
  refine (h1.and h2).imp ?_
  intro a b h
  unfold BeforeT
  omega


/-! ### `collect` and the returned table -/

theorem collect_spec (out : List Rot) (is : List Nat) (res : List Rot)
    (h : collect out is = .ok res) : List.Forall₂ (fun i r => r ∈ out ∧ r.idx = i) is res := by
  induction is generalizing res with
  | nil => simp [collect] at h; subst h; exact List.Forall₂.nil
  | cons i is ih =>
    unfold collect at h
    cases hf : out.find? (fun r => r.idx == i) with
    | none => simp [hf] at h
    | some r =>
      simp only [hf] at h
      cases hc : collect out is with
      | error e => simp [hc] at h
      | ok rest =>
        simp only [hc] at h
        injection h with h
        subst h
        refine List.Forall₂.cons ⟨List.mem_of_find?_eq_some hf, ?_⟩ (ih rest hc)
        have := List.find?_some hf
        simpa using this

theorem collect_ok (out : List Rot) (is : List Nat) (h : ∀ i ∈ is, ∃ r ∈ out, r.idx = i) :
    ∃ res, collect out is = .ok res := by
  induction is with
  | nil => exact ⟨[], rfl⟩
  | cons i is ih =>
    obtain ⟨rest, hrest⟩ := ih (fun j hj => h j (by simp [hj]))
    obtain ⟨r, hr, hri⟩ := h i (by simp)
    unfold collect
    cases hf : out.find? (fun r => r.idx == i) with
    | none =>
      have := List.find?_eq_none.mp hf r hr
      simp [hri] at this
    | some r' => simp [hrest]

theorem forall₂_mem_left {α β : Type} {R : α → β → Prop} {l₁ : List α} {l₂ : List β}
    (h : List.Forall₂ R l₁ l₂) : ∀ a ∈ l₁, ∃ b ∈ l₂, R a b := by
  induction h with
  | nil => simp
  | cons hab _ ih =>
    intro a ha
    rcases List.mem_cons.mp ha with rfl | ha
    · exact ⟨_, by simp, hab⟩
    · obtain ⟨b, hb, hr⟩ := ih a ha
      exact ⟨b, by simp [hb], hr⟩

theorem forall₂_mem_right {α β : Type} {R : α → β → Prop} {l₁ : List α} {l₂ : List β}
    (h : List.Forall₂ R l₁ l₂) : ∀ b ∈ l₂, ∃ a ∈ l₁, R a b := by
  induction h with
  | nil => simp
  | cons hab _ ih =>
    intro b hb
    rcases List.mem_cons.mp hb with rfl | hb
    · exact ⟨_, by simp, hab⟩
    · obtain ⟨a, ha, hr⟩ := ih b hb
      exact ⟨a, by simp [ha], hr⟩

/-- processing order of the returned rows -/
def Before (a b : Rot) : Prop :=
  a.trip.depKey < b.trip.depKey ∨ (a.trip.depKey = b.trip.depKey ∧ a.idx < b.idx)

/-- what `assign_vehicle_id` returns, in terms of the loop -/
theorem assign_spec (types : List TypeInfo) (trips : List Trip) (res : List Rot)
    (h : assignVehicleId types trips = .ok res) :
    ∃ ms s, minStandingTimes types = .ok ms ∧
      run ms (initSt types) (sortTrips trips) = .ok s ∧
      (∀ a, a ∈ res ↔ a ∈ s.out) ∧ s.out.Pairwise Before ∧
      res.length = trips.length ∧
      (∀ i (hi : i < res.length), res[i].idx = i ∧ trips[i]? = some res[i].trip) := by
  unfold assignVehicleId at h
  cases hs : assignState types trips with
  | error e => simp [hs] at h
  | ok s =>
    simp only [hs] at h
    unfold assignState at hs
    cases hms : minStandingTimes types with
    | error e => simp [hms] at hs
    | ok ms =>
      simp only [hms] at hs
      have hout := run_out hs
      simp only [initSt, List.map_nil, List.nil_append] at hout
      have hc := collect_spec _ _ _ h
      have hlen : res.length = trips.length := by
        have := hc.length_eq; simp at this; exact this.symm
      have hidx : (s.out.map (·.idx)).Nodup := by
        have : s.out.map (·.idx) = (sortTrips trips).map (·.2) := by
          rw [← hout, List.map_map]; rfl
        rw [this]; exact sortTrips_idx_nodup trips
      have hmemS : ∀ a ∈ s.out, trips[a.idx]? = some a.trip := by
        intro a ha
        have : (a.trip, a.idx) ∈ sortTrips trips := by
          rw [← hout]; exact List.mem_map.mpr ⟨a, ha, rfl⟩
        exact (mem_sortTrips trips _).mp this
      refine ⟨ms, s, rfl, hs, ?_, ?_, hlen, ?_⟩
      · intro a
        constructor
        · intro ha
          obtain ⟨i, -, hi⟩ := forall₂_mem_right hc a ha
          exact hi.1
        · intro ha
          have hlt : a.idx < trips.length := by
            have := hmemS a ha
            exact (List.getElem?_eq_some_iff.mp this).1
          have hr : a.idx ∈ List.range trips.length := List.mem_range.mpr hlt
          obtain ⟨r, hr1, hr2⟩ := forall₂_mem_left hc _ hr
          have : r = a := List.inj_on_of_nodup_map hidx hr2.1 ha hr2.2
          exact this ▸ hr1
      · have hp := sortTrips_pairwise trips
        rw [← hout] at hp
        exact (List.pairwise_map.mp hp).imp (fun h => h)
      · intro i hi
        have := List.forall₂_iff_get.mp hc
        have hi' : i < (List.range trips.length).length := by simp; omega
        have h2 := this.2 i hi' hi
        simp at h2
        refine ⟨h2.2, ?_⟩
        have := hmemS _ h2.1
        rw [h2.2] at this
        exact this


/-! ### exceptions: which tables are accepted -/

theorem lookup_some_iff_mem_keys {β : Type} (l : List (String × β)) (k : String) :
    (∃ v, l.lookup k = some v) ↔ k ∈ l.map Prod.fst := by
  induction l with
  | nil => simp [List.lookup]
  | cons kv l ih =>
    obtain ⟨k', v'⟩ := kv
    by_cases h : k = k'
    · subst h; simp [List.lookup]
    · have hb : (k == k') = false := by simp [h]
      simp [List.lookup, hb, ih, h]

/-- every type with a standing time also has a counter -/
def KeysOk (ms : List (String × Int)) (counts : List (String × Nat)) : Prop :=
  ∀ ty, (∃ m, ms.lookup ty = some m) → ∃ c, counts.lookup ty = some c

theorem pickVehicle_counts (ty : String) (idle : List VId) (counts : List (String × Nat))
    (vid : VId) (idle' : List VId) (counts' : List (String × Nat))
    (h : pickVehicle ty idle counts = .ok (vid, idle', counts')) :
    ∀ k, (∃ c, counts.lookup k = some c) → ∃ c, counts'.lookup k = some c := by
  rcases pickVehicle_spec _ _ _ _ _ _ h with ⟨_, _, _, _, _, _, rfl⟩ | ⟨_, _, n, _, hinc⟩
  · exact fun k hk => hk
  · obtain ⟨-, h2, h3⟩ := incrCount_spec _ _ _ _ hinc
    intro k hk
    by_cases hkt : k = ty
    · subst hkt; exact ⟨n, h2⟩
    · rw [h3 k hkt]; exact hk

theorem step_ok_of_known (ms : List (String × Int)) (s : St) (it : Trip × Nat)
    (hk : KeysOk ms s.counts) (hty : ∃ m, ms.lookup it.1.vtype = some m) :
    ∃ s', step ms s it = .ok s' ∧ KeysOk ms s'.counts := by
  obtain ⟨m, hm⟩ := hty
  have hpick : ∃ p, pickVehicle it.1.vtype (release it.1.dep s.queue s.idle).2 s.counts = .ok p := by
    unfold pickVehicle
    cases hf : (release it.1.dep s.queue s.idle).2.find? (fun v => v.vtype == it.1.vtype) with
    | some v => exact ⟨_, rfl⟩
    | none =>
      obtain ⟨p, hp⟩ := (incrCount_ok_iff it.1.vtype s.counts).mpr (hk _ ⟨m, hm⟩)
      obtain ⟨n, c'⟩ := p
      simp only [hp]
      exact ⟨_, rfl⟩
  obtain ⟨⟨vid, idle, counts⟩, hp⟩ := hpick
  refine ⟨_, by unfold step; simp only [hp, hm]; rfl, ?_⟩
  intro ty hty
  exact pickVehicle_counts _ _ _ _ _ _ hp ty (hk ty hty)

theorem step_error (ms : List (String × Int)) (s : St) (it : Trip × Nat) (e : PyErr)
    (h : step ms s it = .error e) : e = .keyError := by
  unfold step at h
  simp only at h
  cases hp : pickVehicle it.1.vtype (release it.1.dep s.queue s.idle).2 s.counts with
  | error e' =>
    simp only [hp] at h
    injection h with h
    subst h
    unfold pickVehicle at hp
    cases hf : (release it.1.dep s.queue s.idle).2.find? (fun v => v.vtype == it.1.vtype) with
    | some v => simp [hf] at hp
    | none =>
      simp only [hf] at hp
      cases hi : incrCount it.1.vtype s.counts with
      | ok p => simp [hi] at hp
      | error e'' =>
        simp only [hi] at hp
        injection hp with hp
        subst hp
        -- incrCount only raises KeyError
        clear hf
        generalize s.counts = counts at hi
        induction counts with
        | nil => simp [incrCount] at hi; exact hi.symm
        | cons kc rest ih =>
          unfold incrCount at hi
          by_cases hk : (kc.1 == it.1.vtype) = true
          · simp [hk] at hi
          · simp only [hk] at hi
            cases hr : incrCount it.1.vtype rest with
            | ok p => simp [hr] at hi
            | error e3 =>
              simp only [hr] at hi
              injection hi with hi
              subst hi
              exact ih hr
  | ok p =>
    obtain ⟨vid, idle, counts⟩ := p
    simp only [hp] at h
    cases hm : ms.lookup it.1.vtype with
    | none => simp only [hm] at h; injection h with h; exact h.symm
    | some m => simp [hm] at h

theorem run_ok_of_known (ms : List (String × Int)) (ts : List (Trip × Nat)) (s : St)
    (hk : KeysOk ms s.counts) (hty : ∀ it ∈ ts, ∃ m, ms.lookup it.1.vtype = some m) :
    ∃ s', run ms s ts = .ok s' := by
  induction ts generalizing s with
  | nil => exact ⟨s, rfl⟩
  | cons it rest ih =>
    obtain ⟨s1, h1, hk1⟩ := step_ok_of_known ms s it hk (hty it (by simp))
    obtain ⟨s2, h2⟩ := ih s1 hk1 (fun x hx => hty x (by simp [hx]))
    exact ⟨s2, by unfold run; simp only [h1]; exact h2⟩

theorem run_error (ms : List (String × Int)) (ts : List (Trip × Nat)) (s : St) (e : PyErr)
    (h : run ms s ts = .error e) : e = .keyError := by
  induction ts generalizing s with
  | nil => simp [run] at h
  | cons it rest ih =>
    unfold run at h
    cases hs : step ms s it with
    | error e' => simp only [hs] at h; injection h with h; subst h; exact step_error _ _ _ _ hs
    | ok s1 => simp only [hs] at h; exact ih s1 h

theorem run_ok_known (ms : List (String × Int)) (ts : List (Trip × Nat)) (s s' : St)
    (h : run ms s ts = .ok s') : ∀ it ∈ ts, ∃ m, ms.lookup it.1.vtype = some m := by
  induction ts generalizing s with
  | nil => simp
  | cons it rest ih =>
    unfold run at h
    cases hs : step ms s it with
    | error e' => simp [hs] at h
    | ok s1 =>
      simp only [hs] at h
      obtain ⟨_, _, _, m, _, hm, _⟩ := step_ok_inv ms s s1 it hs
      intro x hx
      rcases List.mem_cons.mp hx with rfl | hx
      · exact ⟨m, hm⟩
      · exact ih s1 h x hx

/-! ### `min_standing_times` -/

/-- what an accepted `vehicle_types` entry contributes -/
def StandingOf (t : TypeInfo) (kv : String × Int) : Prop :=
  kv.1 = t.name ∧ ∃ p, pyMaxList t.powers = .ok p ∧ isZero p = false ∧
    kv.2 = hoursToMicros (t.capacity / p)

theorem mapPy_standing (types : List TypeInfo) (cs : List (TypeInfo × Rat)) (ms : List (String × Int))
    (h1 : mapPy csPowerOf types = .ok cs) (h2 : mapPy standingOf cs = .ok ms) :
    List.Forall₂ StandingOf types ms := by
  induction types generalizing cs ms with
  | nil =>
    simp only [mapPy] at h1
    injection h1 with h1
    subst h1
    simp only [mapPy] at h2
    injection h2 with h2
    subst h2
    exact List.Forall₂.nil
  | cons t ts ih =>
    simp only [mapPy, csPowerOf] at h1
    cases hp : pyMaxList t.powers with
    | error e => simp [hp] at h1
    | ok p =>
      simp only [hp] at h1
      cases hts : mapPy csPowerOf ts with
      | error e => simp [hts] at h1
      | ok cs' =>
        simp only [hts] at h1
        injection h1 with h1
        subst h1
        simp only [mapPy, standingOf, pydiv] at h2
        cases hz : isZero p with
        | true => simp [hz] at h2
        | false =>
          simp only [hz] at h2
          cases hms : mapPy standingOf cs' with
          | error e => simp [hms] at h2
          | ok ms' =>
            simp [hms] at h2
            subst h2
            exact List.Forall₂.cons ⟨rfl, p, hp, hz, rfl⟩ (ih cs' ms' hts hms)

theorem minStandingTimes_spec (types : List TypeInfo) (ms : List (String × Int))
    (h : minStandingTimes types = .ok ms) : List.Forall₂ StandingOf types ms := by
  unfold minStandingTimes at h
  cases hcs : mapPy csPowerOf types with
  | error e => simp [hcs] at h
  | ok cs =>
    simp only [hcs] at h
    exact mapPy_standing types cs ms hcs h

theorem minStandingTimes_keys (types : List TypeInfo) (ms : List (String × Int))
    (h : minStandingTimes types = .ok ms) : ms.map Prod.fst = types.map (·.name) := by
  have := minStandingTimes_spec types ms h
  clear h
  induction this with
  | nil => rfl
  | cons hab _ ih => simp [hab.1, ih]

theorem keysOk_init (types : List TypeInfo) (ms : List (String × Int))
    (h : minStandingTimes types = .ok ms) : KeysOk ms (initSt types).counts := by
  intro ty hty
  rw [lookup_some_iff_mem_keys, minStandingTimes_keys types ms h] at hty
  rw [lookup_some_iff_mem_keys]
  simp only [initSt, List.map_map]
  exact hty


/-! ### the queue stays sorted (no hypothesis on the table) -/

theorem step_sorted {ms : List (String × Int)} {s s' : St} {it : Trip × Nat}
    (hs : s.queue.Pairwise (fun a b => a.mdt ≤ b.mdt)) (h : step ms s it = .ok s') :
    s'.queue.Pairwise (fun a b => a.mdt ≤ b.mdt) := by
  obtain ⟨vid, idle, counts, m, -, -, hq, -, -, -⟩ := step_ok_inv ms s s' it h
  rw [hq]
  refine pyInsert_sorted (newRot it vid m) _ ?_
  obtain ⟨rel, h1, -, -, -⟩ := release_spec it.1.dep s.queue s.idle
  rw [h1] at hs
  exact (List.pairwise_append.mp hs).2.1

theorem run_sorted {ms : List (String × Int)} {ts : List (Trip × Nat)} {s s' : St}
    (hs : s.queue.Pairwise (fun a b => a.mdt ≤ b.mdt)) (h : run ms s ts = .ok s') :
    s'.queue.Pairwise (fun a b => a.mdt ≤ b.mdt) := by
  induction ts generalizing s with
  | nil => simp [run] at h; subst h; exact hs
  | cons it rest ih =>
    unfold run at h
    cases hst : step ms s it with
    | error e => simp [hst] at h
    | ok s1 => simp only [hst] at h; exact ih (step_sorted hs hst) h

/-! ### from the table to the invariant -/

/-- the departure sort key (string order) is consistent with the parsed departure time -/
def KeyMono (trips : List Trip) : Prop :=
  ∀ a ∈ trips, ∀ b ∈ trips, a.depKey ≤ b.depKey → a.dep ≤ b.dep

theorem sortTrips_dep_sorted (trips : List Trip) (hkey : KeyMono trips) :
    (sortTrips trips).Pairwise (fun a b => a.1.dep ≤ b.1.dep) := by
  refine (sortTrips_pairwise trips).imp_of_mem ?_
  intro a b ha hb hab
  have ha' := List.mem_of_getElem? ((mem_sortTrips trips a).mp ha)
  have hb' := List.mem_of_getElem? ((mem_sortTrips trips b).mp hb)
  refine hkey _ ha' _ hb' ?_
  unfold BeforeT at hab
  omega

theorem run_inv_init {ms : List (String × Int)} {ts : List (Trip × Nat)} {counts : List (String × Nat)}
    {s' : St} (hts : ts.Pairwise (fun a b => a.1.dep ≤ b.1.dep))
    (h : run ms ⟨[], [], counts, []⟩ ts = .ok s') : ∃ d', Inv ms s' d' := by
  cases ts with
  | nil => simp [run] at h; subst h; exact ⟨0, inv_init ms counts 0⟩
  | cons it rest =>
    refine run_inv (inv_init ms counts it.1.dep) ⟨?_, hts⟩ h
    intro x hx
    rcases List.mem_cons.mp hx with rfl | hx
    · exact Int.le_refl _
    · exact (List.pairwise_cons.mp hts).1 x hx

theorem run_invS_init {ms : List (String × Int)} {ts : List (Trip × Nat)} {counts : List (String × Nat)}
    {s' : St} (hts : ts.Pairwise (fun a b => a.1.dep ≤ b.1.dep))
    (hsane : ∀ it ∈ ts, ∀ m, ms.lookup it.1.vtype = some m → it.1.dep ≤ it.1.arr + m)
    (h : run ms ⟨[], [], counts, []⟩ ts = .ok s') : ∃ d', InvS s' d' := by
  cases ts with
  | nil => simp [run] at h; subst h; exact ⟨0, invS_init counts 0⟩
  | cons it rest =>
    refine run_invS (inv_init ms counts it.1.dep) (invS_init counts it.1.dep) ⟨?_, hts⟩ hsane h
    intro x hx
    rcases List.mem_cons.mp hx with rfl | hx
    · exact Int.le_refl _
    · exact (List.pairwise_cons.mp hts).1 x hx

/-- splitting the processed rows at a given row: everything processed before it is in front -/
theorem before_split {out : List Rot} (hp : out.Pairwise Before) {b : Rot} (hb : b ∈ out) :
    ∃ pre suf, out = pre ++ b :: suf ∧ (∀ a ∈ pre, Before a b ∧ a ∈ out) ∧
      ∀ a ∈ out, Before a b → a ∈ pre := by
  obtain ⟨pre, suf, h⟩ := List.append_of_mem hb
  refine ⟨pre, suf, h, ?_, ?_⟩
  · intro a ha
    rw [h] at hp ⊢
    exact ⟨(List.pairwise_append.mp hp).2.2 a ha b (by simp), by simp [ha]⟩
  · intro a ha hab
    rw [h] at ha hp
    rcases List.mem_append.mp ha with ha | ha
    · exact ha
    · exfalso
      rcases List.mem_cons.mp ha with rfl | ha
      · unfold Before at hab; omega
      · have := (List.pairwise_cons.mp (List.pairwise_append.mp hp).2.1).1 a ha
        unfold Before at hab this; omega

/-! ### standing times are non-negative for sensible vehicle types -/

theorem roundHalfEven_nonneg (q : Rat) (hq : 0 ≤ q) : 0 ≤ roundHalfEven q := by
  unfold roundHalfEven
  have hn : 0 ≤ q.num := Rat.num_nonneg.mpr hq
  have hd : (0 : Int) < q.den := by exact_mod_cast q.den_pos
  have hfl : 0 ≤ q.num / (q.den : Int) := Int.ediv_nonneg hn (le_of_lt hd)
  simp only
  split
  · exact hfl
  · split
    · omega
    · split <;> omega

theorem foldl_pymax_ge (xs : List Rat) (x : Rat) (hx : 0 ≤ x) :
    0 ≤ xs.foldl (fun m y => pymax m y) x := by
  induction xs generalizing x with
  | nil => exact hx
  | cons y ys ih =>
    simp only [List.foldl_cons]
    apply ih
    unfold pymax
    split
    · rename_i h; exact le_of_lt (lt_of_le_of_lt hx h)
    · exact hx

theorem standingOf_nonneg (t : TypeInfo) (kv : String × Int) (h : StandingOf t kv)
    (hc : 0 ≤ t.capacity) (hp : ∀ p ∈ t.powers, 0 ≤ p) : 0 ≤ kv.2 := by
  obtain ⟨-, p, hmax, -, hkv⟩ := h
  rw [hkv]
  unfold hoursToMicros
  apply roundHalfEven_nonneg
  have hp0 : 0 ≤ p := by
    unfold pyMaxList at hmax
    cases hpow : t.powers with
    | nil => simp [hpow] at hmax
    | cons x xs =>
      simp only [hpow] at hmax
      injection hmax with hmax
      rw [← hmax]
      exact foldl_pymax_ge xs x (hp x (by simp [hpow]))
  exact mul_nonneg (div_nonneg hc hp0) (by norm_num)

theorem standing_nonneg (types : List TypeInfo) (ms : List (String × Int))
    (h : minStandingTimes types = .ok ms)
    (hc : ∀ t ∈ types, 0 ≤ t.capacity ∧ ∀ p ∈ t.powers, 0 ≤ p) :
    ∀ k m, ms.lookup k = some m → 0 ≤ m := by
  have hf := minStandingTimes_spec types ms h
  clear h
  induction hf with
  | nil => simp [List.lookup]
  | @cons t kv ts ms' hab _ ih =>
    intro k m hk
    obtain ⟨k', m'⟩ := kv
    simp only [List.lookup] at hk
    split at hk
    · injection hk with hk
      subst hk
      exact standingOf_nonneg t _ hab (hc t (by simp)).1 (hc t (by simp)).2
    · exact ih (fun t ht => hc t (by simp [ht])) k m hk


theorem run_mdtEq {ms : List (String × Int)} {ts : List (Trip × Nat)} {s s' : St}
    (h0 : ∀ a ∈ s.out, ms.lookup a.trip.vtype = some (a.mdt - a.trip.arr))
    (h : run ms s ts = .ok s') : ∀ a ∈ s'.out, ms.lookup a.trip.vtype = some (a.mdt - a.trip.arr) := by
  induction ts generalizing s with
  | nil => simp [run] at h; subst h; exact h0
  | cons it rest ih =>
    unfold run at h
    cases hst : step ms s it with
    | error e => simp [hst] at h
    | ok s1 =>
      simp only [hst] at h
      refine ih ?_ h
      obtain ⟨vid, idle, counts, m, -, hm, -, -, -, ho⟩ := step_ok_inv ms s s1 it hst
      intro a ha
      rw [ho] at ha
      rcases List.mem_append.mp ha with ha | ha
      · exact h0 a ha
      · rw [List.mem_singleton.mp ha]
        show ms.lookup it.1.vtype = some (it.1.arr + m - it.1.arr)
        rw [hm]; congr 1; omega

theorem collect_run_ok (types : List TypeInfo) (trips : List Trip) (ms : List (String × Int)) (s : St)
    (hs : run ms (initSt types) (sortTrips trips) = .ok s) :
    ∃ res, collect s.out (List.range trips.length) = .ok res := by
  have hout := run_out hs
  simp only [initSt, List.map_nil, List.nil_append] at hout
  refine collect_ok _ _ ?_
  intro i hi
  have hi' : i < trips.length := List.mem_range.mp hi
  have : (trips[i], i) ∈ sortTrips trips := by
    rw [mem_sortTrips]; simp [hi']
  rw [← hout] at this
  obtain ⟨r, hr, hri⟩ := List.mem_map.mp this
  exact ⟨r, hr, (Prod.mk.inj hri).2⟩

/-! ### acceptance of `vehicle_types` -/

theorem mapPy_error {α β : Type} (f : α → Py β) (l : List α) (e : PyErr)
    (h : mapPy f l = .error e) : ∃ a ∈ l, f a = .error e := by
  induction l with
  | nil => simp [mapPy] at h
  | cons a l ih =>
    simp only [mapPy] at h
    cases hfa : f a with
    | error e' => simp only [hfa] at h; injection h with h; subst h; exact ⟨a, by simp, hfa⟩
    | ok b =>
      simp only [hfa] at h
      cases hl : mapPy f l with
      | error e' =>
        simp only [hl] at h; injection h with h; subst h
        obtain ⟨x, hx, hfx⟩ := ih hl
        exact ⟨x, by simp [hx], hfx⟩
      | ok bs => simp [hl] at h

theorem mapPy_ok {α β : Type} (f : α → Py β) (l : List α) (h : ∀ a ∈ l, ∃ b, f a = .ok b) :
    ∃ bs, mapPy f l = .ok bs ∧ ∀ b ∈ bs, ∃ a ∈ l, f a = .ok b := by
  induction l with
  | nil => exact ⟨[], rfl, by simp⟩
  | cons a l ih =>
    obtain ⟨b, hb⟩ := h a (by simp)
    obtain ⟨bs, hbs, hmem⟩ := ih (fun x hx => h x (by simp [hx]))
    refine ⟨b :: bs, by simp only [mapPy, hb, hbs], ?_⟩
    intro b' hb'
    rcases List.mem_cons.mp hb' with rfl | hb'
    · exact ⟨a, by simp, hb⟩
    · obtain ⟨x, hx, hfx⟩ := hmem b' hb'
      exact ⟨x, by simp [hx], hfx⟩

theorem minStandingTimes_ok (types : List TypeInfo)
    (h : ∀ t ∈ types, ∃ p, pyMaxList t.powers = .ok p ∧ isZero p = false) :
    ∃ ms, minStandingTimes types = .ok ms := by
  obtain ⟨cs, hcs, hmem⟩ := mapPy_ok csPowerOf types (by
    intro t ht
    obtain ⟨p, hp, -⟩ := h t ht
    exact ⟨(t, p), by simp only [csPowerOf, hp]⟩)
  obtain ⟨ms, hms, -⟩ := mapPy_ok standingOf cs (by
    intro tp htp
    obtain ⟨t, ht, hft⟩ := hmem tp htp
    obtain ⟨p, hp, hz⟩ := h t ht
    simp only [csPowerOf, hp] at hft
    injection hft with hft
    subst hft
    exact ⟨_, by simp only [standingOf, pydiv, hz]; rfl⟩)
  exact ⟨ms, by unfold minStandingTimes; simp only [hcs]; exact hms⟩

theorem minStandingTimes_error (types : List TypeInfo) (e : PyErr)
    (h : minStandingTimes types = .error e) : e = .valueError ∨ e = .zeroDivision := by
  unfold minStandingTimes at h
  cases hcs : mapPy csPowerOf types with
  | error e' =>
    simp only [hcs] at h
    injection h with h
    subst h
    obtain ⟨t, -, ht⟩ := mapPy_error _ _ _ hcs
    left
    unfold csPowerOf pyMaxList at ht
    cases hp : t.powers with
    | nil => simp only [hp] at ht; injection ht with ht; exact ht.symm
    | cons x xs => simp [hp] at ht
  | ok cs =>
    simp only [hcs] at h
    obtain ⟨tp, -, htp⟩ := mapPy_error _ _ _ h
    right
    unfold standingOf pydiv at htp
    cases hz : isZero tp.2 with
    | true => simp only [hz] at htp; injection htp with htp; exact htp.symm
    | false => simp [hz] at htp

/-! ### the top-level function -/

theorem assign_error_of_unknown (types : List TypeInfo) (trips : List Trip) (ms : List (String × Int))
    (hms : minStandingTimes types = .ok ms) (hun : ∃ t ∈ trips, ms.lookup t.vtype = none) :
    assignVehicleId types trips = .error .keyError := by
  obtain ⟨t, ht, hnone⟩ := hun
  unfold assignVehicleId assignState
  simp only [hms]
  cases hs : run ms (initSt types) (sortTrips trips) with
  | error e => rw [run_error _ _ _ _ hs]
  | ok s =>
    exfalso
    obtain ⟨i, hi, hti⟩ := List.getElem_of_mem ht
    have : (t, i) ∈ sortTrips trips := by rw [mem_sortTrips]; simp [hi, hti]
    obtain ⟨m, hm⟩ := run_ok_known _ _ _ _ hs _ this
    simp only at hm
    rw [hnone] at hm
    cases hm

theorem assign_error_inv (types : List TypeInfo) (trips : List Trip) (ms : List (String × Int))
    (e : PyErr) (hms : minStandingTimes types = .ok ms) (he : assignVehicleId types trips = .error e) :
    e = .keyError ∧ ∃ t ∈ trips, ms.lookup t.vtype = none := by
  unfold assignVehicleId assignState at he
  simp only [hms] at he
  cases hs : run ms (initSt types) (sortTrips trips) with
  | ok s =>
    simp only [hs] at he
    obtain ⟨res, hres⟩ := collect_run_ok types trips ms s hs
    rw [hres] at he
    cases he
  | error e' =>
    simp only [hs] at he
    injection he with he
    subst he
    refine ⟨run_error _ _ _ _ hs, ?_⟩
    by_contra hno
    have hall : ∀ it ∈ sortTrips trips, ∃ m, ms.lookup it.1.vtype = some m := by
      intro it hit
      have hmem := List.mem_of_getElem? ((mem_sortTrips trips it).mp hit)
      cases hl : ms.lookup it.1.vtype with
      | none => exact absurd ⟨it.1, hmem, hl⟩ hno
      | some m => exact ⟨m, rfl⟩
    obtain ⟨s, hs'⟩ := run_ok_of_known ms _ (initSt types) (keysOk_init types ms hms) hall
    rw [hs] at hs'
    cases hs'

theorem pairwise_mem_cases {α : Type} {R : α → α → Prop} {l : List α} (h : l.Pairwise R)
    {a b : α} (ha : a ∈ l) (hb : b ∈ l) : a = b ∨ R a b ∨ R b a := by
  induction l with
  | nil => simp at ha
  | cons x l ih =>
    have hp := List.pairwise_cons.mp h
    rcases List.mem_cons.mp ha with hax | hal
    · rcases List.mem_cons.mp hb with hbx | hbl
      · exact Or.inl (hax.trans hbx.symm)
      · exact Or.inr (Or.inl (hax ▸ hp.1 b hbl))
    · rcases List.mem_cons.mp hb with hbx | hbl
      · exact Or.inr (Or.inr (hbx ▸ hp.1 a hal))
      · exact ih hp.2 hal hbl

/-- everything the property theorems need about an accepted call -/
theorem assign_inv (types : List TypeInfo) (trips : List Trip) (res : List Rot)
    (hkey : KeyMono trips) (h : assignVehicleId types trips = .ok res) :
    ∃ ms s d, minStandingTimes types = .ok ms ∧
      run ms (initSt types) (sortTrips trips) = .ok s ∧
      (∀ a, a ∈ res ↔ a ∈ s.out) ∧ s.out.Pairwise Before ∧
      s.queue.Pairwise (fun a b => a.mdt ≤ b.mdt) ∧ Inv ms s d ∧
      ((∀ r ∈ s.out, r.trip.dep ≤ r.mdt) → ∃ d', InvS s d') := by
  obtain ⟨ms, s, hms, hs, hmem, hbefore, -, -⟩ := assign_spec types trips res h
  have hdep := sortTrips_dep_sorted trips hkey
  obtain ⟨d, hinv⟩ := run_inv_init (counts := (initSt types).counts) hdep hs
  refine ⟨ms, s, d, hms, hs, hmem, hbefore, hinv.sorted, hinv, ?_⟩
  intro hsane
  refine run_invS_init (counts := (initSt types).counts) hdep ?_ hs
  intro it hit m hm
  have hout := run_out hs
  simp only [initSt, List.map_nil, List.nil_append] at hout
  rw [← hout] at hit
  obtain ⟨r, hr, hri⟩ := List.mem_map.mp hit
  have h1 := hinv.mdtEq r hr
  have h2 := hsane r hr
  rw [← hri] at hm ⊢
  simp only at hm ⊢
  rw [h1] at hm
  injection hm with hm
  omega


/-! ### a concrete table (used by the non-vacuity examples of Properties/C20.lean) -/

/-- minutes → µs -/
def exMin (m : Int) : Int := m * 60000000

/-- two types whose names contain each other: 30 min and 0 min standing time -/
def exTypes : List TypeInfo := [⟨"bus", 50, [100, 100]⟩, ⟨"bus_long", 0, [22]⟩]

/-- unsorted table with a tie in departure (rows 2 and 4) -/
def exTrips : List Trip :=
  [⟨"bus", 2, exMin 120, exMin 150⟩, ⟨"bus_long", 0, exMin 0, exMin 60⟩, ⟨"bus", 1, exMin 60, exMin 80⟩,
   ⟨"bus", 3, exMin 200, exMin 210⟩, ⟨"bus", 1, exMin 60, exMin 100⟩]

def exRes : List Rot :=
  [⟨0, ⟨"bus", 2, exMin 120, exMin 150⟩, ⟨"bus", 1⟩, exMin 180⟩,
   ⟨1, ⟨"bus_long", 0, exMin 0, exMin 60⟩, ⟨"bus_long", 1⟩, exMin 60⟩,
   ⟨2, ⟨"bus", 1, exMin 60, exMin 80⟩, ⟨"bus", 1⟩, exMin 110⟩,
   ⟨3, ⟨"bus", 3, exMin 200, exMin 210⟩, ⟨"bus", 2⟩, exMin 240⟩,
   ⟨4, ⟨"bus", 1, exMin 60, exMin 100⟩, ⟨"bus", 2⟩, exMin 130⟩]

theorem exTypes_ms : minStandingTimes exTypes = .ok [("bus", 1800000000), ("bus_long", 0)] := by
  have h1 : (50 : Rat) / 100 * 3600000000 = 1800000000 := by norm_num
  have h4 : ¬ ((100 : Rat) < 0) := by norm_num
  have h5 : ((0 : Rat) < 100) := by norm_num
  have h6 : ((0 : Rat) < 22) := by norm_num
  simp [minStandingTimes, exTypes, mapPy, csPowerOf, standingOf, pyMaxList, pymax, pydiv, isZero,
    hoursToMicros, h1, h4, h5, h6]
  decide

theorem exTrips_sorted : sortTrips exTrips =
    [(⟨"bus_long", 0, exMin 0, exMin 60⟩, 1), (⟨"bus", 1, exMin 60, exMin 80⟩, 2),
     (⟨"bus", 1, exMin 60, exMin 100⟩, 4), (⟨"bus", 2, exMin 120, exMin 150⟩, 0),
     (⟨"bus", 3, exMin 200, exMin 210⟩, 3)] := by
  simp [sortTrips, exTrips, List.mergeSort, List.MergeSort.Internal.splitInTwo, List.zipIdx]

theorem ex_assign : assignVehicleId exTypes exTrips = .ok exRes := by
  unfold assignVehicleId assignState
  simp only [exTypes_ms, exTrips_sorted]
  decide


end SpiceEv.GenCsv
