#!/bin/bash
# tools/integrate2.sh <builder dir name under /tmp/w2>: copy a strategy builder's NEW files into /verif, list modified shared files
set -e
n=$1; src=/tmp/w2/$n/verif; base=848a661
cd $src
git add -A >/dev/null 2>&1 || true
echo "== added files (copied):"
git diff --name-status $base -- . | grep -v "^M" | grep -v "evidence/" | grep -v "^D" | while read st f; do
  mkdir -p /verif/$(dirname $f); cp $src/$f /verif/$f; echo "  $f"; done
# untracked
git ls-files --others --exclude-standard | grep -v "evidence/\|replays/\|__pycache__" | while read f; do
  mkdir -p /verif/$(dirname $f); cp $src/$f /verif/$f; echo "  (untracked) $f"; done
echo "== modified shared files (merge by hand):"
git diff --name-status $base -- . | grep "^M" | grep -v "evidence/" || true
