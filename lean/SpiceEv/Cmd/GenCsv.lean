/- driver command for Model/GenCsv.lean -/
import SpiceEv.Wire
import SpiceEv.Model.GenCsv
namespace SpiceEv.Cmd.GenCsv
open SpiceEv SpiceEv.GenCsv

def pType : P TypeInfo := do
  let name ← P.tok
  let cap ← P.num Rat
  let pw ← P.list (P.num Rat)
  pure ⟨name, cap, pw⟩

def pTrip : P Trip := do
  let ty ← P.tok
  let k ← P.int
  let d ← P.int
  let a ← P.int
  pure ⟨ty, k, d, a⟩

def rRot (r : Rot) : String := r.vid.render ++ " " ++ toString r.mdt

/-- `gencsv <nTypes> (<name> <capacity> <k> <power>…)… <nTrips> (<type> <depKey> <dep µs> <arr µs>)…`
    → `<n> (<vehicle_id> <min_departure_time µs>)…` in table order, or `!<Exception>` -/
def cmdAssign : P String := do
  let types ← P.list pType
  let trips ← P.list pTrip
  pure (renderPy (renderList rRot) (assignVehicleId types trips))

/-- `gencsv_ms <nTypes> types…` → the `min_standing_times` dict in µs -/
def cmdMs : P String := do
  let types ← P.list pType
  pure (renderPy (renderList (fun (kv : String × Int) => kv.1 ++ " " ++ toString kv.2))
    (minStandingTimes types))

def handlers : List (String × Handler) :=
  [("gencsv", runP cmdAssign), ("gencsv_ms", runP cmdMs)]

end SpiceEv.Cmd.GenCsv
